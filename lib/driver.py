#!/usr/bin/env python3
"""Driver of the Canto verification checks.

  check setup                     build everything from files on disk (offline)
  check <Cxx> quick|thorough      decide one property against /repo's current working tree
  check replay <file>             re-execute a replay file
  check all quick|thorough        run every claimed property (convenience)

Exit status of a property check: 0 = the property held on everything explored,
1 = a line `VIOLATION property=<id> replay=<path>` was printed.
"""
import fcntl, glob, hashlib, json, os, re, shutil, subprocess, sys, time
from concurrent.futures import ThreadPoolExecutor

ROOT = os.path.dirname(os.path.dirname(os.path.abspath(__file__)))
sys.path.insert(0, os.path.join(ROOT, "lib"))
import gomod  # noqa: E402
from props import PROPS  # noqa: E402

REPO = os.environ.get("VERIF_REPO", "/repo")
COQ = os.path.join(ROOT, "coq")
BUILD = os.path.join(ROOT, "build")
HARNESS_BIN = os.path.join(BUILD, "harness.test")
GOENV = dict(os.environ, GOFLAGS="-mod=mod", GOPROXY="off", GOSUMDB="off", GOTOOLCHAIN="local",
             CGO_ENABLED=os.environ.get("CGO_ENABLED", "1"))
COQ_DIRS = ["Lib", "Model", "Gen", "Proofs", "Properties", "Check"]
FORBIDDEN = re.compile(
    r"\bAdmitted\b|\badmit\b|\bAxiom\b|\bAxioms\b|\bParameter\b|\bParameters\b|\bConjecture\b|Guard Checking|bypass_check|"
    r"Universe Checking|Positivity Checking|type-in-type|impredicative-set|Admit Obligations|\bnative_compute\b")
ALLOWED_AXIOMS = {
    # axioms declared by the standard library itself; named in DESIGN.md section 9 if they ever appear
    "functional_extensionality_dep", "Eqdep.Eq_rect_eq.eq_rect_eq", "JMeq_eq", "classic", "proof_irrelevance",
    "propositional_extensionality", "constructive_definite_description", "constructive_indefinite_description",
}


def log(*a):
    print(*a, file=sys.stderr, flush=True)


def sh(cmd, cwd=None, env=None, timeout=None, capture=True):
    t = time.time()
    p = subprocess.run(cmd, cwd=cwd, env=env, shell=isinstance(cmd, str), timeout=timeout,
                       stdout=subprocess.PIPE if capture else None, stderr=subprocess.STDOUT if capture else None, text=True)
    return p.returncode, (p.stdout or ""), time.time() - t


class Lock:
    """flock on build/.<name>.lock; shared=True for readers (evaluation of case files against the compiled .vo
    files), exclusive for whoever may rewrite them (make)."""

    def __init__(self, name, shared=False):
        os.makedirs(BUILD, exist_ok=True)
        self.path = os.path.join(BUILD, "." + name + ".lock")
        self.mode = fcntl.LOCK_SH if shared else fcntl.LOCK_EX

    def __enter__(self):
        self.f = open(self.path, "a")
        fcntl.flock(self.f, self.mode)
        return self

    def __exit__(self, *a):
        fcntl.flock(self.f, fcntl.LOCK_UN)
        self.f.close()


# ---------------------------------------------------------------- Coq build

def coq_sources():
    out = []
    for d in COQ_DIRS:
        out += sorted(glob.glob(os.path.join(COQ, d, "*.v")))
    return [os.path.relpath(p, COQ) for p in out if not os.path.basename(p).startswith("zz_")]


def gen_kernels():
    """Regenerate Gen/K<Module>.v from /repo's current sources (translator tools/gokernel).

    The translator writes one file per source module into a scratch directory; a file is copied into coq/Gen only
    when its content changed, so an unchanged tree costs no Coq rebuild.  When the translator refuses a construct
    of one module it still writes that module's file, containing a definition that does not type-check plus the
    reason, so that only the agreement lemmas of that module (Gen/Agree<Module>.v) stop compiling.
    Returns (ok, message); ok is False only when the tool itself cannot be built or crashes."""
    tool = os.path.join(ROOT, "tools", "gokernel")
    if not os.path.exists(os.path.join(tool, "main.go")):
        return True, ""
    binp = os.path.join(BUILD, "gokernel")
    os.makedirs(BUILD, exist_ok=True)
    rc, out, _ = sh(["go", "build", "-o", binp, "."], cwd=tool, env=dict(GOENV, GOFLAGS="", GO111MODULE="off"), timeout=600)
    if rc != 0:
        return False, "gokernel does not build:\n" + out
    scratch = os.path.join(BUILD, "gen")
    shutil.rmtree(scratch, ignore_errors=True)
    os.makedirs(scratch)
    rc, out, _ = sh([binp, REPO, scratch], timeout=120)
    gen = os.path.join(COQ, "Gen")
    os.makedirs(gen, exist_ok=True)
    produced = sorted(glob.glob(os.path.join(scratch, "K*.v")))
    if rc != 0 and not produced:
        return False, "gokernel failed:\n" + out
    for src in produced:
        target = os.path.join(gen, os.path.basename(src))
        txt = open(src).read()
        old = open(target).read() if os.path.exists(target) else None
        if old != txt:
            open(target, "w").write(txt)
    return True, out if rc != 0 else ""


def coq_make(clean=False):
    """Full .vo build (never -vos/-vok) with -k so that independent files still build. Returns log text."""
    srcs = coq_sources()
    proj = "-Q . Canto\n" + "\n".join(srcs) + "\n"
    pp = os.path.join(COQ, "_CoqProject")
    old = open(pp).read() if os.path.exists(pp) else None
    if old != proj or not os.path.exists(os.path.join(COQ, "Makefile")):
        open(pp, "w").write(proj)
        sh("coq_makefile -f _CoqProject -o Makefile", cwd=COQ, timeout=120)
    rc, out, dt = sh("timeout 3000 make -k -j16", cwd=COQ, timeout=3100)
    return rc, out, dt


def coq_clean_build(mods, coqchk_lib=None):
    """Thorough tier: build the whole development from scratch in a private copy of the sources (so that checks
    running concurrently keep their compiled files), verify that the given modules are produced, and optionally run
    coqchk on one library there.  Returns (ok, log, coqchk_rc, coqchk_out, seconds)."""
    t0 = time.time()
    d = os.path.join(BUILD, "coq_clean_%d" % os.getpid())
    shutil.rmtree(d, ignore_errors=True)
    with Lock("coq", shared=True):
        srcs = coq_sources()
        for rel in srcs:
            os.makedirs(os.path.join(d, os.path.dirname(rel)), exist_ok=True)
            shutil.copy(os.path.join(COQ, rel), os.path.join(d, rel))
    open(os.path.join(d, "_CoqProject"), "w").write("-Q . Canto\n" + "\n".join(srcs) + "\n")
    sh("coq_makefile -f _CoqProject -o Makefile", cwd=d, timeout=120)
    rc, out, _ = sh("timeout 3000 make -k -j16", cwd=d, timeout=3100)
    missing = [m for m in mods if not os.path.exists(os.path.join(d, m + ".vo"))]
    ok = not missing
    log_txt = out[-3000:] if missing else ""
    chk_rc, chk_out = None, None
    if ok and coqchk_lib:
        libs = coqchk_lib if isinstance(coqchk_lib, list) else [coqchk_lib]
        chk_rc, chk_out, _ = sh(["coqchk", "-silent", "-o", "-Q", ".", "Canto"] + libs, cwd=d, timeout=7200)
    shutil.rmtree(d, ignore_errors=True)
    return ok, ("missing after clean build: %s\n%s" % (missing, log_txt)) if missing else "", chk_rc, chk_out, time.time() - t0


def coq_current(mod):
    """Is coq/<mod>.vo built and up to date with all its dependencies?"""
    rc, out, _ = sh(["make", "-q", mod + ".vo"], cwd=COQ, timeout=120)
    return rc == 0 and os.path.exists(os.path.join(COQ, mod + ".vo"))


def forbidden_tokens():
    bad = []
    for rel in coq_sources():
        for i, line in enumerate(open(os.path.join(COQ, rel)), 1):
            if FORBIDDEN.search(line):
                bad.append("%s:%d: %s" % (rel, i, line.strip()))
    return bad


def print_assumptions(mod):
    """Compile the property file once more (output to a scratch .vo) to capture Print Assumptions."""
    sdir = os.path.join(BUILD, "pa")
    os.makedirs(sdir, exist_ok=True)
    scratch = os.path.join(sdir, os.path.basename(mod) + ".vo")
    rc, out, _ = sh(["coqc", "-Q", ".", "Canto", "-o", scratch, mod + ".v"], cwd=COQ, timeout=900)
    return rc, out


def theorem_names(mod):
    src = open(os.path.join(COQ, mod + ".v")).read()
    return re.findall(r"^\s*(?:Theorem|Lemma|Corollary)\s+([A-Za-z0-9_']+)", src, re.M)


# ---------------------------------------------------------------- harness

def build_harness():
    """Build the harness against REPO's working tree.  The binary is stored under a content hash and never
    overwritten, so a check running concurrently (possibly against another tree) keeps executing its own binary."""
    global HARNESS_BIN
    gomod.derive(REPO, os.path.join(ROOT, "harness"))
    bindir = os.path.join(BUILD, "bin")
    os.makedirs(bindir, exist_ok=True)
    tmp = os.path.join(bindir, "harness.tmp.%d" % os.getpid())
    rc, out, dt = sh(["go", "test", "-c", "-tags", "verif", "-o", tmp, "."], cwd=os.path.join(ROOT, "harness"), env=GOENV, timeout=3000)
    if rc != 0 or not os.path.exists(tmp):
        if os.path.exists(tmp):
            os.remove(tmp)
        return (rc or 1), out, dt
    h = hashlib.sha256()
    with open(tmp, "rb") as f:
        for chunk in iter(lambda: f.read(1 << 20), b""):
            h.update(chunk)
    final = os.path.join(bindir, "harness-%s.test" % h.hexdigest()[:16])
    if os.path.exists(final):
        os.remove(tmp)
        os.utime(final, None)
    else:
        os.replace(tmp, final)
    HARNESS_BIN = final
    # keep the four most recently used binaries
    olds = sorted(glob.glob(os.path.join(bindir, "harness-*.test")), key=os.path.getmtime, reverse=True)
    for o in olds[4:]:
        try:
            os.remove(o)
        except OSError:
            pass
    return rc, out, dt


def run_harness(suite, tier, seed, outdir, replay=None, extra_env=None):
    shutil.rmtree(outdir, ignore_errors=True)
    os.makedirs(outdir)
    env = dict(GOENV, VERIF_PROP=suite, VERIF_SEED=str(seed), VERIF_TIER=tier, VERIF_OUT=outdir)
    if replay:
        env["VERIF_REPLAY"] = replay
    if extra_env:
        env.update(extra_env)
    rc, out, dt = sh([HARNESS_BIN, "-test.run", "^TestVerif$", "-test.timeout", "170m"], cwd=outdir, env=env, timeout=3 * 3600)
    return rc, out, dt


DIFF_RE = re.compile(r"\(\s*(-?\d+)\s*,\s*(-?\d+)\s*,\s*(-?\d+)\s*\)")


def eval_cases(outdir):
    """coqc every shard (in parallel); returns (diffs, errors, n_shards)."""
    shards = sorted(glob.glob(os.path.join(outdir, "cases_*.v")))

    def one(path):
        rc, out, dt = sh(["coqc", "-Q", COQ, "Canto", os.path.basename(path)], cwd=outdir, timeout=3600)
        return path, rc, out

    diffs, errors = [], []
    with Lock("coq", shared=True), ThreadPoolExecutor(max_workers=int(os.environ.get("VERIF_JOBS", "12"))) as ex:
        for path, rc, out in ex.map(one, shards):
            m = re.search(r"^M\s*=\s*(.*?)^\s*:\s*list diff", out, re.M | re.S)
            if rc != 0 or not m:
                errors.append("%s: coqc rc=%d\n%s" % (os.path.basename(path), rc, out[-2000:]))
                continue
            body = m.group(1)
            for c, s, code in DIFF_RE.findall(body.replace("%Z", "")):
                diffs.append((int(c), int(s), int(code)))
    return sorted(diffs), errors, len(shards)


# ---------------------------------------------------------------- known findings

def known_findings():
    out = []
    p = os.path.join(ROOT, "known_findings.txt")
    if not os.path.exists(p):
        return out
    for line in open(p):
        line = line.strip()
        if line.startswith("finding:"):
            m = re.match(r"finding:\s+property=(\S+)\s+monitor=(\S+)\s+match=(\S+)\s+(.*)", line)
            if m:
                out.append(dict(prop=m.group(1), monitor=m.group(2), match=m.group(3), what=m.group(4)))
    return out


def finding_matches(f, prop, monitor, case_json):
    if f["prop"] != prop or f["monitor"] != monitor:
        return False
    return f["match"] == "*" or f["match"] in json.dumps(case_json)


# ---------------------------------------------------------------- the check

def truncate_case(case, step):
    """cheap, always-valid shrink: drop everything after the failing step of a deterministic history"""
    if not isinstance(case, dict) or step is None or step < 0:
        return case
    for key in ("ops", "blocks", "steps", "txs", "packets", "receipts", "msgs"):
        if isinstance(case.get(key), list) and len(case[key]) > step + 1:
            c = dict(case)
            c[key] = case[key][: step + 1]
            c["_truncated_after_step"] = step
            return c
    return case


def ops_key(case):
    if not isinstance(case, dict):
        return None
    for key in ("ops", "blocks", "steps", "txs", "packets", "receipts", "msgs"):
        if isinstance(case.get(key), list):
            return key
    return None


def still_fails(prop, suite, case, name, tag="shrink"):
    """re-execute one case on the real code and the model; does the same monitor/mismatch fire?"""
    cfg = PROPS[prop]
    tmp = os.path.join(BUILD, "shrink_%s.json" % prop)
    json.dump(dict(property=prop, suite=suite, kind="concrete", case=case), open(tmp, "w"))
    outdir = os.path.join(BUILD, "out_%s_%s_%s" % (prop, suite, tag))
    rc, out, _ = run_harness(suite, "quick", 1, outdir, replay=tmp)
    if rc != 0 or not os.path.exists(os.path.join(outdir, "stats.json")):
        return False
    diffs, errors, _ = eval_cases(outdir)
    codes = cfg["codes"].get(suite, {})
    names = set(codes.get(code, ("code-%d" % code, ""))[0] for (_, _, code) in diffs)
    stats = json.load(open(os.path.join(outdir, "stats.json")))
    names |= set(f["monitor"] for f in (stats.get("impl_failures") or []))
    return name in names


def shrink_case(prop, suite, case, name, budget_s=90):
    """ddmin-style shrinking of the operation list under a time budget (each probe re-runs harness + coqc)."""
    key = ops_key(case)
    if key is None or len(case[key]) <= 1:
        return case, 0
    t0 = time.time()
    probes = 0
    ops = list(case[key])
    chunk = max(1, len(ops) // 2)
    while chunk >= 1 and time.time() - t0 < budget_s:
        i = 0
        progressed = False
        while i < len(ops) and time.time() - t0 < budget_s:
            cand = ops[:i] + ops[i + chunk:]
            if not cand:
                i += chunk
                continue
            c2 = dict(case)
            c2[key] = cand
            probes += 1
            if still_fails(prop, suite, c2, name):
                ops = cand
                progressed = True
            else:
                i += chunk
        if chunk == 1 and not progressed:
            break
        chunk = chunk // 2 if chunk > 1 else (1 if progressed else 0)
    out = dict(case)
    out[key] = ops
    out["_shrunk_from"] = len(case[key])
    return out, probes


def write_replay(prop, suite, tier, seed, kind, name, case, step, detail):
    os.makedirs(os.path.join(ROOT, "replays"), exist_ok=True)
    path = os.path.join(ROOT, "replays", "%s-%s-%d.json" % (prop, name, seed))
    json.dump(dict(property=prop, suite=suite, tier=tier, seed=seed, kind=kind, obligation=name, failing_step=step,
                   detail=detail, case=case), open(path, "w"), indent=1)
    return path


def check_property(prop, tier, seed):
    t_start = time.time()
    cfg = PROPS[prop]
    problems = []      # broken obligations (proof, agreement, correspondence, build)
    concrete = []      # (suite, monitor name, case idx, step, case json, detail)
    checker_cmds = []
    stats_all = {}
    pa_text = ""
    thm = []
    traces = 0

    # 1. Coq side -------------------------------------------------------------
    with Lock("coq"):
        ok_gen, gen_msg = gen_kernels()
        if not ok_gen and cfg.get("agree"):
            problems.append(("translator", "gokernel refused the current source of a kernel used by this property", gen_msg))
        rc, out, dt = coq_make()
        checker_cmds.append("coq_makefile -f _CoqProject -o Makefile && make -k -j16   (in /verif/coq, full .vo build)")
        make_log = out
        mods = list(cfg["coq"]) + list(cfg.get("agree", []))
        current = {m: coq_current(m) for m in mods}
        bad_tokens = forbidden_tokens()
        pmod = cfg["coq"][0]
        if current[pmod]:
            rc2, pa_text = print_assumptions(pmod)
            checker_cmds.append("coqc -Q . Canto %s.v   (Print Assumptions captured)" % pmod)
    thm = theorem_names(pmod)
    for m in mods:
        if not current[m]:
            # find the error text for this module's closure in the make log
            err = "\n".join(l for l in make_log.splitlines() if "Error" in l or "rror:" in l or l.startswith("File "))[-3000:]
            kind = "agreement" if m in cfg.get("agree", []) else ("proof" if m.startswith("Properties") else "model")
            problems.append((kind, "Coq module %s (or a file it depends on) no longer compiles" % m, err))
    if bad_tokens:
        problems.append(("hygiene", "forbidden token in the Coq development", "\n".join(bad_tokens)))
    axioms = []
    if pa_text:
        blocks = re.split(r"(?=Closed under the global context|Axioms:)", pa_text)
        for b in blocks:
            if b.startswith("Axioms:"):
                for name in re.findall(r"^([A-Za-z_][\w.']*)\s*:", b, re.M):
                    axioms.append(name)
    for ax in axioms:
        if ax not in ALLOWED_AXIOMS and not ax.startswith("Coq.") and not ax.startswith("Uint63") and not ax.startswith("PrimFloat"):
            problems.append(("axiom", "property theorem depends on a non-standard axiom: " + ax, pa_text[-2000:]))
    n_closed = pa_text.count("Closed under the global context")

    coqchk_out = None
    if tier == "thorough" and current.get(pmod) and os.environ.get("VERIF_NO_CLEAN") != "1":
        # the property file and the translator's agreement lemmas the property rests on
        lib = ["Canto." + m.replace("/", ".") for m in [pmod] + list(cfg.get("agree", []))] if os.environ.get("VERIF_NO_COQCHK") != "1" else None
        ok_c, log_c, chk_rc, chk_out, dt = coq_clean_build(mods, lib)
        checker_cmds.append("clean rebuild in a private copy: coq_makefile && make -k -j16 from scratch (%.0f s, ok=%s)" % (dt, ok_c))
        if not ok_c:
            problems.append(("proof", "clean rebuild from scratch does not produce the property's modules", log_c))
        if chk_rc is not None:
            checker_cmds.append("coqchk -silent -o -Q . Canto %s  (rc=%d)" % (" ".join(lib), chk_rc))
            coqchk_out = chk_out[-3000:]
            if chk_rc != 0:
                problems.append(("coqchk", "coqchk rejects the compiled closure of " + " ".join(lib), chk_out[-3000:]))

    # 2. implementation side --------------------------------------------------
    with Lock("go"):
        rc, out, dt = build_harness()
    checker_cmds.append("go test -c -tags verif (harness against /repo working tree, %.0f s)" % dt)
    harness_ok = rc == 0
    if not harness_ok:
        problems.append(("correspondence", "the harness no longer builds against /repo", out[-4000:]))

    checkers_ok = all(current[m] for m in cfg["coq"][1:])

    def run_suite(suite, tier_, seed_, tag):
        nonlocal traces
        outdir = os.path.join(BUILD, "out_%s_%s_%s" % (prop, suite, tag))
        rc, out, dt = run_harness(suite, tier_, seed_, outdir)
        if rc != 0 or not os.path.exists(os.path.join(outdir, "stats.json")):
            problems.append(("correspondence", "harness suite %s failed to run (rc=%d)" % (suite, rc), out[-4000:]))
            return None
        stats = json.load(open(os.path.join(outdir, "stats.json")))
        cases = json.load(open(os.path.join(outdir, "cases.json")))
        diffs, errors, nsh = eval_cases(outdir)
        checker_cmds.append("coqc cases_%s_*.v  (%d shards, vm_compute)" % (suite, nsh))
        for e in errors:
            problems.append(("correspondence", "case file of suite %s does not evaluate" % suite, e))
        traces += stats.get("cases", 0)
        codes = cfg["codes"].get(suite, {})
        for (c, s, code) in diffs:
            name, kind = codes.get(code, ("code-%d" % code, "mismatch"))
            if kind == "ignore":   # a monitor that belongs to another property sharing this suite
                continue
            case = cases[c] if 0 <= c < len(cases) else None
            if kind == "monitor" or cfg.get("functional"):
                concrete.append((suite, name, c, s, case, "Coq checker code %d (%s) at case %d step %d" % (code, name, c, s)))
            else:
                problems.append(("correspondence", "model and implementation differ: %s (suite %s case %d step %d)" % (name, suite, c, s),
                                 json.dumps(truncate_case(case, s))[:6000]))
        for f in stats.get("impl_failures") or []:
            c = f["case"]
            case = cases[c] if 0 <= c < len(cases) else None
            concrete.append((suite, f["monitor"], c, f["step"], case, f["detail"]))
        return stats

    if harness_ok and checkers_ok:
        for suite in cfg["suites"]:
            st = run_suite(suite, tier, seed, tier)
            if st:
                stats_all[suite] = st
        # 3. search for a failing input when an obligation broke but no monitor fired
        if problems and not concrete and os.environ.get("VERIF_NO_SEARCH") != "1":
            log("obligation broken; searching for a concrete failing input ...")
            for k in range(1, 4):
                for suite in cfg["suites"]:
                    run_suite(suite, "search", seed * 1000 + k, "search%d" % k)
                if concrete:
                    break

    # 4. verdict ---------------------------------------------------------------
    findings = known_findings()
    lines = []
    violations = 0
    reported = set()
    for (suite, name, c, s, case, detail) in concrete:
        matched = [f for f in findings if finding_matches(f, prop, name, case)]
        if matched:
            key = ("known", matched[0]["what"])
            if key not in reported:
                reported.add(key)
                lines.append("KNOWN-FINDING: property=%s %s" % (prop, matched[0]["what"]))
            continue
        key = (suite, name)
        if key in reported or violations >= 1:
            continue
        reported.add(key)
        small = truncate_case(case, s)
        if os.environ.get("VERIF_NO_SHRINK") != "1" and harness_ok:
            try:
                small, probes = shrink_case(prop, suite, small, name, budget_s=60 if tier == "quick" else 600)
                detail = detail + " (shrunk with %d probes)" % probes
            except Exception as ex:  # shrinking is best effort
                detail = detail + " (shrinking failed: %s)" % ex
        path = write_replay(prop, suite, tier, seed, "concrete", name, small, s, detail)
        lines.append("VIOLATION property=%s replay=%s" % (prop, path))
        violations += 1
    if problems and violations == 0:
        # a proof obligation or the correspondence broke and no failing input was found
        kind, what, detail = problems[0]
        path = write_replay(prop, ",".join(cfg["suites"]), tier, seed, "obligation", kind,
                            None, None, dict(what=what, detail=detail, all=[(k, w) for k, w, _ in problems]))
        lines.append("VIOLATION property=%s replay=%s no-failing-input-found" % (prop, path))
        violations += 1

    # 5. evidence ----------------------------------------------------------------
    n_agree = len(cfg.get("agree", []))
    obligations = len(thm) + n_agree + len(cfg["suites"])
    broken = set()
    for kind, what, _ in problems:
        broken.add((kind, what))
    discharged = obligations
    if not current.get(pmod, False):
        discharged -= len(thm)
    discharged -= sum(1 for m in cfg.get("agree", []) if not current.get(m, False))
    bad_suites = set()
    for (suite, name, c, s_, case, detail) in concrete:
        if not any(finding_matches(f, prop, name, case) for f in findings):
            bad_suites.add(suite)
    if any(k == "correspondence" for k, _, _ in problems):
        bad_suites |= set(cfg["suites"])
    discharged -= len(bad_suites)
    evals = sum(s.get("evaluations", 0) for s in stats_all.values())
    distinct = sum(s.get("distinct_nontrivial", 0) for s in stats_all.values())
    samples = []
    for s in stats_all.values():
        samples += s.get("samples", [])[:2]
    samples.append(dict(obligations=["theorem " + t for t in thm] + ["agreement " + a for a in cfg.get("agree", [])] +
                        ["correspondence suite " + s for s in cfg["suites"]]))
    trusted = [
        "Coq 8.16.1 kernel (coqc; vm_compute used for examples and for evaluating correspondence cases; native_compute not used)",
        "Print Assumptions of every theorem in %s.v: %d x 'Closed under the global context'%s" % (pmod, n_closed, ("; axioms: " + ", ".join(axioms)) if axioms else ""),
        "correspondence check: Go harness /verif/harness (generators, projections) + Coq checkers %s evaluated by vm_compute" % ", ".join(cfg["coq"][1:]),
        "modelled by hand from: " + "; ".join(cfg.get("modelled", [])),
    ]
    trusted.append("axioms: none declared in /verif/coq (no Axiom/Parameter/Admitted; grep in the driver), none used (Print Assumptions above); "
                   "the development imports Lia (lia, nia) but not Psatz, so no closure loads Reals or FunctionalExtensionality: coqchk -o reports 'Axioms: <none>'")
    if n_agree:
        trusted.append("translator tools/gokernel (go/ast -> Gallina) for the kernels in Gen/K<Module>.v (regenerated from /repo on every run), agreement lemmas " + ", ".join(cfg["agree"]))
    if coqchk_out is not None:
        trusted.append("coqchk -o output (tail): " + coqchk_out[-1500:])
    ev = dict(
        property_id=prop, tier=tier, seed=seed, level=cfg["level"],
        coverage=dict(
            obligations=obligations, discharged=max(discharged, 0), checker_cmd=" ; ".join(checker_cmds), trusted_base=trusted,
            evaluations=evals, distinct_nontrivial=distinct, traces_validated_against_impl=traces,
            rule=" | ".join(s.get("rule", "") for s in stats_all.values()),
            samples=samples,
            distribution={k: v.get("distribution", {}) for k, v in stats_all.items()},
            theorems=thm, print_assumptions=pa_text.strip().splitlines()[-len(thm) - 5:] if pa_text else [],
            broken_obligations=[dict(kind=k, what=w) for k, w, _ in problems],
            explanation=cfg.get("explanation", cfg.get("technique", "")),
            exhaustive=False,
        ),
        assumptions=cfg.get("assumptions", []),
        wall_s=round(time.time() - t_start, 1),
        violations=violations,
    )
    ev["coverage"]["known_findings_reported"] = [l for l in lines if l.startswith("KNOWN-FINDING")]
    # evidence is about /repo itself; runs against another tree (VERIF_REPO, used to try seeded changes) write elsewhere
    evdir = os.path.join(ROOT, "evidence") if os.path.realpath(REPO) == "/repo" else os.path.join(BUILD, "evidence_other_tree")
    os.makedirs(evdir, exist_ok=True)
    json.dump(ev, open(os.path.join(evdir, prop + ".json"), "w"), indent=1)
    for l in lines:
        print(l, flush=True)
    print("%s %s: %d obligations, %d discharged, %d impl evaluations, %d cases, %.0f s, violations=%d" %
          (prop, tier, obligations, max(discharged, 0), evals, traces, time.time() - t_start, violations), flush=True)
    return 1 if violations else 0


def do_setup():
    with Lock("coq"):
        ok, msg = gen_kernels()
        if not ok:
            log("gokernel:", msg)
        rc, out, dt = coq_make()
        log(out[-3000:])
        log("coq build rc=%d %.0f s" % (rc, dt))
    with Lock("go"):
        rc2, out2, dt2 = build_harness()
        log(out2[-3000:])
        log("harness build rc=%d %.0f s" % (rc2, dt2))
    return 0 if rc == 0 and rc2 == 0 else 1


def do_replay(path):
    r = json.load(open(path))
    prop = r["property"]
    cfg = PROPS[prop]
    if r.get("kind") != "concrete" or r.get("case") is None:
        print("replay file records a broken obligation, not a concrete input:")
        print(json.dumps(r.get("detail"), indent=1)[:4000])
        return 1
    with Lock("coq"):
        gen_kernels()
        coq_make()
    with Lock("go"):
        rc, out, _ = build_harness()
        if rc != 0:
            print(out)
            return 1
    suite = r["suite"]
    outdir = os.path.join(BUILD, "out_%s_replay" % prop)
    rc, out, _ = run_harness(suite, "quick", r.get("seed", 1), outdir, replay=os.path.abspath(path))
    if rc != 0:
        print(out[-3000:])
        return 1
    diffs, errors, _ = eval_cases(outdir)
    stats = json.load(open(os.path.join(outdir, "stats.json")))
    codes = cfg["codes"].get(suite, {})
    bad = 0
    for (c, s, code) in diffs:
        print("replay: step %d: %s" % (s, codes.get(code, ("code-%d" % code, ""))[0]))
        bad += 1
    for f in stats.get("impl_failures") or []:
        print("replay: step %d: %s: %s" % (f["step"], f["monitor"], f["detail"]))
        bad += 1
    for e in errors:
        print(e)
        bad += 1
    print("replay: %s" % ("property fails on this input" if bad else "no failure reproduced"))
    return 1 if bad else 0


def main(argv):
    if len(argv) < 2:
        print(__doc__)
        return 2
    if argv[1] == "setup":
        return do_setup()
    if argv[1] == "replay":
        return do_replay(argv[2])
    tier = argv[2] if len(argv) > 2 else os.environ.get("VERIF_TIER", "quick")
    seed = int(os.environ.get("VERIF_SEED", "1") or "1")
    if argv[1] == "all":
        rc = 0
        for p in sorted(PROPS):
            rc |= check_property(p, tier, seed)
        return rc
    if argv[1] not in PROPS:
        print("unknown property", argv[1])
        return 2
    return check_property(argv[1], tier, seed)


if __name__ == "__main__":
    sys.exit(main(sys.argv))
