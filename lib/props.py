"""Per-property configuration of the checks.

suites      harness suites (VERIF_PROP values) whose cases are evaluated for this property
coq         Coq modules (files under /verif/coq, without .v) that must be compiled and current:
            the property file, the checker(s) the suites use, and agreement lemmas
codes       meaning of diff codes reported by the Coq-side checkers, per suite:
              code -> (name, kind)   kind = "monitor"  : the property's own predicate fails on
                                                          implementation states -> concrete violation
                                     kind = "mismatch" : model and implementation differ on the
                                                          projection -> correspondence broken
functional  True when the property statement determines the projected behaviour uniquely, so that
            any model/implementation mismatch on the projection *is* a concrete failing input
"""

import glob, os

PROPS = {}
for _p in sorted(glob.glob(os.path.join(os.path.dirname(os.path.abspath(__file__)), "props.d", "C*.py"))):
    _ns = {}
    exec(compile(open(_p).read(), _p, "exec"), _ns)
    PROPS[os.path.basename(_p)[:-3]] = _ns["PROP"]
