"""Per-property configuration of the checks.

suites      harness suites (VERIF_PROP values) whose cases are evaluated for this property
coq         Coq modules (files under /verif/coq, without .v) that must be compiled and current:
            the property file, the checker(s) the suites use, and agreement lemmas
codes       meaning of diff codes reported by the Coq-side checkers, per suite:
              code -> (name, kind)   kind = "monitor"  : the property's own predicate fails on
                                                          implementation states -> concrete violation
                                     kind = "mismatch" : model and implementation differ on the
                                                          projection -> correspondence broken
functional  True when the property statement determines the projected behaviour uniquely, so that
            any model/implementation mismatch on the projection *is* a concrete failing input
"""

PROPS = {
    "C12": dict(
        title="Epochs tick in order, at most once per block, and never early",
        suites=["C12"],
        coq=["Properties/C12", "Check/EpochsCheck"],
        agree=[],
        codes={
            "C12": {
                1: ("init-genesis-differs", "mismatch"),
                2: ("epoch-records-differ-from-spec", "monitor"),
                3: ("listener-calls-differ-from-spec", "monitor"),
            }
        },
        level="proof",
        technique="Coq proof (induction over block histories) + vm_compute correspondence against the real epochs keeper",
        modelled=["x/epochs/keeper/abci.go BeginBlocker", "x/epochs/types/epoch_info.go StartInitialEpoch/EndEpoch", "x/epochs/genesis.go InitGenesis"],
        assumptions=[
            "time.Time arithmetic without int64 overflow (block times and durations within +-292 years)",
            "store iteration order = byte order of identifiers (checked by the harness on every case)",
        ],
    ),
}
