PROP = dict(
    title="Only governance can change parameters or registrations; stored params stay valid",
    suites=["C17"],
    coq=["Properties/C17", "Check/AuthorityCheck"],
    agree=[],
    codes={
        "C17": {
            1: ("non-gov-authority-changed-state", "monitor"),
            2: ("stored-params-invalid", "monitor"),
            3: ("accepted-update-not-stored-as-submitted", "monitor"),
            4: ("rejected-message-changed-state", "monitor"),
            5: ("result-class-differs-from-model", "mismatch"),
            6: ("model-state-differs", "mismatch"),
        }
    },
    level="proof",
    technique="Coq proof (each module's validators transcribed as boolean predicates, SetParamSet as validate-then-write per "
              "field, invariant by induction over histories of attempts, parametric in the behaviour of the five non-parameter "
              "keeper functions) + vm_compute monitors and correspondence against the real message router",
    modelled=[
        "x/coinswap/keeper/msg_server.go UpdateParams; x/coinswap/types/params.go Validate + field validators",
        "x/inflation/keeper/msg_server.go UpdateParams; x/inflation/types/params.go (incl. provisionComputable: the worst-case evaluation of CalculateEpochMintProvision + TruncateInt, modelled with Model/Inflation.v calc_provision)",
        "x/csr/keeper/msg_server.go UpdateParams; x/csr/types/params.go",
        "x/onboarding/keeper/msg_server.go UpdateParams; x/onboarding/types/params.go",
        "x/erc20/keeper/msg_server.go UpdateParams/RegisterCoinProposal/RegisterERC20Proposal/ToggleTokenConversionProposal (authority gate); x/erc20/types/params.go",
        "x/govshuttle/keeper/msg_server.go LendingMarketProposal/TreasuryProposal (authority gate)",
        "cosmos-sdk v0.50.8 x/params/types/subspace.go SetParamSet; types/coin.go ValidateDenom, Coins.Validate",
    ],
    assumptions=[
        "message atomicity (a failed or panicking message leaves no trace) is the cache-branch behaviour of the executor; modelled, and checked on every rejected message by monitor 4",
        "what RegisterCoin / RegisterERC20 / ToggleConversion / AppendLendingMarketProposal do once authorised is arbitrary in the theorems and taken from the observation in the checker (their content is C15 / C20)",
        "messages are wire-deliverable: valid UTF-8 strings, sdkmath.Int within 256 bits, LegacyDec within 315 bits (enforced by protobuf decoding; the harness encodes and decodes every message)",
        "the registry projection is (number of token pairs, port address, pair addresses and enabled flags); other side effects of accepted governance messages are outside this property",
        "all six keepers are configured with the gov module address as authority (checked by the harness at start)",
    ],
)
