PROP = dict(
    title="Every wrapped token is backed one-for-one by escrowed value",
    suites=["C03"],
    coq=["Properties/C03", "Check/Erc20Check"],
    agree=[],
    codes={
        "C03": {
            1: ("result-class-differs-from-model", "mismatch"),
            2: ("bank-side-differs-from-model", "mismatch"),
            3: ("token-ledger-differs-from-model", "mismatch"),
            4: ("pair-flags-differ-from-model", "mismatch"),
            5: ("another-pair-changed", "mismatch"),
            6: ("parameters-differ-from-model", "mismatch"),
            10: ("backing-invariant-violated", "monitor"),
        }
    },
    level="proof",
    technique="Coq proof (invariant preserved by every operation of a multi-pair model incl. the EVM hook's failure branches and whole Ethereum "
              "transactions whose receipt carries an arbitrary list of logs of several contracts - induction over the list of logs with a "
              "'credit' invariant between execution and hook; induction over histories; ERC-20 ledger sum invariant) + vm_compute correspondence "
              "and backing monitor against the real erc20 keeper, bank and EVM (multi-log receipts through a real multicall contract and at keeper level)",
    modelled=[
        "x/erc20/keeper/msg_server.go ConvertCoin/ConvertERC20 (incl. the refusal of a coin whose denomination only resolves to the pair through the address index: msg.Coin.Denom != pair.Denom), convertCoinNativeCoin, convertERC20NativeCoin, convertERC20NativeToken, convertCoinNativeERC20",
        "x/erc20/keeper/evm_hooks.go PostTxProcessing (the loop over all logs of a receipt: Transfer / other events, registered / unregistered contracts, "
        "amount sign, destination, pair switch, burn or mint, payout, every `continue`)",
        "x/erc20/keeper/mint.go MintingEnabled",
        "x/erc20/keeper/proposals.go ToggleConversion",
        "x/erc20/types/params.go",
        "contracts/ERC20MinterBurnerDecimals.sol (honest ledger: transfer, mint, burn, burnCoins with BURNER_ROLE)",
        "x/bank SendCoinsFromAccountToModule / SendCoinsFromModuleToAccount (blocked check) / MintCoins / BurnCoins / MsgSend",
    ],
    assumptions=[
        "the erc20 module account is a blocked address (wf_blocked; checked by the harness on the real app for every module account)",
        "no message, Ethereum transaction, call inside a transaction or bank send originates from the erc20 module address (origin_ok / leg_origin_ok: nobody holds its key); "
        "a contract emits a Transfer log only for a transfer it carried out (honest ledger)",
        "the deployer of an external contract does not apply its BURNER_ROLE (burnCoins, not a standard ERC-20 function) to the module's escrowed tokens (origin_ok); contract not paused",
        "'equal except self-destroyed tokens' (stuck = 0): no Transfer event to the module address names a blocked address as sender (from_not_blocked); "
        "the harness does generate such senders in keeper-level receipts and accounts for them in the ghost counter stuck",
        "registered pairs have pairwise distinct denominations and contracts (registry one-to-one: property C15); contracts alive (no selfdestruct)",
        "message atomicity (a failed message leaves no trace) is cosmos-sdk behaviour, modelled by deliver; amounts below 2^256",
    ],
)
