PROP = dict(
    title="Conversions are exact, all-or-nothing and reversible",
    suites=["C04"],
    coq=["Properties/C04", "Check/ConvertCheck"],
    agree=[],
    codes={
        "C04": {
            # model vs implementation on the projection (the model is run on the very answers the module received)
            1: ("result-class-differs-from-model-on-same-evm-answers", "mismatch"),
            2: ("bank-movement-differs-from-model-on-same-evm-answers", "mismatch"),
            3: ("result-class-differs-from-honest-contract-model", "mismatch"),
            4: ("ledgers-differ-from-honest-contract-model", "mismatch"),
            # the property's own predicates on implementation observations.  12, 14 and 17 are behaviour the
            # property text does not name (a transfer without boolean return data, a LOG0 entry, amount 0 / the
            # gate of C14): a change there breaks the correspondence but is not by itself a violation
            10: ("ok-but-bank-delta-not-exact", "monitor"),
            11: ("ok-despite-false-return", "monitor"),
            12: ("ok-despite-unparsable-return", "mismatch"),
            13: ("ok-despite-approval-log", "monitor"),
            14: ("ok-despite-topicless-log", "mismatch"),
            15: ("ok-despite-balance-mismatch", "monitor"),
            16: ("ok-despite-failed-evm-call", "monitor"),
            17: ("ok-despite-nonpositive-amount-or-closed-gate", "mismatch"),
            18: ("failed-but-state-changed", "monitor"),
            19: ("ok-but-token-delta-not-exact", "monitor"),
            20: ("round-trip-not-restored", "monitor"),
            21: ("round-trip-way-back-refused", "monitor"),
        }
    },
    level="proof",
    technique="Coq proof over an arbitrary EVM (record of a state type and four unconstrained call functions) + honest-contract instance for the round trip; "
              "vm_compute correspondence: the real x/erc20 message server driven around a scripting/recording EVMKeeper wrapper, the model re-run on the recorded answers; "
              "go/ast translator: the balance checks of the four convert* functions (big.Int expected balance, Cmp, coin-side IsEqual, the unpacked transfer boolean, the amounts handed to bank / EVM) regenerated as Gen/KErc20.v and proved equal to the model's checks (Gen/AgreeErc20)",
    modelled=[
        "x/erc20/keeper/msg_server.go ConvertCoin, ConvertERC20, convertCoinNativeCoin, convertCoinNativeERC20, convertERC20NativeCoin, convertERC20NativeToken",
        "x/erc20/keeper/msg_server.go convertCoinNativeCoin, convertERC20NativeCoin, convertERC20NativeToken, convertCoinNativeERC20: source text translated by tools/gokernel (gen_convert* in Gen/KErc20.v), agreement lemmas agree_convert* / uses_* in Gen/AgreeErc20.v",
        "x/erc20/keeper/evm.go BalanceOf, CallEVM, CallEVMWithData, monitorApprovalEvent",
        "x/erc20/types/interfaces.go EVMKeeper (as an arbitrary record of functions)",
        "contracts/ERC20MinterBurnerDecimals.sol (honest ledger: mint, burnCoins, transfer, zero-address guards, pause) for the round trip",
    ],
    assumptions=[
        "message atomicity (a failed message leaves no trace in bank or EVM state) is cosmos-sdk baseapp behaviour: modelled by `deliver`, validated by diffing complete bank dumps, token balances, allowances and nonces around every rejected message executed inside a cache branch with recover",
        "MintingEnabled (params, pair enabled, blocked receiver, send-enabled) and `contract account has code` are oracle booleans recorded per step (property C14 owns the gate)",
        "amounts, balances and supplies stay below 2^256 (an sdkmath.Int / uint256 overflow panics or reverts, i.e. is a rejected message)",
        "the sender has no vesting lock on the converted denomination (spendable = balance)",
        "token side of convert_ok_exact is about the balance the path compares AS ANSWERED by the contract; for a contract that lies consistently only that is guaranteed (DESIGN.md C04 label). On the mint/burnCoins paths (module-owned pair, contract deployed by the module itself) the code looks at neither return data nor logs",
        "round trip: honest contract, non-negative balances, the coin-side sender is not the module account, and the way back passes the gate",
        "a MsgConvertCoin that spells its denomination like a registered pair's contract address (40 hex digits, valid as a bank denomination when it starts with a-f) resolves to that pair BY ADDRESS; since the repair of finding F6 the handler refuses it (guard msg.Coin.Denom != pair.Denom; model: exec_named, theorems C04_convert_ok_exact_named and C04_lookalike_denomination_refused); stream x of the harness mints such a coin and checks the refusal on every run (VERIF_C04_LOOKALIKE=0 switches it off)",
        "`return nil, nil` for a selfdestructed contract (pair removed, nothing converted) is class pair-removed, monitored for leaving both ledgers unchanged; it is not counted as a successful conversion",
    ],
)

# translator agreement lemmas (tools/gokernel regenerates Gen/K*.v from /repo on every run)
PROP["agree"] = ['Gen/AgreeErc20']
