PROP = dict(
    title="Transaction admission routes Ethereum and Cosmos messages to the right checks",
    suites=["C19"],
    coq=["Properties/C19", "Check/AnteCheck"],
    agree=[],
    codes={
        "C19": {
            # tables re-extracted (go/ast) from the source under test vs. the reference tables the theorems are about
            1: ("decorator-chain-differs-from-reference", "mismatch"),
            2: ("extension-switch-subject-differs-from-reference", "mismatch"),
            3: ("extension-switch-cases-differ-from-reference", "mismatch"),
            4: ("extension-switch-default-differs-from-reference", "mismatch"),
            5: ("no-option-branch-differs-from-reference", "mismatch"),
            6: ("disabled-authz-list-differs-from-reference", "mismatch"),
            # model vs. implementation on the response class
            10: ("admission-class-differs-from-model", "mismatch"),
            11: ("response-code-outside-the-documented-table", "mismatch"),
            # the property's own predicates on what the implementation did
            20: ("ethereum-message-passed-outside-the-ethereum-path", "monitor"),
            21: ("unrecognised-first-extension-option-passed", "monitor"),
            22: ("disabled-message-passed-through-authz-exec-or-grant", "monitor"),
            23: ("over-deep-authz-nesting-passed", "monitor"),
            24: ("ethereum-path-passed-with-extra-extension-options", "monitor"),
            25: ("eip712-path-admitted-with-extra-extension-options", "monitor"),
        }
    },
    level="proof",
    technique="Coq proof (custom induction over nested message trees; decorator chains interpreted as lists) + "
              "vm_compute correspondence against the application's own CheckTx; admission tables re-extracted from the source on every run",
    modelled=[
        "app/ante/ante.go NewAnteHandler (switch on the first extension option, no-option default)",
        "app/ante/handler_options.go newEthAnteHandler / newCosmosAnteHandler / newCosmosSimulationAnteHandler / newCosmosAnteHandlerEip712 (decorator lists)",
        "app/app.go setAnteHandler (HandlerOptions.DisabledAuthzMsgs)",
        "ethermint app/ante: RejectMessagesDecorator, AuthzLimiterDecorator.checkDisabledMsgs, EthValidateBasicDecorator (option count, message types), eip712 VerifySignature (option count)",
        "baseapp runTx before the ante handler: tx decoding with interface unpacking, 'must contain at least one message'",
    ],
    assumptions=[
        "every decorator other than the four modelled ones (signatures, fees, gas, sequence, memo, IBC) is an oracle that can only reject (theorem C19_oracle_only_rejects). Unsigned stream: the oracle's rejections are ErrNoSignatures (15) on the Cosmos chains and ErrInsufficientFunds (5) on the Ethereum chain. Signed stream (funded ethsecp256k1 account, SIGN_MODE_DIRECT / legacy EIP-712 typed data / signed MsgEthereumTx): code 0 on the plain and EIP-712 routes; on the Ethereum route EthGasConsumeDecorator answers 11 because app.Setup's Block.MaxGas = -1 is read as a block gas limit of 0",
        "'passed the structural gate' (codes 0, 15, 5, 11) is what the monitors read as admission: the signature and the balance are under the sender's control",
        "the EIP-712 chain's 'exactly one extension option' check sits inside signature verification; it is reached by the signed stream only, with single bank/staking messages (legacy typed data cannot express authz messages)",
        "the simulation chain is covered by the table comparison and the theorems only (the app under test is built with Simulation=false)",
        "the authz limiter, RejectMessagesDecorator and EthValidateBasicDecorator live in the ethermint dependency selected by /repo/go.mod; their behaviour is checked through CheckTx, their source is not re-extracted",
        "messages of the forest all have a registered handler and pass their own ValidateBasic (the harness uses well-formed bank, staking, evm, authz messages)",
        "nesting counter and depths are nat, as in the design-round proof (they count constructors of the message tree)",
    ],
)

# translator agreement lemmas (tools/gokernel regenerates Gen/K*.v from /repo on every run)
PROP["agree"] = ['Gen/AgreeAnte']
