PROP = dict(
    title="Passed lending-market and treasury proposals are recorded faithfully on the EVM",
    suites=["C20"],
    coq=["Properties/C20", "Check/GovshuttleCheck"],
    agree=[],
    codes={
        "C20": {
            1: ("invalid-proposal-accepted", "monitor"),
            2: ("rejected-proposal-changed-state", "monitor"),
            3: ("record-differs-from-submitted", "monitor"),
            4: ("record-of-other-id-changed", "monitor"),
            5: ("port-address-changed-or-unset", "monitor"),
            6: ("passed-proposal-not-recorded", "monitor"),  # equal list lengths / supported denomination, yet rejected: the store has no record of a passed proposal
            7: ("model-state-differs", "mismatch"),
        }
    },
    level="proof",
    technique="Coq proof (honest ProposalStore contract, hex codec lemmas by induction, invariants and induction over "
              "proposal histories) + vm_compute monitors and correspondence against the real keeper and the real EVM",
    modelled=[
        "x/govshuttle/keeper/msg_server.go LendingMarketProposal/TreasuryProposal",
        "x/govshuttle/keeper/proposals.go AppendLendingMarketProposal/DeployMapContract/ToAddress/ToBytes/ToBigInt",
        "x/govshuttle/keeper/keeper.go GetPort/SetPort/GetAuthority",
        "x/govshuttle/types/proposal.go MsgTreasuryProposal.FromTreasuryToLendingMarket",
        "contracts/Port.sol ProposalStore (constructor, AddProposal sender guard, QueryProp id guard)",
        "go-ethereum v1.10.26 common.Hex2Bytes/Bytes2Hex/FromHex/HexToAddress over Go 1.23 encoding/hex",
    ],
    assumptions=[
        "message atomicity (a failed message leaves no trace) is cosmos-sdk's cache-branch behaviour; modelled, and checked on every rejected message by monitor 2",
        "the EVM executes the shipped ProposalStore bytecode as Port.sol reads (honest contract; checked by decoding QueryProp through the ABI after every message)",
        "the 25,000,000 gas cap of erc20 CallEVM is not reached (proposal payloads up to a few KB; about 40 KB of strings would exceed it and the proposal would be rejected without effect)",
        "next_gov_id (gov ProposalID.Peek) and the CREATE address of the store are oracle inputs recorded per message",
        "strings.ToLower agrees with ASCII lowering on every string that can equal 'canto' or 'note' (no non-ASCII rune lowers to one of their letters)",
        "histories start before the first govshuttle proposal (a port address imported through genesis is outside the property)",
    ],
)
