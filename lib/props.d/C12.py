PROP = dict(
    title="Epochs tick in order, at most once per block, and never early",
    suites=["C12"],
    coq=["Properties/C12", "Check/EpochsCheck"],
    agree=[],
    codes={
        "C12": {
            1: ("init-genesis-differs", "mismatch"),
            2: ("epoch-records-differ-from-spec", "monitor"),
            3: ("listener-calls-differ-from-spec", "monitor"),
        }
    },
    level="proof",
    technique="Coq proof (induction over block histories) + vm_compute correspondence against the real epochs keeper",
    modelled=["x/epochs/keeper/abci.go BeginBlocker", "x/epochs/types/epoch_info.go StartInitialEpoch/EndEpoch", "x/epochs/genesis.go InitGenesis"],
    assumptions=[
        "time.Time arithmetic without int64 overflow (block times and durations within +-292 years)",
        "store iteration order = byte order of identifiers (checked by the harness on every case)",
    ],
)

# translator agreement lemmas (tools/gokernel regenerates Gen/K*.v from /repo on every run)
PROP["agree"] = ['Gen/AgreeEpochs']
