PROP = dict(
    title="CSR registry: each contract belongs to at most one NFT, set only by Turnstile",
    suites=["C16"],
    coq=["Properties/C16", "Check/CsrCheck"],
    agree=[],
    functional=False,
    codes={
        "C16": {
            1: ("genesis-import-differs-from-model", "mismatch"),
            2: ("contract-lists-differ-from-model", "mismatch"),
            3: ("contract-index-differs-from-model", "mismatch"),
            10: ("lookup-by-contract-and-nft-lists-disagree", "monitor"),
            11: ("duplicate-contract-in-an-nft-list", "monitor"),
            12: ("contract-assigned-to-two-nfts", "monitor"),
            13: ("registry-changed-without-turnstile-register-or-assign-event", "monitor"),
            14: ("address-without-code-added", "monitor"),
            15: ("existing-nft-recreated-or-entry-lost", "monitor"),
            16: ("txs-or-revenue-changed-outside-fee-distribution", "monitor"),
        }
    },
    level="proof",
    technique="Coq proof (registry invariant over all histories of receipts, fee distributions and well-formed genesis imports; emitter filter, code oracle, no re-creation, inert malformed events) + vm_compute correspondence against the real csr hook (synthetic receipts, and real signed EVM transactions whose contracts call Turnstile.register / assign)",
    modelled=["x/csr/keeper/evm_hooks.go processEvents/PostTxProcessing", "x/csr/keeper/event_handler.go RegisterEvent/UpdateEvent/ValidateContract",
              "x/csr/keeper/csr.go SetCSR/GetCSR/GetNFTByContract", "x/csr/types/csr.go Validate", "x/csr/genesis.go InitGenesis"],
    assumptions=[
        "contract strings in the store are canonical (EIP-55) address strings, as common.Address.String() produces them (checked by the harness on every case); a hand-written genesis with other spellings is outside the model",
        "genesis import preserves the invariant for well-formed record lists only (distinct ids, duplicate-free disjoint contract lists, as every export of a reachable state is); InitGenesis itself does not validate the records",
        "has_code(address) is an oracle input read from the EVM keeper before each receipt (for a contract creation: after the creation, i.e. the code the hook finds; a constructor that registers itself and returns no code is part of the real-transaction stream, and synthetic creation receipts carry receipt.ContractAddress)",
        "ABI decoding of event data is abstracted to: unpacks to (contract, recipient, id) / does not unpack; the harness builds the bytes with the real ABI, including dirty padding and truncated data",
    ],
)
