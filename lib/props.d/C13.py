PROP = dict(
    title="Inflation follows the published decay schedule, one period per fixed mint count",
    suites=["C13"],
    coq=["Properties/C13", "Check/InflationCheck"],
    agree=[],
    codes={
        "C13": {
            # library level: types.CalculateEpochMintProvision
            11: ("provision-differs-from-published-formula", "monitor"),
            12: ("provision-negative-for-valid-parameters", "monitor"),
            13: ("provision-increases-with-period", "monitor"),
            # hook histories: the schedule part of the projection is this property's
            6: ("skipped-epochs-differ-from-spec", "monitor"),
            7: ("period-not-advanced-exactly-every-epochs-per-period-mints", "monitor"),
            8: ("stored-provision-changed-off-boundary-or-differs-from-formula", "monitor"),
            9: ("hook-panics-differ-from-spec", "monitor"),
            14: ("genesis-provision-differs-from-formula", "monitor"),
            # ledger part: belongs to property C05 (which shares the suite); each step is replayed from the implementation's
            # observed state, so a ledger difference cannot cascade into the schedule part and is C05's to report
            1: ("supply-differs", "ignore"),
            2: ("fee-collector-differs", "ignore"),
            3: ("inflation-module-account-differs", "ignore"),
            4: ("distribution-account-differs", "ignore"),
            5: ("community-pool-differs", "ignore"),
            10: ("params-or-static-state-differ", "mismatch"),
            15: ("bonded-ratio-differs-from-truncated-quotient", "mismatch"),
        }
    },
    level="proof",
    technique="Coq proofs (rounding/monotonicity of the SDK's fixed-point operations incl. the square-and-multiply Power; "
              "invariant + induction over histories of clock blocks and parameter changes) + vm_compute correspondence: "
              "real CalculateEpochMintProvision vs the transcription, real hooks through EpochsKeeper.BeginBlocker",
    modelled=["x/inflation/types/inflation_calculation.go CalculateEpochMintProvision",
              "x/inflation/types/params.go validateExponentialCalculation / validateInflationDistribution",
              "x/inflation/types/genesis.go validateEpochsPerPeriod",
              "x/inflation/keeper/hooks.go AfterEpochEnd", "x/inflation/keeper/inflation.go BondedRatio",
              "x/inflation/genesis.go InitGenesis (provision)", "x/epochs/keeper/abci.go BeginBlocker (Model/Epochs.v)"],
    assumptions=[
        "period, skipped epochs, epoch number and their products stay within int64/uint64 (the model uses unbounded integers)",
        "the configured epoch identifier is \"day\" for the period-count theorems: the disabled branch of the hook counts skipped "
        "epochs for the literal identifier \"day\", not for the configured one (the model follows the code; with another "
        "identifier the count relation does not hold and is not claimed)",
        "epochs_per_period and the epoch identifier are written only by InitGenesis (and the v2 migration); parameters change only "
        "through SetParams, which keeps the mint denomination in the modelled histories",
        "total bonded tokens are an oracle input recorded per block; the supply of the bond denomination is the model's own supply "
        "when bond denom = mint denom (the app's configuration), else an oracle input",
        "no-overflow side conditions of the theorems: (a+c+1)*(1+max_variance+1) and max_variance*10^18 stay below the 315-bit "
        "LegacyDec limit (stated as calc_guard); beyond it the real code panics and the model returns None (compared by the harness). "
        "Since the repair of the C18 finding the parameter validator (validateExponentialCalculation / provisionComputable) evaluates the worst case "
        "of the provision and rejects parameters for which it panics, so stored parameters need no guard: C13_provision_no_panic_validated "
        "(Model/Authority.v inf_computable is the validator's model, checked by C17)",
    ],
)

# library-level correspondence (Lib/SdkInt.v, Lib/SdkDec.v against the real cosmossdk.io/math), suite LIB
PROP["suites"] = list(PROP["suites"]) + ["LIB"]
PROP["coq"] = list(PROP["coq"]) + ["Check/LibCheck"]
PROP["codes"]["LIB"] = {1: ("sdkmath-Int-operation-differs-from-SdkInt", "mismatch"),
                        2: ("sdkmath-LegacyDec-operation-differs-from-SdkDec", "mismatch"),
                        3: ("checked-and-unchecked-power-differ", "mismatch")}

# translator agreement lemmas (tools/gokernel regenerates Gen/K*.v from /repo on every run)
PROP["agree"] = ['Gen/AgreeInflation', 'Gen/AgreeEpochs']
