PROP = dict(
    title="Disabled conversion means no conversion, by any route",
    suites=["C14"],
    coq=["Properties/C14", "Check/Erc20Check"],
    agree=[],
    codes={
        "C14": {
            1: ("result-class-differs-from-model", "mismatch"),
            2: ("bank-side-differs-from-model", "mismatch"),
            3: ("token-ledger-differs-from-model", "mismatch"),
            4: ("pair-flags-differ-from-model", "mismatch"),
            5: ("another-pair-changed", "mismatch"),
            6: ("parameters-differ-from-model", "mismatch"),
            7: ("malformed-case", "mismatch"),
            11: ("conversion-succeeded-while-disabled", "monitor"),
            12: ("bank-changed-while-disabled", "monitor"),
            13: ("token-ledger-changed-by-rejected-conversion", "monitor"),
            14: ("ordinary-transfer-broken-while-disabled", "monitor"),
        }
    },
    # Go-side monitors (ImplFailure records of harness/c14_helpers.go, reported by name):
    #   keeper-reports-switches-other-than-the-committed-ones   what the erc20 keeper reports (GetParams, GetTokenPair)
    #       differs from the last committed setting (parameter subspace / token-pair record read directly)
    #   operation-on-a-discarded-branch-changed-the-observed-state   a ghost operation left a trace
    #   switch-flip-not-committed   a governance flip (either route) did not reach the store
    level="proof",
    technique="Coq proof (gate theorems for every state, hence every step of every history under arbitrary switch flips; frozen bank side over disabled periods) "
              "+ exhaustive enumeration of the switch x kind x route x receiver cross product and random flip histories on the real erc20 keeper, bank and EVM, "
              "evaluated by vm_compute (model comparison + gate monitors on the COMMITTED switches, read from the stores themselves); "
              "accounts are compared as accounts (the number read from all bytes of the address): 32-byte Cosmos accounts, among them aliases of the EVM-side party "
              "(same last 20 bytes), on the Cosmos side of both messages with bank send-enabled on and off; switch flips by MsgUpdateParams and by the legacy "
              "ParameterChangeProposal route; module accounts (funded) as sender = receiver of both messages; the EVM route also through a forwarder contract (the callee of the transaction is not the token contract; multi-log receipts, monitors: bank side untouched for every pair whose hook route is closed, token ledger = the ordinary transfers); ghost flips on discarded branches followed by conversions (Go-side monitors: the keeper reports the committed switches; "
              "a discarded branch leaves no trace)",
    modelled=[
        "x/erc20/keeper/mint.go MintingEnabled (checks in code order)",
        "x/erc20/keeper/evm_hooks.go PostTxProcessing (early return / continue conditions)",
        "x/erc20/keeper/msg_server.go ConvertCoin/ConvertERC20 and the four internal paths",
        "x/erc20/keeper/proposals.go ToggleConversion; x/erc20/types/params.go",
        "contracts/ERC20MinterBurnerDecimals.sol (honest ledger)",
        "x/bank BlockedAddr, IsSendEnabledCoin, SendCoinsFromModuleToAccount, MsgSend",
        "x/params ParameterChangeProposal handler writing the erc20 subspace (exercised, not modelled: to the model it is a SetParams)",
    ],
    assumptions=[
        "pair ids denote registered pairs with pairwise distinct denominations and contracts (registry: property C15); contracts alive and not paused",
        "message atomicity (a failed message leaves no trace) is cosmos-sdk behaviour, modelled by deliver",
        "disabled-period theorem only: the erc20 module account is a blocked address (checked by the harness) and nothing originates from the module address",
    ],
)
