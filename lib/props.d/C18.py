PROP = dict(
    title="Exported genesis is complete: export, import, export is a fixed point",
    suites=["C18"],
    coq=["Properties/C18", "Check/GenesisCheck"],
    agree=[],
    codes={
        "C18": {
            1: ("model-validate-differs-from-ValidateGenesis-on-export", "mismatch"),
            2: ("model-import-definedness-differs-from-InitChain", "mismatch"),
            3: ("model-export-of-import-differs-from-second-export", "mismatch"),
            4: ("model-answers-differ-from-reimported-chain", "mismatch"),
            5: ("model-validate-differs-from-ValidateGenesis-on-malformed-document", "mismatch"),
            6: ("recomputed-provision-differs", "mismatch"),
            7: ("model-answers-from-export-differ-from-live-chain", "mismatch"),
            10: ("exported-genesis-fails-own-validation", "monitor"),
            11: ("initchain-from-export-fails", "monitor"),
            12: ("second-export-differs-from-first", "monitor"),
            13: ("second-export-raw-json-differs-from-first", "monitor"),
            14: ("query-answer-differs-after-reimport", "monitor"),
        }
    },
    level="proof",
    technique="Coq proof (reachable-state invariant, all histories) over a model of the seven modules' export/import/validate "
              "+ vm_compute correspondence against real export, ValidateGenesis, InitChain of a fresh app from the whole export, second export and module queries",
    modelled=[
        "x/coinswap/keeper/genesis.go InitGenesis/ExportGenesis", "x/coinswap/types/genesis.go ValidateGenesis",
        "x/erc20/genesis.go", "x/erc20/types/genesis.go Validate", "x/csr/genesis.go", "x/csr/types/genesis.go Validate",
        "x/inflation/genesis.go", "x/inflation/types/genesis.go Validate", "x/epochs/genesis.go", "x/epochs/types/genesis.go Validate",
        "x/govshuttle/genesis.go", "x/onboarding/genesis.go", "Subspace.SetParamSet of each module (Model/Authority.v)",
    ],
    assumptions=[
        "strings of genesis documents other than parameter strings are interned by the harness (equal strings <-> equal numbers); "
        "purely syntactic checks on them (sdk.ValidateDenom, bech32/hex address syntax, ParseLptDenom) are recorded flags",
        "store iteration order is not modelled: pools, token pairs and CSRs are compared as sets",
        "fewer than 2^64-1 pools (no uint64 wrap-around of the pool sequence)",
        "the inflation provision computation does not overflow LegacyDec on the stored parameters (calc_guard); "
        "without it InitGenesis panics - see import_without_guard_refuted",
        "genesis block time is not the zero time (then no stored epoch StartTime is the zero-time sentinel)",
    ],
)
