_MODS = ['coinswap', 'erc20', 'csr', 'inflation', 'epochs', 'govshuttle', 'onboarding']
_FIELDS = ['pools', 'pool-by-lpt-denom', 'coinswap-params', 'token-pairs', 'token-pair-by-token', 'token-pair-by-id', 'erc20-params', 'csrs', 'csr-by-nft', 'csr-by-contract', 'turnstile-address', 'csr-params', 'port-address', 'epoch-infos', 'current-epoch', 'period', 'skipped-epochs', 'epochs-per-period', 'epoch-identifier', 'inflation-params', 'onboarding-params']


def _codes():
    c = {}
    for i, m in enumerate(_MODS):
        c[10 + i] = ("model-validate-differs-from-ValidateGenesis-on-export:" + m, "mismatch")
        c[30 + i] = ("model-export-of-import-differs-from-second-export:" + m, "mismatch")
        c[100 + i] = ("exported-genesis-fails-own-validation:" + m, "monitor")
        c[120 + i] = ("second-export-differs-from-first:" + m, "monitor")
        c[130 + i] = ("second-export-raw-json-differs-from-first:" + m, "monitor")
    for i, f in enumerate(_FIELDS):
        c[400 + i] = ("model-answer-differs-from-reimported-chain:" + f, "mismatch")
        c[700 + i] = ("model-answer-from-export-differs-from-live-chain:" + f, "mismatch")
        c[1400 + i] = ("query-answer-differs-after-reimport:" + f, "monitor")
    c[20] = ("model-import-definedness-differs-from-InitChain", "mismatch")
    c[50] = ("model-validate-differs-from-ValidateGenesis-on-malformed-document", "mismatch")
    c[60] = ("recomputed-provision-differs", "mismatch")
    c[110] = ("export-of-reachable-state-not-importable", "monitor")
    return c


PROP = dict(
    title="Exported genesis is complete: export, import, export is a fixed point",
    suites=["C18"],
    coq=["Properties/C18", "Check/GenesisCheck"],
    agree=[],
    codes={"C18": _codes()},
    level="proof",
    technique="Coq proof (reachable-state invariant, all histories) over a model of the seven modules' export/import/validate "
              "+ vm_compute correspondence against real export, ValidateGenesis, InitChain of a fresh app from the whole export, second export and module queries",
    modelled=[
        "x/coinswap/keeper/genesis.go InitGenesis/ExportGenesis", "x/coinswap/types/genesis.go ValidateGenesis",
        "x/erc20/genesis.go", "x/erc20/types/genesis.go Validate", "x/csr/genesis.go", "x/csr/types/genesis.go Validate",
        "x/inflation/genesis.go", "x/inflation/types/genesis.go Validate", "x/epochs/genesis.go", "x/epochs/types/genesis.go Validate",
        "x/govshuttle/genesis.go", "x/onboarding/genesis.go", "Subspace.SetParamSet of each module (Model/Authority.v)",
    ],
    assumptions=[
        "strings of genesis documents other than parameter strings are interned by the harness (equal strings <-> equal numbers); "
        "purely syntactic checks on them (sdk.ValidateDenom, bech32/hex address syntax, ParseLptDenom) are recorded flags",
        "store iteration order is not modelled: pools, token pairs and CSRs are compared as sets",
        "fewer than 2^64-1 pools (no uint64 wrap-around of the pool sequence)",
        "genesis block time is not the zero time (then no stored epoch StartTime is the zero-time sentinel)",
        "history theorem C18_history: the only facts assumed about a history (hist_ok / op_ok) are external ones - "
        "(1) the address the EVM gives to a contract deployed by RegisterCoin is not the address of a registered pair "
        "(TokenPairsProofs.fresh_ok), (2) block heights are not negative; that NFT ids appear only through Register events "
        "of the Turnstile is derived from Model/Csr.v (C18_csr_ids_from_register_events), pool sequence, parameter validity "
        "and the registry invariants are derived from the Coinswap, Authority, TokenPairs and Csr models",
        "stream bulk (1 case per quick run): more than 100 CSRs, token pairs and pools (query.Paginate DefaultLimit = 100); the Coq monitors see it "
        "(the case is evaluated by vm_compute like the others), and two Go-side monitors run on every case: export-omits-stored-objects:<module> "
        "(first export vs the module store read by raw prefix iteration) and reimported-chain-lost-objects:<module> (listing queries paged through all "
        "pages with explicit page requests on both chains); epoch identifiers are not multiplied (they are written by genesis only)",
        "stored token pairs carry well-formed denomination / address strings (RegisterCoin / RegisterERC20 validate them); "
        "checked on every case by the ValidateGenesis monitor",
    ],
)
