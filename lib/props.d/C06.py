PROP = dict(
    title="Replicas agree: execution is deterministic and survives restarts and reads",
    suites=["C06"],
    coq=["Properties/C06", "Check/ChainCheck"],
    agree=[],
    codes={
        "C06": {
            1: ("tx-result-classes-differ-from-model", "mismatch"),
            2: ("epoch-records-differ-from-model", "mismatch"),
            3: ("inflation-schedule-or-supply-differs-from-model", "mismatch"),
            4: ("coinswap-projection-differs-from-model", "mismatch"),
            5: ("csr-projection-differs-from-model", "mismatch"),
            6: ("parameters-differ-from-model", "mismatch"),
            7: ("model-halts-in-begin-block", "mismatch"),
            10: ("apphash-differs-between-replicas", "monitor"),
            11: ("tx-results-differ-between-replicas", "monitor"),
            12: ("exported-genesis-differs-between-replicas", "monitor"),
        }
    },
    level="proof",
    technique="Coq proof over a node model (functional execution + stutter invariance under restarts/reads, induction over histories) + vm_compute correspondence + four-replica differential on the real app (restart at every boundary, interleaved reads); PARTIAL: runtime nondeterminism (map order, scheduling, DB) is explored, not proved",
    modelled=[
        "app/app.go SetOrderBeginBlockers/SetOrderEndBlockers (epochs first with the inflation listener; gov executes passed proposals), store mounting",
        "x/epochs/keeper/abci.go BeginBlocker (Model/Epochs.v)",
        "x/inflation/keeper/hooks.go AfterEpochEnd, inflation.go MintAndAllocateInflation (Model/Inflation.v)",
        "x/coinswap/keeper msg_server.go, keeper.go, swap.go (Model/Coinswap.v)",
        "x/csr/keeper/evm_hooks.go PostTxProcessing (Model/Csr.v)",
        "MsgUpdateParams handlers of coinswap/inflation/csr/erc20 (Model/Authority.v)",
        "cosmos-sdk baseapp FinalizeBlock/Commit/CheckTx/Simulate/Query discipline (modelled, trusted)",
    ],
    assumptions=[
        "PARTIAL: Go map iteration order, goroutine scheduling, database/IAVL behaviour and CometBFT cannot be exhibited by the Gallina model; they are explored by the four-replica differential and the static scan, not proved",
        "the four replicas run in one process: package-level Go state is shared between them (replica D is run after the others so that state left behind in package-level variables can show up as a divergence at early heights); a stale package-level cache that all replicas share shows up as a broken correspondence, not as a replica divergence",
        "replicas A and D see nothing but FinalizeBlock/Commit (and the compared exports); the generator's dry runs and the observer's keeper reads are made on the noisy replica C, on branches of its committed multistore",
        "the EVM execution of a transaction (receipt logs, gas used) is an oracle input of the model; conversions, governance bookkeeping and malformed bytes are opaque transactions whose result class is an oracle input",
        "the fee collector and the distribution module account are outside the compared projection (x/distribution sweeps them every block)",
        "static scan allow-list = the occurrences of map ranges with order-dependent bodies, time.Now, go statements, math/rand and floats in the consensus-path packages of the current tree, keyed by file + function + construct",
    ],
)
