PROP = dict(
    title="Contract-secured-revenue fee split is exact and leaves nothing behind",
    suites=["C10"],
    coq=["Properties/C10", "Check/CsrCheck"],
    agree=[],
    functional=False,
    codes={
        "C10": {
            20: ("hook-fails-under-the-hypotheses-of-never-fails", "monitor"),
            21: ("hook-succeeds-where-the-model-fails", "mismatch"),
            22: ("fee-collector-balance-differs-from-spec", "monitor"),
            23: ("csr-module-account-balance-differs-from-spec", "monitor"),
            24: ("supply-differs-from-spec", "monitor"),
            25: ("turnstile-balances-differ-from-spec", "monitor"),
            26: ("csr-revenue-differs-from-spec", "monitor"),
            27: ("csr-txs-differs-from-spec", "monitor"),
            28: ("turnstile-account-balance-differs-from-spec", "monitor"),
            29: ("hook-fails-where-the-model-succeeds-outside-never-fails", "mismatch"),
            30: ("money-moved-without-a-fee", "monitor"),
            31: ("fee-collector-did-not-lose-exactly-the-fee", "monitor"),
            32: ("csr-module-account-balance-changed", "monitor"),
            33: ("burn-is-not-fee-minus-credited-share", "monitor"),
            34: ("turnstile-account-not-credited-floor-fee-share", "monitor"),
            35: ("turnstile-balances-not-credited-floor-fee-share", "monitor"),
            36: ("revenue-not-increased-by-floor-fee-share", "monitor"),
            37: ("txs-not-increased-by-one", "monitor"),
        }
    },
    level="proof",
    technique="Coq proof (exact split for all shares in [0,1] and all fees; induction over transaction histories) + vm_compute correspondence against the real csr hook, bank and EVM/Turnstile (synthetic receipts at hook level, and real signed EVM transactions through EvmKeeper.EthereumTx)",
    modelled=["x/csr/keeper/evm_hooks.go PostTxProcessing/processEvents", "x/csr/keeper/evm.go CallMethod (distributeFees)", "x/csr/types/params.go ValidateShares",
              "contracts/turnstile.sol distributeFees/balances", "cosmossdk.io/math Int.Mul/Sub/Add, LegacyDec.Mul/TruncateInt"],
    assumptions=[
        "fee < 2^255 (LegacyDec.Mul panics above 315 bits; needs a supply of 5.7e76 base units), balances[nft] + fee and revenue + fee < 2^256, txs < 2^64 - 1",
        "gas used > 0 for the txs+1 / split statements (the hook returns before any accounting when receipt.GasUsed = 0; a real EVM transaction uses at least 21000 gas)",
        "the contract at the stored Turnstile address is the one deployed by the module (honest ledger: distributeFees adds msg.value to balances[nft], reverts on zero value)",
        "bank balances are non-negative; the csr module account has burner permission and exists",
        "a failed hook leaves no trace (ethermint reverts the transaction; modelled, exercised by the harness through a branched context)",
        "real-transaction cases (EvmKeeper.EthereumTx): nobody pays the fee at keeper level, so the harness puts gasLimit*gasPrice into the fee collector first, and the part ethermint's RefundGas returns to the sender after the hooks (checked to be exactly (gasLimit-gasUsed)*gasPrice) is added back to the observed collector balance; receipt.GasUsed is ethermint's max(gasLimit*MinGasMultiplier, consumed)",
    ],
)

# library-level correspondence (Lib/SdkInt.v, Lib/SdkDec.v against the real cosmossdk.io/math), suite LIB
PROP["suites"] = list(PROP["suites"]) + ["LIB"]
PROP["coq"] = list(PROP["coq"]) + ["Check/LibCheck"]
PROP["codes"]["LIB"] = {1: ("sdkmath-Int-operation-differs-from-SdkInt", "mismatch"),
                        2: ("sdkmath-LegacyDec-operation-differs-from-SdkDec", "mismatch"),
                        3: ("checked-and-unchecked-power-differ", "mismatch")}

# translator agreement lemmas (tools/gokernel regenerates Gen/K*.v from /repo on every run)
PROP["agree"] = ['Gen/AgreeCsr']
