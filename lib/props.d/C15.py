PROP = dict(
    title="Token-pair registry stays a consistent one-to-one mapping",
    suites=["C15"],
    coq=["Properties/C15", "Check/TokenPairsCheck"],
    agree=[],
    codes={
        "C15": {
            # model vs implementation on the projection
            2: ("result-class-differs-from-model", "mismatch"),
            3: ("pair-table-differs-from-model", "mismatch"),
            4: ("denomination-index-differs-from-model", "mismatch"),
            5: ("address-index-differs-from-model", "mismatch"),
            6: ("enable-parameter-differs-from-model", "mismatch"),
            7: ("listing-differs-from-pair-table", "mismatch"),
            8: ("lookup-by-token-differs-from-model", "mismatch"),
            9: ("lookup-by-id-differs-from-model", "mismatch"),
            19: ("observation-incomplete", "mismatch"),
            22: ("fresh-contract-address-already-registered", "mismatch"),
            # the property's own predicates, evaluated on implementation states
            10: ("registry-not-one-to-one", "monitor"),
            11: ("listing-differs-from-what-lookups-reach", "monitor"),
            12: ("lookups-by-id-address-denomination-disagree", "monitor"),
            13: ("rejected-operation-changed-registry", "monitor"),
            14: ("registration-of-registered-denomination-or-contract-accepted", "monitor"),
            15: ("toggle-changed-more-than-the-flag", "monitor"),
            16: ("removal-left-an-entry-or-touched-another-pair", "monitor"),
            17: ("lookup-by-hex-shaped-denomination-answers-pair-with-that-address", "monitor"),
            18: ("export-import-changed-registry", "monitor"),
            20: ("toggle-did-not-flip-the-designated-pair", "monitor"),
            21: ("pair-with-vanished-contract-not-removed", "monitor"),
        }
    },
    level="proof",
    technique="Coq proof (registry invariant over three std++ gmaps, preserved by every operation, induction over operation "
              "histories; exact characterisation of lookup agreement) + vm_compute correspondence and monitors against the "
              "real erc20 keeper driven through the message router",
    modelled=[
        "x/erc20/keeper/token_pairs.go GetTokenPairs/GetTokenPairID/GetTokenPair/SetTokenPair/DeleteTokenPair and index accessors",
        "x/erc20/keeper/proposals.go RegisterCoin/RegisterERC20/CreateCoinMetadata (registry checks)/ToggleConversion",
        "x/erc20/keeper/msg_server.go RegisterCoinProposal/RegisterERC20Proposal/ToggleTokenConversionProposal/UpdateParams (authority), "
        "ConvertCoin/ConvertERC20 up to the self-destruct branch",
        "x/erc20/keeper/mint.go MintingEnabled (registry part)",
        "x/erc20/genesis.go InitGenesis/ExportGenesis",
        "x/erc20/types/token_pair.go NewTokenPair/GetID",
    ],
    assumptions=[
        "pair id = (address, denomination): sha256 is collision free on the strings hashed by GetID, and stored Erc20Address strings are EIP-55 (true of every pair the keeper writes)",
        "hypothesis fresh_ok of the history theorems: the address the EVM gives to the contract deployed by RegisterCoin is not a registered address "
        "(RegisterCoin does not check the address index; checked on every generated step, code 22)",
        "lookup by denomination agrees with the other lookups only under not_shadowed (exact, C15_lookup_by_denom_iff): the code at HEAD answers the pair whose "
        "ADDRESS a 40-hex-digit denomination spells when such a pair is registered (C15_lookup_by_denom_unconditional_refuted; real-code replay "
        "corpus/C15-hex-denomination-shadowed-by-address.json).  Default runs do not generate such histories; VERIF_C15_SHADOW=1 adds them and monitor 17 reports them",
        "checks of RegisterCoin/RegisterERC20 that do not read the registry (bank supply, bank metadata, 'CANTO' in the base, ERC-20 name/symbol/decimals query) "
        "enter the model as the recorded input 'ext', computed by the harness from bank/EVM queries before the call",
        "self-destruct is emulated by statedb.Suicide+Commit; the removal is done by the real ConvertCoin/ConvertERC20 handlers",
        "genesis import = erc20.InitGenesis of the JSON round-tripped, validated export on the erc20 store emptied by raw deletes (module level; whole-app export is C18)",
        "Convert messages use receiver = sender (a plain account) and pass the handlers' stateless validation; conversions on live contracts are only required to leave the registry unchanged",
    ],
)
