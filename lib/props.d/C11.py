PROP = dict(
    title="Onboarding never loses or touches funds beyond the transferred amount",
    suites=["C11"],
    coq=["Properties/C11", "Check/OnboardingCheck"],
    agree=[],
    codes={
        "C11": {
            # model vs implementation on the projection.  The model is started from the implementation's own observed
            # pre-state and run on the very answers the erc20 module received from the EVM.
            1: ("result-class-differs-from-model", "mismatch"),
            2: ("acknowledgement-differs-from-model", "mismatch"),
            3: ("balances-differ-from-model-on-same-evm-answers", "mismatch"),
            4: ("ledgers-differ-from-honest-contract-model", "mismatch"),
            # the property's own predicates on the implementation's observed balances (no model function involved)
            10: ("swapped-plus-converted-plus-left-is-not-the-amount", "monitor"),
            11: ("prior-balance-of-recipient-reduced", "monitor"),
            12: ("swap-not-below-threshold-or-not-exactly-threshold", "monitor"),
            13: ("partial-swap", "monitor"),
            14: ("acted-despite-guard", "monitor"),
            15: ("partial-or-unbacked-conversion", "monitor"),
            16: ("acknowledgement-replaced", "monitor"),
            17: ("bystander-or-supply-changed", "monitor"),
            18: ("panic-left-a-trace", "monitor"),
        }
    },
    level="proof",
    technique="Coq proof over an arbitrary EVM (Model/Convert.v evm_model) composed with the AMM model (Model/Coinswap.v trade_buy) and by induction over packet histories; "
              "vm_compute correspondence: the real OnboardingKeeper.OnRecvPacket driven with vouchers credited as the transfer module does, its erc20 keeper on the "
              "C04 recording/failure-injecting EVM keeper wrapper, the model re-run from the observed pre-state on the recorded EVM answers; monitors on observed balances",
    modelled=[
        "x/onboarding/keeper/ibc_callbacks.go OnRecvPacket (guards, swap outside any branch, conversion on a cache branch, acknowledgement)",
        "x/coinswap/keeper/swap.go TradeInputForExactOutput, calculateWithExactOutput, swapCoins, GetOutputPrice, GetMaximumSwapAmount (keeper level, with the partial state a failure would leave)",
        "x/erc20/keeper/msg_server.go ConvertCoin, convertCoinNativeCoin, convertCoinNativeERC20 (Model/Convert.v, reused)",
        "ibc/utils.go GetTransferSenderRecipient (parsable / not parsable), GetReceivedCoin (the harness computes the received denomination independently)",
        "x/onboarding/ibc_middleware.go OnRecvPacket (the callback runs only after a successful transfer acknowledgement: the credit precedes it)",
    ],
    assumptions=[
        "the voucher the harness credits (and the model's packet denomination) is the one ibc-go's transfer module mints: hash of dstPort/dstChannel/ + the FULL raw packet denomination, "
        "computed with ibc-go's ParseDenomTrace independently of /repo/ibc/utils.go; raw denominations with 0, 1 and 2 earlier hops are generated, and for the multi-hop ones the observation "
        "watches the recipient's prior balance of the one-hop voucher of the same base denomination (which has a pool and a pair)",
        "module-account recipients include ModuleAccounts stored under names the app's permission table does not know (not on the bank blocklist): the guard is about the stored account's type",
        "the model is handed the parameters the history COMMITTED (through the keeper, MsgUpdateParams with the gov authority, or a legacy ParameterChangeProposal), not the ones the keeper "
        "reports; before a quarter of the packets (always in a replay) a different parameter set is written on a branch that is discarded, and the Go-side monitor "
        "`onboarding-params-differ-from-last-committed-update` requires GetParams to equal the last committed update. An empty whitelist is never committed through the legacy route "
        "(amino JSON `null` decoded over the stored value by Subspace.Update would leave the old list in place)",
        "a panic inside the callback (sdkmath overflow in GetOutputPrice for reserves near 2^200, index out of range on a topic-less log in monitorApprovalEvent) aborts the delivering transaction, "
        "which baseapp rolls back together with the transfer module's credit: modelled by `recv`; the harness runs credit + callback on one cache branch with recover and checks nothing remains",
        "the conversion branch (ctx.CacheContext, written only when ConvertCoin returns no error) is the code's own; that a dropped branch leaves no trace in bank or EVM state is cosmos-sdk store behaviour, "
        "validated by comparing all observed balances and, for guarded packets, the complete bank dump",
        "the code compares SpendableCoins with the threshold, the model the balance: the two coincide because this app registers no vesting account type (x/auth/vesting is not wired in; storing a DelayedVestingAccount through the account keeper fails with `does not have a registered interface`), so no account can hold locked coins",
        "GetStandardDenom succeeds (set at genesis); packet data unmarshals (the transfer module has decoded it before the callback runs); the amount is positive (ICS-20 validation)",
        "MintingEnabled inside ConvertCoin (erc20 enabled, recipient not a blocked address) and `contract account has code` are oracle booleans recorded per packet (C14 / C04 own them); "
        "the token-pair registry lookup is an oracle (C15 owns it)",
        "amounts, balances and supplies on the erc20 side stay below 2^256 (as in C04)",
        "theorems about balances are for a user recipient and a transferred denomination other than the standard coin; module-account recipients are covered by the guard theorem; "
        "a packet returning the standard coin itself is exercised by the harness (model and code agree: the swap is refused for equal denominations) but excluded from the accounting theorems",
        "ERC-20 side of the accounting theorem is the balance AS ANSWERED by the contract before/after (arbitrary EVM); the harness additionally compares the real balances of the honest contract",
        "an error acknowledgement makes ibc-go's core discard the state changes of the receive (including the credit); this is outside the callback and not modelled — the callback itself changes nothing in that case (theorem C11_ack_error_only_unparsable)",
    ],
)
