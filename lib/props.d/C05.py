PROP = dict(
    title="Inflation mints exactly the epoch provision and distributes all of it",
    suites=["C05"],
    coq=["Properties/C05", "Check/InflationCheck"],
    agree=[],
    codes={
        "C05": {
            1: ("supply-not-grown-by-integer-part-of-provision", "monitor"),
            2: ("fee-collector-not-credited-floor-of-staking-share", "monitor"),
            3: ("inflation-module-account-not-empty", "monitor"),
            4: ("distribution-account-not-credited-remainder", "monitor"),
            5: ("community-pool-not-credited-remainder", "monitor"),
            6: ("skipped-epochs-not-counted-per-daily-epoch", "monitor"),
            9: ("hook-panics-differ-from-spec", "monitor"),
            # schedule part: belongs to property C13 (which shares the suite).  The checker continues every step from the
            # implementation's observed state (period, stored provision), so a difference here cannot cascade into the
            # ledger part; it is C13's to report and is ignored here (a change of the decay formula does not break C05)
            7: ("period-differs", "ignore"),
            8: ("stored-provision-differs", "ignore"),
            15: ("bonded-ratio-differs-from-truncated-quotient", "ignore"),
            14: ("genesis-provision-differs", "ignore"),
            # bookkeeping
            10: ("params-or-static-state-differ", "mismatch"),
        }
    },
    level="proof",
    technique="Coq proofs (exactness of the truncated staking share, conservation of the allocation, induction over histories of "
              "clock blocks with parameter changes) + vm_compute correspondence against the real hooks through EpochsKeeper.BeginBlocker",
    modelled=["x/inflation/keeper/hooks.go AfterEpochEnd",
              "x/inflation/keeper/inflation.go MintAndAllocateInflation / MintCoins / AllocateExponentialInflation / GetProportions / BondedRatio",
              "x/epochs/keeper/abci.go BeginBlocker (Model/Epochs.v)", "app/app.go: inflation is the only epochs listener"],
    assumptions=[
        "ledger = projection onto the mint denomination: bank MintCoins / SendCoinsFromModuleToModule / distribution FundCommunityPool "
        "move exactly the stated amounts (cosmos-sdk, validated by the correspondence runs, not proved); other denominations held by "
        "the inflation module account are swept to the community pool as well and are outside the projection",
        "bank supply and balances stay below 2^256 (unbounded integers in the model)",
        "the mint denomination does not change during a history",
        "the daily-epoch count (mints + skipped = elapsed epochs) is claimed for configured identifier = \"day\": the disabled branch "
        "compares with the literal \"day\"",
        "a panic in the hook (provision >= 2^256 tokens, negative provision from unvalidated state, overflow in the recomputation) "
        "aborts BeginBlocker; the model returns None and the theorems speak about completed calls",
    ],
)

# translator agreement lemmas (tools/gokernel regenerates Gen/K*.v from /repo on every run)
PROP["agree"] = ['Gen/AgreeInflation', 'Gen/AgreeEpochs']
