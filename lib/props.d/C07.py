PROP = dict(
    title="Only a message's required signers can be debited by it",
    suites=["C07"],
    coq=["Properties/C07", "Check/SignersCheck"],
    agree=[],
    codes={
        "C07": {
            # model vs implementation
            1: ("derived-signers-differ-from-model-for-malformed-paying-field", "mismatch"),
            2: ("result-class-differs-from-model", "mismatch"),
            3: ("ledgers-after-message-differ-from-model", "mismatch"),
            # the property's own predicates, evaluated on the implementation's observations
            10: ("account-other-than-signer-or-counterparty-debited", "monitor"),
            11: ("derived-signers-not-exactly-the-named-payer", "monitor"),
        }
    },
    level="proof",
    technique="Coq proof (signer derivation per message type; who-is-debited derived from the exact balance equations of the coinswap model and "
              "the exactness theorem of the conversion model over the honest token contract; induction over message histories) + vm_compute "
              "correspondence: the real codec's GetMsgV1Signers and the real message servers (through MsgServiceRouter) on generated messages, "
              "complete ledger diff per message",
    modelled=[
        "app/app.go signing.Options: bech32 address codec, DefineCustomGetSigners for MsgSwapOrder and MsgConvertERC20",
        "x/coinswap/types/msgs.go CreateGetSignersFromMsgSwapOrderV2 (input.address through the address codec)",
        "x/erc20/types/msg.go GetSignersFromMsgConvertERC20V2 / MsgConvertERC20.GetSigners (common.HexToAddress of the sender string)",
        "proto/canto/coinswap/v1/tx.proto, proto/canto/erc20/v1/tx.proto: cosmos.msg.v1.signer = \"sender\" on MsgAddLiquidity, MsgRemoveLiquidity, MsgConvertCoin",
        "x/coinswap/keeper/msg_server.go, types/validation.go: address fields read with sdk.AccAddressFromBech32 (then Model/Coinswap.v: Swap, AddLiquidity, RemoveLiquidity)",
        "x/erc20/keeper/msg_server.go ConvertCoin / ConvertERC20: sender/receiver/contract decoding (then Model/Convert.v: the four conversion paths, honest ERC20MinterBurnerDecimals)",
    ],
    assumptions=[
        "the paying field spells an ordinary user account: nobody can sign for a module or reserve (hash) address, so such a message never passes signature verification; user, reserve and module addresses are pairwise different (no hash collision)",
        "sdk.AccAddressFromBech32 (message servers) and address.Bech32Codec.StringToBytes (signing context) decode alike (both: bech32.DecodeAndConvert + prefix check + VerifyAddressFormat): one decoder in the model; any difference shows as a monitor failure because signer bytes come from the real codec and debits from the real keepers",
        "what common.HexToAddress reads out of a string that is not a hex address is an oracle input recorded per message (such a message is rejected by the handler)",
        "coinswap parameters are valid (types/params.go validators; checked on every update): 0 <= fee, tax < 1, creation fee >= 0",
        "token side: the shipped ERC20MinterBurnerDecimals (honest ledger); an arbitrary registered contract can of course move its holders' tokens at will (C04 covers what the module accepts)",
        "MintingEnabled and `contract has code` are oracle booleans recorded per message (C14 owns the gate)",
        "message atomicity (a failed message leaves no trace) is baseapp behaviour, modelled by deliver and exercised by running every message on a branch written only on success",
        "in the model state a pair's coin denomination is a ledger of its own, distinct from the coinswap-world denominations (the per-message theorem is unaffected: one message touches one of the two)",
        "cosmos-sdk bank: no vesting accounts, no send restrictions/hooks beyond those of app.go",
    ],
)
