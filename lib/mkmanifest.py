#!/usr/bin/env python3
"""Regenerate /verif/MANIFEST.json from lib/props.py (claimed checks) and lib/not_applicable.json."""
import json, os, sys
ROOT = os.path.dirname(os.path.dirname(os.path.abspath(__file__)))
sys.path.insert(0, os.path.join(ROOT, "lib"))
from props import PROPS

ids = [json.loads(l)["id"] for l in open(os.path.join(ROOT, "properties.jsonl"))]
na_path = os.path.join(ROOT, "lib", "not_applicable.json")
na = json.load(open(na_path)) if os.path.exists(na_path) else {}
baseline = json.load(open("/root/.vp/BASELINE.json"))["cmd"] if os.path.exists("/root/.vp/BASELINE.json") else ""
checks = []
for pid in ids:
    if pid not in PROPS:
        continue
    c = PROPS[pid]
    checks.append(dict(
        property_id=pid,
        quick_cmd="./check %s quick" % pid,
        thorough_cmd="./check %s thorough" % pid,
        evidence_file="/verif/evidence/%s.json" % pid,
        replay_cmd_template="./check replay {path}",
        engine="coq-model+correspondence",
        level_claimed=dict(category=c["level"], text=c.get("level_text", c["technique"]), design_ref=c.get("design_ref", "DESIGN.md section 7, " + pid)),
        level_note="Trusted: Coq 8.16.1 kernel + vm_compute; the hand-written Gallina model of " + "; ".join(c.get("modelled", [])) +
                   "; the Go harness and its generators (correspondence is differential testing). Assumes: " + "; ".join(c.get("assumptions", [])),
        technique=c["technique"],
    ))
m = dict(
    version=1,
    setup_cmd="./check setup",
    hooks=dict(guard="verif", enable="go test -c -tags verif (the harness module replaces the Canto module by /repo)",
               baseline_off_cmd=baseline, source_commits=[], add_only=True),
    engines=[dict(name="coq-model+correspondence", path="/verif/coq + /verif/harness + /verif/lib/driver.py",
                  serves_properties=[c["property_id"] for c in checks],
                  kind_free_text="Hand-written Gallina model with machine-checked theorems (Coq 8.16.1); tie to /repo by a Go harness that drives the real code and Coq-side checkers (vm_compute) comparing it with the model, plus a go/ast translator regenerating arithmetic kernels with agreement lemmas")],
    checks=checks,
    notes="See DESIGN.md. One VIOLATION line per failing check; replay files under /verif/replays.",
    not_applicable=[dict(property_id=p, reason=na.get(p, "check not built yet in this round (work in progress); see DESIGN.md section 7 for the planned theorem"))
                    for p in ids if p not in PROPS],
)
json.dump(m, open(os.path.join(ROOT, "MANIFEST.json"), "w"), indent=1)
print("claimed:", [c["property_id"] for c in checks])
