#!/usr/bin/env python3
"""Derive /verif/harness/go.mod and go.sum from /repo's current go.mod/go.sum.

The harness is an external module that `replace`s the Canto module by /repo, so
every build compiles /repo's *current working tree*.  A minimal go.mod does not
work offline ("module lookup disabled"), so the require/replace blocks of
/repo/go.mod are copied verbatim.
"""
import os, re, sys

REPO = os.environ.get("VERIF_REPO", "/repo")
HERE = os.path.dirname(os.path.abspath(__file__))
HARNESS = os.path.join(os.path.dirname(HERE), "harness")


def derive(repo=REPO, harness=HARNESS):
    src = open(os.path.join(repo, "go.mod")).read()
    m = re.search(r"^module\s+(\S+)", src, re.M)
    mod = m.group(1)
    body = src[m.end():]
    # drop toolchain line (we run with GOTOOLCHAIN=local); keep the go line as is
    body = re.sub(r"^toolchain\s+\S+\s*$", "", body, flags=re.M)
    # per-iteration loop variable semantics for harness code need go >= 1.22
    body = re.sub(r"^go\s+\S+\s*$", "go 1.22", body, flags=re.M)
    out = "module verif/harness\n" + body
    out += "\nrequire %s v8.0.0\n" % mod
    out += "\nreplace %s => %s\n" % (mod, repo)
    out += "\nrequire pgregory.net/rapid v1.3.0 // indirect\n" if False else ""
    path = os.path.join(harness, "go.mod")
    old = open(path).read() if os.path.exists(path) else None
    if old != out:
        open(path, "w").write(out)
    sums = open(os.path.join(repo, "go.sum")).read()
    spath = os.path.join(harness, "go.sum")
    olds = open(spath).read() if os.path.exists(spath) else None
    if olds != sums:
        open(spath, "w").write(sums)
    return mod


if __name__ == "__main__":
    print(derive())
