// antelist prints, as a Coq file (Gen/AnteTables.v style), the tables of the
// transaction-admission code of the Canto source tree under $VERIF_REPO
// (default /repo, or the first command-line argument):
//
//   - the ordered decorator list of every chain-building function of
//     app/ante/handler_options.go (every function that returns
//     sdk.ChainAnteDecorators(...)),
//   - what the extension-option switch of app/ante/ante.go switches on, the
//     type URL of each case with the handler the case assigns, the handler of
//     the default clause ("" = none: the clause returns an error), and the
//     handlers of the no-option branch with their conditions,
//   - the DisabledAuthzMsgs entries of the ante.HandlerOptions literal in
//     app/app.go.
//
// A decorator is printed as  <import path>.<call or composite literal as written>;
// a message type as  <import path>.<type name>.
//
// Standard library only (go/parser, go/ast, go/printer).  Build:
//
//	cd tools/antelist && GO111MODULE=off go build -o ../../build/antelist .
//
// The same extraction is compiled into the harness (harness/c19_tables.go), which
// runs it on every check and ships the tables inside each case file; the Coq
// checker compares them with the reference tables of coq/Model/Ante.v.  This
// program is the stand-alone form of that step.
package main

import (
	"bytes"
	"fmt"
	"go/ast"
	"go/parser"
	"go/printer"
	"go/token"
	"os"
	"path/filepath"
	"strconv"
	"strings"
)

type chain struct {
	Name       string
	Decorators []string
}

type tables struct {
	Chains        []chain
	SwitchOn      string
	Switch        [][2]string
	SwitchDefault string
	Plain         []string
	Disabled      []string
}

func src(fset *token.FileSet, n ast.Node) string {
	if n == nil {
		return ""
	}
	var b bytes.Buffer
	if err := printer.Fprint(&b, fset, n); err != nil {
		return "<unprintable>"
	}
	return strings.Join(strings.Fields(b.String()), " ")
}

// imports maps the local name of each import to its path.
func imports(f *ast.File) map[string]string {
	m := map[string]string{}
	for _, im := range f.Imports {
		p, _ := strconv.Unquote(im.Path.Value)
		name := p[strings.LastIndex(p, "/")+1:]
		if im.Name != nil {
			name = im.Name.Name
		}
		m[name] = p
	}
	return m
}

// qualify prints an expression with its leading package qualifier replaced by the import path.
func qualify(fset *token.FileSet, imp map[string]string, e ast.Expr) string {
	head := e
	switch x := e.(type) {
	case *ast.CallExpr:
		head = x.Fun
	case *ast.CompositeLit:
		head = x.Type
	}
	text := src(fset, e)
	switch h := head.(type) {
	case *ast.SelectorExpr:
		if id, ok := h.X.(*ast.Ident); ok {
			if p, ok := imp[id.Name]; ok {
				return p + strings.TrimPrefix(text, id.Name)
			}
		}
	case *ast.Ident:
		return "local." + text
	}
	return text
}

func extractChains(fset *token.FileSet, f *ast.File) []chain {
	imp := imports(f)
	var out []chain
	for _, d := range f.Decls {
		fd, ok := d.(*ast.FuncDecl)
		if !ok || fd.Body == nil {
			continue
		}
		ast.Inspect(fd.Body, func(n ast.Node) bool {
			call, ok := n.(*ast.CallExpr)
			if !ok {
				return true
			}
			sel, ok := call.Fun.(*ast.SelectorExpr)
			if !ok || sel.Sel.Name != "ChainAnteDecorators" {
				return true
			}
			c := chain{Name: fd.Name.Name}
			for _, a := range call.Args {
				c.Decorators = append(c.Decorators, qualify(fset, imp, a))
			}
			out = append(out, c)
			return false
		})
	}
	return out
}

// handlerAssigned returns the right-hand side of the first assignment to the
// variable anteHandler inside the statements, "" when there is none.
func handlerAssigned(fset *token.FileSet, stmts []ast.Stmt) string {
	found := ""
	for _, s := range stmts {
		ast.Inspect(s, func(n ast.Node) bool {
			as, ok := n.(*ast.AssignStmt)
			if !ok || found != "" {
				return found == ""
			}
			for i, l := range as.Lhs {
				if id, ok := l.(*ast.Ident); ok && id.Name == "anteHandler" && i < len(as.Rhs) {
					found = src(fset, as.Rhs[i])
				}
			}
			return true
		})
	}
	return found
}

// plainBranch lists the handler assignments below a clause of the type switch,
// each with the condition of the innermost enclosing if/else.
func plainBranch(fset *token.FileSet, clause string, stmts []ast.Stmt, cond string, out *[]string) {
	for _, s := range stmts {
		switch x := s.(type) {
		case *ast.AssignStmt:
			for i, l := range x.Lhs {
				if id, ok := l.(*ast.Ident); ok && id.Name == "anteHandler" && i < len(x.Rhs) {
					*out = append(*out, clause+" | "+cond+" | "+src(fset, x.Rhs[i]))
				}
			}
		case *ast.IfStmt:
			c := src(fset, x.Cond)
			plainBranch(fset, clause, x.Body.List, "if "+c, out)
			switch el := x.Else.(type) {
			case *ast.BlockStmt:
				plainBranch(fset, clause, el.List, "else "+c, out)
			case *ast.IfStmt:
				plainBranch(fset, clause, []ast.Stmt{el}, "else "+c, out)
			}
		case *ast.BlockStmt:
			plainBranch(fset, clause, x.List, cond, out)
		}
	}
}

func extractSwitch(fset *token.FileSet, f *ast.File, t *tables) {
	for _, d := range f.Decls {
		fd, ok := d.(*ast.FuncDecl)
		if !ok || fd.Body == nil || fd.Name.Name != "NewAnteHandler" {
			continue
		}
		ast.Inspect(fd.Body, func(n ast.Node) bool {
			switch sw := n.(type) {
			case *ast.SwitchStmt:
				hdr := src(fset, sw.Tag)
				if sw.Init != nil {
					hdr = src(fset, sw.Init) + "; " + hdr
				}
				if t.SwitchOn != "" {
					t.SwitchOn += " || " + hdr // a second switch would be news
				} else {
					t.SwitchOn = hdr
				}
				for _, c := range sw.Body.List {
					cc := c.(*ast.CaseClause)
					h := handlerAssigned(fset, cc.Body)
					if cc.List == nil {
						t.SwitchDefault = h
						continue
					}
					for _, e := range cc.List {
						key := src(fset, e)
						if bl, ok := e.(*ast.BasicLit); ok && bl.Kind == token.STRING {
							if u, err := strconv.Unquote(bl.Value); err == nil {
								key = u
							}
						}
						t.Switch = append(t.Switch, [2]string{key, h})
					}
				}
				return false
			case *ast.TypeSwitchStmt:
				for _, c := range sw.Body.List {
					cc := c.(*ast.CaseClause)
					name := "default"
					if cc.List != nil {
						var ts []string
						for _, e := range cc.List {
							ts = append(ts, src(fset, e))
						}
						name = "case " + strings.Join(ts, ", ")
					}
					plainBranch(fset, name, cc.Body, "always", &t.Plain)
				}
				return false
			}
			return true
		})
	}
}

func extractDisabled(fset *token.FileSet, f *ast.File, t *tables) {
	imp := imports(f)
	ast.Inspect(f, func(n ast.Node) bool {
		cl, ok := n.(*ast.CompositeLit)
		if !ok {
			return true
		}
		sel, ok := cl.Type.(*ast.SelectorExpr)
		if !ok || sel.Sel.Name != "HandlerOptions" {
			return true
		}
		if x, ok := sel.X.(*ast.Ident); !ok || imp[x.Name] == "" || !strings.HasSuffix(imp[x.Name], "/app/ante") {
			return true
		}
		for _, el := range cl.Elts {
			kv, ok := el.(*ast.KeyValueExpr)
			if !ok {
				continue
			}
			if k, ok := kv.Key.(*ast.Ident); !ok || k.Name != "DisabledAuthzMsgs" {
				continue
			}
			lst, ok := kv.Value.(*ast.CompositeLit)
			if !ok {
				t.Disabled = append(t.Disabled, "<not a literal: "+src(fset, kv.Value)+">")
				continue
			}
			for _, e := range lst.Elts {
				t.Disabled = append(t.Disabled, disabledEntry(fset, imp, e))
			}
		}
		return true
	})
}

// disabledEntry resolves  sdk.MsgTypeURL(&pkg.Type{})  to  <import path of pkg>.Type ;
// a string literal stands for itself; anything else is printed as written.
func disabledEntry(fset *token.FileSet, imp map[string]string, e ast.Expr) string {
	if bl, ok := e.(*ast.BasicLit); ok && bl.Kind == token.STRING {
		if u, err := strconv.Unquote(bl.Value); err == nil {
			return u
		}
	}
	if call, ok := e.(*ast.CallExpr); ok && len(call.Args) == 1 {
		if sel, ok := call.Fun.(*ast.SelectorExpr); ok && sel.Sel.Name == "MsgTypeURL" {
			if un, ok := call.Args[0].(*ast.UnaryExpr); ok && un.Op == token.AND {
				if cl, ok := un.X.(*ast.CompositeLit); ok && len(cl.Elts) == 0 {
					if ts, ok := cl.Type.(*ast.SelectorExpr); ok {
						if id, ok := ts.X.(*ast.Ident); ok && imp[id.Name] != "" {
							return imp[id.Name] + "." + ts.Sel.Name
						}
					}
				}
			}
		}
	}
	return src(fset, e)
}

func extract(repo string) (tables, error) {
	var t tables
	fset := token.NewFileSet()
	parse := func(rel string) (*ast.File, error) {
		return parser.ParseFile(fset, filepath.Join(repo, rel), nil, 0)
	}
	f, err := parse("app/ante/handler_options.go")
	if err != nil {
		return t, err
	}
	t.Chains = extractChains(fset, f)
	if f, err = parse("app/ante/ante.go"); err != nil {
		return t, err
	}
	extractSwitch(fset, f, &t)
	if f, err = parse("app/app.go"); err != nil {
		return t, err
	}
	extractDisabled(fset, f, &t)
	return t, nil
}

// ---- Coq printing ----

func q(s string) string { return `"` + strings.ReplaceAll(s, `"`, `""`) + `"` }

func strList(l []string, indent string) string {
	if len(l) == 0 {
		return "[]"
	}
	var qs []string
	for _, s := range l {
		qs = append(qs, indent+q(s))
	}
	return "[\n" + strings.Join(qs, ";\n") + " ]"
}

func main() {
	repo := os.Getenv("VERIF_REPO")
	if len(os.Args) > 1 {
		repo = os.Args[1]
	}
	if repo == "" {
		repo = "/repo"
	}
	t, err := extract(repo)
	if err != nil {
		fmt.Fprintln(os.Stderr, "antelist:", err)
		os.Exit(1)
	}
	var b strings.Builder
	b.WriteString("(* GENERATED by tools/antelist from app/ante/handler_options.go, app/ante/ante.go, app/app.go - do not edit *)\n")
	b.WriteString("From Coq Require Import List String.\nFrom Canto Require Import Model.Ante.\nImport ListNotations.\nOpen Scope string_scope.\nOpen Scope list_scope.\n\n")
	var names []string
	for _, c := range t.Chains {
		fmt.Fprintf(&b, "Definition gen_chain_%s : list string := %s.\n\n", c.Name, strList(c.Decorators, "  "))
		names = append(names, fmt.Sprintf("(%s, gen_chain_%s)", q(c.Name), c.Name))
	}
	fmt.Fprintf(&b, "Definition gen_chains : list (string * list string) := [ %s ].\n\n", strings.Join(names, "; "))
	fmt.Fprintf(&b, "Definition gen_switch_on : string := %s.\n", q(t.SwitchOn))
	var sw []string
	for _, p := range t.Switch {
		sw = append(sw, fmt.Sprintf("(%s, %s)", q(p[0]), q(p[1])))
	}
	fmt.Fprintf(&b, "Definition gen_switch : list (string * string) := [ %s ].\n", strings.Join(sw, "; "))
	fmt.Fprintf(&b, "Definition gen_switch_default : string := %s.\n", q(t.SwitchDefault))
	fmt.Fprintf(&b, "Definition gen_plain : list string := %s.\n", strList(t.Plain, "  "))
	fmt.Fprintf(&b, "Definition gen_disabled : list string := %s.\n\n", strList(t.Disabled, "  "))
	b.WriteString("Definition gen_tables : tables :=\n  mkTables gen_chains gen_switch_on gen_switch gen_switch_default gen_plain gen_disabled.\n\n")
	b.WriteString("(* the agreement obligation: fails to compile when the source no longer matches the reference *)\n")
	b.WriteString("Lemma gen_tables_agree : gen_tables = ref_tables.\nProof. reflexivity. Qed.\n")
	fmt.Print(b.String())
}
