'''Regenerates coq/Properties/C01.v C02.v C08.v C09.v from the proved lemmas (statement text printed by Coq itself,
so the property files can only restate what is proved). Development aid; the generated files are committed.'''
import subprocess, re, os
COQ='/verif/coq'
HDR='''From Coq Require Import ZArith List Bool.
From Canto Require Import Lib.SdkInt Lib.SdkDec Model.Coinswap Proofs.CoinswapBase Proofs.CoinswapEffects
     Proofs.CoinswapValue Proofs.CoinswapWF Proofs.CoinswapLaws Proofs.CoinswapHistory Proofs.CoinswapReserves.
Import ListNotations.
Open Scope Z_scope.
'''
def types(names):
    src=HDR+"Set Printing Width 100.\n"+"".join("Check %s.\n"%n for n in names)
    open('/tmp/gp.v','w').write(src)
    out=subprocess.run(['coqc','-Q',COQ,'Canto','/tmp/gp.v'],capture_output=True,text=True).stdout
    res={}
    cur=None
    for line in out.splitlines():
        m=re.match(r'^(\w+)$',line)
        if m and m.group(1) in names:
            cur=m.group(1); res[cur]=[]; continue
        if cur: res[cur].append(line)
    for k in res:
        t="\n".join(res[k]); t=re.sub(r'^\s*:\s','',t,1); res[k]=t
    return res
FILES={
 'C01':('C01 -- Liquidity-provider share value is never diluted by any pool operation.',[
   ('value_step','for every message and every pool with outstanding tokens before and after: X Y / L^2 does not decrease (cross-multiplied)'),
   ('value_history','over every history during which the pool keeps outstanding tokens (alive): the ratio at the end is at least the ratio at the start; any number of accounts and pools, donations, auto-swaps and live parameter changes included'),
   ('remove_ok','a removal never pays more than the pro-rata share of either reserve (ps L <= w X, pt L <= w Y), rounded in the pool favour'),
   ('add_then_remove','adding and immediately removing the minted amount never returns more of either coin than was deposited (pool with outstanding tokens)'),
   ('swap_round_trip','no round trip of swaps by one trader returns more than it started with'),
   ('reserves_step','a pool with outstanding tokens never has an empty reserve: preserved by every message'),
   ('reserves_history','... hence along every history from a state where it holds (genesis has no pool)'),
   ('run_WF','the well-formedness hypothesis (valid params, non-negative balances and supplies, consistent pool list) holds along every history'),
 ]),
 'C02':('C02 -- Coinswap operations conserve value; rejected operations change nothing.',[
   ('swap_conserves','an accepted swap: supplies, params, pools unchanged; nobody but payer, recipient and escrow changes; every coin is conserved over any account set containing the three'),
   ('add_ok','an accepted addition: exact balance and supply equations (add_bal_eq/add_sup_eq): only provider, escrow and - on pool creation - the fee collector change; pool-token supply grows by exactly the amount credited; the creation fee is split exactly into floor(fee*tax) to the fee collector and a burn of the rest'),
   ('remove_ok','an accepted removal: pool-token supply and the provider pool tokens drop by exactly w; escrow pays exactly what the provider receives; nobody else changes'),
   ('autoswap_ok','an onboarding auto-swap moves coins only between the recipient and the escrow'),
   ('rejected_no_change','a rejected message leaves the state unchanged (baseapp message atomicity, modelled by deliver)'),
   ('deliver_WF','no message can make a balance or supply negative or corrupt the pool list'),
 ]),
 'C08':('C08 -- User-set limits, deadlines and quoted amounts are honoured exactly.',[
   ('sell_ok','sell order: exactly the stated input, at least the stated minimum, within one unit of the exact constant-product value rounded in the pool favour'),
   ('buy_ok','buy order: exactly the stated output for at most the stated maximum, within one unit, rounded in the pool favour'),
   ('add_ok','addition: at most the stated token and standard amounts, at least the stated minimum liquidity, pro-rata formulas, response = minted = credited'),
   ('remove_ok','removal: burns exactly the stated pool tokens, pays at least both minimums, pro-rata within one unit, response = applied balance changes'),
   ('deadline_ok','no message takes effect when the block time is past its deadline'),
   ('sell_min_boundary','the minimum-output bound is sharp: equal to the quote is accepted, one more is rejected'),
   ('buy_max_boundary','the maximum-input bound is sharp: equal to the quote is accepted, one less is rejected'),
   ('input_price_spec','GetInputPrice as executed (with its overflow checks) computes floor(a g Y / (X 10^18 + a g))'),
   ('output_price_spec','GetOutputPrice as executed computes floor(X dy 10^18 / ((Y - dy) g)) + 1'),
   ('input_price_total','the exact condition under which the sell kernel cannot panic'),
 ]),
 'C09':('C09 -- Governance risk caps bound every pool interaction.',[
   ('sell_ok','sell: standard coin on exactly one side, whitelisted counter-asset, counter-asset leg within its per-swap maximum, recipient not a module account'),
   ('buy_ok','buy: the same four facts'),
   ('add_ok','addition: whitelisted non-standard token; standard coin deposited at most the cap, and at most the room left when the pool has liquidity'),
   ('autoswap_ok','onboarding auto-swap: whitelisted counter-asset, sold amount within its per-swap maximum'),
   ('caps_step','all of the above as one predicate on a single step, for whatever valid parameters are in force'),
   ('caps_along_history','... at every step of every history, parameter changes interleaved arbitrarily'),
 ]),
}
for pid,(title,items) in FILES.items():
    names=[n for n,_ in items]
    ty=types(names)
    out="(** %s\n    Statements only; proofs are in Proofs/Coinswap*.v. *)\n"%title+HDR+"\n"
    for n,doc in items:
        out+="(* %s *)\nTheorem %s_%s :\n  %s.\nProof. exact %s. Qed.\n\n"%(doc,pid,n,ty[n].strip().replace("\n","\n  "),n)
    out+="(* non-vacuity: a concrete well-formed state on which operations are accepted *)\nExample %s_nonvacuous : WF ex_state.\nProof. exact ex_state_WF. Qed.\n\n"%pid
    for n,_ in items:
        out+="Print Assumptions %s_%s.\n"%(pid,n)
    open(os.path.join(COQ,'Properties',pid+'.v'),'w').write(out)
print("ok")
