#!/usr/bin/env python3
"""Markdown table of the seeded changes under /verif/seeded (from each meta.json): which property each breaks,
whether it was confirmed (existing tests pass, demo fails only with the change) and what each of our checks said."""
import glob, json, os, re
ROOT = os.path.dirname(os.path.dirname(os.path.abspath(__file__)))
print("| seeded change | breaks | confirmed | checks run against it (quick tier) |")
print("|---|---|---|---|")
for d in sorted(glob.glob(os.path.join(ROOT, "seeded", "*"))):
    mp = os.path.join(d, "meta.json")
    if not os.path.exists(mp):
        print("| `%s` | ? | no meta.json | |" % os.path.basename(d))
        continue
    m = json.load(open(mp))
    res = []
    for p, c in sorted(m.get("checks", {}).items()):
        out = " ".join(c.get("output", []))
        if c.get("rc") == 0:
            v = "quiet"
        elif "no-failing-input-found" in out:
            v = "VIOLATION (broken obligation, no-failing-input-found)"
        else:
            mm = re.search(r"replays/%s-(.*?)-\d+\.json" % p, out)
            v = "VIOLATION with replay (%s)" % (mm.group(1) if mm else "?")
        res.append("%s: %s" % (p, v))
    conf = "yes" if m.get("confirmed") else "NO"
    if m.get("obsolete_after"):
        conf += " (at the commit it was written for; obsolete after %s)" % m["obsolete_after"]
    if m.get("outside_quantifier"):
        conf += " (outside the property's operation set: see meta.json)"
    print("| `%s` | %s | %s | %s |" % (os.path.basename(d), m.get("breaks_property"), conf, "; ".join(res)))
