#!/usr/bin/env python3
"""Print, per property file coq/Properties/Cxx.v, the theorem names with the comment that precedes each (markdown)."""
import glob, os, re, sys
ROOT = os.path.dirname(os.path.dirname(os.path.abspath(__file__)))
for p in sorted(glob.glob(os.path.join(ROOT, "coq", "Properties", "C*.v"))):
    src = open(p).read()
    pid = os.path.basename(p)[:-2]
    print("**%s**\n" % pid)
    for m in re.finditer(r"(?:\(\*((?:[^*]|\*(?!\)))*)\*\)\s*)?^(Theorem|Lemma|Corollary|Example)\s+([A-Za-z0-9_']+)", src, re.M):
        c = re.sub(r"\s+", " ", (m.group(1) or "").strip())
        print("* `%s`%s" % (m.group(3), (" — " + c) if c else ""))
    print()
