#!/usr/bin/env python3
"""Confirm a seeded change and run our check against it.

  seeded.py <out_dir> <k> <worktree> <pkg_dir> <seed_id> <property> [--full] [--props C01,C02]

<out_dir>/change<k>.diff, demo<k>_test.go, change<k>.md come from an independent sub-agent that saw
only the property text.  Steps (all in the scratch worktree, never in /repo):
  a. clean tree + demo              -> package tests must PASS
  b. change applied, no demo        -> go build ./... and package tests must PASS   (--full: ./x/... ./app/... too)
  c. change applied + demo          -> package tests must FAIL
  d. VERIF_REPO=<worktree> ./check <property> quick   (for every property in --props, default the one given)
The change is kept as /verif/seeded/<seed_id>/ {patch.diff, demo_test.go, change.md, meta.json}.
"""
import json, os, shutil, subprocess, sys, time

ENV = dict(os.environ, GOFLAGS="-mod=mod", GOPROXY="off", GOSUMDB="off", GOTOOLCHAIN="local")
VERIF = os.path.dirname(os.path.dirname(os.path.abspath(__file__)))


def sh(cmd, cwd, timeout=3600, env=ENV):
    t = time.time()
    p = subprocess.run(cmd, cwd=cwd, shell=True, env=env, stdout=subprocess.PIPE, stderr=subprocess.STDOUT, text=True, timeout=timeout)
    return p.returncode, p.stdout, round(time.time() - t, 1)


def main():
    out_dir, k, wt, pkg, seed_id, prop = sys.argv[1:7]
    full = "--full" in sys.argv
    props = [prop]
    if "--props" in sys.argv:
        props = sys.argv[sys.argv.index("--props") + 1].split(",")
    diff = os.path.join(out_dir, "change%s.diff" % k)
    demo = os.path.join(out_dir, "demo%s_test.go" % k)
    demo_dst = os.path.join(wt, pkg, "zz_seeded_demo_test.go")
    meta = dict(seed_id=seed_id, breaks_property=prop, source="independent sub-agent given only the property text", package=pkg, ran=[])

    def clean():
        sh("git checkout -- . && git clean -fdq", wt)

    clean()
    shutil.copy(demo, demo_dst)
    rc, out, dt = sh("go test -vet=off -count=1 ./%s/" % pkg, wt)
    meta["ran"].append(dict(step="a: clean tree + demo", cmd="go test -vet=off -count=1 ./%s/" % pkg, rc=rc, s=dt))
    a_ok = rc == 0
    clean()
    rc, out, dt = sh("git apply %s" % diff, wt)
    if rc != 0:
        print("patch does not apply:", out)
        return 2
    rc_b, out_b, dt = sh("go build ./... && go test -vet=off -count=1 ./%s/" % pkg, wt)
    meta["ran"].append(dict(step="b: change, no demo", cmd="go build ./... && go test -vet=off -count=1 ./%s/" % pkg, rc=rc_b, s=dt))
    if full:
        rc_f, out_f, dt = sh("go test -vet=off -count=1 ./x/... ./app/... 2>&1 | grep -v '^ok\\|no test files' | tail -20", wt, timeout=7200)
        rc_f2, out_f2, _ = sh("go test -vet=off -count=1 ./x/... ./app/... >/dev/null 2>&1; echo $?", wt, timeout=7200)
        meta["ran"].append(dict(step="b-full: change, whole suite", cmd="go test -vet=off -count=1 ./x/... ./app/...", rc=int(out_f2.strip() or 1), s=dt, tail=out_f[-500:]))
    shutil.copy(demo, demo_dst)
    rc_c, out_c, dt = sh("go test -vet=off -count=1 ./%s/" % pkg, wt)
    meta["ran"].append(dict(step="c: change + demo", cmd="go test -vet=off -count=1 ./%s/" % pkg, rc=rc_c, s=dt))
    os.remove(demo_dst)
    confirmed = a_ok and rc_b == 0 and rc_c != 0
    meta["confirmed"] = confirmed
    print("a(clean+demo pass)=%s b(change passes pkg tests)=%s c(change+demo fails)=%s => confirmed=%s" % (a_ok, rc_b == 0, rc_c != 0, confirmed))
    if not confirmed:
        print(out_b[-1500:] if rc_b != 0 else out_c[-800:])
    meta["checks"] = {}
    for p in props:
        rc, out, dt = sh("./check %s quick" % p, VERIF, env=dict(ENV, VERIF_REPO=wt), timeout=3600)
        lines = [l for l in out.splitlines() if l.startswith("VIOLATION") or l.startswith("KNOWN") or l.startswith(p + " ")]
        meta["checks"][p] = dict(cmd="VERIF_REPO=<worktree with change> ./check %s quick" % p, rc=rc, s=dt, output=lines)
        print(p, "rc=%d" % rc, lines)
        # keep the replay next to the seeded change
        for l in lines:
            if l.startswith("VIOLATION") and "replay=" in l:
                rp = l.split("replay=")[1].split()[0]
                if os.path.exists(rp):
                    meta["checks"][p]["replay_kept"] = os.path.basename(rp)
    clean()
    # the harness go.mod now points at the worktree: restore it for /repo
    subprocess.run([sys.executable, os.path.join(VERIF, "lib", "gomod.py")], env=dict(os.environ, VERIF_REPO="/repo"), stdout=subprocess.DEVNULL)
    dst = os.path.join(VERIF, "seeded", seed_id)
    os.makedirs(dst, exist_ok=True)
    shutil.copy(diff, os.path.join(dst, "patch.diff"))
    shutil.copy(demo, os.path.join(dst, "demo_test.go"))
    md = os.path.join(out_dir, "change%s.md" % k)
    if os.path.exists(md):
        shutil.copy(md, os.path.join(dst, "change.md"))
        meta["needs_to_manifest"] = "see change.md"
    for p in props:
        rk = meta["checks"][p].get("replay_kept")
        if rk:
            shutil.copy(os.path.join(VERIF, "replays", rk), os.path.join(dst, "replay-" + rk))
    json.dump(meta, open(os.path.join(dst, "meta.json"), "w"), indent=1)
    return 0


if __name__ == "__main__":
    sys.exit(main())
