// The Go-subset -> Gallina translator: symbolic execution of one function body, path by path,
// emitting A-normal form in the option monad (one bind per fallible sdkmath call, in Go's evaluation order).
package main

import (
	"fmt"
	"go/ast"
	"go/token"
	"regexp"
	"sort"
	"strconv"
	"strings"
)

// ---------------------------------------------------------------- values

type value struct {
	t      typ
	term   string            // Coq term (an atom or a parenthesised pure term) once the value is computed with
	prov   string            // provenance: where the value is read from, in terms of the function's parameters
	src    string            // the source text it was first written as (used to name inputs)
	oracle bool              // read from outside (an input of the generated definition), never computed
	denom  string            // tCoin: provenance of the denomination
	amt    *value            // tCoin: the amount
	coins  []*value          // tCoins
	fields map[string]*value // opaque record: fields assigned by the code (overlay on the stored record)
	unset  bool              // declared by `var x T` and not yet assigned
	cmpL   string            // result of big.Int Cmp: the two operands (term is Z.sgn (cmpL - cmpR))
	cmpR   string
}

type out struct{ term, label string }

type env struct {
	vars map[string]*value
	outs []out
	neff int // effect calls made so far on this path (distinguishes state reads before / after them)
}

func cloneValue(v *value, seen map[*value]*value) *value {
	if v == nil {
		return nil
	}
	if c, ok := seen[v]; ok {
		return c
	}
	if v.t != tOpaque && v.fields == nil && v.amt == nil && v.coins == nil {
		return v // immutable
	}
	c := *v
	seen[v] = &c
	c.amt = cloneValue(v.amt, seen)
	if v.coins != nil {
		c.coins = nil
		for _, x := range v.coins {
			c.coins = append(c.coins, cloneValue(x, seen))
		}
	}
	if v.fields != nil {
		c.fields = map[string]*value{}
		for n, x := range v.fields {
			c.fields[n] = cloneValue(x, seen)
		}
	}
	return &c
}

func (e *env) clone() *env {
	c := &env{vars: map[string]*value{}, outs: append([]out(nil), e.outs...), neff: e.neff}
	seen := map[*value]*value{}
	for n, v := range e.vars {
		c.vars[n] = cloneValue(v, seen)
	}
	return c
}

// ---------------------------------------------------------------- kernel context

type input struct {
	prov, name, coqType, src string
}

type refusal struct {
	pos token.Pos
	msg string
}

type kctx struct {
	fset     *token.FileSet
	imports  map[string]string // alias -> canonical alias / import path
	module   *moduleCtx
	inputs   map[string]*input
	used     map[string]bool // Coq names in use
	assumes  []string
	lines    []string
	ind      int
	ntmp     int
	scalar   bool // result: option Z (true) or option (list Z) (false)
	retErr   bool // last result of the function is an error
	noResult bool // function without results
	fallible bool // some bind / guard / None was emitted

	pkg         *pkgDecls // declarations of the package the kernel lives in (for inlining helpers)
	recvType    string    // receiver type of the kernel function
	inlineStack []string
	matLog      []*value // values whose input was materialised (undone when a trial evaluation is rolled back)
}

func (k *kctx) refuse(n ast.Node, f string, a ...interface{}) {
	panic(refusal{n.Pos(), fmt.Sprintf(f, a...)})
}

func (k *kctx) emit(s string) {
	k.lines = append(k.lines, strings.Repeat("  ", k.ind+1)+s)
}

var identRe = regexp.MustCompile(`[^A-Za-z0-9_]+`)

func (k *kctx) uniq(hint string) string {
	n := strings.Trim(identRe.ReplaceAllString(hint, "_"), "_")
	if n == "" || (n[0] >= '0' && n[0] <= '9') {
		n = "v_" + n
	}
	if len(n) > 48 {
		n = n[len(n)-48:]
		n = strings.TrimLeft(n, "_0123456789")
	}
	if coqKeywords[n] {
		n += "_"
	}
	base, i := n, 1
	for k.used[n] {
		i++
		n = base + "_" + strconv.Itoa(i)
	}
	k.used[n] = true
	return n
}

func (k *kctx) fresh() string {
	for {
		k.ntmp++
		n := "t" + strconv.Itoa(k.ntmp)
		if !k.used[n] {
			k.used[n] = true
			return n
		}
	}
}

// bind emits `t <- call ;;` and returns t.
func (k *kctx) bind(call string) string {
	v := k.fresh()
	k.emit(v + " <- " + call + " ;;")
	k.fallible = true
	return v
}

func (k *kctx) guard(c string) {
	k.emit("guard " + c + " ;;")
	k.fallible = true
}

// renameLast gives the temporary bound by the last emitted line a source-level name.
func (k *kctx) renameLast(tmp, hint string) string {
	if len(k.lines) == 0 {
		return tmp
	}
	last := k.lines[len(k.lines)-1]
	trimmed := strings.TrimLeft(last, " ")
	if !strings.HasPrefix(trimmed, tmp+" <- ") {
		return tmp
	}
	n := k.uniq(hint)
	k.lines[len(k.lines)-1] = last[:len(last)-len(trimmed)] + n + strings.TrimPrefix(trimmed, tmp)
	return n
}

func isAtom(s string) bool { return !strings.ContainsAny(s, " (") }

func negate(c string) string {
	if strings.HasPrefix(c, "(negb ") && strings.HasSuffix(c, ")") {
		inner := c[len("(negb ") : len(c)-1]
		if balanced(inner) {
			return inner
		}
	}
	return "(negb " + c + ")"
}

func balanced(s string) bool {
	d := 0
	for i, r := range s {
		switch r {
		case '(':
			d++
		case ')':
			d--
			if d == 0 && i != len(s)-1 && s[0] == '(' {
				return false
			}
		}
		if d < 0 {
			return false
		}
	}
	return d == 0 && (isAtom(s) || s[0] == '(')
}

// in returns the input standing for the external quantity with this provenance.
func (k *kctx) in(prov string, t typ, src string) string {
	if i, ok := k.inputs[prov]; ok {
		return i.name
	}
	ct := "Z"
	if t == tBool {
		ct = "bool"
	}
	i := &input{prov: prov, name: k.uniq(src), coqType: ct, src: src}
	k.inputs[prov] = i
	return i.name
}

// term returns the Coq term of a scalar value (materialising an input for an external quantity).
func (k *kctx) term(v *value, at ast.Node) string {
	if v.unset {
		k.refuse(at, "use of a declared but unassigned variable (%s)", v.src)
	}
	if !isZ(v.t) && v.t != tBool {
		k.refuse(at, "a value of type %s (%s) is used in a computation; its type is not in the table", v.t, provOf(v))
	}
	if v.term == "" {
		if v.prov == "" {
			k.refuse(at, "internal: scalar without term or provenance")
		}
		v.term = k.in(v.prov, v.t, v.src)
		k.matLog = append(k.matLog, v)
	}
	return v.term
}

func provOf(v *value) string {
	switch {
	case v.prov != "":
		return v.prov
	case v.t == tCoin:
		a := "?"
		if v.amt != nil {
			a = provOf(v.amt)
		}
		return "Coin(" + v.denom + ", " + a + ")"
	case v.t == tCoins:
		var p []string
		for _, c := range v.coins {
			p = append(p, provOf(c))
		}
		return "Coins(" + strings.Join(p, ", ") + ")"
	case v.t == tNil:
		return "nil"
	case v.term != "":
		return "{" + v.term + "}"
	}
	return "?"
}

func (k *kctx) coinAmt(v *value) *value {
	if v.amt == nil {
		v.amt = &value{t: tInt, prov: v.prov + ".Amount", src: v.src + ".Amount", oracle: true}
	}
	return v.amt
}

// typed value read from outside
func external(t typ, prov, src string) *value {
	v := &value{t: t, prov: prov, src: src, oracle: true}
	if t == tCoin {
		v.denom = prov + ".Denom"
	}
	return v
}

// ---------------------------------------------------------------- provenance printing

func (k *kctx) src(n ast.Node) string { return nodeText(k.fset, n) }

func (k *kctx) prov(x ast.Expr, e *env) string {
	switch x := x.(type) {
	case nil:
		return ""
	case *ast.Ident:
		if v, ok := e.vars[x.Name]; ok {
			return provOf(v)
		}
		return x.Name
	case *ast.ParenExpr:
		return "(" + k.prov(x.X, e) + ")"
	case *ast.SelectorExpr:
		if id, ok := x.X.(*ast.Ident); ok {
			if v, ok := e.vars[id.Name]; ok {
				if v.t == tCoin && x.Sel.Name == "Denom" {
					return v.denom
				}
				if v.t == tCoin && x.Sel.Name == "Amount" {
					return provOf(k.coinAmt(v))
				}
				if f, ok := v.fields[x.Sel.Name]; ok {
					return provOf(f)
				}
			}
		}
		return k.prov(x.X, e) + "." + x.Sel.Name
	case *ast.CallExpr:
		var a []string
		for _, y := range x.Args {
			a = append(a, k.prov(y, e))
		}
		return k.prov(x.Fun, e) + "(" + strings.Join(a, ", ") + ")"
	case *ast.StarExpr:
		return "*" + k.prov(x.X, e)
	case *ast.UnaryExpr:
		return x.Op.String() + k.prov(x.X, e)
	case *ast.BinaryExpr:
		return k.prov(x.X, e) + " " + x.Op.String() + " " + k.prov(x.Y, e)
	case *ast.BasicLit:
		return x.Value
	case *ast.IndexExpr:
		return k.prov(x.X, e) + "[" + k.prov(x.Index, e) + "]"
	case *ast.KeyValueExpr:
		return k.prov(x.Key, e) + ": " + k.prov(x.Value, e)
	case *ast.CompositeLit:
		var a []string
		for _, y := range x.Elts {
			a = append(a, k.prov(y, e))
		}
		return k.src(x.Type) + "{" + strings.Join(a, ", ") + "}"
	case *ast.TypeAssertExpr:
		return k.prov(x.X, e) + ".(" + k.src(x.Type) + ")"
	}
	return k.src(x)
}

// ---------------------------------------------------------------- expressions

func (k *kctx) pkgOf(id *ast.Ident, e *env) (string, bool) {
	if _, shadow := e.vars[id.Name]; shadow {
		return "", false
	}
	p, ok := k.imports[id.Name]
	return p, ok
}

func (k *kctx) expr(x ast.Expr, e *env) *value {
	switch x := x.(type) {
	case *ast.ParenExpr:
		return k.expr(x.X, e)
	case *ast.Ident:
		if v, ok := e.vars[x.Name]; ok {
			return v
		}
		switch x.Name {
		case "nil":
			return &value{t: tNil}
		case "true", "false":
			return &value{t: tBool, term: x.Name}
		}
		if p, ok := k.imports[x.Name]; ok {
			return &value{t: tPkg, prov: x.Name, src: p}
		}
		return &value{t: tOpaque, prov: x.Name, src: x.Name} // package-level name of the same package
	case *ast.BasicLit:
		switch x.Kind {
		case token.INT:
			return &value{t: tNum, term: x.Value}
		case token.STRING:
			return &value{t: tStr, prov: x.Value, src: x.Value}
		}
		return &value{t: tOpaque, prov: x.Value, src: x.Value}
	case *ast.SelectorExpr:
		if id, ok := x.X.(*ast.Ident); ok {
			if p, ok := k.pkgOf(id, e); ok {
				return k.pkgConst(p, id.Name, x.Sel.Name)
			}
		}
		return k.field(k.expr(x.X, e), x.Sel.Name, x)
	case *ast.StarExpr:
		return k.expr(x.X, e)
	case *ast.UnaryExpr:
		switch x.Op {
		case token.AND:
			return k.expr(x.X, e)
		case token.NOT:
			v := k.expr(x.X, e)
			if v.t != tBool {
				k.refuse(x, "`!` applied to a value of type %s", v.t)
			}
			return &value{t: tBool, term: negate(k.term(v, x))}
		case token.SUB:
			v := k.expr(x.X, e)
			if v.t != tNum {
				k.refuse(x, "unary minus on %s", v.t)
			}
			return &value{t: tNum, term: "(- " + k.term(v, x) + ")"}
		}
		k.refuse(x, "unsupported unary operator %s", x.Op)
	case *ast.BinaryExpr:
		return k.binary(x, e)
	case *ast.CallExpr:
		return k.call(x, e, 1)[0]
	case *ast.CompositeLit:
		if v := k.coinLit(x, e); v != nil {
			return v
		}
		return &value{t: tOpaque, prov: k.prov(x, e), src: k.src(x)}
	case *ast.IndexExpr:
		// coins[i] of a coin list built in this function
		if id, ok := x.X.(*ast.Ident); ok {
			if v, ok := e.vars[id.Name]; ok && v.t == tCoins {
				lit, isLit := x.Index.(*ast.BasicLit)
				if !isLit || lit.Kind != token.INT {
					k.refuse(x, "a coin list is indexed by something other than an integer literal")
				}
				i, err := strconv.Atoi(lit.Value)
				if err != nil || i < 0 || i >= len(v.coins) {
					k.refuse(x, "index %s outside a coin list of %d elements (panics)", lit.Value, len(v.coins))
				}
				return v.coins[i]
			}
		}
		return &value{t: tOpaque, prov: k.prov(x, e), src: k.src(x)}
	case *ast.FuncLit, *ast.TypeAssertExpr, *ast.SliceExpr:
		return &value{t: tOpaque, prov: k.prov(x, e), src: k.src(x)}
	}
	k.refuse(x, "unsupported expression form %T", x)
	return nil
}

func (k *kctx) pkgConst(path, alias, name string) *value {
	switch path + "." + name {
	case "sdkmath.LegacyPrecision":
		return &value{t: tNum, term: "18"}
	case "ethermint.PowerReduction":
		return &value{t: tInt, term: "(10 ^ 18)"}
	}
	return &value{t: tOpaque, prov: alias + "." + name, src: alias + "." + name}
}

func (k *kctx) field(base *value, name string, at ast.Node) *value {
	switch base.t {
	case tCoin:
		switch name {
		case "Amount":
			if base.unset {
				k.refuse(at, "use of a declared but unassigned coin")
			}
			return k.coinAmt(base)
		case "Denom":
			return &value{t: tStr, prov: base.denom, src: base.src + ".Denom"}
		}
		k.refuse(at, "unknown field %s of a Coin", name)
	case tOpaque:
		if f, ok := base.fields[name]; ok {
			return f
		}
		p, s := base.prov+"."+name, base.src+"."+name
		if t, ok := fieldTypes[name]; ok {
			return external(t, p, s)
		}
		return &value{t: tOpaque, prov: p, src: s}
	case tStr, tPkg, tNil:
		return &value{t: tOpaque, prov: base.prov + "." + name, src: base.src + "." + name}
	}
	k.refuse(at, "field %s of a value of type %s", name, base.t)
	return nil
}

var cmpOps = map[token.Token]string{token.LSS: "<?", token.LEQ: "<=?", token.EQL: "=?"}

func (k *kctx) binary(x *ast.BinaryExpr, e *env) *value {
	switch x.Op {
	case token.LAND, token.LOR:
		l := k.expr(x.X, e)
		lt := k.term(l, x.X)
		n := len(k.lines)
		r := k.expr(x.Y, e)
		rt := k.term(r, x.Y)
		if len(k.lines) != n {
			k.refuse(x.Y, "right operand of %s can panic; short-circuit evaluation is not translated", x.Op)
		}
		if l.t != tBool || r.t != tBool {
			k.refuse(x, "operands of %s are not bool", x.Op)
		}
		op := "&&"
		if x.Op == token.LOR {
			op = "||"
		}
		return &value{t: tBool, term: "(" + lt + " " + op + " " + rt + ")"}
	}
	l, r := k.expr(x.X, e), k.expr(x.Y, e)
	scalar := func(v *value) bool { return isZ(v.t) }
	if c, ok := cmpWithZero(l, r, x.Op); ok {
		return &value{t: tBool, term: c}
	}
	switch x.Op {
	case token.EQL, token.NEQ:
		var c string
		switch {
		case bigNil(l, r) || bigNil(r, l): // did the balance query give a usable answer: an external fact
			p := provOf(l) + " == " + provOf(r)
			c = k.in(p, tBool, "eq_"+lastSeg(k.src(x.X))+"_"+lastSeg(k.src(x.Y)))
		case scalar(l) && scalar(r):
			c = "(" + k.term(l, x.X) + " =? " + k.term(r, x.Y) + ")"
		case l.t == tBool && r.t == tBool:
			c = "(Bool.eqb " + k.term(l, x.X) + " " + k.term(r, x.Y) + ")"
		case scalar(l) || scalar(r) || l.t == tBool || r.t == tBool:
			k.refuse(x, "comparison between %s and %s", l.t, r.t)
		default: // strings, addresses, nil: an external fact
			p := provOf(l) + " == " + provOf(r)
			c = k.in(p, tBool, "eq_"+lastSeg(k.src(x.X))+"_"+lastSeg(k.src(x.Y)))
		}
		if x.Op == token.NEQ {
			c = negate(c)
		}
		return &value{t: tBool, term: c}
	case token.LSS, token.LEQ, token.GTR, token.GEQ:
		if !scalar(l) || !scalar(r) {
			k.refuse(x, "ordering comparison between %s and %s", l.t, r.t)
		}
		a, b := k.term(l, x.X), k.term(r, x.Y)
		switch x.Op {
		case token.LSS:
			return &value{t: tBool, term: "(" + a + " <? " + b + ")"}
		case token.LEQ:
			return &value{t: tBool, term: "(" + a + " <=? " + b + ")"}
		case token.GTR:
			return &value{t: tBool, term: "(" + b + " <? " + a + ")"}
		default:
			return &value{t: tBool, term: "(" + b + " <=? " + a + ")"}
		}
	case token.ADD, token.SUB, token.MUL:
		okT := func(v *value) bool { return v.t == tNum || v.t == tDur || v.t == tTime }
		if !okT(l) || !okT(r) {
			k.refuse(x, "operator %s on %s and %s (only machine integers)", x.Op, l.t, r.t)
		}
		rt := l.t
		return &value{t: rt, term: "(" + k.term(l, x.X) + " " + x.Op.String() + " " + k.term(r, x.Y) + ")"}
	}
	k.refuse(x, "unsupported binary operator %s", x.Op)
	return nil
}

// bigNil: a *big.Int read from outside compared with nil
func bigNil(a, b *value) bool { return a.t == tBig && a.oracle && b.t == tNil }

// cmpWithZero: `x.Cmp(y) <op> 0` (or `0 <op> x.Cmp(y)`) is the comparison of x and y itself.
func cmpWithZero(l, r *value, op token.Token) (string, bool) {
	isZero := func(v *value) bool { return v.t == tNum && v.term == "0" }
	if r.cmpL != "" && isZero(l) {
		l, r = r, l
		switch op {
		case token.LSS:
			op = token.GTR
		case token.GTR:
			op = token.LSS
		case token.LEQ:
			op = token.GEQ
		case token.GEQ:
			op = token.LEQ
		}
	}
	if l.cmpL == "" || !isZero(r) {
		return "", false
	}
	a, b := l.cmpL, l.cmpR
	switch op {
	case token.EQL:
		return "(" + a + " =? " + b + ")", true
	case token.NEQ:
		return "(negb (" + a + " =? " + b + "))", true
	case token.LSS:
		return "(" + a + " <? " + b + ")", true
	case token.LEQ:
		return "(" + a + " <=? " + b + ")", true
	case token.GTR:
		return "(" + b + " <? " + a + ")", true
	case token.GEQ:
		return "(" + b + " <=? " + a + ")", true
	}
	return "", false
}

func lastSeg(s string) string {
	if i := strings.LastIndexAny(s, ".)"); i >= 0 && i < len(s)-1 {
		return s[i+1:]
	}
	return s
}

func opaqueResults(p, s string, ts []typ, want int) []*value {
	var out []*value
	for i := 0; i < want; i++ {
		pi, si := p, s
		if want > 1 {
			pi = p + "#" + strconv.Itoa(i)
			si = s + "_" + strconv.Itoa(i)
		}
		t := tOpaque
		if i < len(ts) {
			t = ts[i]
		}
		if t == tOpaque {
			out = append(out, &value{t: tOpaque, prov: pi, src: si})
		} else {
			out = append(out, external(t, pi, si))
		}
	}
	return out
}

func (k *kctx) args(x *ast.CallExpr, e *env) []*value {
	var vs []*value
	for _, a := range x.Args {
		vs = append(vs, k.expr(a, e))
	}
	return vs
}

func (k *kctx) arg(x *ast.CallExpr, i int, e *env, want ...typ) string {
	if i >= len(x.Args) {
		k.refuse(x, "missing argument %d", i)
	}
	v := k.expr(x.Args[i], e)
	ok := false
	for _, t := range want {
		ok = ok || v.t == t
	}
	if !ok {
		k.refuse(x.Args[i], "argument of type %s where %v is expected", v.t, want)
	}
	return k.term(v, x.Args[i])
}

func one(v *value) []*value { return []*value{v} }

// effect: a call that hands values to the outside; its numeric arguments become outputs.
func (k *kctx) effect(name string, x *ast.CallExpr, e *env, want int) []*value {
	for i, a := range x.Args {
		v := k.expr(a, e)
		k.output(v, fmt.Sprintf("%s.arg%d", name, i), e, a)
	}
	e.neff++
	return opaqueResults(k.prov(x, e), name, nil, want)
}

func (k *kctx) output(v *value, label string, e *env, at ast.Node) {
	switch {
	case isZ(v.t):
		e.outs = append(e.outs, out{k.term(v, at), label})
	case v.t == tBool:
		e.outs = append(e.outs, out{"(if " + k.term(v, at) + " then 1 else 0)", label})
	case v.t == tCoin:
		if v.unset {
			k.refuse(at, "an unassigned coin reaches %s", label)
		}
		e.outs = append(e.outs, out{k.term(k.coinAmt(v), at), label + ".Amount"})
	case v.t == tCoins:
		for i, c := range v.coins {
			k.output(c, fmt.Sprintf("%s[%d]", label, i), e, at)
		}
	case v.t == tOpaque && v.fields != nil:
		var names []string
		for n := range v.fields {
			names = append(names, n)
		}
		sort.Strings(names)
		for _, n := range names {
			k.output(v.fields[n], label+"."+n, e, at)
		}
	}
}

func (k *kctx) call(x *ast.CallExpr, e *env, want int) []*value {
	switch f := x.Fun.(type) {
	case *ast.Ident:
		if _, isVar := e.vars[f.Name]; isVar {
			return opaqueResults(k.prov(x, e), f.Name, nil, want)
		}
		switch f.Name {
		case "int64", "uint64", "int", "uint", "int32", "uint32":
			return one(&value{t: tNum, term: k.arg(x, 0, e, tNum)})
		case "panic":
			k.refuse(x, "panic in expression position")
		case "new":
			if len(x.Args) == 1 && k.canonType(x.Args[0]) == "big.Int" {
				return one(&value{t: tBig, term: "0"})
			}
		}
		if effects[f.Name] {
			return k.effect(f.Name, x, e, want)
		}
		if kn := k.module.scalarKernel(f.Name); kn != nil {
			var a []string
			for i, p := range kn.paramTypes {
				a = append(a, k.arg(x, i, e, p))
			}
			return one(&value{t: kn.resultType, term: k.bind("gen_" + f.Name + " " + strings.Join(a, " "))})
		}
		if fd := k.localFunc(f.Name); fd != nil {
			if vs, ok := k.tryInline(fd, nil, x, e, want); ok {
				return vs
			}
		}
		return opaqueResults(k.prov(x, e), f.Name, opaqueMethods[f.Name], want)
	case *ast.SelectorExpr:
		if id, ok := f.X.(*ast.Ident); ok {
			if p, ok := k.pkgOf(id, e); ok {
				return k.pkgCall(p, id.Name, f.Sel.Name, x, e, want)
			}
		}
		recv := k.expr(f.X, e)
		return k.method(recv, f.Sel.Name, x, e, want)
	case *ast.ParenExpr, *ast.FuncLit, *ast.ArrayType, *ast.IndexExpr:
		return opaqueResults(k.prov(x, e), "call", nil, want)
	}
	k.refuse(x, "unsupported call form %T", x.Fun)
	return nil
}

func (k *kctx) pkgCall(path, alias, name string, x *ast.CallExpr, e *env, want int) []*value {
	full := path + "." + name
	switch full {
	case "sdkmath.LegacyOneDec":
		return one(&value{t: tDec, term: "SdkDec.one"})
	case "sdkmath.LegacyZeroDec":
		return one(&value{t: tDec, term: "0"})
	case "sdkmath.OneInt":
		return one(&value{t: tInt, term: "1"})
	case "sdkmath.ZeroInt":
		return one(&value{t: tInt, term: "0"})
	case "sdkmath.NewInt", "sdkmath.NewIntFromUint64":
		return one(&value{t: tInt, term: k.arg(x, 0, e, tNum)})
	case "sdkmath.NewIntFromBigInt":
		return one(&value{t: tInt, term: k.bind("SdkInt.of_big " + k.arg(x, 0, e, tBig))})
	case "sdkmath.NewIntWithDecimal":
		a, b := k.arg(x, 0, e, tNum), k.arg(x, 1, e, tNum)
		return one(&value{t: tInt, term: k.bind("SdkInt.with_decimal " + a + " " + b)})
	case "sdkmath.MinInt", "sdkmath.MaxInt":
		a, b := k.arg(x, 0, e, tInt), k.arg(x, 1, e, tInt)
		f := "Z.min"
		if name == "MaxInt" {
			f = "Z.max"
		}
		return one(&value{t: tInt, term: "(" + f + " " + a + " " + b + ")"})
	case "sdkmath.LegacyNewDec":
		return one(&value{t: tDec, term: "(SdkDec.of_int " + k.arg(x, 0, e, tNum) + ")"})
	case "sdkmath.LegacyNewDecFromInt":
		return one(&value{t: tDec, term: "(SdkDec.of_int " + k.arg(x, 0, e, tInt) + ")"})
	case "big.NewInt":
		return one(&value{t: tBig, term: k.arg(x, 0, e, tNum)})
	case "sdk.NewCoin":
		if len(x.Args) != 2 {
			k.refuse(x, "sdk.NewCoin with %d arguments", len(x.Args))
		}
		d := k.expr(x.Args[0], e)
		a := k.expr(x.Args[1], e)
		if a.t != tInt {
			k.refuse(x.Args[1], "sdk.NewCoin amount of type %s", a.t)
		}
		at := k.term(a, x.Args[1])
		k.guard("(negb (" + at + " <? 0))") // sdk.NewCoin panics on a negative amount
		return one(&value{t: tCoin, denom: provOf(d), amt: &value{t: tInt, term: at}, src: "coin"})
	case "sdk.NewCoins":
		v := &value{t: tCoins, src: "coins"}
		for _, a := range x.Args {
			c := k.expr(a, e)
			switch c.t {
			case tCoin:
				v.coins = append(v.coins, c)
			default:
				k.refuse(a, "sdk.NewCoins of a value of type %s", c.t)
			}
		}
		return one(v)
	}
	if path == "sdkmath" || path == "big" {
		k.refuse(x, "%s.%s is not in the translator's table", path, name)
	}
	if effects[name] {
		return k.effect(name, x, e, want)
	}
	return opaqueResults(k.prov(x, e), alias+"_"+name, nil, want)
}

type msig struct {
	coq      string
	arg      []typ // accepted type of the single argument; nil = no argument
	res      typ
	fallible bool
	flip     bool // comparison written with swapped operands (a.GT(b) = b <? a)
	infix    bool
}

var intMethods = map[string]msig{
	"Add": {"SdkInt.add", []typ{tInt}, tInt, true, false, false}, "Sub": {"SdkInt.sub", []typ{tInt}, tInt, true, false, false},
	"Mul": {"SdkInt.mul", []typ{tInt}, tInt, true, false, false}, "Quo": {"SdkInt.quo", []typ{tInt}, tInt, true, false, false},
	"AddRaw": {"SdkInt.add", []typ{tNum}, tInt, true, false, false}, "SubRaw": {"SdkInt.sub", []typ{tNum}, tInt, true, false, false},
	"MulRaw": {"SdkInt.mul", []typ{tNum}, tInt, true, false, false}, "QuoRaw": {"SdkInt.quo", []typ{tNum}, tInt, true, false, false},
	"LT": {"<?", []typ{tInt}, tBool, false, false, true}, "GT": {"<?", []typ{tInt}, tBool, false, true, true},
	"LTE": {"<=?", []typ{tInt}, tBool, false, false, true}, "GTE": {"<=?", []typ{tInt}, tBool, false, true, true},
	"Equal": {"=?", []typ{tInt}, tBool, false, false, true},
}
var decMethods = map[string]msig{
	"Add": {"SdkDec.add", []typ{tDec}, tDec, true, false, false}, "Sub": {"SdkDec.sub", []typ{tDec}, tDec, true, false, false},
	"Mul": {"SdkDec.mul", []typ{tDec}, tDec, true, false, false}, "Quo": {"SdkDec.quo", []typ{tDec}, tDec, true, false, false},
	"MulInt": {"SdkDec.mul_int", []typ{tInt}, tDec, true, false, false}, "QuoInt": {"SdkDec.quo_int", []typ{tInt}, tDec, true, false, false},
	"LT": {"<?", []typ{tDec}, tBool, false, false, true}, "GT": {"<?", []typ{tDec}, tBool, false, true, true},
	"LTE": {"<=?", []typ{tDec}, tBool, false, false, true}, "GTE": {"<=?", []typ{tDec}, tBool, false, true, true},
	"Equal": {"=?", []typ{tDec}, tBool, false, false, true},
}
var timeMethods = map[string]msig{
	"After": {"<?", []typ{tTime}, tBool, false, true, true}, "Before": {"<?", []typ{tTime}, tBool, false, false, true},
	"Equal": {"=?", []typ{tTime}, tBool, false, false, true},
	"Add":   {"+", []typ{tDur}, tTime, false, false, true}, "Sub": {"-", []typ{tTime}, tDur, false, false, true},
}

func (k *kctx) sigCall(recv *value, m msig, x *ast.CallExpr, e *env) *value {
	a := k.term(recv, x)
	if len(x.Args) != 1 {
		k.refuse(x, "method with %d arguments where 1 is expected", len(x.Args))
	}
	b := k.arg(x, 0, e, m.arg...)
	switch {
	case m.infix && m.flip:
		return &value{t: m.res, term: "(" + b + " " + m.coq + " " + a + ")"}
	case m.infix:
		return &value{t: m.res, term: "(" + a + " " + m.coq + " " + b + ")"}
	case m.fallible:
		return &value{t: m.res, term: k.bind(m.coq + " " + a + " " + b)}
	}
	return &value{t: m.res, term: "(" + m.coq + " " + a + " " + b + ")"}
}

func (k *kctx) signTest(recv *value, name string, x *ast.CallExpr) *value {
	a := k.term(recv, x)
	switch name {
	case "IsPositive":
		return &value{t: tBool, term: "(0 <? " + a + ")"}
	case "IsNegative":
		return &value{t: tBool, term: "(" + a + " <? 0)"}
	case "IsZero":
		return &value{t: tBool, term: "(" + a + " =? 0)"}
	}
	return nil
}

func (k *kctx) method(recv *value, name string, x *ast.CallExpr, e *env, want int) []*value {
	opaque := func() []*value { return opaqueResults(k.prov(x, e), name, nil, want) }
	switch recv.t {
	case tInt:
		if m, ok := intMethods[name]; ok {
			return one(k.sigCall(recv, m, x, e))
		}
		if v := k.signTest(recv, name, x); v != nil {
			return one(v)
		}
		switch name {
		case "ToLegacyDec":
			return one(&value{t: tDec, term: "(SdkDec.of_int " + k.term(recv, x) + ")"})
		case "BigInt":
			return one(&value{t: tBig, term: k.term(recv, x)})
		case "String":
			return opaque()
		}
		k.refuse(x, "sdkmath.Int method %s is not in the translator's table", name)
	case tDec:
		if m, ok := decMethods[name]; ok {
			return one(k.sigCall(recv, m, x, e))
		}
		if v := k.signTest(recv, name, x); v != nil {
			return one(v)
		}
		switch name {
		case "TruncateInt":
			return one(&value{t: tInt, term: k.bind("SdkDec.truncate_int " + k.term(recv, x))})
		case "Power":
			return one(&value{t: tDec, term: k.bind("SdkDec.power_chk " + k.term(recv, x) + " (Z.to_N " + k.arg(x, 0, e, tNum) + ")")})
		case "BigInt":
			return one(&value{t: tBig, term: k.term(recv, x)})
		case "String":
			return opaque()
		}
		k.refuse(x, "sdkmath.LegacyDec method %s is not in the translator's table", name)
	case tTime:
		if m, ok := timeMethods[name]; ok {
			return one(k.sigCall(recv, m, x, e))
		}
		k.refuse(x, "time.Time method %s is not in the translator's table", name)
	case tBig:
		// math/big never overflows: plain Z arithmetic, no option monad
		switch name {
		case "Add", "Sub", "Mul":
			// z.Add(x, y) stores x+y in z and returns z: translated only when z is a fresh value
			// (big.NewInt(n) / new(big.Int)), so that no variable is changed in place
			if sel, ok := x.Fun.(*ast.SelectorExpr); !ok || !k.freshBig(sel.X, e) {
				k.refuse(x, "big.Int.%s on a receiver that is not big.NewInt(..) / new(big.Int): in-place update of a variable is not translated", name)
			}
			if len(x.Args) != 2 {
				k.refuse(x, "big.Int.%s with %d arguments", name, len(x.Args))
			}
			a, b := k.arg(x, 0, e, tBig), k.arg(x, 1, e, tBig)
			op := map[string]string{"Add": "+", "Sub": "-", "Mul": "*"}[name]
			return one(&value{t: tBig, term: "(" + a + " " + op + " " + b + ")"})
		case "Cmp":
			a := k.term(recv, x)
			if len(x.Args) != 1 {
				k.refuse(x, "big.Int.Cmp with %d arguments", len(x.Args))
			}
			b := k.arg(x, 0, e, tBig)
			return one(&value{t: tNum, term: "(Z.sgn (" + a + " - " + b + "))", cmpL: a, cmpR: b})
		case "Sign":
			return one(&value{t: tNum, term: "(Z.sgn " + k.term(recv, x) + ")"})
		case "String", "SetUint64", "SetInt64", "SetString", "SetBytes":
			return opaque() // conversions into a big.Int stay opaque values (refused if computed with)
		}
		k.refuse(x, "big.Int method %s is not in the translator's table", name)
	case tNum, tDur, tBool:
		k.refuse(x, "method %s on a value of type %s", name, recv.t)
	case tCoin:
		switch name {
		case "Sub", "Add":
			if len(x.Args) != 1 {
				k.refuse(x, "Coin.%s with %d arguments", name, len(x.Args))
			}
			o := k.expr(x.Args[0], e)
			if o.t != tCoin {
				k.refuse(x.Args[0], "Coin.%s of a value of type %s", name, o.t)
			}
			a, b := k.term(k.coinAmt(recv), x), k.term(k.coinAmt(o), x.Args[0])
			t := k.bind("SdkInt." + strings.ToLower(name) + " " + a + " " + b)
			if name == "Sub" {
				k.guard("(negb (" + t + " <? 0))") // Coin.Sub panics on a negative result
			}
			return one(&value{t: tCoin, denom: recv.denom, amt: &value{t: tInt, term: t}, src: "coin"})
		case "IsPositive", "IsNegative", "IsZero":
			return one(k.signTest(k.coinAmt(recv), name, x))
		case "IsEqual", "Equal":
			// the amounts; like Coin.Add / Coin.Sub the (symbolic) denominations are not compared
			if len(x.Args) != 1 {
				k.refuse(x, "Coin.%s with %d arguments", name, len(x.Args))
			}
			o := k.expr(x.Args[0], e)
			if o.t != tCoin {
				k.refuse(x.Args[0], "Coin.%s of a value of type %s", name, o.t)
			}
			a, b := k.term(k.coinAmt(recv), x), k.term(k.coinAmt(o), x.Args[0])
			return one(&value{t: tBool, term: "(" + a + " =? " + b + ")"})
		case "String":
			return opaque()
		}
		k.refuse(x, "sdk.Coin method %s is not in the translator's table", name)
	case tCoins:
		if name == "String" {
			return opaque()
		}
		k.refuse(x, "sdk.Coins method %s is not in the translator's table", name)
	}
	// opaque receiver (keeper, context, message, string ...)
	if effects[name] {
		return k.effect(name, x, e, want)
	}
	if recv.t == tOpaque && recv.prov == "recv" {
		if fd := k.localMethod(name); fd != nil {
			if vs, ok := k.tryInline(fd, recv, x, e, want); ok {
				return vs
			}
		}
	}
	if recv.t == tOpaque && strings.HasPrefix(recv.prov, "recv.") && !strings.ContainsAny(recv.prov[5:], ".(#") {
		if fd := k.fieldMethod(name); fd != nil {
			if vs, ok := k.tryInline(fd, recv, x, e, want); ok {
				return vs
			}
		}
	}
	if fd := k.module.inlinable[name]; fd != nil && recv.t == tOpaque {
		k.inline(fd, recv, x, e)
		return opaqueResults(k.prov(x, e), name, nil, want)
	}
	p := k.prov(x, e)
	if stateReads[name] {
		p += "@" + strconv.Itoa(e.neff)
	}
	k.outParams(x, e, p)
	return opaqueResults(p, lastSeg(k.src(x.Fun)), opaqueMethods[name], want)
}

// outParams: `var r T; f(&r, ...)` - a declared, never assigned variable handed by address to an opaque call is
// what that call writes: afterwards it is read from the call (provenance <call>&<argument index>), not from zero(T).
func (k *kctx) outParams(x *ast.CallExpr, e *env, callProv string) {
	for i, a := range x.Args {
		u, ok := a.(*ast.UnaryExpr)
		if !ok || u.Op != token.AND {
			continue
		}
		id, ok := u.X.(*ast.Ident)
		if !ok {
			continue
		}
		if v, ok := e.vars[id.Name]; ok && v.t == tOpaque && v.fields == nil && strings.HasPrefix(v.prov, "zero(") {
			e.vars[id.Name] = &value{t: tOpaque, prov: callProv + "&" + strconv.Itoa(i), src: id.Name}
		}
	}
}

// canonType: a type expression with the package alias replaced by the canonical one
func (k *kctx) canonType(t ast.Expr) string {
	s := k.src(t)
	if i := strings.Index(s, "."); i > 0 {
		alias := strings.TrimPrefix(s[:i], "*")
		if p, ok := k.imports[alias]; ok {
			s = strings.Replace(s, alias+".", p+".", 1)
		}
	}
	return s
}

// freshBig: big.NewInt(n) or new(big.Int) written in place
func (k *kctx) freshBig(x ast.Expr, e *env) bool {
	for {
		p, ok := x.(*ast.ParenExpr)
		if !ok {
			break
		}
		x = p.X
	}
	c, ok := x.(*ast.CallExpr)
	if !ok {
		return false
	}
	switch f := c.Fun.(type) {
	case *ast.Ident:
		_, shadow := e.vars[f.Name]
		return !shadow && f.Name == "new" && len(c.Args) == 1 && k.canonType(c.Args[0]) == "big.Int"
	case *ast.SelectorExpr:
		if id, ok := f.X.(*ast.Ident); ok {
			if p, ok := k.pkgOf(id, e); ok {
				return p == "big" && f.Sel.Name == "NewInt"
			}
		}
	}
	return false
}

// coinLit: sdk.Coins{c1, ...} / sdk.Coin{Denom: d, Amount: a} (a literal does not validate, unlike sdk.NewCoin)
func (k *kctx) coinLit(x *ast.CompositeLit, e *env) *value {
	if x.Type == nil {
		return nil
	}
	switch k.canonType(x.Type) {
	case "sdk.Coins":
		v := &value{t: tCoins, src: "coins", coins: []*value{}}
		for _, el := range x.Elts {
			if _, kv := el.(*ast.KeyValueExpr); kv {
				return nil
			}
			c := k.expr(el, e)
			if c.t != tCoin {
				k.refuse(el, "sdk.Coins literal with an element of type %s", c.t)
			}
			v.coins = append(v.coins, c)
		}
		return v
	case "sdk.Coin":
		var denom, amt *value
		for _, el := range x.Elts {
			kv, ok := el.(*ast.KeyValueExpr)
			if !ok {
				k.refuse(el, "sdk.Coin literal without field names")
			}
			switch k.src(kv.Key) {
			case "Denom":
				denom = k.expr(kv.Value, e)
			case "Amount":
				amt = k.expr(kv.Value, e)
			default:
				k.refuse(el, "unknown field of sdk.Coin")
			}
		}
		if denom == nil || amt == nil {
			k.refuse(x, "sdk.Coin literal without Denom or Amount")
		}
		if amt.t != tInt {
			k.refuse(x, "sdk.Coin literal with an amount of type %s", amt.t)
		}
		if amt.term == "" {
			k.term(amt, x)
		}
		return &value{t: tCoin, denom: provOf(denom), amt: amt, src: "coin"}
	}
	return nil
}

// inline a small pointer-receiver method that only assigns fields of its receiver (EpochInfo.StartInitialEpoch / EndEpoch).
func (k *kctx) inline(fd *ast.FuncDecl, recv *value, x *ast.CallExpr, e *env) {
	if len(x.Args) != 0 || fd.Type.Params.NumFields() != 0 || fd.Recv == nil || len(fd.Recv.List[0].Names) != 1 {
		k.refuse(x, "method %s cannot be inlined (it takes arguments)", fd.Name.Name)
	}
	rn := fd.Recv.List[0].Names[0].Name
	old, had := e.vars[rn]
	e.vars[rn] = recv
	for _, s := range fd.Body.List {
		switch s := s.(type) {
		case *ast.AssignStmt:
			k.assign(s, e)
		case *ast.IncDecStmt:
			k.incdec(s, e)
		default:
			k.refuse(s, "statement form %T inside inlined method %s", s, fd.Name.Name)
		}
	}
	if had {
		e.vars[rn] = old
	} else {
		delete(e.vars, rn)
	}
}

// ---------------------------------------------------------------- statements

type cont func(e *env)

func (k *kctx) store(lhs ast.Expr, v *value, e *env) {
	switch l := lhs.(type) {
	case *ast.Ident:
		if l.Name == "_" {
			return
		}
		if (isZ(v.t) || v.t == tBool) && !v.oracle && v.term != "" && !isAtom(v.term) && v.cmpL == "" {
			n := k.uniq(l.Name)
			k.emit("let " + n + " := " + v.term + " in")
			v = &value{t: v.t, term: n}
		}
		e.vars[l.Name] = v
	case *ast.SelectorExpr:
		base := k.expr(l.X, e)
		if base.t != tOpaque {
			k.refuse(lhs, "assignment to a field of a value of type %s", base.t)
		}
		if base.fields == nil {
			base.fields = map[string]*value{}
		}
		if t, ok := fieldTypes[l.Sel.Name]; ok && t != v.t && !(isZ(t) && isZ(v.t)) {
			k.refuse(lhs, "field %s has type %s in the table but is assigned a %s", l.Sel.Name, t, v.t)
		}
		if (isZ(v.t) || v.t == tBool) && v.term == "" {
			k.term(v, lhs)
		}
		base.fields[l.Sel.Name] = v
	default:
		k.refuse(lhs, "unsupported assignment target %T", lhs)
	}
}

func (k *kctx) named(rhs ast.Expr, lhs ast.Expr, e *env) *value {
	v := k.expr(rhs, e)
	id, ok := lhs.(*ast.Ident)
	if !ok || id.Name == "_" {
		return v
	}
	if v.term != "" && regexp.MustCompile(`^t[0-9]+$`).MatchString(v.term) {
		v = &value{t: v.t, term: k.renameLast(v.term, id.Name)}
	} else if v.term == "" && (v.oracle || v.t == tOpaque) && !isLocalName(rhs) {
		c := *v // an external quantity is named after the variable it is first stored in
		c.src = id.Name
		v = &c
	}
	return v
}

func isLocalName(x ast.Expr) bool {
	_, ok := x.(*ast.Ident)
	return ok
}

func (k *kctx) assign(s *ast.AssignStmt, e *env) {
	switch s.Tok {
	case token.DEFINE, token.ASSIGN:
		if len(s.Rhs) == 1 && len(s.Lhs) > 1 {
			c, ok := s.Rhs[0].(*ast.CallExpr)
			if !ok {
				if ta, ok := s.Rhs[0].(*ast.TypeAssertExpr); ok {
					p := k.prov(ta, e)
					k.store(s.Lhs[0], &value{t: tOpaque, prov: p + "#0", src: k.src(ta.X)}, e)
					k.store(s.Lhs[1], external(tBool, p+"#1", "ok"), e)
					return
				}
				k.refuse(s, "multi-value assignment from %T", s.Rhs[0])
			}
			vs := k.call(c, e, len(s.Lhs))
			if len(vs) != len(s.Lhs) {
				k.refuse(s, "call yields %d values for %d targets", len(vs), len(s.Lhs))
			}
			for i, l := range s.Lhs {
				if id, ok := l.(*ast.Ident); ok {
					vs[i].src = id.Name
				}
				k.store(l, vs[i], e)
			}
			return
		}
		if len(s.Rhs) != len(s.Lhs) {
			k.refuse(s, "unbalanced assignment")
		}
		var vs []*value
		for i := range s.Rhs {
			vs = append(vs, k.named(s.Rhs[i], s.Lhs[i], e))
		}
		for i, l := range s.Lhs {
			k.store(l, vs[i], e)
		}
	case token.ADD_ASSIGN, token.SUB_ASSIGN:
		if len(s.Lhs) != 1 {
			k.refuse(s, "unsupported compound assignment")
		}
		l, r := k.expr(s.Lhs[0], e), k.expr(s.Rhs[0], e)
		if l.t != tNum || r.t != tNum {
			k.refuse(s, "compound assignment on %s and %s (only machine integers)", l.t, r.t)
		}
		op := "+"
		if s.Tok == token.SUB_ASSIGN {
			op = "-"
		}
		k.store(s.Lhs[0], &value{t: tNum, term: "(" + k.term(l, s) + " " + op + " " + k.term(r, s) + ")"}, e)
	default:
		k.refuse(s, "unsupported assignment operator %s", s.Tok)
	}
}

func (k *kctx) incdec(s *ast.IncDecStmt, e *env) {
	l := k.expr(s.X, e)
	if l.t != tNum {
		k.refuse(s, "++/-- on a value of type %s", l.t)
	}
	op := "+"
	if s.Tok == token.DEC {
		op = "-"
	}
	k.store(s.X, &value{t: tNum, term: "(" + k.term(l, s) + " " + op + " 1)"}, e)
}

func (k *kctx) typeOf(t ast.Expr) typ {
	s := k.src(t)
	if i := strings.Index(s, "."); i > 0 {
		alias := strings.TrimPrefix(s[:i], "*")
		if p, ok := k.imports[alias]; ok {
			s = strings.Replace(s, alias+".", p+".", 1)
		}
	}
	if ty, ok := typeNames[s]; ok {
		return ty
	}
	return tOpaque
}

func (k *kctx) decl(s *ast.DeclStmt, e *env) {
	gd, ok := s.Decl.(*ast.GenDecl)
	if !ok || gd.Tok != token.VAR {
		k.refuse(s, "unsupported declaration")
	}
	for _, sp := range gd.Specs {
		vs := sp.(*ast.ValueSpec)
		if len(vs.Values) == 0 {
			t := k.typeOf(vs.Type)
			for _, n := range vs.Names {
				switch {
				case k.src(vs.Type) == "error":
					e.vars[n.Name] = &value{t: tNil}
				case t == tOpaque:
					e.vars[n.Name] = &value{t: tOpaque, prov: "zero(" + k.src(vs.Type) + ")", src: n.Name}
				case t == tBool:
					e.vars[n.Name] = &value{t: tBool, term: "false"}
				case t == tNum:
					e.vars[n.Name] = &value{t: tNum, term: "0"}
				default:
					e.vars[n.Name] = &value{t: t, unset: true, src: n.Name}
				}
			}
			continue
		}
		if len(vs.Values) != len(vs.Names) {
			k.refuse(s, "unbalanced var declaration")
		}
		for i, n := range vs.Names {
			k.store(n, k.named(vs.Values[i], n, e), e)
		}
	}
}

// failing: does this block unconditionally end in an error return or a panic, without handing anything out?
func (k *kctx) failing(b *ast.BlockStmt) bool {
	if b == nil || len(b.List) == 0 {
		return false
	}
	for _, s := range b.List[:len(b.List)-1] {
		switch s := s.(type) {
		case *ast.ExprStmt:
			if c, ok := s.X.(*ast.CallExpr); ok && effects[lastSeg(k.src(c.Fun))] {
				return false
			}
		default:
			return false
		}
	}
	switch s := b.List[len(b.List)-1].(type) {
	case *ast.ReturnStmt:
		return k.retFails(s)
	case *ast.ExprStmt:
		return isPanic(s.X)
	}
	return false
}

func isPanic(x ast.Expr) bool {
	c, ok := x.(*ast.CallExpr)
	if !ok {
		return false
	}
	id, ok := c.Fun.(*ast.Ident)
	return ok && id.Name == "panic"
}

func (k *kctx) retFails(s *ast.ReturnStmt) bool {
	if !k.retErr || len(s.Results) == 0 {
		return false
	}
	switch l := s.Results[len(s.Results)-1].(type) {
	case *ast.Ident:
		return l.Name != "nil"
	case *ast.CallExpr:
		if sel, ok := l.Fun.(*ast.SelectorExpr); ok {
			if id, ok := sel.X.(*ast.Ident); ok {
				return errorPkgs[k.imports[id.Name]]
			}
		}
		return false
	}
	return true
}

// oracleCond: is the condition (after stripping `!`) a single external fact (a bool read from outside, or a
// comparison of strings / addresses / nil)?  Returns its description.
func (k *kctx) oracleCond(c ast.Expr, e *env) (desc string, nilCheck bool, ok bool) {
	neg := false
	for {
		switch x := c.(type) {
		case *ast.ParenExpr:
			c = x.X
			continue
		case *ast.UnaryExpr:
			if x.Op == token.NOT {
				neg = !neg
				c = x.X
				continue
			}
		}
		break
	}
	pre := ""
	if neg {
		pre = "!"
	}
	simple := func(x ast.Expr) bool {
		ok := true
		ast.Inspect(x, func(n ast.Node) bool {
			switch n.(type) {
			case *ast.BinaryExpr, *ast.FuncLit:
				ok = false
			}
			return ok
		})
		return ok
	}
	switch x := c.(type) {
	case *ast.Ident, *ast.SelectorExpr:
		if !simple(c) {
			return "", false, false
		}
		v := k.expr(c, e)
		if v.t == tBool && v.oracle && !modelledBools[lastSeg(v.prov)] {
			return pre + v.prov, false, true
		}
	case *ast.BinaryExpr:
		if (x.Op != token.EQL && x.Op != token.NEQ) || !simple(x.X) || !simple(x.Y) {
			return "", false, false
		}
		n := len(k.lines)
		save := k.saveInputs()
		nmat := len(k.matLog)
		l, r := k.expr(x.X, e), k.expr(x.Y, e)
		if len(k.lines) != n {
			k.refuse(x, "operand of a string/nil comparison can panic")
		}
		k.restoreInputs(save)
		for _, v := range k.matLog[nmat:] { // this was a trial evaluation: forget the inputs it created
			if _, kept := k.inputs[v.prov]; !kept {
				v.term = ""
			}
		}
		k.matLog = k.matLog[:nmat]
		op := " == "
		if x.Op == token.NEQ {
			op = " != "
		}
		if bigNil(l, r) || bigNil(r, l) { // no usable answer to a balance query: listed in gen_f_assumes
			return pre + "(" + provOf(l) + op + provOf(r) + ")", false, true
		}
		if isZ(l.t) || isZ(r.t) || l.t == tBool || r.t == tBool {
			return "", false, false
		}
		return pre + "(" + provOf(l) + op + provOf(r) + ")", l.t == tNil || r.t == tNil, true
	}
	return "", false, false
}

func (k *kctx) saveInputs() map[string]*input {
	m := map[string]*input{}
	for p, i := range k.inputs {
		m[p] = i
	}
	return m
}
func (k *kctx) restoreInputs(m map[string]*input) {
	for p, i := range k.inputs {
		if _, ok := m[p]; !ok {
			delete(k.used, i.name)
		}
	}
	k.inputs = m
}

// pureReassign: `if c { x = atom; ... }` without else -> let x := if c then atom else x
func (k *kctx) pureReassign(s *ast.IfStmt, e *env) bool {
	if s.Else != nil || len(s.Body.List) == 0 {
		return false
	}
	for _, st := range s.Body.List {
		a, ok := st.(*ast.AssignStmt)
		if !ok || a.Tok != token.ASSIGN || len(a.Lhs) != 1 || len(a.Rhs) != 1 {
			return false
		}
		l, ok := a.Lhs[0].(*ast.Ident)
		if !ok {
			return false
		}
		r, ok := a.Rhs[0].(*ast.Ident)
		if !ok {
			return false
		}
		lv, ok1 := e.vars[l.Name]
		rv, ok2 := e.vars[r.Name]
		if !ok1 || !ok2 || !isZ(lv.t) || lv.t != rv.t || lv.unset {
			return false
		}
	}
	return true
}

func (k *kctx) assume(desc string, nilCheck bool) {
	if nilCheck {
		return
	}
	if strings.HasPrefix(desc, "!") {
		desc = desc[1:]
	} else {
		desc = "not " + desc
	}
	for _, a := range k.assumes {
		if a == desc {
			return
		}
	}
	k.assumes = append(k.assumes, desc)
}

func (k *kctx) reassign(s *ast.IfStmt, c string, e *env) {
	for _, st := range s.Body.List {
		a := st.(*ast.AssignStmt)
		l, r := a.Lhs[0].(*ast.Ident).Name, a.Rhs[0].(*ast.Ident).Name
		lv, rv := e.vars[l], e.vars[r]
		n := k.uniq(l)
		k.emit("let " + n + " := if " + c + " then " + k.term(rv, a) + " else " + k.term(lv, a) + " in")
		e.vars[l] = &value{t: lv.t, term: n}
	}
}

func (k *kctx) ifStmt(s *ast.IfStmt, e *env, next cont) {
	if s.Init != nil {
		switch in := s.Init.(type) {
		case *ast.AssignStmt:
			k.assign(in, e)
		default:
			k.refuse(s.Init, "unsupported if-initialiser %T", s.Init)
		}
	}
	elseBranch := func(e *env) {
		switch el := s.Else.(type) {
		case nil:
			next(e)
		case *ast.BlockStmt:
			k.block(el.List, e, next)
		case *ast.IfStmt:
			k.ifStmt(el, e, next)
		default:
			k.refuse(s.Else, "unsupported else form")
		}
	}
	fails := k.failing(s.Body)
	if desc, nilCheck, ok := k.oracleCond(s.Cond, e); ok && fails {
		// an external guard (a call reported an error, a record was not found ...): the generated definition
		// describes the executions in which it does not fire; recorded as an assumption
		k.assume(desc, nilCheck)
		elseBranch(e)
		return
	}
	cv := k.expr(s.Cond, e)
	if cv.t != tBool {
		k.refuse(s.Cond, "condition of type %s", cv.t)
	}
	c := k.term(cv, s.Cond)
	if fails {
		k.guard(negate(c))
		elseBranch(e)
		return
	}
	if k.pureReassign(s, e) {
		k.reassign(s, c, e)
		next(e)
		return
	}
	k.emit("if " + c + " then (")
	k.ind++
	k.block(s.Body.List, e.clone(), next)
	k.ind--
	k.emit(") else (")
	k.ind++
	elseBranch(e.clone())
	k.ind--
	k.emit(")")
}

func (k *kctx) switchStmt(s *ast.SwitchStmt, e *env, next cont) {
	if s.Tag != nil || s.Init != nil {
		k.refuse(s, "switch with a tag or initialiser")
	}
	// rewrite a tagless switch into an if-chain
	var chain, last *ast.IfStmt
	var deflt *ast.BlockStmt
	for _, c := range s.Body.List {
		cc := c.(*ast.CaseClause)
		for _, st := range cc.Body {
			if b, ok := st.(*ast.BranchStmt); ok {
				k.refuse(b, "%s inside a switch", b.Tok)
			}
		}
		if cc.List == nil {
			deflt = &ast.BlockStmt{List: cc.Body}
			continue
		}
		if len(cc.List) != 1 {
			k.refuse(cc, "case with several expressions")
		}
		if deflt != nil {
			k.refuse(cc, "default clause before a case clause")
		}
		is := &ast.IfStmt{If: cc.Pos(), Cond: cc.List[0], Body: &ast.BlockStmt{List: cc.Body}}
		if chain == nil {
			chain = is
		} else {
			last.Else = is
		}
		last = is
	}
	if chain == nil {
		k.refuse(s, "switch without cases")
	}
	if deflt != nil {
		last.Else = deflt
	}
	k.ifStmt(chain, e, next)
}

func (k *kctx) exprStmt(x ast.Expr, e *env) (terminated bool) {
	if isPanic(x) {
		k.none()
		return true
	}
	c, ok := x.(*ast.CallExpr)
	if !ok {
		k.refuse(x, "unsupported expression statement")
	}
	k.call(c, e, 1)
	return false
}

func (k *kctx) none() {
	k.emit("None")
	k.fallible = true
}

func (k *kctx) block(stmts []ast.Stmt, e *env, next cont) {
	if len(stmts) == 0 {
		next(e)
		return
	}
	rest := func(e *env) { k.block(stmts[1:], e, next) }
	switch s := stmts[0].(type) {
	case *ast.AssignStmt:
		k.assign(s, e)
		rest(e)
	case *ast.DeclStmt:
		k.decl(s, e)
		rest(e)
	case *ast.IncDecStmt:
		k.incdec(s, e)
		rest(e)
	case *ast.ExprStmt:
		if !k.exprStmt(s.X, e) {
			rest(e)
		}
	case *ast.ReturnStmt:
		k.ret(s, e)
	case *ast.IfStmt:
		k.ifStmt(s, e, rest)
	case *ast.SwitchStmt:
		k.switchStmt(s, e, rest)
	case *ast.BlockStmt:
		k.block(s.List, e, rest)
	case *ast.DeferStmt:
		if !k.harmlessDefer(s) {
			k.refuse(s, "defer of something other than telemetry")
		}
		rest(e)
	case *ast.EmptyStmt:
		rest(e)
	default:
		k.refuse(s, "unsupported statement form %T", s)
	}
}

// a deferred call is skipped only when everything it calls is telemetry (or reads used by telemetry)
func (k *kctx) harmlessDefer(s *ast.DeferStmt) bool {
	txt := k.src(s.Call)
	if id, ok := s.Call.Fun.(*ast.Ident); ok && !strings.Contains(txt, "telemetry.") {
		// defer f(args) with f a function of the same package: skipped when f's body is telemetry only -
		// no effect call, nothing assigned except its own new locals, no address taken, no nested defer / go
		fd := k.localFunc(id.Name)
		if fd == nil || fd.Recv != nil || !strings.Contains(k.src(fd.Body), "telemetry.") {
			return false
		}
		for _, a := range s.Call.Args { // the arguments are evaluated at the defer statement: reads only
			if containsAnyCall(a) {
				return false
			}
		}
		ok := true
		ast.Inspect(fd.Body, func(n ast.Node) bool {
			switch n := n.(type) {
			case *ast.CallExpr:
				if effects[lastSeg(k.src(n.Fun))] {
					ok = false
				}
			case *ast.AssignStmt:
				if n.Tok != token.DEFINE {
					ok = false
				}
			case *ast.UnaryExpr:
				if n.Op == token.AND {
					if _, lit := n.X.(*ast.CompositeLit); !lit {
						ok = false
					}
				}
			case *ast.IncDecStmt, *ast.DeferStmt, *ast.GoStmt, *ast.SendStmt:
				ok = false
			}
			return ok
		})
		return ok
	}
	if !strings.Contains(txt, "telemetry.") {
		return false
	}
	ok := true
	ast.Inspect(s.Call, func(n ast.Node) bool {
		if c, isCall := n.(*ast.CallExpr); isCall && effects[lastSeg(k.src(c.Fun))] {
			ok = false
		}
		if _, isAssign := n.(*ast.AssignStmt); isAssign {
			ok = false
		}
		return ok
	})
	return ok
}

func containsAnyCall(n ast.Node) bool {
	found := false
	ast.Inspect(n, func(x ast.Node) bool {
		if _, ok := x.(*ast.CallExpr); ok {
			found = true
		}
		return !found
	})
	return found
}

func (k *kctx) success(e *env, extra []out) {
	outs := append(append([]out(nil), e.outs...), extra...)
	if k.scalar {
		if len(outs) != 1 {
			k.refuse(k.module.curNode, "a scalar kernel ends with %d results", len(outs))
		}
		// tail position: `t <- call ;; Some t` is written `call`
		if n := len(k.lines); n > 0 {
			last := strings.TrimLeft(k.lines[n-1], " ")
			if strings.HasPrefix(last, outs[0].term+" <- ") && strings.HasSuffix(last, " ;;") {
				pad := k.lines[n-1][:len(k.lines[n-1])-len(last)]
				k.lines[n-1] = pad + strings.TrimSuffix(strings.TrimPrefix(last, outs[0].term+" <- "), " ;;")
				return
			}
		}
		k.emit("Some " + outs[0].term)
		return
	}
	var ts, ls []string
	for _, o := range outs {
		ts = append(ts, o.term)
		ls = append(ls, o.label)
	}
	if len(ls) > 0 {
		k.emit("(* " + strings.Join(ls, "; ") + " *)")
	}
	k.emit("Some [" + strings.Join(ts, "; ") + "]")
}

func (k *kctx) ret(s *ast.ReturnStmt, e *env) {
	k.module.curNode = s
	if k.retFails(s) {
		k.none()
		return
	}
	var extra []out
	for i, r := range s.Results {
		if c, ok := r.(*ast.CallExpr); ok && len(s.Results) == 1 {
			// return f(...): forwards the callee's results
			vs := k.call(c, e, 1)
			if isZ(vs[0].t) || vs[0].t == tCoin {
				tmp := &env{vars: e.vars}
				k.output(vs[0], "result", tmp, r)
				extra = append(extra, tmp.outs...)
			}
			continue
		}
		v := k.expr(r, e)
		if isZ(v.t) || v.t == tCoin || v.t == tCoins {
			tmp := &env{vars: e.vars}
			k.output(v, fmt.Sprintf("result%d", i), tmp, r)
			extra = append(extra, tmp.outs...)
		}
	}
	k.success(e, extra)
}
