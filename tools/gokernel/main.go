// gokernel regenerates small Gallina definitions from the Go sources of the Canto repository.
//
//	gokernel <repo-root> <outdir>
//
// writes <outdir>/K<Module>.v for the modules Coinswap, Csr, Inflation, Epochs, Erc20, Ante.  The committed files
// coq/Gen/Agree<Module>.v prove each generated definition equal to the hand-written model; a semantic edit of
// the Go source therefore makes an agreement lemma stop compiling.  Standard library only (go/parser, go/ast).
// See README.md.
package main

import (
	"bytes"
	"fmt"
	"go/ast"
	"go/parser"
	"go/printer"
	"go/token"
	"os"
	"path/filepath"
	"regexp"
	"sort"
	"strconv"
	"strings"
)

type kernelSpec struct {
	name   string // the definition is gen_<name>
	file   string // path relative to the repository root
	fn     string // enclosing function
	kind   string // "func": whole function; "closure": the first function literal inside fn; "cond": condition of the if that contains a call of anchor
	scalar bool   // result option Z (the single numeric result) instead of option (list Z)
	anchor string
}

type moduleSpec struct {
	name    string
	kernels []kernelSpec
	inline  []string // files whose pointer-receiver methods may be inlined
}

var modules = []moduleSpec{
	{name: "Coinswap", kernels: []kernelSpec{
		{name: "GetInputPrice", file: "x/coinswap/keeper/swap.go", fn: "GetInputPrice", kind: "func", scalar: true},
		{name: "GetOutputPrice", file: "x/coinswap/keeper/swap.go", fn: "GetOutputPrice", kind: "func", scalar: true},
		{name: "calculateWithExactInput", file: "x/coinswap/keeper/swap.go", fn: "calculateWithExactInput", kind: "func", scalar: true},
		{name: "calculateWithExactOutput", file: "x/coinswap/keeper/swap.go", fn: "calculateWithExactOutput", kind: "func", scalar: true},
		{name: "TradeExactInputForOutput", file: "x/coinswap/keeper/swap.go", fn: "TradeExactInputForOutput", kind: "func"},
		{name: "TradeInputForExactOutput", file: "x/coinswap/keeper/swap.go", fn: "TradeInputForExactOutput", kind: "func"},
		{name: "AddLiquidity", file: "x/coinswap/keeper/keeper.go", fn: "AddLiquidity", kind: "func"},
		{name: "addLiquidity", file: "x/coinswap/keeper/keeper.go", fn: "addLiquidity", kind: "func"},
		{name: "RemoveLiquidity", file: "x/coinswap/keeper/keeper.go", fn: "RemoveLiquidity", kind: "func"},
		{name: "removeLiquidity", file: "x/coinswap/keeper/keeper.go", fn: "removeLiquidity", kind: "func"},
		{name: "DeductPoolCreationFee", file: "x/coinswap/keeper/fees.go", fn: "DeductPoolCreationFee", kind: "func"},
	}},
	{name: "Csr", kernels: []kernelSpec{
		{name: "PostTxProcessing", file: "x/csr/keeper/evm_hooks.go", fn: "PostTxProcessing", kind: "func"},
	}},
	{name: "Inflation", kernels: []kernelSpec{
		{name: "CalculateEpochMintProvision", file: "x/inflation/types/inflation_calculation.go", fn: "CalculateEpochMintProvision", kind: "func", scalar: true},
		{name: "GetProportions", file: "x/inflation/keeper/inflation.go", fn: "GetProportions", kind: "func", scalar: true},
		{name: "period_passed", file: "x/inflation/keeper/hooks.go", fn: "AfterEpochEnd", kind: "cond", anchor: "CalculateEpochMintProvision"},
	}},
	{name: "Epochs", inline: []string{"x/epochs/types/epoch_info.go"}, kernels: []kernelSpec{
		{name: "BeginBlocker", file: "x/epochs/keeper/abci.go", fn: "BeginBlocker", kind: "closure"},
	}},
	{name: "Erc20", kernels: []kernelSpec{
		{name: "convertCoinNativeCoin", file: "x/erc20/keeper/msg_server.go", fn: "convertCoinNativeCoin", kind: "func"},
		{name: "convertERC20NativeCoin", file: "x/erc20/keeper/msg_server.go", fn: "convertERC20NativeCoin", kind: "func"},
		{name: "convertERC20NativeToken", file: "x/erc20/keeper/msg_server.go", fn: "convertERC20NativeToken", kind: "func"},
		{name: "convertCoinNativeERC20", file: "x/erc20/keeper/msg_server.go", fn: "convertCoinNativeERC20", kind: "func"},
	}},
}

type kernelResult struct {
	spec       kernelSpec
	ok         bool
	text       string
	paramTypes []typ
	resultType typ
	direct     bool // every input is a parameter of the function, in signature order
}

type moduleCtx struct {
	name      string
	fset      *token.FileSet
	results   []*kernelResult
	inlinable map[string]*ast.FuncDecl
	pkgs      map[string]*pkgDecls
	curNode   ast.Node
}

func (m *moduleCtx) scalarKernel(fn string) *kernelResult {
	for _, r := range m.results {
		if r.ok && r.spec.fn == fn && r.spec.kind == "func" && r.spec.scalar && r.direct {
			return r
		}
	}
	return nil
}

func nodeText(fset *token.FileSet, n ast.Node) string {
	if n == nil {
		return ""
	}
	var b bytes.Buffer
	if err := printer.Fprint(&b, fset, n); err != nil {
		return "<unprintable>"
	}
	return strings.Join(strings.Fields(b.String()), " ")
}

func importsOf(f *ast.File) map[string]string {
	m := map[string]string{}
	for _, im := range f.Imports {
		p, _ := strconv.Unquote(im.Path.Value)
		name := p[strings.LastIndex(p, "/")+1:]
		if regexp.MustCompile(`^v[0-9]+$`).MatchString(name) {
			q := p[:strings.LastIndex(p, "/")]
			name = q[strings.LastIndex(q, "/")+1:]
		}
		if im.Name != nil {
			name = im.Name.Name
		}
		if c, ok := canonPkg[p]; ok {
			m[name] = c
		} else {
			m[name] = name
		}
	}
	return m
}

func findFunc(f *ast.File, name string) *ast.FuncDecl {
	for _, d := range f.Decls {
		if fd, ok := d.(*ast.FuncDecl); ok && fd.Name.Name == name && fd.Body != nil {
			return fd
		}
	}
	return nil
}

func q(s string) string { return `"` + strings.ReplaceAll(s, `"`, `""`) + `"` }

func strList(l []string) string {
	if len(l) == 0 {
		return "[]"
	}
	var qs []string
	for _, s := range l {
		qs = append(qs, "  "+q(s)+"%string")
	}
	return "[\n" + strings.Join(qs, ";\n") + " ]"
}

var numRe = regexp.MustCompile(`[0-9]+`)

func sortKey(s string) string {
	return numRe.ReplaceAllStringFunc(s, func(d string) string { return fmt.Sprintf("%06s", d) })
}

// bindParams puts the parameters (and the receiver) of a function into the environment.
func (k *kctx) bindParams(recv *ast.FieldList, ft *ast.FuncType, prefix string, e *env) {
	if recv != nil && len(recv.List) == 1 && len(recv.List[0].Names) == 1 {
		n := recv.List[0].Names[0].Name
		e.vars[n] = &value{t: tOpaque, prov: "recv", src: n}
	}
	idx := 0
	for _, f := range ft.Params.List {
		t := k.typeOf(f.Type)
		names := f.Names
		if len(names) == 0 {
			idx++
			continue
		}
		for _, n := range names {
			p := prefix + strconv.Itoa(idx)
			idx++
			if n.Name == "_" {
				continue
			}
			if t == tOpaque {
				e.vars[n.Name] = &value{t: tOpaque, prov: p, src: n.Name}
			} else {
				e.vars[n.Name] = external(t, p, n.Name)
			}
		}
	}
}

func (k *kctx) resultInfo(ft *ast.FuncType) {
	k.retErr, k.noResult = false, true
	if ft.Results != nil && len(ft.Results.List) > 0 {
		k.noResult = false
		last := ft.Results.List[len(ft.Results.List)-1]
		k.retErr = k.src(last.Type) == "error"
	}
}

func containsFuncLit(s ast.Stmt) *ast.FuncLit {
	if _, ok := s.(*ast.DeferStmt); ok {
		return nil
	}
	var fl *ast.FuncLit
	ast.Inspect(s, func(n ast.Node) bool {
		if x, ok := n.(*ast.FuncLit); ok && fl == nil {
			fl = x
		}
		return fl == nil
	})
	return fl
}

func containsCall(n ast.Node, callee string) bool {
	found := false
	ast.Inspect(n, func(x ast.Node) bool {
		if c, ok := x.(*ast.CallExpr); ok {
			switch f := c.Fun.(type) {
			case *ast.Ident:
				found = found || f.Name == callee
			case *ast.SelectorExpr:
				found = found || f.Sel.Name == callee
			}
		}
		return !found
	})
	return found
}

func (m *moduleCtx) translate(repo string, spec kernelSpec) *kernelResult {
	res := &kernelResult{spec: spec}
	fset := m.fset
	path := filepath.Join(repo, spec.file)
	refused := func(where, why string) *kernelResult {
		res.text = fmt.Sprintf("(* REFUSED gen_%s: %s: %s *)\nDefinition gen_%s_REFUSED : True := 0.\n", spec.name, where, strings.ReplaceAll(why, "*)", "* )"), spec.name)
		fmt.Fprintf(os.Stderr, "gokernel: REFUSED gen_%s: %s: %s\n", spec.name, where, why)
		return res
	}
	f, err := parser.ParseFile(fset, path, nil, 0)
	if err != nil {
		return refused(spec.file, "cannot parse: "+err.Error())
	}
	fd := findFunc(f, spec.fn)
	if fd == nil {
		return refused(spec.file, "function "+spec.fn+" not found")
	}
	k := &kctx{fset: fset, imports: importsOf(f), module: m, inputs: map[string]*input{}, used: map[string]bool{}, scalar: spec.scalar}
	k.pkg = m.pkg(repo, filepath.Dir(spec.file))
	k.pkg.imports[fd] = k.imports
	k.recvType, _ = recvTypeName(fd)
	// reserve the names of the Coq library the generated text refers to
	for _, n := range []string{"SdkInt", "SdkDec", "Z", "N", "Bool", "list", "option", "bool", "string", "nil", "cons", "fst", "snd"} {
		k.used[n] = true
	}
	var isBool bool
	var failure *refusal
	func() {
		defer func() {
			if r := recover(); r != nil {
				if rf, ok := r.(refusal); ok {
					failure = &rf
					return
				}
				panic(r)
			}
		}()
		e := &env{vars: map[string]*value{}}
		k.bindParams(fd.Recv, fd.Type, "arg", e)
		k.resultInfo(fd.Type)
		end := func(e *env) {
			if !k.noResult {
				k.refuse(fd, "control reaches the end of a function that returns values")
			}
			k.success(e, nil)
		}
		switch spec.kind {
		case "func":
			m.curNode = fd
			k.block(fd.Body.List, e, end)
		case "closure":
			done := false
			for _, s := range fd.Body.List {
				if fl := containsFuncLit(s); fl != nil {
					k.bindParams(nil, fl.Type, "carg", e)
					k.resultInfo(fl.Type)
					k.retErr = false
					end2 := func(e *env) { k.success(e, nil) }
					m.curNode = fl
					k.block(fl.Body.List, e, end2)
					done = true
					break
				}
				k.block([]ast.Stmt{s}, e, func(*env) {})
			}
			if !done {
				k.refuse(fd, "no function literal found in %s", spec.fn)
			}
		case "cond":
			target := k.walkToCond(fd.Body.List, e, spec.anchor)
			if target == nil {
				k.refuse(fd, "no if-statement guarding a call of %s found in %s", spec.anchor, spec.fn)
			}
			// what precedes the condition may panic; the condition is stated for the executions that reach it
			k.lines = nil
			bound := map[string]bool{}
			for n := range k.used {
				bound[n] = true
			}
			cv := k.expr(target.Cond, e)
			if cv.t != tBool {
				k.refuse(target.Cond, "the condition is not a boolean expression")
			}
			c := k.term(cv, target.Cond)
			for i := len(k.lines) - 1; i >= 0; i-- { // local definitions of an inlined helper
				t := strings.TrimSpace(k.lines[i])
				if !strings.HasPrefix(t, "let ") || !strings.HasSuffix(t, " in") {
					k.refuse(target.Cond, "the condition can panic")
				}
				delete(bound, strings.Fields(t)[1])
				c = t + " " + c
			}
			k.lines = nil
			for _, i := range k.inputs {
				delete(bound, i.name)
			}
			for _, tok := range regexp.MustCompile(`[A-Za-z_][A-Za-z0-9_']*`).FindAllString(c, -1) {
				if bound[tok] && !k.isInputName(tok) {
					k.refuse(target.Cond, "the condition depends on %s, which is computed (not read) before it", tok)
				}
			}
			toks := map[string]bool{}
			for _, tok := range regexp.MustCompile(`[A-Za-z_][A-Za-z0-9_']*`).FindAllString(c, -1) {
				toks[tok] = true
			}
			for p, i := range k.inputs { // keep only what the condition reads
				if !toks[i.name] {
					delete(k.inputs, p)
				}
			}
			k.emit(c)
			isBool = true
		default:
			k.refuse(fd, "unknown kernel kind %s", spec.kind)
		}
	}()
	if failure != nil {
		pos := fset.Position(failure.pos)
		return refused(fmt.Sprintf("%s:%d", spec.file, pos.Line), failure.msg)
	}
	// inputs, in canonical order
	var ins []*input
	for _, i := range k.inputs {
		ins = append(ins, i)
	}
	sort.Slice(ins, func(a, b int) bool { return sortKey(ins[a].prov) < sortKey(ins[b].prov) })
	var b strings.Builder
	pos := fset.Position(fd.Pos())
	fmt.Fprintf(&b, "(* %s:%d  %s", spec.file, pos.Line, spec.fn)
	switch spec.kind {
	case "closure":
		b.WriteString(" (the function literal)")
	case "cond":
		fmt.Fprintf(&b, " (condition guarding the call of %s)", spec.anchor)
	}
	b.WriteString("\n   inputs, by provenance (recv = receiver, argN = N-th parameter, f(..)#i = i-th result):\n")
	var params, provs []string
	direct := true
	for n, i := range ins {
		fmt.Fprintf(&b, "     %-28s : %s   (* written %s *)\n", i.name, i.prov, strings.ReplaceAll(i.src, "*)", "* )"))
		params = append(params, fmt.Sprintf("(%s : %s)", i.name, i.coqType))
		provs = append(provs, i.prov)
		if i.prov != "arg"+strconv.Itoa(n) {
			direct = false
		}
	}
	b.WriteString("*)\n")
	rt := "option (list Z)"
	if spec.scalar {
		rt = "option Z"
	}
	if isBool {
		rt = "bool"
	}
	sep := ""
	if len(params) > 0 {
		sep = " "
	}
	fmt.Fprintf(&b, "Definition gen_%s%s%s : %s :=\n%s.\n", spec.name, sep, strings.Join(params, " "), rt, strings.Join(k.lines, "\n"))
	fmt.Fprintf(&b, "Definition gen_%s_inputs : list string := %s.\n", spec.name, strList(provs))
	if spec.kind != "cond" {
		fmt.Fprintf(&b, "Definition gen_%s_assumes : list string := %s.\n", spec.name, strList(k.assumes))
	}
	res.ok, res.text, res.direct = true, b.String(), direct && spec.kind == "func"
	if res.direct {
		nparams := 0
		for _, fl := range fd.Type.Params.List {
			nparams += len(fl.Names)
			for range fl.Names {
				res.paramTypes = append(res.paramTypes, k.typeOf(fl.Type))
			}
		}
		if nparams != len(ins) {
			res.direct = false
		}
		res.resultType = tInt
		if fd.Type.Results != nil && len(fd.Type.Results.List) > 0 {
			res.resultType = k.typeOf(fd.Type.Results.List[0].Type)
		}
	}
	return res
}

// walkToCond follows the statements of a function up to the if-statement whose body calls anchor, building
// the environment on the way.  Conditionals that end in a return are left behind (the target is reached on
// their fall-through path); a conditional that assigns and falls through is refused.
func (k *kctx) walkToCond(stmts []ast.Stmt, e *env, anchor string) *ast.IfStmt {
	for _, s := range stmts {
		if is, ok := s.(*ast.IfStmt); ok {
			if containsCall(is.Body, anchor) {
				if is.Init != nil {
					k.refuse(is, "target if-statement has an initialiser")
				}
				return is
			}
			if is.Else != nil && containsCall(is.Else, anchor) {
				k.refuse(is, "the call of %s sits in an else branch", anchor)
			}
			if n := len(is.Body.List); n > 0 && is.Else == nil {
				switch l := is.Body.List[n-1].(type) {
				case *ast.ReturnStmt:
					continue
				case *ast.ExprStmt:
					if isPanic(l.X) {
						continue
					}
				}
			}
			k.refuse(is, "a conditional that falls through precedes the target condition")
		}
		switch s := s.(type) {
		case *ast.AssignStmt:
			k.assign(s, e)
		case *ast.DeclStmt:
			k.decl(s, e)
		case *ast.ExprStmt:
			if !isPanic(s.X) {
				k.exprStmt(s.X, e)
			}
		case *ast.DeferStmt:
		default:
			k.refuse(s, "unsupported statement form %T before the target condition", s)
		}
	}
	return nil
}

func (k *kctx) isInputName(n string) bool {
	for _, i := range k.inputs {
		if i.name == n {
			return true
		}
	}
	return n == "SdkInt" || n == "SdkDec" || n == "Z" || n == "N" || n == "Bool" || n == "negb"
}

func header(files []string) string {
	return "(* GENERATED by gokernel from " + strings.Join(files, ", ") + " - do not edit *)\n" +
		"From Coq Require Import ZArith List Bool String.\n" +
		"From Canto Require Import Lib.SdkInt Lib.SdkDec.\n" +
		"Import ListNotations.\nOpen Scope Z_scope.\n\n"
}

func main() {
	if len(os.Args) != 3 {
		fmt.Fprintln(os.Stderr, "usage: gokernel <repo-root> <outdir>")
		os.Exit(2)
	}
	repo, outdir := os.Args[1], os.Args[2]
	if err := os.MkdirAll(outdir, 0o755); err != nil {
		fmt.Fprintln(os.Stderr, "gokernel:", err)
		os.Exit(2)
	}
	bad := 0
	write := func(name, text string) {
		if err := os.WriteFile(filepath.Join(outdir, name), []byte(text), 0o644); err != nil {
			fmt.Fprintln(os.Stderr, "gokernel:", err)
			os.Exit(2)
		}
	}
	for _, ms := range modules {
		m := &moduleCtx{name: ms.name, fset: token.NewFileSet(), inlinable: map[string]*ast.FuncDecl{}, pkgs: map[string]*pkgDecls{}}
		var files []string
		seen := map[string]bool{}
		add := func(f string) {
			if !seen[f] {
				seen[f] = true
				files = append(files, f)
			}
		}
		var pre strings.Builder
		for _, inl := range ms.inline {
			add(inl)
			f, err := parser.ParseFile(m.fset, filepath.Join(repo, inl), nil, 0)
			if err != nil {
				fmt.Fprintf(&pre, "(* %s cannot be parsed: its methods are not inlined *)\n", inl)
				continue
			}
			for _, d := range f.Decls {
				if fd, ok := d.(*ast.FuncDecl); ok && fd.Recv != nil && fd.Body != nil {
					if _, ptr := fd.Recv.List[0].Type.(*ast.StarExpr); ptr {
						m.inlinable[fd.Name.Name] = fd
					}
				}
			}
		}
		var body strings.Builder
		for _, ks := range ms.kernels {
			add(ks.file)
			r := m.translate(repo, ks)
			m.results = append(m.results, r)
			if !r.ok {
				bad++
			}
			body.WriteString(r.text + "\n")
		}
		write("K"+ms.name+".v", header(files)+pre.String()+body.String())
	}
	text, ok := anteModule(repo)
	if !ok {
		bad++
	}
	write("KAnte.v", text)
	if bad > 0 {
		fmt.Fprintf(os.Stderr, "gokernel: %d kernel(s) refused\n", bad)
		os.Exit(1)
	}
}
