// Built-in type table of gokernel (used instead of go/types, which would need the whole dependency graph).
package main

// typ is the translator's view of a Go type.
type typ int

const (
	tOpaque typ = iota // anything the translator does not compute with (keepers, contexts, addresses, messages ...)
	tInt               // sdkmath.Int            -> Z, 256-bit checked operations of Lib/SdkInt.v
	tDec               // sdkmath.LegacyDec      -> Z (raw value * 10^18), operations of Lib/SdkDec.v
	tNum               // int64 / uint64 / int   -> Z, plain arithmetic (wrap-around NOT modelled)
	tBig               // *big.Int               -> Z
	tBool              // bool                   -> bool
	tTime              // time.Time              -> Z nanoseconds
	tDur               // time.Duration          -> Z nanoseconds
	tStr               // string                 -> never computed with, only compared (as an oracle input)
	tCoin              // sdk.Coin               -> symbolic denomination + Int amount
	tCoins             // sdk.Coins built by sdk.NewCoins(...)
	tNil               // nil
	tPkg               // a package qualifier
)

func (t typ) String() string {
	return [...]string{"opaque", "Int", "Dec", "int", "big.Int", "bool", "Time", "Duration", "string", "Coin", "Coins", "nil", "package"}[t]
}

func isZ(t typ) bool {
	return t == tInt || t == tDec || t == tNum || t == tBig || t == tTime || t == tDur
}

// typeNames: how a type is written in a signature or var declaration (package alias stripped of its
// import path by canonPkg) -> typ.
var typeNames = map[string]typ{
	"sdkmath.Int": tInt, "sdkmath.LegacyDec": tDec, "sdk.Int": tInt, "sdk.Dec": tDec,
	"uint64": tNum, "int64": tNum, "int": tNum, "uint": tNum, "uint32": tNum, "int32": tNum,
	"bool": tBool, "string": tStr, "sdk.Coin": tCoin,
	"time.Time": tTime, "time.Duration": tDur, "*big.Int": tBig,
}

// canonical alias of the packages whose functions the translator knows
var canonPkg = map[string]string{
	"cosmossdk.io/math":                      "sdkmath",
	"github.com/cosmos/cosmos-sdk/types":     "sdk",
	"github.com/evmos/ethermint/types":       "ethermint",
	"cosmossdk.io/errors":                    "errorsmod",
	"errors":                                 "errors",
	"fmt":                                    "fmt",
	"time":                                   "time",
	"math/big":                               "big",
	"github.com/cosmos/cosmos-sdk/telemetry": "telemetry",
	"github.com/cosmos/cosmos-sdk/types/errors": "sdkerrors",
}

// fieldTypes: type of a struct field read through a value of unknown (opaque) type, by field name.
// (Message, params and record types of the five translated modules.)
var fieldTypes = map[string]typ{
	"Amount": tInt, "Denom": tStr,
	// x/coinswap: Params, MsgAddLiquidity, MsgRemoveLiquidity, Input, Output
	"Fee": tDec, "TaxRate": tDec, "MaxStandardCoinPerPool": tInt, "PoolCreationFee": tCoin,
	"ExactStandardAmt": tInt, "MinLiquidity": tInt, "MaxToken": tCoin,
	"MinStandardAmt": tInt, "MinToken": tInt, "WithdrawLiquidity": tCoin, "Coin": tCoin,
	// x/csr: Params, CSR; ethtypes.Receipt
	"EnableCsr": tBool, "CsrShares": tDec, "GasUsed": tNum, "Txs": tNum, "Revenue": tInt,
	// x/inflation: ExponentialCalculation, InflationDistribution, Params
	"A": tDec, "R": tDec, "C": tDec, "BondingTarget": tDec, "MaxVariance": tDec,
	"StakingRewards": tDec, "CommunityPool": tDec, "EnableInflation": tBool,
	// x/epochs: EpochInfo
	"StartTime": tTime, "Duration": tDur, "CurrentEpoch": tNum, "CurrentEpochStartTime": tTime,
	"EpochCountingStarted": tBool, "CurrentEpochStartHeight": tNum, "Identifier": tStr,
	// x/erc20: types.ERC20BoolResponse (the unpacked return value of transfer)
	"Value": tBool,
}

// opaqueMethods: result types of methods called on opaque receivers (keepers, contexts, messages), by method name.
// A method that is not listed returns opaque values.
var opaqueMethods = map[string][]typ{
	"AmountOf": {tInt}, "BlockTime": {tTime}, "BlockHeight": {tNum}, "GasPrice": {tBig},
	"GetEpochsPerPeriod": {tNum}, "GetPeriod": {tNum}, "GetSkippedEpochs": {tNum},
	"GetEpochMintProvision": {tDec, tBool}, "BondedRatio": {tDec}, "GetEpochIdentifier": {tStr},
	"GetMaximumSwapAmount":     {tCoin, tOpaque},
	"calculateWithExactInput":  {tInt, tOpaque},
	"calculateWithExactOutput": {tInt, tOpaque},
	"GetSupply":                {tCoin},
	"GetPool":                  {tOpaque, tBool}, "GetPoolByLptDenom": {tOpaque, tBool},
	"GetNFTByContract": {tNum, tBool}, "GetCSR": {tOpaque, tBool}, "GetTurnstile": {tOpaque, tBool},
	// x/erc20: the token balance as answered by the contract (nil = no usable answer), the bank balance
	"BalanceOf": {tBig}, "GetBalance": {tCoin},
}

// stateReads: keeper reads whose answer depends on what was done before them on the path.  The same call text
// before and after an effect call names two different inputs: the provenance gets the suffix "@n", n being the
// number of effect calls made on the path before the read.
var stateReads = map[string]bool{"BalanceOf": true, "GetBalance": true}

// modelledBools: boolean fields read from outside whose test is part of the generated definition (a guard on a
// boolean input) instead of an external guard listed in gen_f_assumes.
var modelledBools = map[string]bool{"Value": true}

// effects: calls whose numeric / coin arguments are what the code hands to the bank, the EVM, the store or a
// listener; their values become outputs of the generated definition, in call order.
var effects = map[string]bool{
	"swapCoins": true, "addLiquidity": true, "removeLiquidity": true,
	"SendCoins": true, "SendCoinsFromModuleToModule": true, "SendCoinsFromAccountToModule": true,
	"SendCoinsFromModuleToAccount": true, "MintCoins": true, "BurnCoins": true,
	"CallMethod": true, "SetCSR": true,
	"SetEpochInfo": true, "AfterEpochEnd": true, "BeforeEpochStart": true,
	// x/erc20: the committing EVM calls and the packing of the transfer's arguments
	"CallEVM": true, "CallEVMWithData": true, "Pack": true,
}

// packages whose calls build an error value: `return ..., <call into one of these>` is a failing return
var errorPkgs = map[string]bool{"errorsmod": true, "errors": true, "fmt": true, "sdkerrors": true}

var coqKeywords = map[string]bool{
	"exists": true, "exists2": true, "fix": true, "cofix": true, "end": true, "in": true, "let": true, "at": true, "as": true,
	"return": true, "with": true, "if": true, "then": true, "else": true, "fun": true, "forall": true, "match": true,
	"mod": true, "Type": true, "Set": true, "Prop": true, "where": true, "using": true, "for": true, "IF": true,
	"guard": true, "Some": true, "None": true, "true": true, "false": true, "negb": true, "obind": true, "fee": false,
}
