// Inlining of package-local helpers: a call of a function (or of an unexported method on the current
// receiver) that is declared in the same package is looked through, so that extracting a helper does not
// change the generated definition.  Supported bodies: straight-line statements, error guards, and one final
// return; anything else falls back to the opaque treatment of the call.
package main

import (
	"go/ast"
	"go/parser"
	"go/token"
	"os"
	"path/filepath"
	"strings"
	"unicode"
)

type pkgDecls struct {
	funcs   map[string]*ast.FuncDecl            // package-level functions by name
	methods map[string][]*ast.FuncDecl          // methods by name
	imports map[*ast.FuncDecl]map[string]string // imports of the file a declaration sits in
	consts  map[string]string                   // string constants
}

func (m *moduleCtx) pkg(repo, dir string) *pkgDecls {
	if p, ok := m.pkgs[dir]; ok {
		return p
	}
	p := &pkgDecls{funcs: map[string]*ast.FuncDecl{}, methods: map[string][]*ast.FuncDecl{}, imports: map[*ast.FuncDecl]map[string]string{}, consts: map[string]string{}}
	m.pkgs[dir] = p
	ents, err := os.ReadDir(filepath.Join(repo, dir))
	if err != nil {
		return p
	}
	for _, en := range ents {
		n := en.Name()
		if en.IsDir() || !strings.HasSuffix(n, ".go") || strings.HasSuffix(n, "_test.go") || strings.HasSuffix(n, ".pb.go") || strings.HasSuffix(n, ".pb.gw.go") {
			continue
		}
		f, err := parser.ParseFile(m.fset, filepath.Join(repo, dir, n), nil, 0)
		if err != nil {
			continue
		}
		imp := importsOf(f)
		for _, d := range f.Decls {
			fd, ok := d.(*ast.FuncDecl)
			if !ok || fd.Body == nil {
				continue
			}
			p.imports[fd] = imp
			if fd.Recv == nil {
				p.funcs[fd.Name.Name] = fd
			} else {
				p.methods[fd.Name.Name] = append(p.methods[fd.Name.Name], fd)
			}
		}
	}
	return p
}

func recvTypeName(fd *ast.FuncDecl) (name string, pointer bool) {
	if fd.Recv == nil || len(fd.Recv.List) != 1 {
		return "", false
	}
	t := fd.Recv.List[0].Type
	if s, ok := t.(*ast.StarExpr); ok {
		t, pointer = s.X, true
	}
	if id, ok := t.(*ast.Ident); ok {
		return id.Name, pointer
	}
	return "", pointer
}

func unexported(name string) bool {
	return name != "" && unicode.IsLower(rune(name[0]))
}

// localMethod: an unexported method of the current function's receiver type, declared in this package
func (k *kctx) localMethod(name string) *ast.FuncDecl {
	if k.pkg == nil || k.recvType == "" || !unexported(name) || effects[name] || opaqueMethods[name] != nil {
		return nil
	}
	var found *ast.FuncDecl
	for _, fd := range k.pkg.methods[name] {
		if t, _ := recvTypeName(fd); t == k.recvType {
			if found != nil {
				return nil
			}
			found = fd
		}
	}
	return found
}

// fieldMethod: an unexported method that is declared exactly once in this package (whatever its receiver type), for a
// call on a FIELD of the current receiver (`h.k.helper(...)` inside a method of Hooks whose field k is the Keeper):
// the callee's receiver is bound to the field's value, so provenance strings read as if the body stood in the caller
func (k *kctx) fieldMethod(name string) *ast.FuncDecl {
	if k.pkg == nil || !unexported(name) || effects[name] || opaqueMethods[name] != nil || stateReads[name] {
		return nil
	}
	if ds := k.pkg.methods[name]; len(ds) == 1 {
		return ds[0]
	}
	return nil
}

func (k *kctx) localFunc(name string) *ast.FuncDecl {
	if k.pkg == nil || effects[name] || opaqueMethods[name] != nil {
		return nil
	}
	return k.pkg.funcs[name]
}

type snapshot struct {
	nlines, ntmp, nassumes int
	inputs                 map[string]*input
	used                   map[string]bool
	outs                   []out
	neff, nmat             int
	fallible               bool
}

func (k *kctx) snap(e *env) snapshot {
	s := snapshot{nlines: len(k.lines), ntmp: k.ntmp, nassumes: len(k.assumes), inputs: map[string]*input{}, used: map[string]bool{},
		outs: append([]out(nil), e.outs...), neff: e.neff, nmat: len(k.matLog), fallible: k.fallible}
	for p, i := range k.inputs {
		s.inputs[p] = i
	}
	for n := range k.used {
		s.used[n] = true
	}
	return s
}

func (k *kctx) rollback(s snapshot, e *env) {
	k.lines, k.ntmp, k.assumes = k.lines[:s.nlines], s.ntmp, k.assumes[:s.nassumes]
	k.inputs, k.used, k.fallible = s.inputs, s.used, s.fallible
	for _, v := range k.matLog[s.nmat:] { // inputs created by the abandoned attempt
		if _, kept := k.inputs[v.prov]; !kept {
			v.term = ""
		}
	}
	k.matLog = k.matLog[:s.nmat]
	e.outs, e.neff = s.outs, s.neff
}

// tryInline evaluates the call by executing the callee's body on the argument values.
func (k *kctx) tryInline(fd *ast.FuncDecl, recv *value, x *ast.CallExpr, e *env, want int) (res []*value, ok bool) {
	variadic := false
	if n := len(fd.Type.Params.List); n > 0 {
		_, variadic = fd.Type.Params.List[n-1].Type.(*ast.Ellipsis)
	}
	np := fd.Type.Params.NumFields()
	if len(k.inlineStack) >= 8 || x.Ellipsis.IsValid() || (!variadic && np != len(x.Args)) || (variadic && len(x.Args) < np-1) {
		return nil, false
	}
	for _, n := range k.inlineStack {
		if n == fd.Name.Name {
			return nil, false
		}
	}
	nres := 0
	if fd.Type.Results != nil {
		nres = fd.Type.Results.NumFields()
	}
	if nres != want && !(nres == 0 && want == 1) {
		return nil, false
	}
	s := k.snap(e)
	saveImports, saveRetErr, saveNoResult, saveInd := k.imports, k.retErr, k.noResult, k.ind
	k.inlineStack = append(k.inlineStack, fd.Name.Name)
	defer func() {
		k.inlineStack = k.inlineStack[:len(k.inlineStack)-1]
		k.imports, k.retErr, k.noResult, k.ind = saveImports, saveRetErr, saveNoResult, saveInd
		if r := recover(); r != nil {
			if _, isRefusal := r.(refusal); !isRefusal {
				panic(r)
			}
			k.rollback(s, e) // the helper is outside the subset: the call stays opaque
			res, ok = nil, false
		}
	}()
	args := k.args(x, e) // in the caller's context, left to right
	ce := &env{vars: map[string]*value{}, outs: e.outs, neff: e.neff}
	if recv != nil && fd.Recv != nil && len(fd.Recv.List[0].Names) == 1 {
		_, ptr := recvTypeName(fd)
		rv := recv
		if !ptr {
			rv = cloneValue(recv, map[*value]*value{})
		}
		ce.vars[fd.Recv.List[0].Names[0].Name] = rv
	}
	if imp, ok := k.pkg.imports[fd]; ok {
		k.imports = imp
	}
	i := 0
	for _, f := range fd.Type.Params.List {
		_, ptr := f.Type.(*ast.StarExpr)
		if _, ell := f.Type.(*ast.Ellipsis); ell {
			// `rest ...T`: the remaining arguments (already evaluated in the caller, left to right) travel as one opaque
			// value; the helper may only hand it on (`g(a, rest...)`).  A number passed this way is not an output any more,
			// so the generated definition can only lose outputs against the direct call, never gain or change one.
			if len(f.Names) != 1 {
				k.refuse(f, "variadic helper with unnamed parameter")
			}
			if f.Names[0].Name != "_" {
				ce.vars[f.Names[0].Name] = &value{t: tOpaque, prov: "variadic", src: "variadic"}
			}
			i = len(args)
			continue
		}
		pt := k.typeOf(f.Type)
		for _, n := range f.Names {
			a := args[i]
			i++
			scalar := func(t typ) bool { return isZ(t) || t == tBool }
			if scalar(pt) && scalar(a.t) && pt != a.t {
				k.refuse(x, "argument of type %s passed to a parameter of type %s", a.t, pt)
			}
			if n.Name == "_" {
				continue
			}
			if !ptr {
				a = cloneValue(a, map[*value]*value{})
			}
			ce.vars[n.Name] = a
		}
	}
	if i != len(args) {
		k.refuse(x, "helper with unnamed parameters")
	}
	k.resultInfo(fd.Type)
	res = k.inlineBody(fd, ce, nres)
	e.outs, e.neff = ce.outs, ce.neff
	if nres == 0 {
		res = []*value{{t: tOpaque, prov: "void", src: "void"}}
	}
	return res, true
}

func (k *kctx) inlineBody(fd *ast.FuncDecl, ce *env, nres int) []*value {
	stmts := fd.Body.List
	for i, s := range stmts {
		switch s := s.(type) {
		case *ast.ReturnStmt:
			if i != len(stmts)-1 {
				k.refuse(s, "return in the middle of a helper")
			}
			if k.retFails(s) {
				k.refuse(s, "helper that always fails")
			}
			if len(s.Results) == 1 && nres > 1 {
				c, ok := s.Results[0].(*ast.CallExpr)
				if !ok {
					k.refuse(s, "unsupported return form")
				}
				return k.call(c, ce, nres)
			}
			if len(s.Results) != nres {
				k.refuse(s, "naked return in a helper")
			}
			var vs []*value
			for _, r := range s.Results {
				vs = append(vs, k.expr(r, ce))
			}
			return vs
		case *ast.AssignStmt:
			k.assign(s, ce)
		case *ast.DeclStmt:
			k.decl(s, ce)
		case *ast.IncDecStmt:
			k.incdec(s, ce)
		case *ast.ExprStmt:
			if isPanic(s.X) {
				k.refuse(s, "helper that panics unconditionally")
			}
			k.exprStmt(s.X, ce)
		case *ast.IfStmt:
			// `if c { return nil... }; return <error>` is `if !c { return <error> }; return nil...`
			if i == len(stmts)-2 && s.Init == nil && s.Else == nil && len(s.Body.List) == 1 {
				r1, ok1 := s.Body.List[0].(*ast.ReturnStmt)
				r2, ok2 := stmts[i+1].(*ast.ReturnStmt)
				if ok1 && ok2 && allNil(r1) && len(r1.Results) == nres && k.retFails(r2) {
					cv := k.expr(s.Cond, ce)
					if cv.t != tBool {
						k.refuse(s.Cond, "condition of type %s", cv.t)
					}
					k.guard(k.term(cv, s.Cond))
					var vs []*value
					for range r1.Results {
						vs = append(vs, &value{t: tNil})
					}
					return vs
				}
			}
			k.simpleIf(s, ce)
		case *ast.EmptyStmt:
		default:
			k.refuse(s, "statement form %T in a helper", s)
		}
	}
	if nres != 0 {
		k.refuse(fd, "helper without a final return")
	}
	return nil
}

func allNil(r *ast.ReturnStmt) bool {
	if len(r.Results) == 0 {
		return false
	}
	for _, x := range r.Results {
		if id, ok := x.(*ast.Ident); !ok || id.Name != "nil" {
			return false
		}
	}
	return true
}

// simpleIf: the conditionals allowed in an inlined helper: an external guard, an error guard, a conditional reassignment.
func (k *kctx) simpleIf(s *ast.IfStmt, e *env) {
	if s.Init != nil {
		in, ok := s.Init.(*ast.AssignStmt)
		if !ok {
			k.refuse(s.Init, "unsupported if-initialiser %T", s.Init)
		}
		k.assign(in, e)
	}
	if s.Else != nil {
		k.refuse(s, "if/else in a helper")
	}
	fails := k.failing(s.Body)
	if desc, nilCheck, ok := k.oracleCond(s.Cond, e); ok && fails {
		k.assume(desc, nilCheck)
		return
	}
	cv := k.expr(s.Cond, e)
	if cv.t != tBool {
		k.refuse(s.Cond, "condition of type %s", cv.t)
	}
	c := k.term(cv, s.Cond)
	switch {
	case fails:
		k.guard(negate(c))
	case k.pureReassign(s, e):
		k.reassign(s, c, e)
	default:
		k.refuse(s, "branching helper")
	}
}

var _ = token.NoPos
