// The Ante module: tables read off app/ante/ante.go, app/ante/handler_options.go and app/app.go, emitted as
// Coq string constants (the same extraction, in the same string forms, is compiled into the harness as harness/c19_extract.go).
package main

import (
	"fmt"
	"go/ast"
	"go/parser"
	"go/token"
	"path/filepath"
	"strconv"
	"strings"
)

type chain struct {
	Name       string
	Decorators []string
}

type anteTables struct {
	Chains        []chain
	SwitchOn      string
	Switch        [][2]string
	SwitchDefault string
	Plain         []string
	Disabled      []string
	SwitchSubject string      // canonical form of what the switch dispatches on
	SwitchGuard   []string    // conditions under which the extension-option switch is reached
	Macc          [][2]string // key, permissions joined by ","
	notes         []string
}

func rawImports(f *ast.File) map[string]string {
	m := map[string]string{}
	for _, im := range f.Imports {
		p, _ := strconv.Unquote(im.Path.Value)
		name := p[strings.LastIndex(p, "/")+1:]
		if im.Name != nil {
			name = im.Name.Name
		}
		m[name] = p
	}
	return m
}

// qualify prints an expression with its leading package qualifier replaced by the import path.
func qualify(fset *token.FileSet, imp map[string]string, e ast.Expr) string {
	head := e
	switch x := e.(type) {
	case *ast.CallExpr:
		head = x.Fun
	case *ast.CompositeLit:
		head = x.Type
	}
	text := nodeText(fset, e)
	switch h := head.(type) {
	case *ast.SelectorExpr:
		if id, ok := h.X.(*ast.Ident); ok {
			if p, ok := imp[id.Name]; ok {
				return p + strings.TrimPrefix(text, id.Name)
			}
		}
	case *ast.Ident:
		return "local." + text
	}
	return text
}

// canonText prints an expression with local names replaced by what they stand for (parameters by their
// canonical names, hoisted locals by their defining expressions), in the layout go/printer gives one-line code.
func canonText(fset *token.FileSet, e ast.Expr, subst map[string]string) string {
	list := func(l []ast.Expr) string {
		var a []string
		for _, x := range l {
			a = append(a, canonText(fset, x, subst))
		}
		return strings.Join(a, ", ")
	}
	switch x := e.(type) {
	case nil:
		return ""
	case *ast.Ident:
		if t, ok := subst[x.Name]; ok {
			return t
		}
		return x.Name
	case *ast.BasicLit:
		return x.Value
	case *ast.ParenExpr:
		return "(" + canonText(fset, x.X, subst) + ")"
	case *ast.SelectorExpr:
		return canonText(fset, x.X, subst) + "." + x.Sel.Name
	case *ast.CallExpr:
		ell := ""
		if x.Ellipsis.IsValid() {
			ell = "..."
		}
		return canonText(fset, x.Fun, subst) + "(" + list(x.Args) + ell + ")"
	case *ast.CompositeLit:
		return canonText(fset, x.Type, subst) + "{" + list(x.Elts) + "}"
	case *ast.KeyValueExpr:
		return canonText(fset, x.Key, subst) + ": " + canonText(fset, x.Value, subst)
	case *ast.UnaryExpr:
		return x.Op.String() + canonText(fset, x.X, subst)
	case *ast.StarExpr:
		return "*" + canonText(fset, x.X, subst)
	case *ast.BinaryExpr:
		return canonText(fset, x.X, subst) + " " + x.Op.String() + " " + canonText(fset, x.Y, subst)
	case *ast.IndexExpr:
		return canonText(fset, x.X, subst) + "[" + canonText(fset, x.Index, subst) + "]"
	case *ast.TypeAssertExpr:
		if x.Type == nil {
			return canonText(fset, x.X, subst) + ".(type)"
		}
		return canonText(fset, x.X, subst) + ".(" + nodeText(fset, x.Type) + ")"
	}
	return nodeText(fset, e)
}

// qualifyCanon: canonText with the leading package qualifier replaced by the import path.
func qualifyCanon(fset *token.FileSet, imp map[string]string, e ast.Expr, subst map[string]string) string {
	head := e
	switch x := e.(type) {
	case *ast.CallExpr:
		head = x.Fun
	case *ast.CompositeLit:
		head = x.Type
	}
	text := canonText(fset, e, subst)
	switch h := head.(type) {
	case *ast.SelectorExpr:
		if id, ok := h.X.(*ast.Ident); ok {
			if _, local := subst[id.Name]; !local {
				if p, ok := imp[id.Name]; ok {
					return p + strings.TrimPrefix(text, id.Name)
				}
			}
		}
	case *ast.Ident:
		return "local." + text
	}
	return text
}

// paramSubst names the parameters of a function canonically (by position).
func paramSubst(ft *ast.FuncType, canon []string, subst map[string]string) {
	i := 0
	for _, f := range ft.Params.List {
		for _, n := range f.Names {
			if i < len(canon) && n.Name != "_" {
				subst[n.Name] = canon[i]
			}
			i++
		}
	}
}

// extractChains: the decorators of every function that returns sdk.ChainAnteDecorators(...), whether they are
// written as arguments or collected in a slice literal that is passed with `...`; the function's parameter is
// called `options`, hoisted locals (evmKeeper := options.EvmKeeper) are replaced by their definitions.
func extractChains(fset *token.FileSet, f *ast.File) []chain {
	imp := rawImports(f)
	var out []chain
	for _, d := range f.Decls {
		fd, ok := d.(*ast.FuncDecl)
		if !ok || fd.Body == nil {
			continue
		}
		subst := map[string]string{}
		if fd.Recv == nil {
			paramSubst(fd.Type, []string{"options"}, subst)
		}
		slices := map[string]*ast.CompositeLit{}
		for _, st := range fd.Body.List {
			as, ok := st.(*ast.AssignStmt)
			if !ok || len(as.Lhs) != 1 || len(as.Rhs) != 1 {
				continue
			}
			id, ok := as.Lhs[0].(*ast.Ident)
			if !ok {
				continue
			}
			if cl, ok := as.Rhs[0].(*ast.CompositeLit); ok {
				if _, isSlice := cl.Type.(*ast.ArrayType); isSlice && as.Tok == token.DEFINE {
					slices[id.Name] = cl
					continue
				}
			}
			if as.Tok == token.DEFINE {
				subst[id.Name] = canonText(fset, as.Rhs[0], subst)
			} else {
				delete(slices, id.Name) // reassigned: no longer known
				subst[id.Name] = "<reassigned " + id.Name + ">"
			}
		}
		ast.Inspect(fd.Body, func(n ast.Node) bool {
			call, ok := n.(*ast.CallExpr)
			if !ok {
				return true
			}
			sel, ok := call.Fun.(*ast.SelectorExpr)
			if !ok || sel.Sel.Name != "ChainAnteDecorators" {
				return true
			}
			c := chain{Name: fd.Name.Name}
			args := call.Args
			if call.Ellipsis.IsValid() && len(args) == 1 {
				if id, ok := args[0].(*ast.Ident); ok && slices[id.Name] != nil {
					args = slices[id.Name].Elts
				} else {
					c.Decorators = append(c.Decorators, "<unresolved: "+nodeText(fset, args[0])+"...>")
					args = nil
				}
			}
			for _, a := range args {
				c.Decorators = append(c.Decorators, qualifyCanon(fset, imp, a, subst))
			}
			out = append(out, c)
			return false
		})
	}
	return out
}

// ---- routing of NewAnteHandler: every path of the returned closure, with the conditions it runs under ----

type rcond struct {
	kind string // "url": text == key (a string); "type": a type assertion on text succeeded; "other"
	text string
	key  string
	pos  bool
}

type route struct {
	conds   []rcond
	handler string // "" = the path returns an error
}

type rstate struct {
	subst map[string]string
	conds []rcond
}

func (s rstate) with(c rcond) rstate {
	n := rstate{subst: map[string]string{}, conds: append(append([]rcond(nil), s.conds...), c)}
	for k, v := range s.subst {
		n.subst[k] = v
	}
	return n
}

type router struct {
	fset   *token.FileSet
	consts map[string]string
	routes []route
}

func (w *router) strLit(e ast.Expr, st rstate) (string, bool) {
	switch x := e.(type) {
	case *ast.BasicLit:
		if x.Kind == token.STRING {
			if u, err := strconv.Unquote(x.Value); err == nil {
				return u, true
			}
		}
	case *ast.Ident:
		if _, local := st.subst[x.Name]; !local {
			if v, ok := w.consts[x.Name]; ok {
				return v, true
			}
		}
	case *ast.ParenExpr:
		return w.strLit(x.X, st)
	}
	return "", false
}

func (w *router) cond(e ast.Expr, st rstate) rcond {
	pos := true
	for {
		switch x := e.(type) {
		case *ast.ParenExpr:
			e = x.X
			continue
		case *ast.UnaryExpr:
			if x.Op == token.NOT {
				pos = !pos
				e = x.X
				continue
			}
		}
		break
	}
	if b, ok := e.(*ast.BinaryExpr); ok && (b.Op == token.EQL || b.Op == token.NEQ) {
		if b.Op == token.NEQ {
			pos = !pos
		}
		if k, ok := w.strLit(b.Y, st); ok {
			return rcond{"url", canonText(w.fset, b.X, st.subst), k, pos}
		}
		if k, ok := w.strLit(b.X, st); ok {
			return rcond{"url", canonText(w.fset, b.Y, st.subst), k, pos}
		}
		return rcond{"other", canonText(w.fset, b.X, st.subst) + " == " + canonText(w.fset, b.Y, st.subst), "", pos}
	}
	t := canonText(w.fset, e, st.subst)
	if strings.HasSuffix(t, ")#1") && strings.Contains(t, ".(") {
		return rcond{"type", t, "", pos}
	}
	return rcond{"other", t, "", pos}
}

func (w *router) assign(as *ast.AssignStmt, st rstate) {
	if len(as.Rhs) == 1 && len(as.Lhs) == 2 {
		if ta, ok := as.Rhs[0].(*ast.TypeAssertExpr); ok {
			p := canonText(w.fset, ta, st.subst)
			for i, l := range as.Lhs {
				if id, ok := l.(*ast.Ident); ok && id.Name != "_" {
					st.subst[id.Name] = p + "#" + strconv.Itoa(i)
				}
			}
			return
		}
	}
	if len(as.Rhs) == len(as.Lhs) {
		var vals []string
		for _, r := range as.Rhs {
			vals = append(vals, canonText(w.fset, r, st.subst))
		}
		for i, l := range as.Lhs {
			if id, ok := l.(*ast.Ident); ok && id.Name != "_" {
				st.subst[id.Name] = vals[i]
			}
		}
		return
	}
	for _, l := range as.Lhs {
		if id, ok := l.(*ast.Ident); ok && id.Name != "_" {
			st.subst[id.Name] = "<" + nodeText(w.fset, as) + ">"
		}
	}
}

func (w *router) walk(stmts []ast.Stmt, st rstate, k func(rstate)) {
	if len(stmts) == 0 {
		k(st)
		return
	}
	rest := func(st rstate) { w.walk(stmts[1:], st, k) }
	flip := func(c rcond) rcond { c.pos = !c.pos; return c }
	switch s := stmts[0].(type) {
	case *ast.AssignStmt:
		w.assign(s, st)
		rest(st)
	case *ast.BlockStmt:
		w.walk(s.List, st, rest)
	case *ast.IfStmt:
		if in, ok := s.Init.(*ast.AssignStmt); ok {
			st = st.with(rcond{})
			st.conds = st.conds[:len(st.conds)-1]
			w.assign(in, st)
		}
		c := w.cond(s.Cond, st)
		w.walk(s.Body.List, st.with(c), rest)
		switch el := s.Else.(type) {
		case nil:
			rest(st.with(flip(c)))
		case *ast.BlockStmt:
			w.walk(el.List, st.with(flip(c)), rest)
		case *ast.IfStmt:
			w.walk([]ast.Stmt{el}, st.with(flip(c)), rest)
		}
	case *ast.SwitchStmt:
		if in, ok := s.Init.(*ast.AssignStmt); ok {
			st = st.with(rcond{})
			st.conds = st.conds[:len(st.conds)-1]
			w.assign(in, st)
		}
		subject := canonText(w.fset, s.Tag, st.subst)
		hasDefault := false
		for _, cl := range s.Body.List {
			cc := cl.(*ast.CaseClause)
			if cc.List == nil {
				hasDefault = true
				w.walk(cc.Body, st.with(rcond{"url", subject, "*", false}), rest)
				continue
			}
			for _, e := range cc.List {
				key, ok := w.strLit(e, st)
				if !ok {
					key = "<" + canonText(w.fset, e, st.subst) + ">"
				}
				w.walk(cc.Body, st.with(rcond{"url", subject, key, true}), rest)
			}
		}
		if !hasDefault {
			rest(st.with(rcond{"url", subject, "*", false}))
		}
	case *ast.TypeSwitchStmt:
		subj := "?"
		switch a := s.Assign.(type) {
		case *ast.ExprStmt:
			if ta, ok := a.X.(*ast.TypeAssertExpr); ok {
				subj = canonText(w.fset, ta.X, st.subst)
			}
		case *ast.AssignStmt:
			if ta, ok := a.Rhs[0].(*ast.TypeAssertExpr); ok {
				subj = canonText(w.fset, ta.X, st.subst)
			}
		}
		hasDefault := false
		for _, cl := range s.Body.List {
			cc := cl.(*ast.CaseClause)
			if cc.List == nil {
				hasDefault = true
				w.walk(cc.Body, st.with(rcond{"type", subj + ".(*)#1", "*", false}), rest)
				continue
			}
			for _, e := range cc.List {
				w.walk(cc.Body, st.with(rcond{"type", subj + ".(" + nodeText(w.fset, e) + ")#1", "", true}), rest)
			}
		}
		if !hasDefault {
			rest(st.with(rcond{"type", subj + ".(*)#1", "*", false}))
		}
	case *ast.ReturnStmt:
		r := route{conds: st.conds}
		if len(s.Results) == 1 {
			if c, ok := s.Results[0].(*ast.CallExpr); ok {
				r.handler = canonText(w.fset, c.Fun, st.subst)
			}
		}
		w.routes = append(w.routes, r)
	default: // declarations, defers, logging
		rest(st)
	}
}

// the model's name for the value the extension-option switch dispatches on (Model/Ante.v ref_switch_on)
var legacySubject = map[string]string{
	"tx.(authante.HasExtensionOptionsTx)#0.GetExtensionOptions()[0].GetTypeUrl()": "typeURL := opts[0].GetTypeUrl(); typeURL",
}

func condText(c rcond) string {
	t := c.text
	if c.kind == "url" {
		t = c.text + " == " + strconv.Quote(c.key)
	}
	if !c.pos {
		return "!(" + t + ")"
	}
	return t
}

func extractSwitch(fset *token.FileSet, f *ast.File, t *anteTables) {
	w := &router{fset: fset, consts: map[string]string{}}
	for _, d := range f.Decls {
		if gd, ok := d.(*ast.GenDecl); ok && gd.Tok == token.CONST {
			for _, sp := range gd.Specs {
				vs := sp.(*ast.ValueSpec)
				for i, n := range vs.Names {
					if i < len(vs.Values) {
						if bl, ok := vs.Values[i].(*ast.BasicLit); ok && bl.Kind == token.STRING {
							if u, err := strconv.Unquote(bl.Value); err == nil {
								w.consts[n.Name] = u
							}
						}
					}
				}
			}
		}
	}
	for _, d := range f.Decls {
		fd, ok := d.(*ast.FuncDecl)
		if !ok || fd.Body == nil || fd.Name.Name != "NewAnteHandler" {
			continue
		}
		var fl *ast.FuncLit
		ast.Inspect(fd.Body, func(n ast.Node) bool {
			if r, ok := n.(*ast.ReturnStmt); ok && fl == nil && len(r.Results) > 0 {
				if x, ok := r.Results[0].(*ast.FuncLit); ok {
					fl = x
				}
			}
			return fl == nil
		})
		if fl == nil {
			t.notes = append(t.notes, "NewAnteHandler does not return a function literal")
			continue
		}
		st := rstate{subst: map[string]string{}}
		paramSubst(fd.Type, []string{"options"}, st.subst)
		paramSubst(fl.Type, []string{"ctx", "tx", "sim"}, st.subst)
		w.walk(fl.Body.List, st, func(rstate) {
			w.routes = append(w.routes, route{handler: "<falls off the end>"})
		})
	}
	// tables in the form of Model/Ante.v
	subject := ""
	seenPlain := map[string]bool{}
	defaultSeen := false
	for _, r := range w.routes {
		firstURL, posURL := -1, -1
		for i, c := range r.conds {
			if c.kind == "url" {
				if firstURL < 0 {
					firstURL = i
				}
				if c.pos && posURL < 0 {
					posURL = i
				}
			}
		}
		call := ""
		if r.handler != "" {
			call = r.handler
		}
		switch {
		case posURL >= 0: // a case of the extension-option switch
			c := r.conds[posURL]
			if subject == "" {
				subject = c.text
				for _, g := range r.conds[:firstURL] {
					t.SwitchGuard = append(t.SwitchGuard, condText(g))
				}
			} else if subject != c.text {
				subject += " || " + c.text
			}
			t.Switch = append(t.Switch, [2]string{c.key, call})
		case firstURL >= 0: // no case matched: the default
			if defaultSeen && t.SwitchDefault != call {
				t.SwitchDefault += " || " + call
			} else {
				t.SwitchDefault = call
			}
			defaultSeen = true
		case r.handler != "": // no extension option: the plain branch
			lastType := -1
			for i, c := range r.conds {
				if c.kind == "type" && !strings.Contains(subject, strings.TrimSuffix(c.text, "#1")+"#0") {
					lastType = i
				}
			}
			clause, cond := "always", "always"
			if lastType >= 0 {
				c := r.conds[lastType]
				ty := c.text[strings.LastIndex(c.text, ".(")+2 : len(c.text)-len(")#1")]
				switch {
				case c.key == "*":
					clause = "default"
				case c.pos:
					clause = "case " + ty
				default:
					clause = "!case " + ty
				}
			}
			if lastType+1 < len(r.conds) && lastType >= 0 {
				in := r.conds[len(r.conds)-1]
				if in.pos {
					cond = "if " + in.text
				} else {
					cond = "else " + in.text
				}
			}
			e := clause + " | " + cond + " | " + call
			if !seenPlain[e] {
				seenPlain[e] = true
				t.Plain = append(t.Plain, e)
			}
		}
	}
	t.SwitchSubject = subject
	if l, ok := legacySubject[subject]; ok {
		t.SwitchOn = l
	} else {
		t.SwitchOn = subject
	}
}

func disabledEntry(fset *token.FileSet, imp map[string]string, e ast.Expr) string {
	if bl, ok := e.(*ast.BasicLit); ok && bl.Kind == token.STRING {
		if u, err := strconv.Unquote(bl.Value); err == nil {
			return u
		}
	}
	if call, ok := e.(*ast.CallExpr); ok && len(call.Args) == 1 {
		if sel, ok := call.Fun.(*ast.SelectorExpr); ok && sel.Sel.Name == "MsgTypeURL" {
			if un, ok := call.Args[0].(*ast.UnaryExpr); ok && un.Op == token.AND {
				if cl, ok := un.X.(*ast.CompositeLit); ok && len(cl.Elts) == 0 {
					if ts, ok := cl.Type.(*ast.SelectorExpr); ok {
						if id, ok := ts.X.(*ast.Ident); ok && imp[id.Name] != "" {
							return imp[id.Name] + "." + ts.Sel.Name
						}
					}
				}
			}
		}
	}
	return nodeText(fset, e)
}

func extractDisabled(fset *token.FileSet, f *ast.File, t *anteTables) {
	imp := rawImports(f)
	ast.Inspect(f, func(n ast.Node) bool {
		cl, ok := n.(*ast.CompositeLit)
		if !ok {
			return true
		}
		sel, ok := cl.Type.(*ast.SelectorExpr)
		if !ok || sel.Sel.Name != "HandlerOptions" {
			return true
		}
		if x, ok := sel.X.(*ast.Ident); !ok || imp[x.Name] == "" || !strings.HasSuffix(imp[x.Name], "/app/ante") {
			return true
		}
		for _, el := range cl.Elts {
			kv, ok := el.(*ast.KeyValueExpr)
			if !ok {
				continue
			}
			if k, ok := kv.Key.(*ast.Ident); !ok || k.Name != "DisabledAuthzMsgs" {
				continue
			}
			lst, ok := kv.Value.(*ast.CompositeLit)
			if !ok {
				t.Disabled = append(t.Disabled, "<not a literal: "+nodeText(fset, kv.Value)+">")
				continue
			}
			for _, e := range lst.Elts {
				t.Disabled = append(t.Disabled, disabledEntry(fset, imp, e))
			}
		}
		return true
	})
}

// maccPerms: the package-level map literal; key and permission names qualified by import path
func extractMacc(fset *token.FileSet, f *ast.File, t *anteTables) {
	imp := rawImports(f)
	name := func(e ast.Expr) string {
		if bl, ok := e.(*ast.BasicLit); ok && bl.Kind == token.STRING {
			if u, err := strconv.Unquote(bl.Value); err == nil {
				return u
			}
		}
		return qualify(fset, imp, e)
	}
	for _, d := range f.Decls {
		gd, ok := d.(*ast.GenDecl)
		if !ok || gd.Tok != token.VAR {
			continue
		}
		for _, sp := range gd.Specs {
			vs := sp.(*ast.ValueSpec)
			for i, n := range vs.Names {
				if n.Name != "maccPerms" || i >= len(vs.Values) {
					continue
				}
				cl, ok := vs.Values[i].(*ast.CompositeLit)
				if !ok {
					t.notes = append(t.notes, "maccPerms is not a map literal")
					continue
				}
				for _, el := range cl.Elts {
					kv, ok := el.(*ast.KeyValueExpr)
					if !ok {
						t.notes = append(t.notes, "maccPerms element without key")
						continue
					}
					var perms []string
					switch v := kv.Value.(type) {
					case *ast.CompositeLit:
						for _, p := range v.Elts {
							perms = append(perms, name(p))
						}
					case *ast.Ident:
						if v.Name != "nil" {
							perms = append(perms, "<"+v.Name+">")
						}
					default:
						perms = append(perms, "<"+nodeText(fset, kv.Value)+">")
					}
					t.Macc = append(t.Macc, [2]string{name(kv.Key), strings.Join(perms, ",")})
				}
			}
		}
	}
}

func anteModule(repo string) (string, bool) {
	files := []string{"app/ante/handler_options.go", "app/ante/ante.go", "app/app.go"}
	var b strings.Builder
	b.WriteString("(* GENERATED by gokernel from " + strings.Join(files, ", ") + " - do not edit *)\n")
	b.WriteString("From Coq Require Import List String.\nImport ListNotations.\nOpen Scope string_scope.\nOpen Scope list_scope.\n\n")
	var t anteTables
	fset := token.NewFileSet()
	ok := true
	parse := func(rel string) *ast.File {
		f, err := parser.ParseFile(fset, filepath.Join(repo, rel), nil, 0)
		if err != nil {
			ok = false
			name := strings.NewReplacer("/", "_", ".", "_").Replace(rel)
			fmt.Fprintf(&b, "(* REFUSED %s: cannot parse: %s *)\nDefinition gen_%s_REFUSED : True := 0.\n\n", rel, strings.ReplaceAll(err.Error(), "*)", "* )"), name)
			return nil
		}
		return f
	}
	if f := parse(files[0]); f != nil {
		t.Chains = extractChains(fset, f)
	}
	if f := parse(files[1]); f != nil {
		extractSwitch(fset, f, &t)
	}
	if f := parse(files[2]); f != nil {
		extractDisabled(fset, f, &t)
		extractMacc(fset, f, &t)
	}
	lst := func(l []string) string {
		if len(l) == 0 {
			return "[]"
		}
		var qs []string
		for _, s := range l {
			qs = append(qs, "  "+q(s))
		}
		return "[\n" + strings.Join(qs, ";\n") + " ]"
	}
	var names []string
	seen := map[string]int{}
	for _, c := range t.Chains {
		id := c.Name
		seen[id]++
		if seen[id] > 1 {
			id = fmt.Sprintf("%s_%d", id, seen[id])
		}
		fmt.Fprintf(&b, "Definition gen_chain_%s : list string := %s.\n\n", id, lst(c.Decorators))
		names = append(names, fmt.Sprintf("(%s, gen_chain_%s)", q(c.Name), id))
	}
	fmt.Fprintf(&b, "Definition gen_chains : list (string * list string) := [ %s ].\n\n", strings.Join(names, "; "))
	fmt.Fprintf(&b, "(* the value the extension-option dispatch compares (locals replaced by their definitions; closure parameters ctx, tx, sim),\n   the conditions under which the dispatch is reached, and the model's name for that value *)\n")
	fmt.Fprintf(&b, "Definition gen_switch_subject : string := %s.\n", q(t.SwitchSubject))
	fmt.Fprintf(&b, "Definition gen_switch_guard : list string := %s.\n", lst(t.SwitchGuard))
	fmt.Fprintf(&b, "Definition gen_switch_on : string := %s.\n", q(t.SwitchOn))
	var sw []string
	for _, p := range t.Switch {
		sw = append(sw, fmt.Sprintf("(%s, %s)", q(p[0]), q(p[1])))
	}
	fmt.Fprintf(&b, "Definition gen_switch : list (string * string) := [ %s ].\n", strings.Join(sw, "; "))
	fmt.Fprintf(&b, "Definition gen_switch_default : string := %s.\n", q(t.SwitchDefault))
	fmt.Fprintf(&b, "Definition gen_plain : list string := %s.\n", lst(t.Plain))
	fmt.Fprintf(&b, "Definition gen_disabled : list string := %s.\n\n", lst(t.Disabled))
	var mk, mp []string
	for _, p := range t.Macc {
		mk = append(mk, p[0])
		mp = append(mp, fmt.Sprintf("  (%s, %s)", q(p[0]), q(p[1])))
	}
	fmt.Fprintf(&b, "(* maccPerms of app.go: keys in source order; then key with its permissions *)\n")
	fmt.Fprintf(&b, "Definition gen_macc_keys : list string := %s.\n", lst(mk))
	fmt.Fprintf(&b, "Definition gen_macc_perms : list (string * string) := [\n%s ].\n", strings.Join(mp, ";\n"))
	for _, n := range t.notes {
		ok = false
		fmt.Fprintf(&b, "(* REFUSED maccPerms: %s *)\nDefinition gen_macc_REFUSED : True := 0.\n", n)
	}
	return b.String(), ok
}
