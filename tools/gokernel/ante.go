// The Ante module: tables read off app/ante/ante.go, app/ante/handler_options.go and app/app.go, emitted as
// Coq string constants (same extraction and the same string forms as tools/antelist and harness/c19_tables.go).
package main

import (
	"fmt"
	"go/ast"
	"go/parser"
	"go/token"
	"path/filepath"
	"strconv"
	"strings"
)

type chain struct {
	Name       string
	Decorators []string
}

type anteTables struct {
	Chains        []chain
	SwitchOn      string
	Switch        [][2]string
	SwitchDefault string
	Plain         []string
	Disabled      []string
	Macc          [][2]string // key, permissions joined by ","
	notes         []string
}

func rawImports(f *ast.File) map[string]string {
	m := map[string]string{}
	for _, im := range f.Imports {
		p, _ := strconv.Unquote(im.Path.Value)
		name := p[strings.LastIndex(p, "/")+1:]
		if im.Name != nil {
			name = im.Name.Name
		}
		m[name] = p
	}
	return m
}

// qualify prints an expression with its leading package qualifier replaced by the import path.
func qualify(fset *token.FileSet, imp map[string]string, e ast.Expr) string {
	head := e
	switch x := e.(type) {
	case *ast.CallExpr:
		head = x.Fun
	case *ast.CompositeLit:
		head = x.Type
	}
	text := nodeText(fset, e)
	switch h := head.(type) {
	case *ast.SelectorExpr:
		if id, ok := h.X.(*ast.Ident); ok {
			if p, ok := imp[id.Name]; ok {
				return p + strings.TrimPrefix(text, id.Name)
			}
		}
	case *ast.Ident:
		return "local." + text
	}
	return text
}

func extractChains(fset *token.FileSet, f *ast.File) []chain {
	imp := rawImports(f)
	var out []chain
	for _, d := range f.Decls {
		fd, ok := d.(*ast.FuncDecl)
		if !ok || fd.Body == nil {
			continue
		}
		ast.Inspect(fd.Body, func(n ast.Node) bool {
			call, ok := n.(*ast.CallExpr)
			if !ok {
				return true
			}
			sel, ok := call.Fun.(*ast.SelectorExpr)
			if !ok || sel.Sel.Name != "ChainAnteDecorators" {
				return true
			}
			c := chain{Name: fd.Name.Name}
			for _, a := range call.Args {
				c.Decorators = append(c.Decorators, qualify(fset, imp, a))
			}
			out = append(out, c)
			return false
		})
	}
	return out
}

func handlerAssigned(fset *token.FileSet, stmts []ast.Stmt) string {
	found := ""
	for _, s := range stmts {
		ast.Inspect(s, func(n ast.Node) bool {
			as, ok := n.(*ast.AssignStmt)
			if !ok || found != "" {
				return found == ""
			}
			for i, l := range as.Lhs {
				if id, ok := l.(*ast.Ident); ok && id.Name == "anteHandler" && i < len(as.Rhs) {
					found = nodeText(fset, as.Rhs[i])
				}
			}
			return true
		})
	}
	return found
}

func plainBranch(fset *token.FileSet, clause string, stmts []ast.Stmt, cond string, out *[]string) {
	for _, s := range stmts {
		switch x := s.(type) {
		case *ast.AssignStmt:
			for i, l := range x.Lhs {
				if id, ok := l.(*ast.Ident); ok && id.Name == "anteHandler" && i < len(x.Rhs) {
					*out = append(*out, clause+" | "+cond+" | "+nodeText(fset, x.Rhs[i]))
				}
			}
		case *ast.IfStmt:
			c := nodeText(fset, x.Cond)
			plainBranch(fset, clause, x.Body.List, "if "+c, out)
			switch el := x.Else.(type) {
			case *ast.BlockStmt:
				plainBranch(fset, clause, el.List, "else "+c, out)
			case *ast.IfStmt:
				plainBranch(fset, clause, []ast.Stmt{el}, "else "+c, out)
			}
		case *ast.BlockStmt:
			plainBranch(fset, clause, x.List, cond, out)
		}
	}
}

func extractSwitch(fset *token.FileSet, f *ast.File, t *anteTables) {
	for _, d := range f.Decls {
		fd, ok := d.(*ast.FuncDecl)
		if !ok || fd.Body == nil || fd.Name.Name != "NewAnteHandler" {
			continue
		}
		ast.Inspect(fd.Body, func(n ast.Node) bool {
			switch sw := n.(type) {
			case *ast.SwitchStmt:
				hdr := nodeText(fset, sw.Tag)
				if sw.Init != nil {
					hdr = nodeText(fset, sw.Init) + "; " + hdr
				}
				if t.SwitchOn != "" {
					t.SwitchOn += " || " + hdr
				} else {
					t.SwitchOn = hdr
				}
				for _, c := range sw.Body.List {
					cc := c.(*ast.CaseClause)
					h := handlerAssigned(fset, cc.Body)
					if cc.List == nil {
						t.SwitchDefault = h
						continue
					}
					for _, e := range cc.List {
						key := nodeText(fset, e)
						if bl, ok := e.(*ast.BasicLit); ok && bl.Kind == token.STRING {
							if u, err := strconv.Unquote(bl.Value); err == nil {
								key = u
							}
						}
						t.Switch = append(t.Switch, [2]string{key, h})
					}
				}
				return false
			case *ast.TypeSwitchStmt:
				for _, c := range sw.Body.List {
					cc := c.(*ast.CaseClause)
					name := "default"
					if cc.List != nil {
						var ts []string
						for _, e := range cc.List {
							ts = append(ts, nodeText(fset, e))
						}
						name = "case " + strings.Join(ts, ", ")
					}
					plainBranch(fset, name, cc.Body, "always", &t.Plain)
				}
				return false
			}
			return true
		})
	}
}

func disabledEntry(fset *token.FileSet, imp map[string]string, e ast.Expr) string {
	if bl, ok := e.(*ast.BasicLit); ok && bl.Kind == token.STRING {
		if u, err := strconv.Unquote(bl.Value); err == nil {
			return u
		}
	}
	if call, ok := e.(*ast.CallExpr); ok && len(call.Args) == 1 {
		if sel, ok := call.Fun.(*ast.SelectorExpr); ok && sel.Sel.Name == "MsgTypeURL" {
			if un, ok := call.Args[0].(*ast.UnaryExpr); ok && un.Op == token.AND {
				if cl, ok := un.X.(*ast.CompositeLit); ok && len(cl.Elts) == 0 {
					if ts, ok := cl.Type.(*ast.SelectorExpr); ok {
						if id, ok := ts.X.(*ast.Ident); ok && imp[id.Name] != "" {
							return imp[id.Name] + "." + ts.Sel.Name
						}
					}
				}
			}
		}
	}
	return nodeText(fset, e)
}

func extractDisabled(fset *token.FileSet, f *ast.File, t *anteTables) {
	imp := rawImports(f)
	ast.Inspect(f, func(n ast.Node) bool {
		cl, ok := n.(*ast.CompositeLit)
		if !ok {
			return true
		}
		sel, ok := cl.Type.(*ast.SelectorExpr)
		if !ok || sel.Sel.Name != "HandlerOptions" {
			return true
		}
		if x, ok := sel.X.(*ast.Ident); !ok || imp[x.Name] == "" || !strings.HasSuffix(imp[x.Name], "/app/ante") {
			return true
		}
		for _, el := range cl.Elts {
			kv, ok := el.(*ast.KeyValueExpr)
			if !ok {
				continue
			}
			if k, ok := kv.Key.(*ast.Ident); !ok || k.Name != "DisabledAuthzMsgs" {
				continue
			}
			lst, ok := kv.Value.(*ast.CompositeLit)
			if !ok {
				t.Disabled = append(t.Disabled, "<not a literal: "+nodeText(fset, kv.Value)+">")
				continue
			}
			for _, e := range lst.Elts {
				t.Disabled = append(t.Disabled, disabledEntry(fset, imp, e))
			}
		}
		return true
	})
}

// maccPerms: the package-level map literal; key and permission names qualified by import path
func extractMacc(fset *token.FileSet, f *ast.File, t *anteTables) {
	imp := rawImports(f)
	name := func(e ast.Expr) string {
		if bl, ok := e.(*ast.BasicLit); ok && bl.Kind == token.STRING {
			if u, err := strconv.Unquote(bl.Value); err == nil {
				return u
			}
		}
		return qualify(fset, imp, e)
	}
	for _, d := range f.Decls {
		gd, ok := d.(*ast.GenDecl)
		if !ok || gd.Tok != token.VAR {
			continue
		}
		for _, sp := range gd.Specs {
			vs := sp.(*ast.ValueSpec)
			for i, n := range vs.Names {
				if n.Name != "maccPerms" || i >= len(vs.Values) {
					continue
				}
				cl, ok := vs.Values[i].(*ast.CompositeLit)
				if !ok {
					t.notes = append(t.notes, "maccPerms is not a map literal")
					continue
				}
				for _, el := range cl.Elts {
					kv, ok := el.(*ast.KeyValueExpr)
					if !ok {
						t.notes = append(t.notes, "maccPerms element without key")
						continue
					}
					var perms []string
					switch v := kv.Value.(type) {
					case *ast.CompositeLit:
						for _, p := range v.Elts {
							perms = append(perms, name(p))
						}
					case *ast.Ident:
						if v.Name != "nil" {
							perms = append(perms, "<"+v.Name+">")
						}
					default:
						perms = append(perms, "<"+nodeText(fset, kv.Value)+">")
					}
					t.Macc = append(t.Macc, [2]string{name(kv.Key), strings.Join(perms, ",")})
				}
			}
		}
	}
}

func anteModule(repo string) (string, bool) {
	files := []string{"app/ante/handler_options.go", "app/ante/ante.go", "app/app.go"}
	var b strings.Builder
	b.WriteString("(* GENERATED by gokernel from " + strings.Join(files, ", ") + " - do not edit *)\n")
	b.WriteString("From Coq Require Import List String.\nImport ListNotations.\nOpen Scope string_scope.\nOpen Scope list_scope.\n\n")
	var t anteTables
	fset := token.NewFileSet()
	ok := true
	parse := func(rel string) *ast.File {
		f, err := parser.ParseFile(fset, filepath.Join(repo, rel), nil, 0)
		if err != nil {
			ok = false
			name := strings.NewReplacer("/", "_", ".", "_").Replace(rel)
			fmt.Fprintf(&b, "(* REFUSED %s: cannot parse: %s *)\nDefinition gen_%s_REFUSED : True := 0.\n\n", rel, strings.ReplaceAll(err.Error(), "*)", "* )"), name)
			return nil
		}
		return f
	}
	if f := parse(files[0]); f != nil {
		t.Chains = extractChains(fset, f)
	}
	if f := parse(files[1]); f != nil {
		extractSwitch(fset, f, &t)
	}
	if f := parse(files[2]); f != nil {
		extractDisabled(fset, f, &t)
		extractMacc(fset, f, &t)
	}
	lst := func(l []string) string {
		if len(l) == 0 {
			return "[]"
		}
		var qs []string
		for _, s := range l {
			qs = append(qs, "  "+q(s))
		}
		return "[\n" + strings.Join(qs, ";\n") + " ]"
	}
	var names []string
	seen := map[string]int{}
	for _, c := range t.Chains {
		id := c.Name
		seen[id]++
		if seen[id] > 1 {
			id = fmt.Sprintf("%s_%d", id, seen[id])
		}
		fmt.Fprintf(&b, "Definition gen_chain_%s : list string := %s.\n\n", id, lst(c.Decorators))
		names = append(names, fmt.Sprintf("(%s, gen_chain_%s)", q(c.Name), id))
	}
	fmt.Fprintf(&b, "Definition gen_chains : list (string * list string) := [ %s ].\n\n", strings.Join(names, "; "))
	fmt.Fprintf(&b, "Definition gen_switch_on : string := %s.\n", q(t.SwitchOn))
	var sw []string
	for _, p := range t.Switch {
		sw = append(sw, fmt.Sprintf("(%s, %s)", q(p[0]), q(p[1])))
	}
	fmt.Fprintf(&b, "Definition gen_switch : list (string * string) := [ %s ].\n", strings.Join(sw, "; "))
	fmt.Fprintf(&b, "Definition gen_switch_default : string := %s.\n", q(t.SwitchDefault))
	fmt.Fprintf(&b, "Definition gen_plain : list string := %s.\n", lst(t.Plain))
	fmt.Fprintf(&b, "Definition gen_disabled : list string := %s.\n\n", lst(t.Disabled))
	var mk, mp []string
	for _, p := range t.Macc {
		mk = append(mk, p[0])
		mp = append(mp, fmt.Sprintf("  (%s, %s)", q(p[0]), q(p[1])))
	}
	fmt.Fprintf(&b, "(* maccPerms of app.go: keys in source order; then key with its permissions *)\n")
	fmt.Fprintf(&b, "Definition gen_macc_keys : list string := %s.\n", lst(mk))
	fmt.Fprintf(&b, "Definition gen_macc_perms : list (string * string) := [\n%s ].\n", strings.Join(mp, ";\n"))
	for _, n := range t.notes {
		ok = false
		fmt.Fprintf(&b, "(* REFUSED maccPerms: %s *)\nDefinition gen_macc_REFUSED : True := 0.\n", n)
	}
	return b.String(), ok
}
