#!/usr/bin/env python3
"""seedrun.py <Cxx> [--props C01,C02] [--full]  : confirm every change<k> in /tmp/mut_<Cxx>_out against worktree /tmp/mut_<Cxx>
and run our check(s) against it (tools/seeded.py does the work).  Seed ids: <Cxx>-<slug of the title line of change<k>.md>."""
import glob, os, re, subprocess, sys
pid = sys.argv[1]
extra = sys.argv[2:]
prefix = "mut"
if "--dir" in extra:  # e.g. --dir mut2 : second wave of independently written changes
    i = extra.index("--dir")
    prefix = extra[i + 1]
    extra = extra[:i] + extra[i + 2:]
out = "/tmp/%s_%s_out" % (prefix, pid)
wt = "/tmp/%s_%s" % (prefix, pid)
here = os.path.dirname(os.path.abspath(__file__))
for md in sorted(glob.glob(os.path.join(out, "change*.md"))):
    k = re.search(r"change(\d+)\.md", md).group(1)
    lines = open(md).read().splitlines()
    pkg = lines[0].split(":", 1)[1].strip().strip("`").strip("/")
    title = next((l for l in lines[1:] if l.strip().startswith("#")), "change %s" % k)
    title = re.sub(r"^#+\s*(Change|change)\s*\d+\s*[-:—–]*\s*", "", title.strip())
    slug = re.sub(r"[^a-z0-9]+", "-", title.lower()).strip("-")[:48].strip("-")
    prop = pid if not pid.startswith("F") else None
    seed_id = "%s-%s%s" % (pid, {"mut": "", "mut2": "w2-", "mut3": "w3-", "mut4": "w4-"}.get(prefix, prefix + "-"), slug or ("change" + k))
    cmd = [sys.executable, os.path.join(here, "seeded.py"), out, k, wt, pkg, seed_id, pid] + extra
    print("==", " ".join(cmd), flush=True)
    subprocess.run(cmd)
