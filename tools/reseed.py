#!/usr/bin/env python3
"""reseed.py <seed_id> [--props C01,C02]  : re-run our check(s) against an already confirmed seeded change
(/verif/seeded/<seed_id>/patch.diff applied to a scratch worktree of /repo's HEAD) and refresh meta.json's "checks"."""
import json, os, shutil, subprocess, sys, time
ENV = dict(os.environ, GOFLAGS="-mod=mod", GOPROXY="off", GOSUMDB="off", GOTOOLCHAIN="local")
VERIF = os.path.dirname(os.path.dirname(os.path.abspath(__file__)))


def sh(cmd, cwd, env=ENV, timeout=7200):
    t = time.time()
    p = subprocess.run(cmd, cwd=cwd, shell=True, env=env, stdout=subprocess.PIPE, stderr=subprocess.STDOUT, text=True, timeout=timeout)
    return p.returncode, p.stdout, round(time.time() - t, 1)


def main():
    seed = sys.argv[1]
    d = os.path.join(VERIF, "seeded", seed)
    meta = json.load(open(os.path.join(d, "meta.json")))
    props = [meta["breaks_property"]]
    if "--props" in sys.argv:
        props = sys.argv[sys.argv.index("--props") + 1].split(",")
    wt = "/tmp/reseed_wt_%d" % os.getpid()
    sh("git -C /repo worktree add -q --detach %s HEAD" % wt, "/")
    try:
        rc, out, _ = sh("git apply --3way %s || git apply %s" % (os.path.join(d, "patch.diff"), os.path.join(d, "patch.diff")), wt)
        if rc != 0:
            print("patch does not apply to /repo HEAD:", out[-500:])
            return 2
        meta.setdefault("checks", {})
        for p in props:
            rc, out, dt = sh("./check %s quick" % p, VERIF, env=dict(ENV, VERIF_REPO=wt))
            lines = [l for l in out.splitlines() if l.startswith("VIOLATION") or l.startswith("KNOWN") or l.startswith(p + " ")]
            meta["checks"][p] = dict(cmd="VERIF_REPO=<worktree with change> ./check %s quick" % p, rc=rc, s=dt, output=lines, rerun=True)
            print(seed, p, "rc=%d" % rc, [l[:160] for l in lines], flush=True)
            for l in lines:
                if l.startswith("VIOLATION") and "replay=" in l:
                    rp = l.split("replay=")[1].split()[0]
                    if os.path.exists(rp):
                        meta["checks"][p]["replay_kept"] = os.path.basename(rp)
                        shutil.copy(rp, os.path.join(d, "replay-" + os.path.basename(rp)))
        json.dump(meta, open(os.path.join(d, "meta.json"), "w"), indent=1)
    finally:
        sh("git -C /repo worktree remove --force %s" % wt, "/")
        subprocess.run([sys.executable, os.path.join(VERIF, "lib", "gomod.py")], env=dict(os.environ, VERIF_REPO="/repo"), stdout=subprocess.DEVNULL)
    return 0


if __name__ == "__main__":
    sys.exit(main())
