#!/usr/bin/env python3
"""Paste the current seeded-change table (tools/seedtable.py) between the SEEDTABLE markers of DESIGN.md."""
import os, re, subprocess, sys
ROOT = os.path.dirname(os.path.dirname(os.path.abspath(__file__)))
tab = subprocess.run([sys.executable, os.path.join(ROOT, "tools", "seedtable.py")], stdout=subprocess.PIPE, text=True).stdout
p = os.path.join(ROOT, "DESIGN.md")
s = open(p).read()
s = re.sub(r"<!-- SEEDTABLE BEGIN -->.*?<!-- SEEDTABLE END -->", "<!-- SEEDTABLE BEGIN -->\n" + tab + "<!-- SEEDTABLE END -->", s, flags=re.S)
open(p, "w").write(s)
