//go:build verif

package harness

// Static scan of the consensus-path source files for constructs whose behaviour is not a function of
// the committed state: a `range` over a map whose body has an order-dependent effect, time.Now,
// `go` statements, math/rand, floating-point types.  The occurrences of the CURRENT tree are listed
// in c06ScanAllowed (keyed by file + enclosing function + construct, never by line number) with their
// counts; anything beyond that is reported as monitor "new-nondeterminism-source".
//
// No go/types (it would need the whole dependency graph): map-typed expressions are recognised from
// the declarations found in the scanned tree itself (local := / var / make, parameters, struct fields,
// package-level variables, functions and methods returning a map).

import (
	"fmt"
	"go/ast"
	"go/parser"
	"go/printer"
	"go/token"
	"os"
	"path/filepath"
	"sort"
	"strings"
)

type c06Finding struct {
	File, Func, Construct string
}

func (f c06Finding) key() string { return f.File + " | " + f.Func + " | " + f.Construct }

func c06ScanFiles(repo string) []string {
	var out []string
	add := func(pattern string) {
		m, _ := filepath.Glob(filepath.Join(repo, pattern))
		for _, p := range m {
			if strings.HasSuffix(p, "_test.go") || strings.HasSuffix(p, ".pb.go") || strings.HasSuffix(p, ".pb.gw.go") {
				continue
			}
			out = append(out, p)
		}
	}
	add("x/*/keeper/*.go")
	add("x/*/module.go")
	add("x/*/genesis.go")
	add("x/*/*.go") // abci.go, handler.go, hooks of a module that live beside module.go
	add("x/*/types/*.go")
	add("app/*.go")
	add("app/ante/*.go")
	sort.Strings(out)
	var uniq []string
	for i, p := range out {
		if i == 0 || out[i-1] != p {
			uniq = append(uniq, p)
		}
	}
	return uniq
}

func c06IsMapType(e ast.Expr) bool {
	switch t := e.(type) {
	case *ast.MapType:
		return true
	case *ast.ParenExpr:
		return c06IsMapType(t.X)
	}
	return false
}

func c06ExprText(fset *token.FileSet, e ast.Expr) string {
	var sb strings.Builder
	printer.Fprint(&sb, fset, e)
	s := strings.Join(strings.Fields(sb.String()), " ")
	if len(s) > 60 {
		s = s[:60]
	}
	return s
}

// names known to denote maps anywhere in the scanned tree
type c06MapNames struct {
	funcs  map[string]bool // functions / methods whose (first) result is a map
	fields map[string]bool // struct fields of map type
	vars   map[string]bool // package-level variables of map type
	types  map[string]bool // named types whose underlying type is a map
}

func (m *c06MapNames) typeIsMap(e ast.Expr) bool {
	if c06IsMapType(e) {
		return true
	}
	switch t := e.(type) {
	case *ast.Ident:
		return m.types[t.Name]
	case *ast.SelectorExpr:
		return m.types[t.Sel.Name]
	}
	return false
}

func c06CollectNames(files []*ast.File) *c06MapNames {
	m := &c06MapNames{funcs: map[string]bool{}, fields: map[string]bool{}, vars: map[string]bool{}, types: map[string]bool{}}
	for pass := 0; pass < 2; pass++ { // second pass: named map types used in signatures
		for _, f := range files {
			for _, d := range f.Decls {
				switch x := d.(type) {
				case *ast.GenDecl:
					for _, sp := range x.Specs {
						switch s := sp.(type) {
						case *ast.TypeSpec:
							if c06IsMapType(s.Type) {
								m.types[s.Name.Name] = true
							}
							if st, ok := s.Type.(*ast.StructType); ok {
								for _, fl := range st.Fields.List {
									if m.typeIsMap(fl.Type) {
										for _, n := range fl.Names {
											m.fields[n.Name] = true
										}
									}
								}
							}
						case *ast.ValueSpec:
							isMap := s.Type != nil && m.typeIsMap(s.Type)
							for _, v := range s.Values {
								if cl, ok := v.(*ast.CompositeLit); ok && cl.Type != nil && m.typeIsMap(cl.Type) {
									isMap = true
								}
								if call, ok := v.(*ast.CallExpr); ok {
									if id, ok := call.Fun.(*ast.Ident); ok && id.Name == "make" && len(call.Args) > 0 && m.typeIsMap(call.Args[0]) {
										isMap = true
									}
								}
							}
							if isMap && x.Tok == token.VAR {
								for _, n := range s.Names {
									m.vars[n.Name] = true
								}
							}
						}
					}
				case *ast.FuncDecl:
					if x.Type.Results != nil && len(x.Type.Results.List) > 0 && m.typeIsMap(x.Type.Results.List[0].Type) {
						m.funcs[x.Name.Name] = true
					}
				}
			}
		}
	}
	return m
}

func c06FuncName(fd *ast.FuncDecl) string {
	if fd.Recv != nil && len(fd.Recv.List) > 0 {
		t := fd.Recv.List[0].Type
		if st, ok := t.(*ast.StarExpr); ok {
			t = st.X
		}
		if id, ok := t.(*ast.Ident); ok {
			return id.Name + "." + fd.Name.Name
		}
	}
	return fd.Name.Name
}

var c06EffectPrefixes = []string{"Set", "Delete", "Remove", "Emit", "Send", "Mint", "Burn", "Write", "Store", "Register", "Add", "Init",
	"Export", "Marshal", "Must", "Create", "Update", "Save", "Push", "Append", "Print", "Fprint", "Sprint", "Log", "Error", "Info", "Allocate", "Fund", "Withdraw", "Delegate", "Call", "Deploy", "Apply", "Exec", "Run"}

// does the body of a range statement have an effect that depends on the iteration order?
func c06OrderDependent(body *ast.BlockStmt) bool {
	dep := false
	ast.Inspect(body, func(n ast.Node) bool {
		switch x := n.(type) {
		case *ast.CallExpr:
			name := ""
			switch f := x.Fun.(type) {
			case *ast.Ident:
				name = f.Name
			case *ast.SelectorExpr:
				name = f.Sel.Name
			}
			if name == "append" || name == "panic" {
				dep = true
			}
			for _, p := range c06EffectPrefixes {
				if strings.HasPrefix(name, p) {
					dep = true
				}
			}
		case *ast.ReturnStmt:
			if len(x.Results) > 0 {
				dep = true
			}
		case *ast.BranchStmt:
			if x.Tok == token.BREAK {
				dep = true
			}
		case *ast.SendStmt:
			dep = true
		}
		return !dep
	})
	return dep
}

func c06ScanTree(repo string) ([]c06Finding, error) {
	paths := c06ScanFiles(repo)
	if len(paths) == 0 {
		return nil, fmt.Errorf("no source files under %s", repo)
	}
	fset := token.NewFileSet()
	var files []*ast.File
	var rels []string
	for _, p := range paths {
		f, err := parser.ParseFile(fset, p, nil, parser.SkipObjectResolution)
		if err != nil {
			return nil, err
		}
		files = append(files, f)
		rel, _ := filepath.Rel(repo, p)
		rels = append(rels, rel)
	}
	names := c06CollectNames(files)
	var out []c06Finding
	for i, f := range files {
		rel := rels[i]
		randName, timeName := "", ""
		for _, im := range f.Imports {
			path := strings.Trim(im.Path.Value, `"`)
			local := filepath.Base(path)
			if im.Name != nil {
				local = im.Name.Name
			}
			switch path {
			case "math/rand", "math/rand/v2":
				randName = local
				out = append(out, c06Finding{rel, "(imports)", "math/rand"})
			case "time":
				timeName = local
			}
		}
		scanFunc := func(fn string, body ast.Node, params *ast.FieldList) {
			if body == nil {
				return
			}
			local := map[string]bool{}
			if params != nil {
				for _, fl := range params.List {
					if names.typeIsMap(fl.Type) {
						for _, n := range fl.Names {
							local[n.Name] = true
						}
					}
				}
			}
			isMapExpr := func(e ast.Expr) bool {
				switch x := e.(type) {
				case *ast.Ident:
					return local[x.Name] || names.vars[x.Name]
				case *ast.SelectorExpr:
					return names.fields[x.Sel.Name] || names.vars[x.Sel.Name]
				case *ast.CallExpr:
					switch fx := x.Fun.(type) {
					case *ast.Ident:
						return names.funcs[fx.Name]
					case *ast.SelectorExpr:
						return names.funcs[fx.Sel.Name]
					}
				case *ast.CompositeLit:
					return x.Type != nil && names.typeIsMap(x.Type)
				}
				return false
			}
			ast.Inspect(body, func(n ast.Node) bool {
				switch x := n.(type) {
				case *ast.CallExpr:
					// arguments of a telemetry call (cosmos-sdk/telemetry: gauges, counters, ModuleMeasureSince) never reach
					// consensus state: floats and wall-clock readings inside them are exempt, wherever the call is written
					if sel, ok := x.Fun.(*ast.SelectorExpr); ok {
						if id, ok := sel.X.(*ast.Ident); ok && id.Name == "telemetry" {
							return false
						}
					}
				case *ast.AssignStmt:
					for j, rhs := range x.Rhs {
						if j >= len(x.Lhs) {
							break
						}
						id, ok := x.Lhs[j].(*ast.Ident)
						if !ok {
							continue
						}
						switch v := rhs.(type) {
						case *ast.CompositeLit:
							if v.Type != nil && names.typeIsMap(v.Type) {
								local[id.Name] = true
							}
						case *ast.CallExpr:
							if fid, ok := v.Fun.(*ast.Ident); ok && fid.Name == "make" && len(v.Args) > 0 && names.typeIsMap(v.Args[0]) {
								local[id.Name] = true
							} else if isMapExpr(v) {
								local[id.Name] = true
							}
						}
					}
				case *ast.DeclStmt:
					if gd, ok := x.Decl.(*ast.GenDecl); ok {
						for _, sp := range gd.Specs {
							if vs, ok := sp.(*ast.ValueSpec); ok && vs.Type != nil && names.typeIsMap(vs.Type) {
								for _, n := range vs.Names {
									local[n.Name] = true
								}
							}
						}
					}
				case *ast.RangeStmt:
					if isMapExpr(x.X) && c06OrderDependent(x.Body) {
						out = append(out, c06Finding{rel, fn, "range-over-map " + c06ExprText(fset, x.X)})
					}
				case *ast.GoStmt:
					out = append(out, c06Finding{rel, fn, "go-statement"})
				case *ast.SelectorExpr:
					if id, ok := x.X.(*ast.Ident); ok {
						if timeName != "" && id.Name == timeName && (x.Sel.Name == "Now" || x.Sel.Name == "Since" || x.Sel.Name == "Until") {
							out = append(out, c06Finding{rel, fn, "time." + x.Sel.Name})
						}
						if randName != "" && id.Name == randName {
							out = append(out, c06Finding{rel, fn, "math/rand use"})
						}
						if id.Name == "strconv" && (x.Sel.Name == "ParseFloat" || x.Sel.Name == "FormatFloat") {
							out = append(out, c06Finding{rel, fn, "float"})
						}
					}
				case *ast.Ident:
					if x.Name == "float32" || x.Name == "float64" {
						out = append(out, c06Finding{rel, fn, "float"})
					}
				}
				return true
			})
		}
		for _, d := range f.Decls {
			switch x := d.(type) {
			case *ast.FuncDecl:
				if x.Body != nil {
					scanFunc(c06FuncName(x), x.Body, x.Type.Params)
				}
				// float types in the signature
				ast.Inspect(x.Type, func(n ast.Node) bool {
					if id, ok := n.(*ast.Ident); ok && (id.Name == "float32" || id.Name == "float64") {
						out = append(out, c06Finding{rel, c06FuncName(x), "float"})
					}
					return true
				})
			case *ast.GenDecl:
				scanFunc("(package level)", x, nil)
			}
		}
	}
	return out, nil
}

func c06StaticScan(e *Env) {
	repo := os.Getenv("VERIF_REPO")
	if repo == "" {
		repo = "/repo"
	}
	found, err := c06ScanTree(repo)
	if err != nil {
		e.Stats.ImplFailures = append(e.Stats.ImplFailures, ImplFailure{Case: -1, Step: -1, Monitor: "new-nondeterminism-source", Detail: "static scan could not parse the tree: " + err.Error()})
		return
	}
	counts := map[string]int{}
	for _, f := range found {
		counts[f.key()]++
		c := f.Construct
		if i := strings.Index(c, " "); i > 0 {
			c = c[:i]
		}
		e.Stats.Count("scan:" + c)
	}
	e.Stats.Distribution["scan:files"] = len(c06ScanFiles(repo))
	if os.Getenv("VERIF_C06_SCAN_DUMP") != "" {
		var ks []string
		for k := range counts {
			ks = append(ks, k)
		}
		sort.Strings(ks)
		for _, k := range ks {
			fmt.Fprintf(os.Stderr, "\t%q: %d,\n", k, counts[k])
		}
	}
	var ks []string
	for k := range counts {
		ks = append(ks, k)
	}
	sort.Strings(ks)
	for _, k := range ks {
		if counts[k] > c06ScanAllowed[k] {
			e.Stats.ImplFailures = append(e.Stats.ImplFailures, ImplFailure{Case: -1, Step: -1, Monitor: "new-nondeterminism-source",
				Detail: fmt.Sprintf("%s (occurrences: %d, in the allow-list: %d)", k, counts[k], c06ScanAllowed[k])})
		}
	}
}

// The occurrences in the tree the check was built against (telemetry, the tps counter, simulation helpers).
// Regenerate with VERIF_C06_SCAN_DUMP=1 after reviewing every new entry by hand.
var c06ScanAllowed = map[string]int{
	"app/app.go | Canto.GetStoreKeys | range-over-map app.keys": 1,
	"app/app.go | NewCanto | go-statement":                      1,
	"app/sim_utils.go | (imports) | math/rand":                  1,
	"app/state.go | (imports) | math/rand":                      1,
	"app/state.go | AppStateFn | math/rand use":                 1,
	"app/state.go | AppStateRandomizedFn | math/rand use":       2,
	"app/tps_counter.go | tpsCounter.start | float":             3,
	"x/erc20/types/utils.go | (imports) | math/rand":            1,
}
