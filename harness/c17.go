//go:build verif

package harness

import (
	"encoding/hex"
	"fmt"
	"github.com/cosmos/cosmos-sdk/x/params"
	paramstypes "github.com/cosmos/cosmos-sdk/x/params/types"
	paramproposal "github.com/cosmos/cosmos-sdk/x/params/types/proposal"
	"math/big"
	"reflect"
	"sort"
	"strings"

	sdkmath "cosmossdk.io/math"
	sdk "github.com/cosmos/cosmos-sdk/types"
	authtypes "github.com/cosmos/cosmos-sdk/x/auth/types"
	banktypes "github.com/cosmos/cosmos-sdk/x/bank/types"
	distrtypes "github.com/cosmos/cosmos-sdk/x/distribution/types"
	govtypes "github.com/cosmos/cosmos-sdk/x/gov/types"
	stakingtypes "github.com/cosmos/cosmos-sdk/x/staking/types"
	"github.com/cosmos/gogoproto/proto"
	ibctransfertypes "github.com/cosmos/ibc-go/v8/modules/apps/transfer/types"
	"github.com/ethereum/go-ethereum/common"
	"github.com/ethereum/go-ethereum/crypto"
	evmtypes "github.com/evmos/ethermint/x/evm/types"

	"github.com/Canto-Network/Canto/v8/app"
	"github.com/Canto-Network/Canto/v8/contracts"
	coinswaptypes "github.com/Canto-Network/Canto/v8/x/coinswap/types"
	csrtypes "github.com/Canto-Network/Canto/v8/x/csr/types"
	erc20types "github.com/Canto-Network/Canto/v8/x/erc20/types"
	govshuttletypes "github.com/Canto-Network/Canto/v8/x/govshuttle/types"
	inflationtypes "github.com/Canto-Network/Canto/v8/x/inflation/types"
	onboardingtypes "github.com/Canto-Network/Canto/v8/x/onboarding/types"
)

func init() { runners["C17"] = runC17 }

// ---------- replay format ----------

type c17Coin struct {
	Denom  string `json:"denom"`
	Amount string `json:"amount"`
}
type c17Cs struct {
	Fee       string    `json:"fee_raw"` // LegacyDec raw integers (value * 10^18)
	PcfDenom  string    `json:"pool_creation_fee_denom"`
	PcfAmount string    `json:"pool_creation_fee_amount"`
	Tax       string    `json:"tax_rate_raw"`
	MaxStd    string    `json:"max_standard_coin_per_pool"`
	MaxSwap   []c17Coin `json:"max_swap_amount"`
}
type c17Inf struct {
	Denom     string `json:"mint_denom"`
	A         string `json:"a_raw"`
	R         string `json:"r_raw"`
	C         string `json:"c_raw"`
	BT        string `json:"bonding_target_raw"`
	MV        string `json:"max_variance_raw"`
	Staking   string `json:"staking_rewards_raw"`
	Community string `json:"community_pool_raw"`
	Enable    bool   `json:"enable_inflation"`
}
type c17Csr struct {
	Enable bool   `json:"enable_csr"`
	Shares string `json:"csr_shares_raw"`
}
type c17Onb struct {
	Enable    bool     `json:"enable_onboarding"`
	Threshold string   `json:"auto_swap_threshold"`
	Channels  []string `json:"whitelisted_channels"`
}
type c17Erc struct {
	Enable bool `json:"enable_erc20"`
	Hook   bool `json:"enable_evm_hook"`
}
type c17Op struct {
	Kind      string  `json:"kind"` // coinswap inflation csr onboarding erc20 | register_coin register_erc20 toggle lending treasury
	Authority string  `json:"authority"`
	Label     string  `json:"label,omitempty"`     // which bound the case aims at (informative)
	NilField  string  `json:"nil_field,omitempty"` // numeric field left absent (nil Int / LegacyDec)
	Cs        *c17Cs  `json:"coinswap,omitempty"`
	Inf       *c17Inf `json:"inflation,omitempty"`
	Csr       *c17Csr `json:"csr,omitempty"`
	Onb       *c17Onb `json:"onboarding,omitempty"`
	Erc       *c17Erc `json:"erc20,omitempty"`
	Arg       string  `json:"arg,omitempty"` // register_coin: base denom; register_erc20: contract; toggle: token; lending/treasury: prop id
	// Legacy (parameter updates with the governance authority only): the update is delivered the way a passed legacy
	// ParameterChangeProposal is - the params module's proposal handler writes every field of the set straight into the
	// module's subspace (per-field validators), bypassing the module's message server and keeper.SetParams
	Legacy bool `json:"legacy,omitempty"`
	// Restate (parameter updates with a FOREIGN authority): the message carries exactly the parameters currently stored
	// (read at execution time) - a no-op if it were accepted, so a handler that takes a short cut for "nothing to do" before
	// it checks the authority accepts it
	Restate bool `json:"restate,omitempty"`
}
type c17Case struct {
	Ops []c17Op `json:"ops"`
}

// ---------- helpers ----------

var c17One = new(big.Int).Exp(big.NewInt(10), big.NewInt(18), nil)

func c17Big(s string) *big.Int {
	if s == "" {
		return new(big.Int)
	}
	return bigOf(s)
}
func c17Dec(s string) sdkmath.LegacyDec { return sdkmath.LegacyNewDecFromBigIntWithPrec(c17Big(s), 18) }
func c17Int(s string) sdkmath.Int {
	x := c17Big(s)
	if x.BitLen() > 256 {
		x = new(big.Int).Lsh(big.NewInt(1), 255)
	}
	return sdkmath.NewIntFromBigInt(x)
}
func c17Str(s string) string {
	b := []byte(s)
	items := make([]string, len(b))
	for i, x := range b {
		items[i] = fmt.Sprint(int(x))
	}
	return L(items)
}

type c17Intern struct {
	names map[string]string
	defs  []string
}

func (in *c17Intern) name(prefix, term string) string {
	if n, ok := in.names[term]; ok {
		return n
	}
	n := fmt.Sprintf("%s%d", prefix, len(in.defs))
	in.names[term] = n
	in.defs = append(in.defs, "let "+n+" := "+term+" in ")
	return n
}

func c17CsTerm(in *c17Intern, p coinswaptypes.Params) string {
	var coins []string
	for _, c := range p.MaxSwapAmount {
		coins = append(coins, Tup(in.name("s", c17Str(c.Denom)), Z(c.Amount.BigInt())))
	}
	return in.name("cs", App("mkCs", Z(p.Fee.BigInt()), in.name("s", c17Str(p.PoolCreationFee.Denom)), Z(p.PoolCreationFee.Amount.BigInt()),
		Z(p.TaxRate.BigInt()), Z(p.MaxStandardCoinPerPool.BigInt()), L(coins)))
}
func c17InfTerm(in *c17Intern, p inflationtypes.Params) string {
	e := p.ExponentialCalculation
	d := p.InflationDistribution
	return in.name("inf", App("mkInf", in.name("s", c17Str(p.MintDenom)), Z(e.A.BigInt()), Z(e.R.BigInt()), Z(e.C.BigInt()), Z(e.BondingTarget.BigInt()),
		Z(e.MaxVariance.BigInt()), Z(d.StakingRewards.BigInt()), Z(d.CommunityPool.BigInt()), B(p.EnableInflation)))
}
func c17CsrTerm(in *c17Intern, p csrtypes.Params) string {
	return App("mkCsr", B(p.EnableCsr), Z(p.CsrShares.BigInt()))
}
func c17OnbTerm(in *c17Intern, p onboardingtypes.Params) string {
	var ch []string
	for _, c := range p.WhitelistedChannels {
		ch = append(ch, in.name("s", c17Str(c)))
	}
	return in.name("onb", App("mkOnb", B(p.EnableOnboarding), Z(p.AutoSwapThreshold.BigInt()), L(ch)))
}
func c17ErcTerm(p erc20types.Params) string {
	return App("mkErc", B(p.EnableErc20), B(p.EnableEVMHook))
}

// c17Observe: the five modules' Params through their keepers and the registry projection.
func c17Observe(a *app.Canto, ctx sdk.Context, in *c17Intern) (term string, err error) {
	defer func() {
		if r := recover(); r != nil {
			err = fmt.Errorf("reading stored params panics: %v", r)
		}
	}()
	var reg []string
	pairs := a.Erc20Keeper.GetTokenPairs(ctx)
	sort.Slice(pairs, func(i, j int) bool {
		return pairs[i].Erc20Address+pairs[i].Denom < pairs[j].Erc20Address+pairs[j].Denom
	})
	reg = append(reg, Zi(int64(len(pairs))))
	port, found := a.GovshuttleKeeper.GetPort(ctx)
	if found {
		reg = append(reg, Z(new(big.Int).SetBytes(port.Bytes())))
	} else {
		reg = append(reg, "(-1)")
	}
	for _, p := range pairs {
		en := int64(0)
		if p.Enabled {
			en = 1
		}
		reg = append(reg, Z(new(big.Int).SetBytes(common.HexToAddress(p.Erc20Address).Bytes())), Zi(en))
	}
	term = App("mkAObs", c17CsTerm(in, a.CoinswapKeeper.GetParams(ctx)), c17InfTerm(in, a.InflationKeeper.GetParams(ctx)),
		c17CsrTerm(in, a.CSRKeeper.GetParams(ctx)), c17OnbTerm(in, a.OnboardingKeeper.GetParams(ctx)), c17ErcTerm(a.Erc20Keeper.GetParams(ctx)), L(reg))
	return in.name("o", term), nil
}

func c17CsParams(p *c17Cs) coinswaptypes.Params {
	var coins sdk.Coins
	for _, c := range p.MaxSwap {
		coins = append(coins, sdk.Coin{Denom: c.Denom, Amount: c17Int(c.Amount)})
	}
	return coinswaptypes.Params{Fee: c17Dec(p.Fee), PoolCreationFee: sdk.Coin{Denom: p.PcfDenom, Amount: c17Int(p.PcfAmount)},
		TaxRate: c17Dec(p.Tax), MaxStandardCoinPerPool: c17Int(p.MaxStd), MaxSwapAmount: coins}
}
func c17InfParams(p *c17Inf) inflationtypes.Params {
	return inflationtypes.Params{MintDenom: p.Denom,
		ExponentialCalculation: inflationtypes.ExponentialCalculation{A: c17Dec(p.A), R: c17Dec(p.R), C: c17Dec(p.C), BondingTarget: c17Dec(p.BT), MaxVariance: c17Dec(p.MV)},
		InflationDistribution:  inflationtypes.InflationDistribution{StakingRewards: c17Dec(p.Staking), CommunityPool: c17Dec(p.Community)},
		EnableInflation:        p.Enable}
}

var c17PrivKinds = map[string]string{"register_coin": "RegisterCoin", "register_erc20": "RegisterERC20", "toggle": "ToggleConversion", "lending": "LendingMarket", "treasury": "TreasuryProp"}

// c17Build returns the message as it arrives over the wire (encode + decode through the app codec),
// then with the requested numeric field made absent.  ok=false: not deliverable.
// c17LegacyParamChange: the parameter set carried by a MsgUpdateParams, delivered as a legacy ParameterChangeProposal
func c17LegacyParamChange(a *app.Canto, ctx sdk.Context, msg sdk.Msg) error {
	var subspace string
	var ps paramstypes.ParamSet
	switch v := msg.(type) {
	case *coinswaptypes.MsgUpdateParams:
		subspace, ps = coinswaptypes.ModuleName, &v.Params
	case *inflationtypes.MsgUpdateParams:
		subspace, ps = inflationtypes.ModuleName, &v.Params
	case *csrtypes.MsgUpdateParams:
		subspace, ps = csrtypes.ModuleName, &v.Params
	case *onboardingtypes.MsgUpdateParams:
		subspace, ps = onboardingtypes.ModuleName, &v.Params
	case *erc20types.MsgUpdateParams:
		subspace, ps = erc20types.ModuleName, &v.Params
	default:
		return fmt.Errorf("not a parameter update")
	}
	var changes []paramproposal.ParamChange
	for _, pair := range ps.ParamSetPairs() {
		val := reflect.Indirect(reflect.ValueOf(pair.Value)).Interface()
		bz, err := a.LegacyAmino().MarshalJSON(val)
		if err != nil {
			return err
		}
		if cn, isCoin := val.(sdk.Coin); isCoin && !cn.Amount.IsNil() {
			// amino JSON omits an empty denomination, and Subspace.Update decodes the JSON over the value stored
			// before: the old denomination would survive.  Spell the submitted value out in full.
			bz = []byte(fmt.Sprintf(`{"denom":%q,"amount":%q}`, cn.Denom, cn.Amount.String()))
		}
		changes = append(changes, paramproposal.NewParamChange(subspace, string(pair.Key), string(bz)))
	}
	return params.NewParamChangeProposalHandler(a.ParamsKeeper)(ctx, paramproposal.NewParameterChangeProposal("verif", "legacy parameter change", changes))
}

func c17Build(a *app.Canto, o c17Op) (msg sdk.Msg, ok bool) {
	defer func() {
		if r := recover(); r != nil {
			msg, ok = nil, false
		}
	}()
	var m proto.Message
	switch o.Kind {
	case "coinswap":
		m = &coinswaptypes.MsgUpdateParams{Authority: o.Authority, Params: c17CsParams(o.Cs)}
	case "inflation":
		m = &inflationtypes.MsgUpdateParams{Authority: o.Authority, Params: c17InfParams(o.Inf)}
	case "csr":
		m = &csrtypes.MsgUpdateParams{Authority: o.Authority, Params: csrtypes.Params{EnableCsr: o.Csr.Enable, CsrShares: c17Dec(o.Csr.Shares)}}
	case "onboarding":
		m = &onboardingtypes.MsgUpdateParams{Authority: o.Authority, Params: onboardingtypes.Params{EnableOnboarding: o.Onb.Enable, AutoSwapThreshold: c17Int(o.Onb.Threshold), WhitelistedChannels: o.Onb.Channels}}
	case "erc20":
		m = &erc20types.MsgUpdateParams{Authority: o.Authority, Params: erc20types.Params{EnableErc20: o.Erc.Enable, EnableEVMHook: o.Erc.Hook}}
	case "register_coin":
		base := o.Arg
		disp := "d" + strings.NewReplacer("/", "").Replace(base)
		m = &erc20types.MsgRegisterCoin{Authority: o.Authority, Title: "t", Description: "d", Metadata: banktypes.Metadata{
			Description: "verif coin", Base: base, Display: disp, Name: base, Symbol: "VRF",
			DenomUnits: []*banktypes.DenomUnit{{Denom: base, Exponent: 0}, {Denom: disp, Exponent: 6}}}}
	case "register_erc20":
		m = &erc20types.MsgRegisterERC20{Authority: o.Authority, Title: "t", Description: "d", Erc20Address: o.Arg}
	case "toggle":
		m = &erc20types.MsgToggleTokenConversion{Authority: o.Authority, Title: "t", Description: "d", Token: o.Arg}
	case "lending":
		var id uint64
		fmt.Sscan(o.Arg, &id)
		m = &govshuttletypes.MsgLendingMarketProposal{Authority: o.Authority, Title: "lm", Description: "d", Metadata: &govshuttletypes.LendingMarketMetadata{
			Account: []string{"0x20F72265e2225837fd77C692e0781f720B93eF89"}, PropId: id, Values: []uint64{7}, Calldatas: []string{"ab"}, Signatures: []string{"f()"}}}
	case "treasury":
		var id uint64
		fmt.Sscan(o.Arg, &id)
		m = &govshuttletypes.MsgTreasuryProposal{Authority: o.Authority, Title: "tr", Description: "d", Metadata: &govshuttletypes.TreasuryProposalMetadata{
			PropID: id, Recipient: "0x20F72265e2225837fd77C692e0781f720B93eF89", Amount: 5, Denom: "canto"}}
	default:
		panic("unknown kind " + o.Kind)
	}
	bz, err := proto.Marshal(m)
	if err != nil {
		return nil, false
	}
	out := reflect.New(reflect.TypeOf(m).Elem()).Interface().(proto.Message)
	if err := proto.Unmarshal(bz, out); err != nil {
		return nil, false
	}
	switch v := out.(type) {
	case *coinswaptypes.MsgUpdateParams:
		switch o.NilField {
		case "fee":
			v.Params.Fee = sdkmath.LegacyDec{}
		case "pool_creation_fee":
			v.Params.PoolCreationFee.Amount = sdkmath.Int{}
		case "tax_rate":
			v.Params.TaxRate = sdkmath.LegacyDec{}
		case "max_standard_coin_per_pool":
			v.Params.MaxStandardCoinPerPool = sdkmath.Int{}
		case "max_swap_amount":
			if len(v.Params.MaxSwapAmount) > 0 {
				v.Params.MaxSwapAmount[0].Amount = sdkmath.Int{}
			} else {
				v.Params.MaxSwapAmount = sdk.Coins{{Denom: "acoin", Amount: sdkmath.Int{}}}
			}
		}
	case *inflationtypes.MsgUpdateParams:
		switch o.NilField {
		case "a":
			v.Params.ExponentialCalculation.A = sdkmath.LegacyDec{}
		case "r":
			v.Params.ExponentialCalculation.R = sdkmath.LegacyDec{}
		case "c":
			v.Params.ExponentialCalculation.C = sdkmath.LegacyDec{}
		case "bonding_target":
			v.Params.ExponentialCalculation.BondingTarget = sdkmath.LegacyDec{}
		case "max_variance":
			v.Params.ExponentialCalculation.MaxVariance = sdkmath.LegacyDec{}
		case "staking_rewards":
			v.Params.InflationDistribution.StakingRewards = sdkmath.LegacyDec{}
		case "community_pool":
			v.Params.InflationDistribution.CommunityPool = sdkmath.LegacyDec{}
		}
	case *csrtypes.MsgUpdateParams:
		if o.NilField != "" {
			v.Params.CsrShares = sdkmath.LegacyDec{}
		}
	case *onboardingtypes.MsgUpdateParams:
		if o.NilField != "" {
			v.Params.AutoSwapThreshold = sdkmath.Int{}
		}
	}
	return out.(sdk.Msg), true
}

// c17OpTerm prints the operation from the message that is actually executed.
func c17OpTerm(in *c17Intern, o c17Op, msg sdk.Msg) string {
	auth := in.name("s", c17Str(o.Authority))
	nilf := B(o.NilField != "")
	zero := func(d sdkmath.LegacyDec) sdkmath.LegacyDec {
		if d.IsNil() {
			return sdkmath.LegacyZeroDec()
		}
		return d
	}
	zeroI := func(i sdkmath.Int) sdkmath.Int {
		if i.IsNil() {
			return sdkmath.ZeroInt()
		}
		return i
	}
	switch v := msg.(type) {
	case *coinswaptypes.MsgUpdateParams:
		p := v.Params
		p.Fee, p.TaxRate = zero(p.Fee), zero(p.TaxRate)
		p.PoolCreationFee.Amount, p.MaxStandardCoinPerPool = zeroI(p.PoolCreationFee.Amount), zeroI(p.MaxStandardCoinPerPool)
		cs := make(sdk.Coins, len(p.MaxSwapAmount))
		for i, c := range p.MaxSwapAmount {
			cs[i] = sdk.Coin{Denom: c.Denom, Amount: zeroI(c.Amount)}
		}
		p.MaxSwapAmount = cs
		return App("CCoinswap", auth, nilf, c17CsTerm(in, p))
	case *inflationtypes.MsgUpdateParams:
		p := v.Params
		e := &p.ExponentialCalculation
		e.A, e.R, e.C, e.BondingTarget, e.MaxVariance = zero(e.A), zero(e.R), zero(e.C), zero(e.BondingTarget), zero(e.MaxVariance)
		d := &p.InflationDistribution
		d.StakingRewards, d.CommunityPool = zero(d.StakingRewards), zero(d.CommunityPool)
		return App("CInflation", auth, nilf, c17InfTerm(in, p))
	case *csrtypes.MsgUpdateParams:
		p := v.Params
		p.CsrShares = zero(p.CsrShares)
		return App("CCsr", auth, nilf, c17CsrTerm(in, p))
	case *onboardingtypes.MsgUpdateParams:
		p := v.Params
		p.AutoSwapThreshold = zeroI(p.AutoSwapThreshold)
		return App("COnboarding", auth, nilf, c17OnbTerm(in, p))
	case *erc20types.MsgUpdateParams:
		return App("CErc20", auth, c17ErcTerm(v.Params))
	}
	return App("CPriv", c17PrivKinds[o.Kind], auth)
}

// ---------- generators ----------

type c17World struct {
	gov         string
	authorities []string // every non-gov authority string
	coins       []string // base denominations with supply (register_coin can succeed)
	contracts   []string // deployed ERC20 contracts (register_erc20 can succeed)
	registered  []string // denomination and contract address of a pair registered before every case (toggle can succeed)
}

func c17S(x *big.Int) string { return x.String() }
func c17Add(x *big.Int, d int64) string {
	return new(big.Int).Add(x, big.NewInt(d)).String()
}

func (e *Env) c17ValidDenom() string {
	pool := []string{"acanto", coinswaptypes.UsdcIBCDenom, coinswaptypes.UsdtIBCDenom, coinswaptypes.EthIBCDenom, "stake", "abc", "a/b:c.d_e-f", "Zz9", "note", "ibc/ABCDEF0123"}
	if e.Chance(0.15) {
		return "a" + strings.Repeat("x", 2+e.Pick(126))
	}
	return pool[e.Pick(len(pool))]
}

func (e *Env) c17ValidCoins() []c17Coin {
	n := e.Pick(5)
	set := map[string]bool{}
	for len(set) < n {
		set[e.c17ValidDenom()] = true
	}
	var ds []string
	for d := range set {
		ds = append(ds, d)
	}
	sort.Strings(ds)
	var out []c17Coin
	for _, d := range ds {
		out = append(out, c17Coin{d, e.Mag(250).String()})
	}
	return out
}

func (e *Env) c17DecIn01() string { // [0,1)
	switch e.Pick(5) {
	case 0:
		return "0"
	case 1:
		return c17Add(c17One, -1)
	case 2:
		return "1"
	default:
		return e.Below(c17One).String()
	}
}

func (e *Env) c17ValidCs() *c17Cs {
	pd := e.c17ValidDenom()
	if e.Chance(0.1) {
		pd = []string{"", "x", "1bad", "has space"}[e.Pick(4)] // no rule of the module constrains this denom
	}
	pa := "0"
	if e.Chance(0.6) {
		pa = e.Mag(200).String()
	}
	return &c17Cs{Fee: e.c17DecIn01(), PcfDenom: pd, PcfAmount: pa, Tax: e.c17DecIn01(), MaxStd: e.Mag(250).String(), MaxSwap: e.c17ValidCoins()}
}

func (e *Env) c17ValidInf() *c17Inf {
	st := e.Below(new(big.Int).Add(c17One, big.NewInt(1)))
	if e.Chance(0.3) {
		st = []*big.Int{big.NewInt(0), c17One, big.NewInt(1)}[e.Pick(3)]
	}
	cp := new(big.Int).Sub(c17One, st)
	r := e.Below(new(big.Int).Add(c17One, big.NewInt(1)))
	bt := new(big.Int).Add(e.Below(c17One), big.NewInt(1))
	nonneg := func() string {
		if e.Chance(0.3) {
			return "0"
		}
		return new(big.Int).Mul(e.Mag(200), big.NewInt(int64(1+e.Pick(1000)))).String()
	}
	// max_variance is kept below 2^80 (raw) so that the provision stays computable (the validator demands it)
	mv := "0"
	if e.Chance(0.7) {
		mv = new(big.Int).Mul(e.Mag(70), big.NewInt(int64(1+e.Pick(1000)))).String()
	}
	return &c17Inf{Denom: e.c17ValidDenom(), A: nonneg(), R: r.String(), C: nonneg(), BT: bt.String(), MV: mv, Staking: st.String(), Community: cp.String(), Enable: e.Chance(0.5)}
}

func (e *Env) c17ValidCsr() *c17Csr {
	s := e.Below(new(big.Int).Add(c17One, big.NewInt(1)))
	if e.Chance(0.3) {
		s = []*big.Int{big.NewInt(0), c17One, big.NewInt(1), new(big.Int).Sub(c17One, big.NewInt(1))}[e.Pick(4)]
	}
	return &c17Csr{Enable: e.Chance(0.5), Shares: s.String()}
}

func (e *Env) c17ValidOnb() *c17Onb {
	chs := [][]string{nil, {"channel-0"}, {"channel-0", "channel-7"}, {"", "not a channel", "channel-0", "channel-0"}, {"канал-1", "channel-18446744073709551616"}}
	t := "0"
	if e.Chance(0.7) {
		t = e.Mag(250).String()
	}
	return &c17Onb{Enable: e.Chance(0.5), Threshold: t, Channels: chs[e.Pick(len(chs))]}
}

// boundary stream: from a valid base, one field at / one step beyond each bound of the model
func (e *Env) c17Boundary(w *c17World) []c17Op {
	var out []c17Op
	one := c17One
	dec01 := []string{"-1", "0", "1", c17Add(one, -1), c17S(one), c17Add(one, 1), new(big.Int).Neg(one).String()}
	addCs := func(label string, f func(p *c17Cs)) {
		p := e.c17ValidCs()
		f(p)
		out = append(out, c17Op{Kind: "coinswap", Authority: w.gov, Label: label, Cs: p})
	}
	for _, v := range dec01 {
		v := v
		addCs("fee="+v, func(p *c17Cs) { p.Fee = v })
		addCs("tax_rate="+v, func(p *c17Cs) { p.Tax = v })
	}
	for _, v := range []string{"-1", "0", "1"} {
		v := v
		addCs("pool_creation_fee="+v, func(p *c17Cs) { p.PcfAmount = v })
		addCs("max_standard_coin_per_pool="+v, func(p *c17Cs) { p.MaxStd = v })
		addCs("max_swap_amount.single="+v, func(p *c17Cs) { p.MaxSwap = []c17Coin{{"acanto", v}} })
		addCs("max_swap_amount.second="+v, func(p *c17Cs) { p.MaxSwap = []c17Coin{{"acanto", "5"}, {"bcoin", v}} })
	}
	for _, d := range []string{"", "a", "ab", "abc", "a" + strings.Repeat("x", 127), "a" + strings.Repeat("x", 128), "1ab", "/ab", "ab c", "abc!", "abç", "ABC", "a//", "a-._:/9"} {
		d := d
		addCs("max_swap_amount.denom="+fmt.Sprintf("%.12q(len %d)", d, len(d)), func(p *c17Cs) { p.MaxSwap = []c17Coin{{d, "1"}} })
		addCs("max_swap_amount.second-denom", func(p *c17Cs) { p.MaxSwap = []c17Coin{{"AAA", "1"}, {d, "1"}} })
	}
	addCs("max_swap_amount.unsorted", func(p *c17Cs) { p.MaxSwap = []c17Coin{{"bcoin", "1"}, {"acoin", "1"}} })
	addCs("max_swap_amount.duplicate", func(p *c17Cs) { p.MaxSwap = []c17Coin{{"acoin", "1"}, {"acoin", "2"}} })
	addCs("max_swap_amount.prefix-order", func(p *c17Cs) { p.MaxSwap = []c17Coin{{"acoin", "1"}, {"acoina", "2"}} })
	addCs("max_swap_amount.prefix-order-rev", func(p *c17Cs) { p.MaxSwap = []c17Coin{{"acoina", "1"}, {"acoin", "2"}} })
	addCs("max_swap_amount.case-order", func(p *c17Cs) { p.MaxSwap = []c17Coin{{"Zcoin", "1"}, {"acoin", "2"}} })
	addCs("max_swap_amount.empty", func(p *c17Cs) { p.MaxSwap = nil })
	for _, f := range []string{"fee", "pool_creation_fee", "tax_rate", "max_standard_coin_per_pool", "max_swap_amount"} {
		out = append(out, c17Op{Kind: "coinswap", Authority: w.gov, Label: "absent " + f, NilField: f, Cs: e.c17ValidCs()})
	}

	addInf := func(label string, f func(p *c17Inf)) {
		p := e.c17ValidInf()
		f(p)
		out = append(out, c17Op{Kind: "inflation", Authority: w.gov, Label: label, Inf: p})
	}
	for _, v := range []string{"-1", "0", "1"} {
		v := v
		addInf("a="+v, func(p *c17Inf) { p.A = v })
		addInf("c="+v, func(p *c17Inf) { p.C = v })
		addInf("max_variance="+v, func(p *c17Inf) { p.MV = v })
	}
	for _, v := range dec01 {
		v := v
		addInf("r="+v, func(p *c17Inf) { p.R = v })
		addInf("bonding_target="+v, func(p *c17Inf) { p.BT = v })
	}
	// provisionComputable (validateExponentialCalculation after the repair of the C18 finding): for several
	// settings of the other fields, the largest accepted value of one field (found by bisection on the real
	// Params.Validate, which is monotone in that field) and its successor, plus fixed huge values
	huge := new(big.Int).Sub(new(big.Int).Lsh(big.NewInt(1), 315), big.NewInt(1))
	bisect := func(base *c17Inf, set func(p *c17Inf, v string)) *big.Int {
		okAt := func(x *big.Int) bool {
			q := *base
			set(&q, x.String())
			ok := false
			func() {
				defer func() { recover() }()
				ok = c17InfParams(&q).Validate() == nil
			}()
			return ok
		}
		lo, hi := big.NewInt(0), new(big.Int).Set(huge)
		if !okAt(lo) {
			return nil
		}
		if okAt(hi) {
			return hi
		}
		for new(big.Int).Sub(hi, lo).Cmp(big.NewInt(1)) > 0 { // invariant: okAt(lo), !okAt(hi)
			mid := new(big.Int).Rsh(new(big.Int).Add(lo, hi), 1)
			if okAt(mid) {
				lo = mid
			} else {
				hi = mid
			}
		}
		return lo
	}
	ten := func(n int64) string { return new(big.Int).Exp(big.NewInt(10), big.NewInt(n), nil).String() }
	settings := []struct {
		name string
		f    func(p *c17Inf)
	}{
		{"default-like", func(p *c17Inf) {
			p.A, p.R, p.C, p.BT, p.MV = ten(25), ten(17), "0", new(big.Int).Mul(big.NewInt(8), new(big.Int).Exp(big.NewInt(10), big.NewInt(17), nil)).String(), "0"
		}},
		{"variance-3", func(p *c17Inf) {
			p.A, p.C, p.BT, p.MV = ten(40), ten(30), ten(18), new(big.Int).Mul(big.NewInt(3), one).String()
		}},
		{"tiny-target", func(p *c17Inf) { p.A, p.C, p.BT, p.MV = ten(20), "1", "1", ten(18) }},
		{"zero-a-c", func(p *c17Inf) { p.A, p.C, p.BT, p.MV = "0", "0", ten(17), ten(18) }},
	}
	fields := []struct {
		name string
		set  func(p *c17Inf, v string)
	}{
		{"a", func(p *c17Inf, v string) { p.A = v }},
		{"c", func(p *c17Inf, v string) { p.C = v }},
		{"max_variance", func(p *c17Inf, v string) { p.MV = v }},
	}
	for _, st := range settings {
		for _, fl := range fields {
			base := e.c17ValidInf()
			st.f(base)
			st, fl := st, fl
			vals := []string{new(big.Int).Lsh(big.NewInt(1), 314).String(), huge.String(), ten(80), ten(58 + 18), ten(59 + 18)}
			if m := bisect(base, fl.set); m != nil {
				vals = append(vals, m.String(), new(big.Int).Add(m, big.NewInt(1)).String(), new(big.Int).Sub(m, big.NewInt(1)).String())
			}
			for _, v := range vals {
				v := v
				q := *base
				fl.set(&q, v)
				out = append(out, c17Op{Kind: "inflation", Authority: w.gov, Label: "computable:" + st.name + ":" + fl.name + "=" + v, Inf: &q})
			}
		}
	}
	// the smallest bonding targets with a fixed variance: max_variance / bonding_target is the first quotient
	for _, bt := range []string{"1", "2", "10", ten(9)} {
		for _, mv := range []string{ten(18), ten(40), ten(58), ten(76), ten(94)} {
			bt, mv := bt, mv
			addInf("computable:bonding_target="+bt+",max_variance="+mv, func(p *c17Inf) { p.A, p.C, p.BT, p.MV = ten(24), "0", bt, mv })
		}
	}

	half := new(big.Int).Quo(one, big.NewInt(2))
	for _, pr := range [][2]string{{"0", c17S(one)}, {c17S(one), "0"}, {c17S(half), c17S(half)}, {c17S(half), c17Add(half, 1)}, {c17S(half), c17Add(half, -1)},
		{"-1", c17Add(one, 1)}, {c17Add(one, 1), "-1"}, {"0", "0"}, {c17S(one), c17S(one)}, {"1", c17Add(one, -1)}, {"0", c17Add(one, 1)}, {"0", c17Add(one, -1)},
		{new(big.Int).Lsh(big.NewInt(1), 314).String(), new(big.Int).Lsh(big.NewInt(1), 314).String()}} {
		pr := pr
		addInf("distribution="+pr[0]+"+"+pr[1], func(p *c17Inf) { p.Staking, p.Community = pr[0], pr[1] })
	}
	for _, d := range []string{"", " ", "   ", "a", "ab", "abc", " abc", "abc ", "a" + strings.Repeat("x", 127), "a" + strings.Repeat("x", 128), "1ab", "ab\tc", "ac ", "acanto"} {
		d := d
		addInf("mint_denom="+fmt.Sprintf("%.12q(len %d)", d, len(d)), func(p *c17Inf) { p.Denom = d })
	}
	for _, f := range []string{"a", "r", "c", "bonding_target", "max_variance", "staking_rewards", "community_pool"} {
		out = append(out, c17Op{Kind: "inflation", Authority: w.gov, Label: "absent " + f, NilField: f, Inf: e.c17ValidInf()})
	}

	for _, v := range dec01 {
		out = append(out, c17Op{Kind: "csr", Authority: w.gov, Label: "csr_shares=" + v, Csr: &c17Csr{Enable: e.Chance(0.5), Shares: v}})
	}
	out = append(out, c17Op{Kind: "csr", Authority: w.gov, Label: "absent csr_shares", NilField: "csr_shares", Csr: e.c17ValidCsr()})

	for _, v := range []string{"-1", "0", "1", new(big.Int).Lsh(big.NewInt(1), 255).String(), new(big.Int).Neg(new(big.Int).Lsh(big.NewInt(1), 255)).String()} {
		p := e.c17ValidOnb()
		p.Threshold = v
		out = append(out, c17Op{Kind: "onboarding", Authority: w.gov, Label: "auto_swap_threshold=" + v, Onb: p})
	}
	out = append(out, c17Op{Kind: "onboarding", Authority: w.gov, Label: "absent auto_swap_threshold", NilField: "auto_swap_threshold", Onb: e.c17ValidOnb()})
	for _, b := range [][2]bool{{false, false}, {false, true}, {true, false}, {true, true}} {
		out = append(out, c17Op{Kind: "erc20", Authority: w.gov, Label: "bools", Erc: &c17Erc{b[0], b[1]}})
	}
	return out
}

var c17Kinds = []string{"coinswap", "inflation", "csr", "onboarding", "erc20", "register_coin", "register_erc20", "toggle", "lending", "treasury"}

// a message of the given kind that governance could execute successfully in the current case
func (e *Env) c17ValidOp(w *c17World, kind, authority string, toggles []string) c17Op {
	o := c17Op{Kind: kind, Authority: authority}
	switch kind {
	case "coinswap":
		o.Cs = e.c17ValidCs()
	case "inflation":
		o.Inf = e.c17ValidInf()
	case "csr":
		o.Csr = e.c17ValidCsr()
	case "onboarding":
		o.Onb = e.c17ValidOnb()
	case "erc20":
		o.Erc = &c17Erc{e.Chance(0.8), e.Chance(0.5)}
	case "register_coin":
		o.Arg = w.coins[e.Pick(len(w.coins))]
		if e.Chance(0.1) {
			o.Arg = []string{"nosupply", "aCANTOx", ""}[e.Pick(3)]
		}
	case "register_erc20":
		o.Arg = w.contracts[e.Pick(len(w.contracts))]
		if e.Chance(0.1) {
			o.Arg = []string{"0x1111111111111111111111111111111111111111", "zz", ""}[e.Pick(3)]
		}
	case "toggle":
		pool := append(append(append([]string{}, w.coins...), w.contracts...), toggles...)
		o.Arg = pool[e.Pick(len(pool))]
		if e.Chance(0.6) {
			o.Arg = w.registered[e.Pick(len(w.registered))]
		}
	case "lending", "treasury":
		o.Arg = fmt.Sprint(e.Pick(4))
	}
	return o
}

// one random invalid variant (a bound just missed) with the given authority
func (e *Env) c17Perturb(o *c17Op) {
	one := c17One
	bad01 := []string{"-1", c17S(one), c17Add(one, 1)}
	switch o.Kind {
	case "coinswap":
		switch e.Pick(6) {
		case 0:
			o.Cs.Fee = bad01[e.Pick(3)]
		case 1:
			o.Cs.Tax = bad01[e.Pick(3)]
		case 2:
			o.Cs.PcfAmount = "-" + e.Mag(100).String()
		case 3:
			o.Cs.MaxStd = []string{"0", "-1", "-" + e.Mag(100).String()}[e.Pick(3)]
		case 4:
			o.Cs.MaxSwap = append(o.Cs.MaxSwap, c17Coin{"zzzz", []string{"0", "-1"}[e.Pick(2)]})
		default:
			o.Cs.MaxSwap = append([]c17Coin{{"zzzy", "1"}}, o.Cs.MaxSwap...)
			if len(o.Cs.MaxSwap) == 1 {
				o.Cs.MaxSwap[0].Denom = "x"
			}
		}
	case "inflation":
		switch e.Pick(7) {
		case 0:
			o.Inf.A = "-" + e.Mag(100).String()
		case 1:
			o.Inf.R = []string{"-1", c17Add(one, 1)}[e.Pick(2)]
		case 2:
			o.Inf.C = "-1"
		case 3:
			o.Inf.BT = []string{"0", "-1", c17Add(one, 1)}[e.Pick(3)]
		case 4:
			o.Inf.MV = "-1"
		case 5:
			o.Inf.Staking = c17Add(c17Big(o.Inf.Staking), []int64{1, -1}[e.Pick(2)])
		default:
			o.Inf.Denom = []string{"", "a", "1abc", "ab c"}[e.Pick(4)]
		}
	case "csr":
		o.Csr.Shares = []string{"-1", c17Add(one, 1), "-" + e.Mag(100).String(), new(big.Int).Add(one, e.Mag(100)).String()}[e.Pick(4)]
	case "onboarding":
		o.Onb.Threshold = "-" + e.Mag(200).String()
	}
}

func c17SetupWorld(a *app.Canto, ctx sdk.Context) *c17World {
	w := &c17World{gov: authtypes.NewModuleAddress(govtypes.ModuleName).String()}
	gov := authtypes.NewModuleAddress(govtypes.ModuleName)
	mods := []string{authtypes.FeeCollectorName, distrtypes.ModuleName, stakingtypes.BondedPoolName, stakingtypes.NotBondedPoolName, ibctransfertypes.ModuleName,
		evmtypes.ModuleName, inflationtypes.ModuleName, erc20types.ModuleName, csrtypes.ModuleName, govshuttletypes.ModuleName, onboardingtypes.ModuleName, coinswaptypes.ModuleName}
	for _, m := range mods {
		w.authorities = append(w.authorities, authtypes.NewModuleAddress(m).String())
	}
	user := common.HexToAddress("0x20F72265e2225837fd77C692e0781f720B93eF89")
	w.authorities = append(w.authorities,
		sdk.AccAddress(user.Bytes()).String(), sdk.AccAddress(make([]byte, 20)).String(), sdk.AccAddress(crypto.Keccak256([]byte("verif-user"))[:20]).String(),
		"", " ", "gov", "canto1", "not-an-address", "canto10d07y265gmmuvt4z0w9aw880jnsr700jg5j4zn",
		strings.ToUpper(w.gov), w.gov+" ", " "+w.gov, w.gov[:len(w.gov)-1], w.gov+"\x00", "0x"+hex.EncodeToString(gov), common.BytesToAddress(gov).Hex(),
		sdk.MustBech32ifyAddressBytes("cosmos", gov), sdk.ValAddress(gov).String(), "управление", strings.Repeat("canto1", 40))
	// coins with supply
	w.coins = []string{"ibc/17CD484EE7D9723B847D95015FA3EBD1572FD13BC84FB838F55B18A57450F25B", "acoinone", "cointwo"}
	for _, d := range append([]string{"regcoin"}, w.coins...) {
		if err := a.BankKeeper.MintCoins(ctx, erc20types.ModuleName, sdk.NewCoins(sdk.NewCoin(d, sdkmath.NewInt(1000)))); err != nil {
			panic(err)
		}
	}
	// external ERC20 contracts
	deployer := common.BytesToAddress(crypto.Keccak256([]byte("verif-deployer"))[:20])
	a.AccountKeeper.SetAccount(ctx, a.AccountKeeper.NewAccountWithAddress(ctx, sdk.AccAddress(deployer.Bytes())))
	for i := 0; i < 2; i++ {
		ctor, err := contracts.ERC20MinterBurnerDecimalsContract.ABI.Pack("", fmt.Sprintf("Token%d", i), fmt.Sprintf("TK%d", i), uint8(18))
		if err != nil {
			panic(err)
		}
		data := append(append([]byte{}, contracts.ERC20MinterBurnerDecimalsContract.Bin...), ctor...)
		nonce, err := a.AccountKeeper.GetSequence(ctx, deployer.Bytes())
		if err != nil {
			panic(err)
		}
		if _, err := a.Erc20Keeper.CallEVMWithData(ctx, deployer, nil, data, true); err != nil {
			panic(err)
		}
		w.contracts = append(w.contracts, crypto.CreateAddress(deployer, nonce).Hex())
	}
	// one pair registered before every case
	pair, err := a.Erc20Keeper.RegisterCoin(ctx, banktypes.Metadata{Description: "verif coin", Base: "regcoin", Display: "dregcoin", Name: "regcoin", Symbol: "REG",
		DenomUnits: []*banktypes.DenomUnit{{Denom: "regcoin", Exponent: 0}, {Denom: "dregcoin", Exponent: 6}}})
	if err != nil {
		panic(err)
	}
	w.registered = []string{pair.Denom, pair.Erc20Address}
	return w
}

func runC17(e *Env) {
	e.ShardSize = 10 // case terms are large; more, smaller shards evaluate in parallel
	e.Header("From Coq Require Import ZArith List.\nFrom Canto Require Import Model.Authority Check.Common Check.AuthorityCheck.\nImport ListNotations.\nOpen Scope Z_scope.\n")
	e.Stats.Rule = "case = history of 20-40 privileged messages (MsgUpdateParams of coinswap/inflation/csr/onboarding/erc20, MsgRegisterCoin, MsgRegisterERC20, MsgToggleTokenConversion, MsgLendingMarketProposal, MsgTreasuryProposal), each encoded and decoded through protobuf as it would arrive, executed with app.MsgServiceRouter().Handler(msg) on a recovered cache branch (as gov executes proposals); streams: every message type x every authority (gov, 12 other module accounts, users, malformed, other presentations of the gov address, empty); boundary stream (every numeric field at and one step beyond each bound, denom length/charset bounds, coin list order/duplicates, absent numeric fields); random valid and perturbed params; projection after every message: result class + the five modules' Params via keeper GetParams + (number of token pairs, port address, pair addresses and enabled flags); non-trivial = at least one accepted update; distinct by hash of accepted kinds/labels"
	a, baseCtx := NewApp()
	w := c17SetupWorld(a, baseCtx)
	for name, auth := range map[string]string{"coinswap": a.CoinswapKeeper.GetAuthority(), "inflation": a.InflationKeeper.GetAuthority(), "csr": a.CSRKeeper.GetAuthority(),
		"onboarding": a.OnboardingKeeper.GetAuthority(), "erc20": a.Erc20Keeper.GetAuthority(), "govshuttle": a.GovshuttleKeeper.GetAuthority()} {
		if auth != w.gov {
			e.Stats.ImplFailures = append(e.Stats.ImplFailures, ImplFailure{Case: 0, Step: -1, Monitor: "module-authority-is-not-gov", Detail: name + " keeper is configured with authority " + auth})
		}
	}

	var cases []c17Case
	if e.Replay != nil {
		var k c17Case
		mustUnmarshal(e.Replay, &k)
		cases = []c17Case{k}
	} else {
		// deterministic streams, chunked into histories and interleaved with valid governance updates
		var stream []c17Op
		if e.Tier != "search" {
			for _, kind := range c17Kinds {
				for _, auth := range w.authorities {
					stream = append(stream, e.c17ValidOp(w, kind, auth, nil))
					stream[len(stream)-1].Label = "authority-matrix"
				}
			}
		}
		stream = append(stream, e.c17Boundary(w)...)
		e.Rng.Shuffle(len(stream), func(i, j int) { stream[i], stream[j] = stream[j], stream[i] })
		for len(stream) > 0 {
			n := 24
			if n > len(stream) {
				n = len(stream)
			}
			var k c17Case
			for _, o := range stream[:n] {
				k.Ops = append(k.Ops, o)
				if e.Chance(0.25) {
					k.Ops = append(k.Ops, e.c17ValidOp(w, c17Kinds[e.Pick(len(c17Kinds))], w.gov, nil))
				}
			}
			stream = stream[n:]
			cases = append(cases, k)
		}
		nRandom := e.Scale(20, 1500)
		if e.Tier == "search" {
			nRandom = 120
		}
		for c := 0; c < nRandom; c++ {
			var k c17Case
			n := 20 + e.Pick(20)
			for i := 0; i < n; i++ {
				auth := w.gov
				if e.Chance(0.2) {
					auth = w.authorities[e.Pick(len(w.authorities))]
				}
				kind := c17Kinds[e.Pick(len(c17Kinds))]
				if e.Chance(0.5) {
					kind = c17Kinds[e.Pick(4)]
				}
				o := e.c17ValidOp(w, kind, auth, nil)
				if e.Chance(0.35) {
					e.c17Perturb(&o)
					o.Label = "perturbed"
				}
				k.Ops = append(k.Ops, o)
			}
			cases = append(cases, k)
		}
	}

	if e.Replay == nil {
		// a third of the parameter updates that carry the governance authority travel the legacy route
		for ci := range cases {
			for oi := range cases[ci].Ops {
				o := &cases[ci].Ops[oi]
				switch o.Kind {
				case "coinswap", "inflation", "csr", "onboarding", "erc20":
					if o.Authority == w.gov && o.NilField == "" && e.Chance(0.33) {
						o.Legacy = true
					}
					if o.Authority != w.gov && o.NilField == "" && e.Chance(0.3) {
						o.Restate = true
					}
				}
			}
		}
	}
	for c, kase := range cases {
		ctx, _ := baseCtx.CacheContext()
		in := &c17Intern{names: map[string]string{}}
		pre, err := c17Observe(a, ctx, in)
		if err != nil {
			panic(err)
		}
		var steps []string
		var executed []c17Op
		sig := ""
		for _, o := range kase.Ops {
			msg, deliverable := c17Build(a, o)
			if !deliverable {
				e.Stats.Count("undeliverable:" + o.Kind)
				continue
			}
			if o.Restate {
				switch v := msg.(type) {
				case *coinswaptypes.MsgUpdateParams:
					v.Params = a.CoinswapKeeper.GetParams(ctx)
				case *inflationtypes.MsgUpdateParams:
					v.Params = a.InflationKeeper.GetParams(ctx)
				case *csrtypes.MsgUpdateParams:
					v.Params = a.CSRKeeper.GetParams(ctx)
				case *onboardingtypes.MsgUpdateParams:
					v.Params = a.OnboardingKeeper.GetParams(ctx)
				case *erc20types.MsgUpdateParams:
					v.Params = a.Erc20Keeper.GetParams(ctx)
				}
				e.Stats.Count("restates-stored-params:" + o.Kind)
			}
			executed = append(executed, o)
			step := len(executed) - 1
			opTerm := c17OpTerm(in, o, msg)
			// A message executed on a branch of state that is then DISCARDED (a governance proposal whose later message
			// fails, a simulation, a mempool check) must leave no trace: the parameters and registrations read back
			// through the keepers afterwards are the ones before.  (State kept outside the store - an in-memory copy of
			// the parameters refreshed by the setter - survives the discarded branch and shows here.)
			if e.Replay != nil || e.Chance(0.5) {
				before, berr := c17Observe(a, ctx, in)
				func() {
					defer func() { _ = recover() }()
					dry, _ := ctx.CacheContext()
					if h := a.MsgServiceRouter().Handler(msg); h != nil {
						_, _ = h(dry, msg)
					}
				}()
				after, aerr := c17Observe(a, ctx, in)
				e.Stats.Count("discarded-branch-probe")
				if berr == nil && (aerr != nil || after != before) {
					e.Stats.ImplFailures = append(e.Stats.ImplFailures, ImplFailure{Case: c, Step: step, Monitor: "message-on-discarded-branch-changed-stored-state",
						Detail: "a " + o.Kind + " message executed on a branch that was never written changed what the keepers report afterwards"})
				}
			}
			err := Try(ctx, func(cctx sdk.Context) error {
				if o.Legacy {
					return c17LegacyParamChange(a, cctx, msg)
				}
				h := a.MsgServiceRouter().Handler(msg)
				if h == nil {
					return fmt.Errorf("no handler")
				}
				_, err := h(cctx, msg)
				return err
			})
			e.Stats.Evaluations++
			ok := err == nil
			cls := "rejected"
			if ok {
				cls = "ok"
				sig += o.Kind + ":" + o.Label + ":" + o.NilField + "|"
			}
			who := "gov"
			if o.Authority != w.gov {
				who = "other"
			}
			if o.Legacy {
				who = "gov-legacy-route"
			}
			e.Stats.Count(fmt.Sprintf("%s:%s:%s", o.Kind, who, cls))
			if o.Label != "" && o.Label != "authority-matrix" && o.Label != "perturbed" {
				e.Stats.Count("boundary:" + cls)
			}
			post, oerr := c17Observe(a, ctx, in)
			if oerr != nil {
				e.Stats.ImplFailures = append(e.Stats.ImplFailures, ImplFailure{Case: c, Step: step, Monitor: "stored-params-unreadable", Detail: oerr.Error()})
				break
			}
			steps = append(steps, App("mkAStep", opTerm, B(ok), post))
		}
		kase.Ops = executed
		if sig != "" {
			e.Stats.Nontrivial(sig)
		}
		term := "(" + strings.Join(in.defs, "") + App("mkACase", c17Str(w.gov), pre, L(steps)) + ")"
		e.AddCase("check_case", term, kase)
		e.Stats.Sample(c17Case{Ops: kase.Ops[:min(3, len(kase.Ops))]})
	}
}
