//go:build verif

package harness

// C11 — onboarding never loses or touches funds beyond the transferred amount.
//
// Every packet is handed to the REAL OnboardingKeeper.OnRecvPacket (a keeper
// instance on the app's own stores whose erc20 keeper sits on the C04
// recording / failure-injecting EVM keeper wrapper) after the voucher was
// credited the way the transfer module does, inside one branch with recover
// (= the transaction that delivers the packet).

import (
	"bytes"
	"fmt"
	"math/big"

	sdkmath "cosmossdk.io/math"
	sdk "github.com/cosmos/cosmos-sdk/types"
	authtypes "github.com/cosmos/cosmos-sdk/x/auth/types"
	govtypes "github.com/cosmos/cosmos-sdk/x/gov/types"
	channeltypes "github.com/cosmos/ibc-go/v8/modules/core/04-channel/types"
	"github.com/cosmos/ibc-go/v8/modules/core/exported"

	onboardingkeeper "github.com/Canto-Network/Canto/v8/x/onboarding/keeper"
	onboardingtypes "github.com/Canto-Network/Canto/v8/x/onboarding/types"
)

func init() { runners["C11"] = runC11 }

type c11Prep struct {
	Kind   string `json:"kind"` // spend-std | fund-std | toggle | erc20-off | erc20-on | suicide | maxswap | module-tokens
	Amount string `json:"amount,omitempty"`
}

type c11Packet struct {
	// onboarding parameters in force when the packet arrives
	Enabled   bool     `json:"enabled"`
	Whitelist []string `json:"whitelist"`
	Threshold string   `json:"threshold"`
	// how this parameter set is committed: "" keeper SetParams | "msg" MsgUpdateParams with the gov authority | "legacy" ParameterChangeProposal
	ParamRoute string `json:"param_route,omitempty"`
	// the packet
	Denom        int    `json:"denom"`                 // index into the denomination table
	Channel      string `json:"channel,omitempty"`     // destination channel (coins returning home; vouchers fix their channel)
	SrcChannel   string `json:"src_channel,omitempty"` // the counterparty's channel id, independent of the destination channel ("" = channel-9)
	Amount       string `json:"amount"`
	// how the packet spells the amount: "" decimal | octal ("0" + octal digits) | hex ("0x…") | binary ("0b…") | underscore
	// ("1_000…") | plus ("+…").  The transfer module reads the string with sdkmath.NewIntFromString, which takes the base
	// from the prefix; the amount it credits is what onboarding must work with.
	Spelling     string `json:"spelling,omitempty"`
	BadSender    bool   `json:"bad_sender,omitempty"`
	BadRecipient bool   `json:"bad_recipient,omitempty"`
	Pres         string `json:"pres,omitempty"` // bech32 prefix of the recipient string ("" = canto)
	// what the EVM does to the conversion
	Plan c04Plan `json:"plan"`
	// done before the packet arrives
	Before []c11Prep `json:"before,omitempty"`
}

// c11Spell writes the amount the way the packet asks for; a spelling the transfer module would not read as the same
// number is replaced by the decimal one (counted)
func c11Spell(e *Env, amt *big.Int, how string) string {
	s := amt.String()
	switch how {
	case "octal":
		s = "0" + amt.Text(8)
	case "hex":
		s = "0x" + amt.Text(16)
	case "binary":
		s = "0b" + amt.Text(2)
	case "underscore":
		if len(s) > 1 {
			s = s[:1] + "_" + s[1:]
		}
	case "plus":
		s = "+" + s
	}
	if how != "" {
		if v, ok := sdkmath.NewIntFromString(s); !ok || v.BigInt().Cmp(amt) != 0 {
			e.Stats.Count("amount-spelling:" + how + ":not-read-as-the-same-number")
			return amt.String()
		}
		e.Stats.Count("amount-spelling:" + how)
	}
	return s
}

type c11PoolSpec struct {
	Denom int    `json:"denom"`
	Std   string `json:"std"`
	Tok   string `json:"tok"`
	Max   string `json:"max,omitempty"` // MaxSwapAmount entry; "" = the denomination is not whitelisted for swaps
}

type c11Case struct {
	Fee        string         `json:"fee"`
	Rcpt       string         `json:"rcpt"` // U0..U2 | M0..M3
	PriorStd   string         `json:"prior_std"`
	PriorOther string         `json:"prior_other"`
	PriorV     map[int]string `json:"prior_vouchers,omitempty"`
	Pools      []c11PoolSpec  `json:"pools,omitempty"`
	Packets    []c11Packet    `json:"packets"`
}

var c11BadAddrs = []string{"badba1sv9m0g7ycejwr3s369km58h5qe7xj77hvcxrms", "canto", "", "canto1qqqqqqqqqqqqqqqqqqqqqqqqqqqqqqqqnotvalid"}

func (w *c11World) c11ApplyPrep(ctx sdk.Context, rcpt sdk.AccAddress, d c11Denom, pr c11Prep, fee *big.Int, wl map[string]*big.Int) {
	switch pr.Kind {
	case "spend-std":
		have := w.a.BankKeeper.GetBalance(ctx, rcpt, w.std).Amount.BigInt()
		amt := bigOf(pr.Amount)
		if amt.Cmp(have) > 0 {
			amt = have
		}
		if amt.Sign() > 0 {
			c04Must(w.a.BankKeeper.SendCoins(ctx, rcpt, w.sink, sdk.NewCoins(sdk.NewCoin(w.std, c11Int(amt)))))
		}
	case "fund-std":
		w.c11Mint(ctx, w.std, rcpt, bigOf(pr.Amount))
	case "toggle":
		if d.Pair != nil && len(w.a.Erc20Keeper.GetTokenPairID(ctx, d.Denom)) > 0 {
			_, err := w.a.Erc20Keeper.ToggleConversion(ctx, d.Denom)
			c04Must(err)
		}
	case "erc20-off", "erc20-on":
		params := w.a.Erc20Keeper.GetParams(ctx)
		params.EnableErc20 = pr.Kind == "erc20-on"
		w.a.Erc20Keeper.SetParams(ctx, params)
	case "suicide":
		if d.Pair != nil {
			if acc := w.a.EvmKeeper.GetAccountWithoutBalance(ctx, d.Pair.Contract); acc != nil && acc.IsContract() {
				w.c04Suicide(ctx, d.Pair.Contract)
			}
		}
	case "maxswap":
		wl[d.Denom] = bigOf(pr.Amount)
		w.c11SetCoinswapParams(ctx, fee, wl)
	case "module-tokens":
		if d.Pair != nil && d.Pair.Kind == 1 {
			w.c04MintTokens(ctx, d.Pair, w.mod, bigOf(pr.Amount))
		}
	default:
		panic("unknown prep " + pr.Kind)
	}
}

// c11Exec runs a case; packets are generated on the fly by gen when it is non-nil.
func (w *c11World) c11Exec(e *Env, kase *c11Case, gen func(ctx sdk.Context, i int) (c11Packet, bool)) {
	ctx, _ := w.ctx.CacheContext()
	caseIdx := e.nCases
	fee := bigOf(kase.Fee)
	rcptAddr := w.c11Rcpt(kase.Rcpt)
	isModule := kase.Rcpt[0] == 'M'
	// pools: whitelist everything generously while they are created, then the case's own maxima
	wl := map[string]*big.Int{}
	for _, p := range kase.Pools {
		wl[w.denoms[p.Denom].Denom] = new(big.Int).Lsh(big.NewInt(1), 250)
	}
	w.c11SetCoinswapParams(ctx, fee, wl)
	for _, p := range kase.Pools {
		w.c11CreatePool(ctx, w.denoms[p.Denom].Denom, bigOf(p.Std), bigOf(p.Tok))
	}
	for _, p := range kase.Pools {
		if p.Max == "" {
			delete(wl, w.denoms[p.Denom].Denom)
		} else {
			wl[w.denoms[p.Denom].Denom] = bigOf(p.Max)
		}
	}
	w.c11SetCoinswapParams(ctx, fee, wl)
	// prior funds of the recipient
	w.c11Mint(ctx, w.std, rcptAddr, bigOf(kase.PriorStd))
	w.c11Mint(ctx, c11OtherDenom, rcptAddr, bigOf(kase.PriorOther))
	for di, v := range kase.PriorV {
		w.c11Mint(ctx, w.denoms[di].Denom, rcptAddr, bigOf(v))
	}

	var steps []string
	caseSig := ""
	for i := 0; ; i++ {
		var pk c11Packet
		if gen != nil {
			var ok bool
			if pk, ok = gen(ctx, i); !ok {
				break
			}
			kase.Packets = append(kase.Packets, pk)
		} else {
			if i >= len(kase.Packets) {
				break
			}
			pk = kase.Packets[i]
		}
		d := w.denoms[pk.Denom]
		for _, pr := range pk.Before {
			w.c11ApplyPrep(ctx, rcptAddr, d, pr, fee, wl)
		}
		thr := bigOf(pk.Threshold)
		committed := onboardingtypes.NewParams(pk.Enabled, c11Int(thr), pk.Whitelist)
		w.c11CommitParams(ctx, committed, pk.ParamRoute)
		e.Stats.Count("kind:params-committed-through:" + map[string]string{"": "keeper", "msg": "MsgUpdateParams", "legacy": "ParameterChangeProposal"}[pk.ParamRoute])
		// a parameter update on a branch that is thrown away must not be visible afterwards; what the keeper reports must
		// be the update this history committed (the model is handed the COMMITTED parameters)
		if how := w.c11GhostParams(ctx, committed); how != "" {
			e.Stats.Count("kind:ghost-parameter-update:" + how)
		}
		if got := w.ok.GetParams(ctx); !c11SameParams(got, committed) {
			e.Stats.ImplFailures = append(e.Stats.ImplFailures, ImplFailure{Case: caseIdx, Step: i, Monitor: "onboarding-params-differ-from-last-committed-update",
				Detail: fmt.Sprintf("keeper reports enabled=%v whitelist=%v threshold=%s; the last committed update was enabled=%v whitelist=%v threshold=%s",
					got.EnableOnboarding, got.WhitelistedChannels, got.AutoSwapThreshold, committed.EnableOnboarding, committed.WhitelistedChannels, committed.AutoSwapThreshold)})
		}
		amt := bigOf(pk.Amount)

		// ---- oracle inputs: what the registries say right now
		pairTerm, pairClass := "NoPair", "unregistered"
		honest := d.Pair == nil || d.Pair.Honest
		if id := w.a.Erc20Keeper.GetTokenPairID(ctx, d.Denom); len(id) > 0 {
			tp, _ := w.a.Erc20Keeper.GetTokenPair(ctx, id)
			if !tp.Enabled {
				pairTerm, pairClass = "PairDisabled", "disabled"
			} else {
				gate := w.a.Erc20Keeper.GetParams(ctx).EnableErc20 && !w.a.BankKeeper.BlockedAddr(rcptAddr)
				acc := w.a.EvmKeeper.GetAccountWithoutBalance(ctx, tp.GetERC20Contract())
				hasCode := acc != nil && acc.IsContract()
				kind := "Convert.NativeCoin"
				pairClass = "module-owned"
				if tp.IsNativeERC20() {
					kind = "Convert.NativeERC20"
					pairClass = "external"
				}
				if !gate {
					pairClass += "/gate-closed"
				}
				if !hasCode {
					pairClass += "/selfdestructed"
				}
				pairTerm = App("PairOn", kind, Zi(c11ContractZ), B(gate), B(hasCode))
			}
		}
		_, seq, hasPool := w.c11Pool(ctx, d.Denom)
		poolTerm, maxTerm := "None", "None"
		if hasPool {
			poolTerm = "(Some " + Zi(seq) + ")"
		}
		if m, ok := wl[d.Denom]; ok && m.Sign() > 0 {
			maxTerm = "(Some " + Z(m) + ")"
		}

		// ---- the packet
		sender := "cosmos1qql8ag4cluz6r4dz28p3w00dnc9w8ueulg2gmc"
		if pk.BadSender {
			sender = c11BadAddrs[i%len(c11BadAddrs)]
		}
		hrp := pk.Pres
		if hrp == "" {
			hrp = "canto"
		}
		receiver := sdk.MustBech32ifyAddressBytes(hrp, rcptAddr)
		credited := rcptAddr
		rcptTerm := "(Some " + c11RcptTerm(kase.Rcpt) + ")"
		if pk.BadRecipient {
			receiver = c11BadAddrs[(i+1)%len(c11BadAddrs)]
			credited = nil
			rcptTerm = "None"
		}
		packet := w.c11Packet(d, pk.SrcChannel, pk.Channel, c11Spell(e, amt, pk.Spelling), sender, receiver)
		ackIn := channeltypes.NewResultAcknowledgement([]byte{byte(1 + i%250)})

		guarded := !pk.Enabled || !c11Contains(pk.Whitelist, packet.DestinationChannel) || isModule
		dumpCredit := ""
		if guarded && credited != nil {
			cctx, _ := ctx.CacheContext()
			w.c11Mint(cctx, d.Denom, credited, amt)
			dumpCredit = w.c11BankDump(cctx)
		}

		pre := w.c11Observe(ctx, credited, d)
		w.wrap.st = &c04WrapState{plan: pk.Plan}
		var ackOut exported.Acknowledgement
		err := TryPlain(ctx, func(c sdk.Context) error {
			if credited != nil {
				w.c11Mint(c, d.Denom, credited, amt) // the transfer module's credit
			}
			ackOut = w.ok.OnRecvPacket(c, packet, ackIn)
			return nil
		})
		seen := w.wrap.st.seen
		w.wrap.st = nil
		post := w.c11Observe(ctx, credited, d)
		e.Stats.Evaluations++

		class, same, isErr := 0, false, false
		if err != nil {
			class = 2
		} else {
			same = ackOut != nil && bytes.Equal(ackOut.Acknowledgement(), ackIn.Acknowledgement()) && ackOut.Success()
			isErr = ackOut == nil || !ackOut.Success()
		}
		if guarded && credited != nil && class == 0 {
			if w.c11BankDump(ctx) != dumpCredit {
				e.Stats.ImplFailures = append(e.Stats.ImplFailures, ImplFailure{Case: caseIdx, Step: i, Monitor: "guarded-but-bank-changed",
					Detail: "onboarding disabled / channel not whitelisted / module-account recipient, yet the complete bank dump differs from the dump after the credit alone"})
			}
		}

		// ---- statistics
		swapKind := "not-needed"
		switch {
		case class == 2:
			swapKind = "panic"
		case credited == nil:
			swapKind = "no-recipient"
		case guarded:
			swapKind = "guarded"
		case post.Pv.Cmp(pre.Pv) > 0:
			swapKind = "swapped"
		case pre.Rstd.Cmp(thr) < 0:
			swapKind = "refused"
		}
		convKind := "none"
		if class == 0 && credited != nil && !guarded {
			moved := new(big.Int).Sub(new(big.Int).Add(pre.Rv, amt), post.Rv)
			moved.Sub(moved, new(big.Int).Sub(post.Pv, pre.Pv))
			switch {
			case moved.Sign() > 0:
				convKind = "converted"
			case seen.Q0Asked:
				convKind = "failed"
			case pairClass == "unregistered" || pairClass == "disabled":
				convKind = "not-tried"
			default:
				convKind = "refused-before-evm"
			}
		}
		guardKind := "acted"
		switch {
		case !pk.Enabled:
			guardKind = "disabled"
		case !c11Contains(pk.Whitelist, packet.DestinationChannel):
			guardKind = "channel-not-whitelisted"
		case pk.BadSender:
			guardKind = "bad-sender"
		case pk.BadRecipient:
			guardKind = "bad-recipient"
		case isModule:
			guardKind = "module-recipient"
		}
		e.Stats.Count("kind:guard:" + guardKind)
		if pk.Enabled {
			e.Stats.Count(fmt.Sprintf("kind:whitelist:source-channel-in=%v,destination-channel-in=%v", c11Contains(pk.Whitelist, packet.SourceChannel), c11Contains(pk.Whitelist, packet.DestinationChannel)))
		}
		e.Stats.Count("kind:swap:" + swapKind)
		e.Stats.Count("kind:conversion:" + convKind)
		e.Stats.Count("kind:denom:" + d.Name)
		e.Stats.Count("kind:pair:" + pairClass)
		e.Stats.Count("kind:pool:" + c11PoolClass(pre, thr, hasPool))
		e.Stats.Count("kind:std-vs-threshold:" + c11Cmp(pre.Rstd, thr))
		e.Stats.Count("kind:threshold:" + c11Size(thr))
		e.Stats.Count("kind:amount:" + c11Size(amt))
		if pk.Plan.FailAt != 0 {
			e.Stats.Count(fmt.Sprintf("kind:evm-call-%d-of-%d-fails", pk.Plan.FailAt, seen.NCalls))
		} else if !pk.Plan.c04Empty() {
			e.Stats.Count(fmt.Sprintf("kind:evm-answers-doctored:%s%s%s%s", pk.Plan.Bal0, pk.Plan.Est, pk.Plan.Call, pk.Plan.Bal1))
		}
		if i > 0 {
			e.Stats.Count("kind:later-packet-to-same-recipient")
		}
		ackKind := map[[2]bool]string{{true, false}: "same", {false, true}: "error", {false, false}: "other", {true, true}: "same"}[[2]bool{same, isErr}]
		if class == 2 {
			ackKind = "none"
		}
		e.Stats.Count("kind:ack:" + ackKind)
		stepSig := fmt.Sprintf("%s|%s|%s|%s|%s|%s|%v|%s|%s|%d", guardKind, swapKind, convKind, d.Name, pairClass, c11PoolClass(pre, thr, hasPool), pk.Plan, c11Cmp(pre.Rstd, thr), c11Size(amt), i)
		if swapKind == "swapped" || swapKind == "refused" || convKind == "converted" || convKind == "failed" || class == 2 {
			e.Stats.Nontrivial(stepSig)
		}
		caseSig += stepSig

		cfgTerm := App("mkCfg", B(pk.Enabled), c11WhitelistTerm(pk.Whitelist), Z(thr))
		pkTerm := App("mkPacket", c11ChannelZ(packet.DestinationChannel), B(!pk.BadSender), rcptTerm, c11DenomTerm(pk.Denom, d), Z(amt), pairTerm)
		owner := Zi(11)
		if d.Pair != nil && d.Pair.Owner != w.mod {
			owner = Zi(999_999)
		}
		isHonest := honest && d.Pair != nil && pk.Plan.c04Empty()
		steps = append(steps, App("mkStep", cfgTerm, pkTerm, poolTerm, Z(fee), maxTerm,
			w.c11ScriptTerm(seen, credited, c11RcptZ(kase.Rcpt)), pre.c11Term(), post.c11Term(),
			Zi(int64(class)), B(same), B(isErr), B(isHonest), B(honest), owner))
	}
	_ = caseSig
	term := App("mkOnboardingCase", L(steps))
	e.AddCase("check_case", term, kase)
	e.Stats.Sample(kase)
}

func c11SameParams(a, b onboardingtypes.Params) bool {
	if a.EnableOnboarding != b.EnableOnboarding || a.AutoSwapThreshold.IsNil() != b.AutoSwapThreshold.IsNil() ||
		(!a.AutoSwapThreshold.IsNil() && !a.AutoSwapThreshold.Equal(b.AutoSwapThreshold)) || len(a.WhitelistedChannels) != len(b.WhitelistedChannels) {
		return false
	}
	for i := range a.WhitelistedChannels {
		if a.WhitelistedChannels[i] != b.WhitelistedChannels[i] {
			return false
		}
	}
	return true
}

func (w *c11World) c11UpdateMsg(p onboardingtypes.Params) *onboardingtypes.MsgUpdateParams {
	return &onboardingtypes.MsgUpdateParams{Authority: authtypes.NewModuleAddress(govtypes.ModuleName).String(), Params: p}
}

// c11CommitParams: a parameter update that IS committed, through one of the three routes that exist
func (w *c11World) c11CommitParams(ctx sdk.Context, p onboardingtypes.Params, route string) {
	switch {
	case route == "msg":
		_, err := onboardingkeeper.NewMsgServerImpl(*w.ok).UpdateParams(ctx, w.c11UpdateMsg(p))
		c04Must(err)
	case route == "legacy" && len(p.WhitelistedChannels) > 0:
		// Subspace.Update decodes the JSON over the stored value: amino JSON of an empty list is `null`, which would leave
		// the stored list in place, so an empty whitelist is never submitted this way
		c04Must(c17LegacyParamChange(w.a, ctx, w.c11UpdateMsg(p)))
	default:
		w.ok.SetParams(ctx, p)
	}
}

// c11GhostParams: with probability 1/4 (always in a replay) a DIFFERENT parameter set (onboarding switched on, every
// channel whitelisted or none, another threshold) is written on a branch of state that is then discarded — a governance
// proposal [onboarding MsgUpdateParams, <message that fails>], a simulation.  On code whose parameters live in the store
// this has no effect; a copy kept outside the store would make the next packet act under parameters never committed.
func (w *c11World) c11GhostParams(ctx sdk.Context, cur onboardingtypes.Params) (how string) {
	if ghostOff || !(ghostAlways || ghostRng.Intn(4) == 0) {
		return ""
	}
	defer func() { _ = recover() }()
	v := ghostRng.Intn(3)
	p := onboardingtypes.Params{EnableOnboarding: true, AutoSwapThreshold: cur.AutoSwapThreshold,
		WhitelistedChannels: []string{"channel-0", "channel-1", "channel-5", "channel-00", "transfer"}}
	switch {
	case v == 0 && cur.EnableOnboarding:
		p.EnableOnboarding = false
	case v == 1 && len(cur.WhitelistedChannels) >= 3:
		p.WhitelistedChannels = []string{"channel-7"}
	case v == 2 || c11SameParams(p, cur):
		p.AutoSwapThreshold = cur.AutoSwapThreshold.MulRaw(2).AddRaw(1)
	}
	g, _ := ctx.CacheContext()
	GhostRuns++
	if ghostRng.Intn(3) == 0 {
		_ = c17LegacyParamChange(w.a, g, w.c11UpdateMsg(p))
		return "ParameterChangeProposal-on-discarded-branch"
	}
	_, _ = onboardingkeeper.NewMsgServerImpl(*w.ok).UpdateParams(g, w.c11UpdateMsg(p))
	return "MsgUpdateParams-on-discarded-branch"
}

func c11Int(x *big.Int) sdkmath.Int { return sdkmath.NewIntFromBigInt(x) }

func c11Contains(l []string, s string) bool {
	for _, x := range l {
		if x == s {
			return true
		}
	}
	return false
}

func c11WhitelistTerm(l []string) string {
	var out []string
	for _, ch := range l {
		out = append(out, c11ChannelZ(ch))
	}
	return L(out)
}

func c11Cmp(a, b *big.Int) string {
	switch c := a.Cmp(b); {
	case c == 0:
		return "equal"
	case c < 0 && new(big.Int).Add(a, big.NewInt(1)).Cmp(b) == 0:
		return "one-below"
	case c < 0:
		return "below"
	case new(big.Int).Sub(a, big.NewInt(1)).Cmp(b) == 0:
		return "one-above"
	}
	return "above"
}

func c11Size(a *big.Int) string {
	switch n := a.BitLen(); {
	case a.Sign() == 0:
		return "0"
	case n <= 3:
		return "1..7"
	case n <= 30:
		return "<2^30"
	case n <= 70:
		return "<2^70"
	case n <= 128:
		return "<2^128"
	}
	return ">=2^128"
}

func c11PoolClass(pre c11Obs, thr *big.Int, has bool) string {
	switch {
	case !has:
		return "absent"
	case pre.Pstd.Cmp(thr) <= 0:
		return "shallow(std-reserve<=threshold)"
	case pre.Pstd.BitLen() > 150:
		return "huge"
	}
	return "deep"
}

// ---------------------------------------------------------------- generators

var c11S18 = new(big.Int).Exp(big.NewInt(10), big.NewInt(18), nil)

func (e *Env) c11Threshold() *big.Int {
	switch e.Pick(8) {
	case 0:
		return big.NewInt(0)
	case 1:
		return big.NewInt(1)
	case 2:
		return big.NewInt(int64(2 + e.Pick(2000)))
	case 3, 4:
		return new(big.Int).Mul(big.NewInt(4), c11S18) // the default
	case 5:
		return new(big.Int).Lsh(big.NewInt(int64(1+e.Pick(1000))), uint(60+e.Pick(60)))
	}
	return e.Mag(70)
}

// what the swap needs right now (1 when there is no usable pool)
func (w *c11World) c11Needed(ctx sdk.Context, d c11Denom, thr, fee *big.Int) *big.Int {
	esc, _, ok := w.c11Pool(ctx, d.Denom)
	if !ok {
		return big.NewInt(1)
	}
	pstd := w.a.BankKeeper.GetBalance(ctx, esc, w.std).Amount.BigInt()
	pv := w.a.BankKeeper.GetBalance(ctx, esc, d.Denom).Amount.BigInt()
	if pstd.Cmp(thr) <= 0 {
		return big.NewInt(1)
	}
	return csOutputPrice(thr, pv, pstd, fee)
}

func runC11(e *Env) {
	e.Header("From Coq Require Import ZArith List.\nFrom Canto Require Import Model.Coinswap Model.Onboarding Check.Common Check.OnboardingCheck.\nFrom Canto Require Model.Convert.\nImport ListNotations.\nOpen Scope Z_scope.\n")
	e.Stats.Rule = "step = one ICS-20 packet handed to the real OnboardingKeeper.OnRecvPacket after the voucher was credited as the transfer module does, inside one branch with recover (the delivering transaction); the keeper's erc20 keeper sits on the C04 recording/failure-injecting EVM keeper wrapper. Case = one recipient (user or module account) with prior standard-coin / voucher / unrelated balances + pools (absent / std reserve <, =, just above the threshold / deep / 2^200) with per-swap maxima (none, needed-1, needed, large) + 1-5 packets. Amounts: 1..5, needed-1/needed/needed+1 for the live pool, multiples, k*2^j up to 2^190; thresholds 0, 1, small, 4e18, 2^60..2^120; prior standard balance 0 / threshold-1 / threshold / threshold+1 / large; denominations: two genuine vouchers with module-owned pairs, a module-owned and an external (ERC20MinterBurnerDecimals) and a malicious (ERC20MaliciousDelayed) pair's coin returning home, an unregistered voucher, the standard coin itself; pair toggled off, erc20 disabled, contract selfdestructed; onboarding disabled, channel in/out of the whitelist, unparsable sender/recipient; the k-th EVM keeper call of the conversion fails (k=1..5) or its answers are doctored (false/nil/Approval/topic-less log/vm error/balance +-1). Non-trivial step = a swap was attempted, a conversion reached the EVM, or a panic; distinct by (guard, swap outcome, conversion outcome, denomination, pair state, pool class, plan, std-vs-threshold, amount size, position)"
	w := c11NewWorld()
	e.ShardSize = 12
	if e.Replay != nil {
		var kase c11Case
		mustUnmarshal(e.Replay, &kase)
		w.c11Exec(e, &kase, nil)
		return
	}
	// ---- boundary stream (every tier): corners where two roles of the observation coincide or the recipient is absent —
	// every denomination kind x every module-account recipient (incl. the erc20 module itself) and one user, with prior funds,
	// a parsable and an unparsable recipient string, a failure at each EVM call of the conversion
	for di := 0; di < c11NumDenoms; di++ {
		for ri, rc := range []string{"M0", "M1", "M2", "M3", "U1", "M4", "M5"} {
			thr := big.NewInt(int64(20000 + 100*di + ri))
			kase := &c11Case{Fee: "3000000000000000", Rcpt: rc, PriorStd: big.NewInt(int64(6000 + e.Pick(30000))).String(),
				PriorOther: "77", PriorV: map[int]string{}}
			d := w.denoms[di]
			if !d.Std {
				kase.PriorV[di] = big.NewInt(int64(1 + e.Pick(5000))).String()
				pd := di
				if d.Collides > 0 { // pool and a large prior holding of the one-hop voucher a multi-hop voucher must not be confused with
					pd = d.Collides - 1
					kase.PriorV[pd] = "5000000000000"
				}
				if e.Chance(0.7) {
					kase.Pools = []c11PoolSpec{{Denom: pd, Std: new(big.Int).Mul(thr, big.NewInt(1000)).String(), Tok: "5000000", Max: "1000000000000"}}
				}
			}
			dst := []string{"channel-0", "channel-1", "channel-5"}[(di+ri)%3]
			wl := []string{dst, "channel-0", "channel-1"} // voucher denominations fix their own channel: keep those whitelisted too
			for k := 0; k < 5; k++ {
				pk := c11Packet{Enabled: true, Whitelist: wl, Threshold: thr.String(), Denom: di, Channel: dst,
					SrcChannel: []string{"channel-0", "channel-9"}[k%2], Amount: big.NewInt(int64(1000 + e.Pick(1_000_000))).String(),
					BadRecipient: k%2 == 0, Plan: c04Plan{FailAt: 1 + (k+ri+di)%4}, ParamRoute: []string{"", "msg", "legacy"}[(k+ri)%3]}
				if k == 3 {
					pk.BadSender, pk.BadRecipient = true, e.Chance(0.5)
				}
				if k == 4 { // and one packet nothing interferes with
					pk.BadRecipient, pk.Plan = false, c04Plan{}
				}
				kase.Packets = append(kase.Packets, pk)
			}
			e.Stats.Count("kind:boundary-stream-case")
			w.c11Exec(e, kase, nil)
		}
	}
	nCases := e.Scale(220, 4000)
	if e.Tier == "search" {
		nCases = 260
	}
	fees := []string{"0", "3000000000000000", "500000000000000000", "999999999999999999", "1"}
	denomWeights := []int{0, 0, 0, 0, 0, 1, 1, 1, 2, 3, 3, 3, 4, 5, 5, 6, 7, 7, 8}
	for c := 0; c < nCases; c++ {
		kase := &c11Case{Fee: fees[e.Pick(len(fees))], Rcpt: fmt.Sprintf("U%d", e.Pick(c11Users)), PriorV: map[int]string{}}
		if e.Chance(0.5) {
			kase.Fee = "3000000000000000"
		}
		if e.Chance(0.13) {
			kase.Rcpt = fmt.Sprintf("M%d", e.Pick(len(c11Modules)+len(c11ForeignModules)))
		}
		fee := bigOf(kase.Fee)
		thr := e.c11Threshold()
		main := denomWeights[e.Pick(len(denomWeights))]
		// ---- pool of the main denomination (for a multi-hop voucher: of the one-hop voucher it must not be confused with)
		poolDenom := main
		if c := w.denoms[main].Collides; c > 0 {
			poolDenom = c - 1
		}
		poolKind := e.Pick(14)
		if !w.denoms[main].Std && poolKind >= 2 {
			var std, tok *big.Int
			switch poolKind {
			case 2: // cannot pay: reserve = threshold
				std = new(big.Int).Set(thr)
			case 3: // reserve just above
				std = new(big.Int).Add(thr, big.NewInt(1))
			case 4: // overflow inside GetOutputPrice
				std = new(big.Int).Lsh(big.NewInt(int64(1+e.Pick(9))), 200)
			default:
				std = new(big.Int).Add(new(big.Int).Mul(thr, big.NewInt(int64(2+e.Pick(5000)))), e.Mag(64))
			}
			if std.Sign() <= 0 {
				std = big.NewInt(int64(1 + e.Pick(100)))
			}
			tok = e.Mag(100)
			if poolKind == 4 {
				tok = new(big.Int).Lsh(big.NewInt(int64(1+e.Pick(9))), uint(120+e.Pick(80)))
			}
			needed := csOutputPrice(thr, tok, std, fee)
			max := ""
			switch e.Pick(12) {
			case 0:
			case 1:
				max = new(big.Int).Sub(needed, big.NewInt(1)).String()
			case 2, 3:
				max = needed.String()
			default:
				max = new(big.Int).Lsh(big.NewInt(1), 200).String()
			}
			if max == "0" || (max != "" && max[0] == '-') {
				max = "1"
			}
			kase.Pools = append(kase.Pools, c11PoolSpec{Denom: poolDenom, Std: std.String(), Tok: tok.String(), Max: max})
		}
		// ---- prior funds
		switch e.Pick(8) {
		case 0, 6, 7:
			kase.PriorStd = "0"
		case 1:
			kase.PriorStd = new(big.Int).Sub(thr, big.NewInt(1)).String()
		case 2:
			kase.PriorStd = thr.String()
		case 3:
			kase.PriorStd = new(big.Int).Add(thr, big.NewInt(1)).String()
		case 4:
			kase.PriorStd = new(big.Int).Add(thr, e.Mag(80)).String()
		default:
			kase.PriorStd = e.Below(new(big.Int).Add(thr, big.NewInt(1))).String()
		}
		if kase.PriorStd[0] == '-' {
			kase.PriorStd = "0"
		}
		kase.PriorOther = e.Mag(60).String()
		if e.Chance(0.6) && !w.denoms[main].Std {
			kase.PriorV[main] = e.Mag(90).String()
		}
		if poolDenom != main { // the recipient holds plenty of the one-hop voucher
			kase.PriorV[poolDenom] = new(big.Int).Lsh(big.NewInt(int64(1+e.Pick(1000))), uint(60+e.Pick(70))).String()
		}
		enabled, wlist := true, []string{"channel-0", "channel-1", "channel-5"}
		switch e.Pick(22) {
		case 0:
			enabled = false
		case 1:
			wlist = []string{"channel-5"}
		case 2:
			wlist = []string{}
		case 3:
			wlist = []string{"channel-00", "transfer", "channel-1"}
		case 4, 5:
			wlist = []string{"channel-0"}
		case 6, 7:
			wlist = []string{"channel-1"}
		case 8:
			wlist = []string{"channel-5", "channel-1"}
		}
		nPackets := 1 + e.Pick(5)
		w.c11Exec(e, kase, func(ctx sdk.Context, i int) (c11Packet, bool) {
			if i >= nPackets {
				return c11Packet{}, false
			}
			pk := c11Packet{Enabled: enabled, Whitelist: wlist, Threshold: thr.String(), Denom: main, Channel: []string{"channel-0", "channel-1", "channel-5"}[e.Pick(3)],
				SrcChannel: []string{"channel-0", "channel-1", "channel-5", "channel-9", "channel-00"}[e.Pick(5)]}
			if e.Chance(0.08) {
				pk.Denom = denomWeights[e.Pick(len(denomWeights))]
			}
			if i > 0 && e.Chance(0.1) { // governance changes the parameters between packets
				pk.Enabled = e.Chance(0.7)
				pk.Threshold = e.c11Threshold().String()
			}
			switch r := e.Pick(10); {
			case r < 3:
				pk.ParamRoute = "msg"
			case r < 5 && len(pk.Whitelist) > 0:
				pk.ParamRoute = "legacy"
			}
			d := w.denoms[pk.Denom]
			rcptAddr := w.c11Rcpt(kase.Rcpt)
			pthr := bigOf(pk.Threshold)
			// things that happen before the packet
			if i > 0 && e.Chance(0.45) {
				have := w.a.BankKeeper.GetBalance(ctx, rcptAddr, w.std).Amount.BigInt()
				var spend *big.Int
				switch e.Pick(4) {
				case 0: // down to exactly the threshold
					spend = new(big.Int).Sub(have, pthr)
				case 1: // one below
					spend = new(big.Int).Add(new(big.Int).Sub(have, pthr), big.NewInt(1))
				case 2:
					spend = new(big.Int).Set(have)
				default:
					spend = e.Below(new(big.Int).Add(have, big.NewInt(1)))
				}
				if spend.Sign() > 0 {
					pk.Before = append(pk.Before, c11Prep{Kind: "spend-std", Amount: spend.String()})
				}
			}
			switch e.Pick(40) {
			case 0, 1:
				pk.Before = append(pk.Before, c11Prep{Kind: "toggle"})
			case 2:
				pk.Before = append(pk.Before, c11Prep{Kind: "erc20-off"})
			case 3:
				pk.Before = append(pk.Before, c11Prep{Kind: "erc20-on"})
			case 4, 5:
				pk.Before = append(pk.Before, c11Prep{Kind: "suicide"})
			case 6:
				pk.Before = append(pk.Before, c11Prep{Kind: "maxswap", Amount: e.Mag(100).String()})
			case 7, 8, 9:
				pk.Before = append(pk.Before, c11Prep{Kind: "module-tokens", Amount: e.Mag(100).String()})
			}
			// the amount, aimed at what the swap needs right now (as if the preps had been applied: spend-std does not move the pool)
			nd := d
			if d.Collides > 0 {
				nd = w.denoms[d.Collides-1]
			}
			needed := w.c11Needed(ctx, nd, pthr, fee)
			var amt *big.Int
			switch e.Pick(10) {
			case 0:
				amt = big.NewInt(int64(1 + e.Pick(5)))
			case 1:
				amt = new(big.Int).Sub(needed, big.NewInt(1))
			case 2:
				amt = new(big.Int).Set(needed)
			case 3:
				amt = new(big.Int).Add(needed, big.NewInt(1))
			case 4:
				amt = new(big.Int).Mul(needed, big.NewInt(int64(2+e.Pick(50))))
			case 5:
				amt = new(big.Int).Lsh(big.NewInt(int64(1+e.Pick(1000))), uint(e.Pick(190)))
			case 6:
				amt = new(big.Int).Add(needed, e.Mag(40))
			default:
				amt = e.Mag(120)
			}
			if amt.Sign() <= 0 {
				amt = big.NewInt(1)
			}
			pk.Amount = amt.String()
			if e.Chance(0.12) {
				pk.Spelling = []string{"octal", "hex", "binary", "underscore", "plus"}[e.Pick(5)]
			}
			switch e.Pick(30) {
			case 0:
				pk.BadSender = true
			case 1:
				pk.BadRecipient = true
			case 2, 3:
				pk.Pres = "cosmos"
			}
			// what the EVM does
			switch r := e.Pick(100); {
			case r < 40:
			case r < 75:
				pk.Plan = c04Plan{FailAt: 1 + e.Pick(5)}
			case r < 80:
				pk.Plan = c04Plan{Bal0: []string{"nil", "error", "vmerror", "short"}[e.Pick(4)]}
			case r < 90:
				pk.Plan = c04Plan{Call: []string{"false", "nil", "approval", "topicless", "error", "vmerror", "garbage", "approval-first"}[e.Pick(8)]}
			case r < 97:
				pk.Plan = c04Plan{Bal1: []string{"+1", "-1", "nil", "error", "vmerror"}[e.Pick(5)]}
			default:
				pk.Plan = c04Plan{Est: "error"}
			}
			return pk, true
		})
	}
}
