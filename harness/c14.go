//go:build verif

package harness

// C14 — disabled conversion means no conversion, by any route.
// Part A (exhaustive, every tier): the complete finite cross product
//   8 switch settings (EnableErc20, EnableEVMHook, pair.Enabled) x bank send-enabled on/off
//   x 2 pair kinds x routes {MsgConvertCoin, MsgConvertERC20, ERC-20 transfer as a real
//   Ethereum transaction} x receivers {self, third party, EVERY module account of the app,
//   32-byte accounts: the alias of the EVM-side party (same last 20 bytes), the alias of
//   another holder, an unrelated one - on the Cosmos side of each message}
//   (transfers: to the erc20 module address, to a holder, to another module account, and an
//   over-balance transfer; the same through a FORWARDER - the multicall vault of c03_receipt.go
//   is the callee, the token contract only emits the logs), module accounts converting TO
//   THEMSELVES (sender = receiver = a blocked address, as in a governance proposal),
//   one operation on a prepared state per case.  The switch setting of
//   each prepared state is delivered by one of four routes (drawn per setting): MsgUpdateParams /
//   legacy ParameterChangeProposal, each optionally followed by GHOST flips of all three
//   switches to the opposite value on a branch that is thrown away.
// Part B: random histories with frequent switch flips between operations (keeper route, legacy
//   route, ghost flips), conversions with 32-byte accounts on the Cosmos side.
// Evaluated by Check/Erc20Check.v check_case_c14 (model comparison + gate monitors) on the
// COMMITTED switches (read from the stores), plus the Go-side monitors of c14_helpers.go.

import (
	"fmt"
	"math/big"
)

func init() { runners["C14"] = c14Run }

var c14FlipWeights = c03Weights{ConvertCoin: 18, ConvertERC20: 18, Transfer: 20, Burn: 3, BurnCoins: 2, BankSend: 3, Toggle: 10, SendEnabled: 8, Params: 14, Repair: 0.12, Receipt: 12}

func c14Worlds() []*c14World {
	units := []*big.Int{big.NewInt(1), new(big.Int).Exp(big.NewInt(10), big.NewInt(18), nil)}
	var ws []*c14World
	for i, u := range units {
		w := c03NewWorld(i, 3, 1, 1, u)
		w.c03Prelude(u)
		w.c03AddContracts(u) // the multicall "vault" (a forwarder: its callee is not a token contract); module accounts exist
		ws = append(ws, c14NewWorld(w, u))
	}
	return ws
}

// c14GenOp draws the next operation of a random history: the erc20 generator of c03 over the base parties, then
//   - the Cosmos-side party of a conversion between holders becomes a 32-byte account in a third of the draws
//     (mostly the alias of the EVM-side party);
//   - 40 % of the parameter updates go through the legacy ParameterChangeProposal route;
//   - one step in ten is a ghost flip of a switch (mostly to the opposite of the committed value).
func (w *c14World) c14GenOp(e *Env, parties []int, cur c03Obs) c14Op {
	base, _ := w.split(parties)
	pos := map[int]int{}
	for i, p := range parties {
		pos[p] = i
	}
	if e.Chance(0.10) {
		pair := e.Pick(len(w.Pairs))
		switch e.Pick(4) {
		case 0, 1:
			o := c14Op{Kind: "params", B1: !cur.Mod, B2: !cur.Hook, Ghost: true}
			if e.Chance(0.3) {
				o.B1, o.B2 = e.Chance(0.5), e.Chance(0.5)
			}
			if e.Chance(0.2) {
				o.Route = "legacy"
			}
			return o
		case 2:
			return c14Op{Kind: "toggle", Pair: pair, Ghost: true}
		default:
			return c14Op{Kind: "send_enabled", Pair: pair, B1: !cur.Pairs[pair].SendOK, Ghost: true}
		}
	}
	o := c14Of(w.c03GenOp(e, c14FlipWeights, base, cur))
	longFor := func(evmSide int) int {
		r := e.Pick(100)
		switch {
		case r < 55:
			return w.longIdx(evmSide) // the alias of the EVM-side party: same last 20 bytes, another account
		case r < 80:
			return w.longIdx((evmSide + 1 + e.Pick(w.NHold-1)) % w.NHold)
		default:
			return w.longIdx(w.NHold) // unrelated
		}
	}
	if (o.Kind == "convert_coin" || o.Kind == "convert_erc20") && e.Chance(0.10) {
		// a module account (a blocked address) converts to itself
		var mods []int
		for _, p := range base {
			if w.Parties[p].Module {
				mods = append(mods, p)
			}
		}
		if len(mods) > 0 {
			m := mods[e.Pick(len(mods))]
			o.From, o.To = m, m
			bal := cur.Pairs[o.Pair].CBal[pos[m]]
			if o.Kind == "convert_erc20" {
				bal = cur.Pairs[o.Pair].TBal[pos[m]]
			}
			o.Amt = c03Amount(e, bal).String()
			return o
		}
	}
	switch o.Kind {
	case "params":
		if e.Chance(0.4) {
			o.Route = "legacy"
		}
	case "convert_erc20":
		if o.To < w.NHold && e.Chance(0.35) {
			o.To = longFor(o.From)
		}
	case "convert_coin":
		if o.To < w.NHold && e.Chance(0.35) {
			o.From = longFor(o.To)
			if p, ok := pos[o.From]; ok {
				o.Amt = c03Amount(e, cur.Pairs[o.Pair].CBal[p]).String()
			}
		}
	}
	return o
}

func c14Nontrivial(e *Env, sig string) {
	for i := 0; i < len(sig); i++ {
		if sig[i] == 'C' {
			e.Stats.Nontrivial(sig)
			return
		}
	}
}

func c14Run(e *Env) {
	e.Stats.Rule = "part A, EXHAUSTIVE in every tier: the complete cross product {EnableErc20} x {EnableEVMHook} x {pair.Enabled} x {bank send-enabled of the denomination} (16 settings) x {module-owned pair, external pair} x {MsgConvertCoin, MsgConvertERC20 to each receiver in {self, third party, every one of the application's module accounts}, and with a 32-byte account on the Cosmos side (sender of MsgConvertCoin, receiver of MsgConvertERC20): the alias of the EVM-side party (same last 20 bytes), the alias of another holder, an unrelated one; a module account (gov = the signer of governance proposals, distribution, erc20 itself, csr; every module account owns coins and tokens of every pair) as sender AND receiver of both messages; ERC-20 transfer (real signed Ethereum tx, hooks run) to the erc20 module address, to a holder, to another module account, and above balance; the same route through a forwarder (real signed tx to the multicall vault of c03_receipt.go, which calls transfer / transferFrom on the token: the callee is NOT the token contract; one to three logs, also of the other pair) and a keeper-level receipt whose callee is the other pair's contract}; each case = one operation on the prepared state (state prepared once per setting, CacheContext per case); the setting is delivered (drawn per setting) by MsgUpdateParams or by a legacy ParameterChangeProposal, in half of the settings followed by ghost flips of all three switches to the opposite value on a discarded branch; projection of both pairs over all holders, all module accounts and the 32-byte accounts before and after, switches = the committed ones (parameter subspace and token-pair records read directly) | part B: random histories (20-30 operations) with switch flips (params by either route, toggle, send-enabled) in about a third of the steps, ghost flips in a tenth, 32-byte Cosmos-side parties in a third of the conversions between holders, a module account converting to itself in a tenth of the conversions, multi-log receipts (vault / keeper level) in a tenth of the steps, same projection after every operation | Go-side monitors after every step: the switches the keeper reports are the committed ones; a ghost operation changes nothing observed; non-trivial = case containing a conversion attempt; distinct by hash of (setting, operation, result class)"
	ws := c14Worlds()
	hdr := c03Header
	for _, w := range ws {
		w.c03ReportFails(e)
		hdr += w.c14HeaderDefs()
	}
	e.Header(hdr)

	if e.Replay != nil {
		var kase c14Case
		mustUnmarshal(e.Replay, &kase)
		w := ws[kase.World]
		term, _ := w.c14Exec(e, w.c14Prepare(&kase), &kase, 0, nil, nil)
		e.AddCase("check_case_c14", term, kase)
		return
	}

	// ---------- part A: exhaustive ----------
	w := ws[0]
	var allBase []int
	for i := range w.Parties {
		allBase = append(allBase, i)
	}
	all := w.withLong(allBase)
	const sender, third = 1, 2 // holder 1 converts; holder 0 is the deployer of the external contract
	aliasS, aliasT, unrelated := w.longIdx(sender), w.longIdx(third), w.longIdx(w.NHold)
	// module accounts that convert to themselves (sender = receiver = a blocked address): the signer of governance
	// proposals, another well-known one, the erc20 module account itself, and an unrelated one
	var selfMods []int
	for _, name := range []string{"gov", "distribution", "erc20", "csr"} {
		if i := w.c14Module(name); i >= 0 {
			selfMods = append(selfMods, i)
		} else {
			e.Stats.Notes = append(e.Stats.Notes, "no module account named "+name)
		}
	}
	vault := w.VaultIdx
	bools := []bool{true, false}
	nA := 0
	if e.Tier != "search" {
		for _, mod := range bools {
			for _, hook := range bools {
				for _, en := range bools {
					for _, sendok := range bools {
						for pair := range w.Pairs {
							// every prepared state starts from a keeper-route update (so that a case, replayed alone,
							// meets the same history), then the requested setting by the drawn route
							variant := e.Pick(4)
							route := ""
							if variant&1 == 1 {
								route = "legacy"
							}
							setup := []c14Op{{Kind: "params", B1: true, B2: true}, {Kind: "params", B1: mod, B2: hook, Route: route}}
							if !en {
								setup = append(setup, c14Op{Kind: "toggle", Pair: pair})
							}
							if !sendok {
								setup = append(setup, c14Op{Kind: "send_enabled", Pair: pair, B1: false})
							}
							if variant >= 2 {
								setup = append(setup,
									c14Op{Kind: "params", B1: !mod, B2: !hook, Ghost: true},
									c14Op{Kind: "toggle", Pair: pair, Ghost: true},
									c14Op{Kind: "send_enabled", Pair: pair, B1: !sendok, Ghost: true})
							}
							e.Stats.Count(fmt.Sprintf("setting-delivered:route=%s,ghost-flips-after=%v", map[string]string{"": "MsgUpdateParams", "legacy": "ParameterChangeProposal"}[route], variant >= 2))
							skel := c14Case{World: 0, Parties: all, Setup: setup}
							prepared := w.c14Prepare(&skel)
							pre, reported, stored := w.c14Observe(prepared, all)
							if reported.String() != stored.String() {
								e.Stats.ImplFailures = append(e.Stats.ImplFailures, ImplFailure{Case: e.nCases, Step: -1, Monitor: "keeper-reports-switches-other-than-the-committed-ones",
									Detail: fmt.Sprintf("after the setup of the case the erc20 keeper reports %s; the last committed setting (parameter subspace, token-pair records) is %s", reported, stored)})
							}
							if stored.Mod != mod || stored.Hook != hook || stored.Pair[pair] != en || pre.Pairs[pair].SendOK != sendok {
								e.Stats.ImplFailures = append(e.Stats.ImplFailures, ImplFailure{Case: e.nCases, Step: -1, Monitor: "switch-flip-not-committed",
									Detail: fmt.Sprintf("requested EnableErc20=%v EnableEVMHook=%v pair.Enabled=%v send-enabled=%v; committed: %s send-enabled=%v", mod, hook, en, sendok, stored, pre.Pairs[pair].SendOK)})
							}
							var ops []c14Op
							for _, kind := range []string{"convert_coin", "convert_erc20"} {
								amt := "7"
								if kind == "convert_erc20" {
									amt = "5"
								}
								ops = append(ops, c14Op{Kind: kind, Pair: pair, From: sender, To: sender, Amt: amt})
								ops = append(ops, c14Op{Kind: kind, Pair: pair, From: sender, To: third, Amt: amt})
								for i := w.ModIdx; i < w.ZeroIdx; i++ {
									ops = append(ops, c14Op{Kind: kind, Pair: pair, From: sender, To: i, Amt: amt})
								}
							}
							for _, m := range selfMods {
								ops = append(ops, c14Op{Kind: "convert_coin", Pair: pair, From: m, To: m, Amt: "7"},
									c14Op{Kind: "convert_erc20", Pair: pair, From: m, To: m, Amt: "5"})
							}
							// the EVM route through a forwarder: the callee of the transaction is the vault, the Transfer
							// logs are emitted by the token contract(s) it calls; and a receipt whose first log (the
							// callee, at keeper level) belongs to the OTHER pair
							other := (pair + 1) % len(w.Pairs)
							T := func(p, from, to int, amt string) c03Leg {
								return c03Leg{Kind: "transfer", Pair: p, From: from, To: to, Amt: amt}
							}
							ops = append(ops,
								c14Op{Kind: "receipt", Via: "vault", Pair: pair, From: sender, Legs: []c03Leg{T(pair, vault, w.ModIdx, "6")}},
								c14Op{Kind: "receipt", Via: "vault", Pair: pair, From: sender, Legs: []c03Leg{T(pair, sender, w.ModIdx, "4")}},
								c14Op{Kind: "receipt", Via: "vault", Pair: pair, From: third, Legs: []c03Leg{T(pair, sender, third, "2"), T(pair, vault, w.ModIdx, "3"), T(other, vault, w.ModIdx, "1"), T(pair, vault, third, "1")}},
								c14Op{Kind: "receipt", Via: "keeper", Pair: pair, From: sender, Legs: []c03Leg{T(other, sender, third, "1"), T(pair, sender, w.ModIdx, "2")}},
								// the same transfer to the module address made by the constructor of a contract-creation transaction (no callee)
								c14Op{Kind: "receipt", Via: "keeper-create", Pair: pair, From: sender, Legs: []c03Leg{T(pair, sender, w.ModIdx, "2")}},
							)
							ops = append(ops,
								// 32-byte accounts on the Cosmos side
								c14Op{Kind: "convert_erc20", Pair: pair, From: sender, To: aliasS, Amt: "5"},
								c14Op{Kind: "convert_erc20", Pair: pair, From: sender, To: aliasT, Amt: "5"},
								c14Op{Kind: "convert_erc20", Pair: pair, From: sender, To: unrelated, Amt: "5"},
								c14Op{Kind: "convert_coin", Pair: pair, From: aliasS, To: sender, Amt: "7"},
								c14Op{Kind: "convert_coin", Pair: pair, From: aliasS, To: third, Amt: "7"},
								c14Op{Kind: "convert_coin", Pair: pair, From: aliasT, To: sender, Amt: "7"},
								c14Op{Kind: "convert_coin", Pair: pair, From: unrelated, To: sender, Amt: "7"},
								c14Op{Kind: "transfer", Pair: pair, From: sender, To: w.ModIdx, Amt: "9"},
								c14Op{Kind: "transfer", Pair: pair, From: sender, To: third, Amt: "4"},
								c14Op{Kind: "transfer", Pair: pair, From: sender, To: w.ModIdx + 1, Amt: "3"},
								c14Op{Kind: "transfer", Pair: pair, From: sender, To: w.ModIdx, Amt: new(big.Int).Add(pre.Pairs[pair].TBal[sender], big.NewInt(1)).String()},
							)
							for _, o := range ops {
								kase := c14Case{World: 0, Parties: all, Setup: setup, Ops: []c14Op{o}}
								term, sig := w.c14Exec(e, prepared, &kase, 0, nil, &pre)
								e.AddCase("check_case_c14", term, kase)
								e.Stats.Nontrivial(fmt.Sprintf("A/%v/%v/%v/%v/%s", mod, hook, en, sendok, sig))
								e.Stats.Count(fmt.Sprintf("exhaustive:mod=%v,hook=%v,pair=%v", mod, hook, en))
								nA++
								if nA == 1 || nA == 700 {
									e.Stats.Sample(kase)
								}
							}
						}
					}
				}
			}
		}
	}
	e.Stats.Notes = append(e.Stats.Notes, fmt.Sprintf("part A enumerated %d cases exhaustively (%d module accounts and %d 32-byte accounts as Cosmos-side parties)", nA, w.ZeroIdx-w.ModIdx, len(w.Long)))

	// ---------- part B: random histories with flips ----------
	nB := e.Scale(16, 600)
	if e.Tier == "search" {
		nB = 120
	}
	for c := 0; c < nB; c++ {
		var kase c14Case
		kase.World = c % len(ws)
		wb := ws[kase.World]
		kase.Parties = wb.withLong(wb.c03PickParties(e, 2))
		kase.Setup = []c14Op{{Kind: "params", B1: true, B2: true}}
		n := 20 + e.Pick(11)
		term, sig := wb.c14Exec(e, wb.c14Prepare(&kase), &kase, n, func(cur c03Obs) c14Op { return wb.c14GenOp(e, kase.Parties, cur) }, nil)
		e.AddCase("check_case_c14", term, kase)
		c14Nontrivial(e, "B/"+sig)
		if c == 0 {
			e.Stats.Sample(kase)
		}
	}
}
