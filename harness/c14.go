//go:build verif

package harness

// C14 — disabled conversion means no conversion, by any route.
// Part A (exhaustive, every tier): the complete finite cross product
//   8 switch settings (EnableErc20, EnableEVMHook, pair.Enabled) x bank send-enabled on/off
//   x 2 pair kinds x routes {MsgConvertCoin, MsgConvertERC20, ERC-20 transfer as a real
//   Ethereum transaction} x receivers {self, third party, EVERY module account of the app}
//   (transfers: to the erc20 module address, to a holder, to another module account, and an
//   over-balance transfer), one operation on a prepared state per case.
// Part B: random histories with frequent switch flips between operations.
// Evaluated by Check/Erc20Check.v check_case_c14 (model comparison + gate monitors).

import (
	"fmt"
	"math/big"
)

func init() { runners["C14"] = c14Run }

var c14FlipWeights = c03Weights{ConvertCoin: 18, ConvertERC20: 18, Transfer: 24, Burn: 3, BurnCoins: 2, BankSend: 3, Toggle: 10, SendEnabled: 8, Params: 14, Repair: 0.12}

func c14Worlds() []*c03World {
	units := []*big.Int{big.NewInt(1), new(big.Int).Exp(big.NewInt(10), big.NewInt(18), nil)}
	var ws []*c03World
	for i, u := range units {
		w := c03NewWorld(i, 3, 1, 1, u)
		w.c03Prelude(u)
		ws = append(ws, w)
	}
	return ws
}

func c14Run(e *Env) {
	e.Stats.Rule = "part A, EXHAUSTIVE in every tier: the complete cross product {EnableErc20} x {EnableEVMHook} x {pair.Enabled} x {bank send-enabled of the denomination} (16 settings) x {module-owned pair, external pair} x {MsgConvertCoin, MsgConvertERC20 to each receiver in {self, third party, every one of the application's module accounts}; ERC-20 transfer (real signed Ethereum tx, hooks run) to the erc20 module address, to a holder, to another module account, and above balance}; each case = one operation on the prepared state (state prepared once per setting, CacheContext per case), projection of both pairs over all holders and all module accounts before and after | part B: random histories (20-30 operations) with switch flips (params, toggle, send-enabled) in about a third of the steps, same projection after every operation; non-trivial = case containing a conversion attempt; distinct by hash of (setting, operation, result class)"
	ws := c14Worlds()
	hdr := c03Header
	for _, w := range ws {
		w.c03ReportFails(e)
		hdr += w.headerDefs()
	}
	e.Header(hdr)

	if e.Replay != nil {
		var kase c03Case
		mustUnmarshal(e.Replay, &kase)
		w := ws[kase.World]
		term, _ := w.c03Execute(e, &kase, 0, nil)
		e.AddCase("check_case_c14", term, kase)
		return
	}

	// ---------- part A: exhaustive ----------
	w := ws[0]
	var all []int
	for i := range w.Parties {
		all = append(all, i)
	}
	const sender, third = 1, 2 // holder 1 converts; holder 0 is the deployer of the external contract
	bools := []bool{true, false}
	nA := 0
	if e.Tier != "search" {
		for _, mod := range bools {
			for _, hook := range bools {
				for _, en := range bools {
					for _, sendok := range bools {
						for pair := range w.Pairs {
							setup := []c03Op{{Kind: "params", B1: mod, B2: hook}}
							if !en {
								setup = append(setup, c03Op{Kind: "toggle", Pair: pair})
							}
							if !sendok {
								setup = append(setup, c03Op{Kind: "send_enabled", Pair: pair, B1: false})
							}
							prepared, _ := w.Ctx.CacheContext()
							for _, o := range setup {
								if !w.apply(prepared, o) {
									panic("setup operation failed")
								}
							}
							pre := w.observe(prepared, all)
							if pre.Mod != mod || pre.Hook != hook || pre.Pairs[pair].Enabled != en || pre.Pairs[pair].SendOK != sendok {
								panic("prepared state does not have the requested switches")
							}
							var ops []c03Op
							for _, kind := range []string{"convert_coin", "convert_erc20"} {
								amt := "7"
								if kind == "convert_erc20" {
									amt = "5"
								}
								ops = append(ops, c03Op{Kind: kind, Pair: pair, From: sender, To: sender, Amt: amt})
								ops = append(ops, c03Op{Kind: kind, Pair: pair, From: sender, To: third, Amt: amt})
								for i := w.ModIdx; i < w.ZeroIdx; i++ {
									ops = append(ops, c03Op{Kind: kind, Pair: pair, From: sender, To: i, Amt: amt})
								}
							}
							ops = append(ops,
								c03Op{Kind: "transfer", Pair: pair, From: sender, To: w.ModIdx, Amt: "9"},
								c03Op{Kind: "transfer", Pair: pair, From: sender, To: third, Amt: "4"},
								c03Op{Kind: "transfer", Pair: pair, From: sender, To: w.ModIdx + 1, Amt: "3"},
								c03Op{Kind: "transfer", Pair: pair, From: sender, To: w.ModIdx, Amt: new(big.Int).Add(pre.Pairs[pair].TBal[sender], big.NewInt(1)).String()},
							)
							for _, o := range ops {
								kase := c03Case{World: 0, Parties: all, Setup: setup, Ops: []c03Op{o}}
								term, sig := w.c03ExecuteOn(e, prepared, &kase, 0, nil, &pre)
								e.AddCase("check_case_c14", term, kase)
								e.Stats.Nontrivial(fmt.Sprintf("A/%v/%v/%v/%v/%s", mod, hook, en, sendok, sig))
								e.Stats.Count(fmt.Sprintf("exhaustive:mod=%v,hook=%v,pair=%v", mod, hook, en))
								nA++
								if nA == 1 || nA == 700 {
									e.Stats.Sample(kase)
								}
							}
						}
					}
				}
			}
		}
	}
	e.Stats.Notes = append(e.Stats.Notes, fmt.Sprintf("part A enumerated %d cases exhaustively (%d module accounts as receivers)", nA, w.ZeroIdx-w.ModIdx))

	// ---------- part B: random histories with flips ----------
	nB := e.Scale(16, 600)
	if e.Tier == "search" {
		nB = 120
	}
	for c := 0; c < nB; c++ {
		var kase c03Case
		kase.World = c % len(ws)
		wb := ws[kase.World]
		kase.Parties = wb.c03PickParties(e, 2)
		n := 20 + e.Pick(11)
		term, sig := wb.c03Execute(e, &kase, n, func(cur c03Obs) c03Op { return wb.c03GenOp(e, c14FlipWeights, kase.Parties, cur) })
		e.AddCase("check_case_c14", term, kase)
		c03Nontrivial(e, "B/"+sig)
		if c == 0 {
			e.Stats.Sample(kase)
		}
	}
}
