//go:build verif

package harness

import (
	"cosmossdk.io/store/prefix"
	"encoding/hex"
	"fmt"
	"github.com/Canto-Network/Canto/v8/x/govshuttle"
	"math/big"
	"sort"
	"strings"

	sdk "github.com/cosmos/cosmos-sdk/types"
	authtypes "github.com/cosmos/cosmos-sdk/x/auth/types"
	banktypes "github.com/cosmos/cosmos-sdk/x/bank/types"
	distrtypes "github.com/cosmos/cosmos-sdk/x/distribution/types"
	govtypes "github.com/cosmos/cosmos-sdk/x/gov/types"
	"github.com/ethereum/go-ethereum/accounts/abi"
	"github.com/ethereum/go-ethereum/common"
	"github.com/ethereum/go-ethereum/crypto"

	"github.com/Canto-Network/Canto/v8/app"
	"github.com/Canto-Network/Canto/v8/contracts"
	erc20types "github.com/Canto-Network/Canto/v8/x/erc20/types"
	govshuttletypes "github.com/Canto-Network/Canto/v8/x/govshuttle/types"
	inflationtypes "github.com/Canto-Network/Canto/v8/x/inflation/types"
)

func init() { runners["C20"] = runC20 }

// JSON description of a C20 case (replay format)
type c20Op struct {
	Kind      string   `json:"kind"` // lending | treasury
	Authority string   `json:"authority"`
	Title     string   `json:"title"`
	Desc      string   `json:"desc"`
	NilMeta   bool     `json:"nil_metadata,omitempty"`
	ID        uint64   `json:"id"`
	Accounts  []string `json:"accounts,omitempty"`
	Values    []uint64 `json:"values,omitempty"`
	Calldatas []string `json:"calldatas,omitempty"`
	Sigs      []string `json:"signatures,omitempty"`
	Recipient string   `json:"recipient,omitempty"`
	Amount    uint64   `json:"amount,omitempty"`
	Denom     string   `json:"denom,omitempty"`
	NextGovID uint64   `json:"next_gov_id"` // value the gov proposal-id sequence holds when the message executes
}

type c20Case struct {
	Ops   []c20Op  `json:"ops"`
	Watch []uint64 `json:"watch"` // ids queried after every message (ids of all ops are always added)
	// RegisteredCoins: number of coins the erc20 module registers (RegisterCoin: one contract deployment each, which
	// advances the erc20 module account's sequence) before the first proposal - another module's history; the store
	// contract must still be deployed at the address derived from the govshuttle account's own sequence
	RegisteredCoins int `json:"registered_coins,omitempty"`
}

// ABI-decoded result of QueryProp
type c20Record struct {
	Id         *big.Int         `json:"id"`
	Title      string           `json:"title"`
	Desc       string           `json:"desc"`
	Targets    []common.Address `json:"targets"`
	Values     []*big.Int       `json:"values"`
	Signatures []string         `json:"signatures"`
	Calldatas  [][]byte         `json:"calldatas"`
}

func c20Bytes(b []byte) string {
	items := make([]string, len(b))
	for i, x := range b {
		items[i] = fmt.Sprint(int(x))
	}
	return L(items)
}
func c20Str(s string) string { return c20Bytes([]byte(s)) }
func c20Strs(ss []string) string {
	items := make([]string, len(ss))
	for i, s := range ss {
		items[i] = c20Str(s)
	}
	return L(items)
}
func c20U64s(vs []uint64) string {
	items := make([]string, len(vs))
	for i, v := range vs {
		items[i] = Z(new(big.Int).SetUint64(v))
	}
	return L(items)
}
func c20U(v uint64) string { return Z(new(big.Int).SetUint64(v)) }

// c20Intern collects the distinct record terms of one case; they are bound once by `let` in the case term.
type c20Intern struct {
	names map[string]string
	defs  []string
}

func (in *c20Intern) name(term string) string {
	if n, ok := in.names[term]; ok {
		return n
	}
	n := fmt.Sprintf("rec%d", len(in.defs))
	in.names[term] = n
	in.defs = append(in.defs, "let "+n+" := "+term+" in ")
	return n
}

func c20RecordTerm(in *c20Intern, r *c20Record) string {
	if r == nil {
		return "None"
	}
	var tg, vs, ds []string
	for _, t := range r.Targets {
		tg = append(tg, Z(new(big.Int).SetBytes(t.Bytes())))
	}
	for _, v := range r.Values {
		vs = append(vs, Z(v))
	}
	for _, d := range r.Calldatas {
		ds = append(ds, c20Bytes(d))
	}
	return "(Some " + in.name(App("mkProp", Z(r.Id), c20Str(r.Title), c20Str(r.Desc), L(tg), L(vs), c20Strs(r.Signatures), L(ds))) + ")"
}

func c20OpTerm(o c20Op) string {
	if o.Kind == "lending" {
		return App("Lending", App("mkLM", c20Str(o.Authority), c20Str(o.Title), c20Str(o.Desc), B(!o.NilMeta),
			c20Strs(o.Accounts), c20U(o.ID), c20U64s(o.Values), c20Strs(o.Calldatas), c20Strs(o.Sigs)))
	}
	return App("Treasury", App("mkTM", c20Str(o.Authority), c20Str(o.Title), c20Str(o.Desc), c20U(o.ID),
		c20Str(o.Recipient), c20U(o.Amount), c20Str(o.Denom)))
}

func c20Msg(o c20Op) sdk.Msg {
	if o.Kind == "lending" {
		m := &govshuttletypes.MsgLendingMarketProposal{Authority: o.Authority, Title: o.Title, Description: o.Desc}
		if !o.NilMeta {
			m.Metadata = &govshuttletypes.LendingMarketMetadata{Account: o.Accounts, PropId: o.ID, Values: o.Values, Calldatas: o.Calldatas, Signatures: o.Sigs}
		}
		return m
	}
	m := &govshuttletypes.MsgTreasuryProposal{Authority: o.Authority, Title: o.Title, Description: o.Desc}
	if !o.NilMeta {
		m.Metadata = &govshuttletypes.TreasuryProposalMetadata{PropID: o.ID, Recipient: o.Recipient, Amount: o.Amount, Denom: o.Denom}
	}
	return m
}

// c20Observe reads the port address and QueryProp(id) for every watched id, through the ABI.
func c20Observe(a *app.Canto, ctx sdk.Context, in *c20Intern, watch []uint64) (string, string) {
	port, found := a.GovshuttleKeeper.GetPort(ctx)
	var portBig *big.Int
	if found {
		portBig = new(big.Int).SetBytes(port.Bytes())
	}
	pabi := contracts.ProposalStoreContract.ABI
	var recs []string
	sig := ""
	for _, id := range watch {
		var rec *c20Record
		if found {
			qctx, _ := ctx.CacheContext()
			func() {
				defer func() { recover() }()
				res, err := a.Erc20Keeper.CallEVM(qctx, pabi, erc20types.ModuleAddress, port, false, "QueryProp", new(big.Int).SetUint64(id))
				if err != nil {
					return
				}
				out, err := pabi.Unpack("QueryProp", res.Ret)
				if err != nil || len(out) != 1 {
					return
				}
				rec = abi.ConvertType(out[0], new(c20Record)).(*c20Record)
			}()
		}
		recs = append(recs, Tup(c20U(id), c20RecordTerm(in, rec)))
		if rec != nil && (rec.Id.Sign() != 0 || rec.Title != "") {
			sig += fmt.Sprintf("%d:%d:%d;", id, len(rec.Title), len(rec.Calldatas))
		}
	}
	return App("mkObs", OptZ(portBig), L(recs)), sig
}

// ---------- generators ----------

var c20Texts = []string{
	"", "a", "lending market proposal", "Treasury payout #7", "提案 №5 — ünïcödé 🚀", "tab\tnewline\nquote\"back\\slash",
	"\x00nul\x01\x7f", "transfer(address,uint256)", "_setCollateralFactor(address,uint256)", "ΑΒΓ αβγ", "0x", "é",
}

func (e *Env) c20Text(long bool) string {
	if long {
		n := 200 + e.Pick(1800)
		var sb strings.Builder
		for sb.Len() < n {
			sb.WriteString(c20Texts[e.Pick(len(c20Texts))])
			sb.WriteByte(byte(32 + e.Pick(95)))
		}
		return sb.String()
	}
	if e.Chance(0.2) {
		n := e.Pick(40)
		b := make([]rune, n)
		for i := range b {
			switch e.Pick(4) {
			case 0:
				b[i] = rune(32 + e.Pick(95))
			case 1:
				b[i] = rune(0xa0 + e.Pick(0x500))
			case 2:
				b[i] = rune(0x4e00 + e.Pick(0x1000))
			default:
				b[i] = rune(0x1f300 + e.Pick(0x200))
			}
		}
		return string(b)
	}
	return c20Texts[e.Pick(len(c20Texts))]
}

func (e *Env) c20HexDigits(n int, mode int) string {
	const lo, up = "0123456789abcdef", "0123456789ABCDEF"
	b := make([]byte, n)
	for i := range b {
		switch mode {
		case 0:
			b[i] = lo[e.Pick(16)]
		case 1:
			b[i] = up[e.Pick(16)]
		default:
			if e.Chance(0.5) {
				b[i] = lo[e.Pick(16)]
			} else {
				b[i] = up[e.Pick(16)]
			}
		}
	}
	return string(b)
}

// an account string as a proposer might write it (and a few ways of getting it wrong)
func (e *Env) c20Account() string {
	switch e.Pick(14) {
	case 0:
		e.Stats.Count("account:no-prefix")
		return e.c20HexDigits(40, e.Pick(3))
	case 1:
		e.Stats.Count("account:short")
		return "0x" + e.c20HexDigits(1+e.Pick(8), 0)
	case 2:
		e.Stats.Count("account:long-cropped")
		return "0x" + e.c20HexDigits(41+e.Pick(30), 2)
	case 3:
		e.Stats.Count("account:non-hex")
		return []string{"", "zz", "0x", "0xg1", "canto1yrmjye0zyfvr0lthc6fwq7qlwg9e8muftxa630", "0X" + e.c20HexDigits(40, 1), "12345", "0x12 34", "ab" + "ç" + "cd"}[e.Pick(9)]
	case 4:
		e.Stats.Count("account:eip55")
		var raw [20]byte
		e.Rng.Read(raw[:])
		return common.BytesToAddress(raw[:]).Hex()
	default:
		e.Stats.Count("account:0x40hex")
		return "0x" + e.c20HexDigits(40, e.Pick(3))
	}
}

func (e *Env) c20Calldata() string {
	switch e.Pick(12) {
	case 0:
		e.Stats.Count("calldata:empty")
		return ""
	case 1:
		e.Stats.Count("calldata:0x-prefixed")
		return "0x" + e.c20HexDigits(2*e.Pick(20), 0)
	case 2:
		e.Stats.Count("calldata:odd-length")
		return e.c20HexDigits(1+2*e.Pick(20), 0)
	case 3:
		e.Stats.Count("calldata:bad-char")
		s := []byte(e.c20HexDigits(2+2*e.Pick(20), 2))
		s[e.Pick(len(s))] = "gz xG-\x00\xc3"[e.Pick(8)]
		return string(s)
	case 4:
		e.Stats.Count("calldata:upper-or-mixed")
		return e.c20HexDigits(2*e.Pick(40), 1+e.Pick(2))
	case 5:
		e.Stats.Count("calldata:long")
		return e.c20HexDigits(2*(100+e.Pick(300)), 0)
	default:
		e.Stats.Count("calldata:wellformed")
		raw := make([]byte, e.Pick(70))
		e.Rng.Read(raw)
		return hex.EncodeToString(raw)
	}
}

func (e *Env) c20U64() uint64 {
	switch e.Pick(6) {
	case 0:
		return 0
	case 1:
		return ^uint64(0)
	case 2:
		return 1 << 63
	case 3:
		return uint64(e.Rng.Int63())<<1 | uint64(e.Pick(2))
	default:
		return e.Mag(60).Uint64()
	}
}

func (e *Env) c20ID() uint64 {
	switch e.Pick(10) {
	case 0, 1, 2, 3:
		return 0
	case 4:
		return []uint64{^uint64(0), 1 << 63, 1<<63 - 1, 1 << 32}[e.Pick(4)]
	default:
		return uint64(1 + e.Pick(7))
	}
}

func c20OtherAuthorities() []string {
	gov := authtypes.NewModuleAddress(govtypes.ModuleName)
	return []string{
		"", " ", "gov", "canto1", "not-an-address", "0x" + hex.EncodeToString(gov),
		strings.ToUpper(gov.String()), gov.String() + " ", " " + gov.String(), gov.String()[:len(gov.String())-1],
		authtypes.NewModuleAddress(govshuttletypes.ModuleName).String(),
		authtypes.NewModuleAddress(erc20types.ModuleName).String(),
		authtypes.NewModuleAddress(distrtypes.ModuleName).String(),
		authtypes.NewModuleAddress(authtypes.FeeCollectorName).String(),
		sdk.AccAddress(common.HexToAddress("0x20F72265e2225837fd77C692e0781f720B93eF89").Bytes()).String(),
		sdk.AccAddress(make([]byte, 20)).String(),
		sdk.MustBech32ifyAddressBytes("cosmos", gov),
	}
}

var c20Denoms = []string{"canto", "note", "CANTO", "Note", "nOtE", "cAnTo", "acanto", "canto2", "", "cant", "notes", " note", "ｃanto", "Kanto", "NOTE\x00", "usdc"}

func (e *Env) c20GenOp(gov string, others []string) c20Op {
	var o c20Op
	o.Authority = gov
	if e.Chance(0.12) {
		o.Authority = others[e.Pick(len(others))]
		e.Stats.Count("authority:other")
	} else {
		e.Stats.Count("authority:gov")
	}
	long := e.Chance(0.04)
	o.Title = e.c20Text(long)
	o.Desc = e.c20Text(long && e.Chance(0.5))
	o.ID = e.c20ID()
	switch e.Pick(8) {
	case 0:
		o.NextGovID = 0
	case 1:
		o.NextGovID = []uint64{^uint64(0), 1 << 63, 1 << 40}[e.Pick(3)]
	default:
		o.NextGovID = uint64(1 + e.Pick(9))
	}
	if o.ID == 0 {
		e.Stats.Count("id:defaulted")
	} else {
		e.Stats.Count("id:explicit")
	}
	if e.Chance(0.55) {
		o.Kind = "lending"
		if e.Chance(0.03) {
			o.NilMeta = true
			o.ID = 0
			e.Stats.Count("lending:nil-metadata")
			return o
		}
		n := e.Pick(5)
		if e.Chance(0.1) {
			n = 5 + e.Pick(8)
		}
		nv, ns, nc := n, n, n
		switch e.Pick(14) { // boundary stream: one list one longer / shorter
		case 0:
			nv = n + 1
		case 1:
			ns = n + 1
		case 2:
			nc = n + 1
		case 3:
			if n > 0 {
				switch e.Pick(3) {
				case 0:
					nv = n - 1
				case 1:
					ns = n - 1
				default:
					nc = n - 1
				}
			}
		}
		na := n // the number of targets is not checked by the module
		if e.Chance(0.15) {
			na = e.Pick(7)
		}
		for i := 0; i < na; i++ {
			o.Accounts = append(o.Accounts, e.c20Account())
		}
		for i := 0; i < nv; i++ {
			o.Values = append(o.Values, e.c20U64())
		}
		for i := 0; i < ns; i++ {
			o.Sigs = append(o.Sigs, e.c20Text(false))
		}
		for i := 0; i < nc; i++ {
			o.Calldatas = append(o.Calldatas, e.c20Calldata())
		}
		if nv == ns && ns == nc {
			e.Stats.Count(fmt.Sprintf("lending:lengths-equal-%d", min(n, 5)))
		} else {
			e.Stats.Count("lending:lengths-unequal")
		}
		if na != n {
			e.Stats.Count("lending:targets-length-differs")
		}
		return o
	}
	o.Kind = "treasury"
	if e.Chance(0.02) {
		o.NilMeta = true
		o.ID = 0
		e.Stats.Count("treasury:nil-metadata")
		return o
	}
	o.Recipient = e.c20Account()
	o.Amount = e.c20U64()
	if e.Chance(0.7) {
		o.Denom = c20Denoms[e.Pick(5)]
		e.Stats.Count("treasury:denom-supported")
	} else {
		o.Denom = c20Denoms[e.Pick(len(c20Denoms))]
		e.Stats.Count("treasury:denom-any")
	}
	return o
}

func runC20(e *Env) {
	e.ShardSize = 10 // case terms are large; more, smaller shards evaluate in parallel
	e.Header("From Coq Require Import ZArith List.\nFrom Canto Require Import Model.Govshuttle Check.Common Check.GovshuttleCheck.\nImport ListNotations.\nOpen Scope Z_scope.\n")
	e.Stats.Rule = "case = history of 1-14 MsgLendingMarketProposal / MsgTreasuryProposal executed through the app's message router on a recovered branch (as gov executes proposals), real EVM, store contract deployed by the keeper on first use; gov proposal-id sequence set per message (oracle next_gov_id); list lengths 0..12 with one list one longer/shorter (boundary), accounts/calldata well-formed and malformed (0x prefix, odd length, bad characters, cropping), non-ASCII and 0.2-2 KB strings, explicit/defaulted/colliding/extreme ids, foreign authorities; observed after every message: result class, port address, ABI-decoded QueryProp for every id of the case; non-trivial = at least one accepted proposal; distinct by hash of accepted kinds, ids and record shapes"
	a, baseCtx := NewApp()
	gov := a.GovshuttleKeeper.GetAuthority()
	others := c20OtherAuthorities()
	modAddr := new(big.Int).SetBytes(govshuttletypes.ModuleAddress.Bytes())
	nCases := e.Scale(70, 2000)
	if e.Tier == "search" {
		nCases = 250
	}
	if e.Replay != nil {
		nCases = 1
	}
	for c := 0; c < nCases; c++ {
		var kase c20Case
		if e.Replay != nil {
			mustUnmarshal(e.Replay, &kase)
		} else {
			n := 1 + e.Pick(14)
			for i := 0; i < n; i++ {
				kase.Ops = append(kase.Ops, e.c20GenOp(gov, others))
			}
			kase.Watch = []uint64{0, 1, uint64(2 + e.Pick(20))}
			if e.Chance(0.5) {
				kase.RegisteredCoins = 1 + e.Pick(3)
			}
		}
		// watched ids: given ones + every id an op names or may default to
		set := map[uint64]bool{}
		for _, w := range kase.Watch {
			set[w] = true
		}
		for _, o := range kase.Ops {
			set[o.ID] = true
			set[o.NextGovID] = true
		}
		var watch []uint64
		for w := range set {
			watch = append(watch, w)
		}
		sort.Slice(watch, func(i, j int) bool { return watch[i] < watch[j] })

		ctx, _ := baseCtx.CacheContext()
		for r := 0; r < kase.RegisteredCoins; r++ {
			base := fmt.Sprintf("regcoin%d", r)
			if err := a.BankKeeper.MintCoins(ctx, inflationtypes.ModuleName, sdk.NewCoins(sdk.NewInt64Coin(base, 1))); err != nil {
				panic(err)
			}
			if _, err := a.Erc20Keeper.RegisterCoin(ctx, banktypes.Metadata{Description: "verif coin", Base: base, Display: "d" + base, Name: base, Symbol: "REG",
				DenomUnits: []*banktypes.DenomUnit{{Denom: base, Exponent: 0}, {Denom: "d" + base, Exponent: 6}}}); err != nil {
				panic(err)
			}
			e.Stats.Count("prep:coin-registered-by-erc20-before-the-first-proposal")
		}
		in := &c20Intern{names: map[string]string{}}
		pre, _ := c20Observe(a, ctx, in, watch)
		var steps []string
		sig := ""
		for i, o := range kase.Ops {
			// Genesis round trip of the module between proposals (a chain restarted from an export): the port address and
			// every record must read the same afterwards - in particular "no port yet" must stay "no port yet", so that
			// the first proposal still deploys the store contract.  Before the first proposal of a third of the cases, and
			// with probability 0.15 before any other.
			if (i == 0 && c%3 == 0) || (e.Replay == nil && e.Chance(0.15)) || (e.Replay != nil && i > 0) {
				before, _ := c20Observe(a, ctx, in, watch)
				gs := govshuttle.ExportGenesis(ctx, a.GovshuttleKeeper)
				st := prefix.NewStore(ctx.KVStore(a.GetKey(govshuttletypes.StoreKey)), govshuttletypes.PortKey)
				st.Delete(govshuttletypes.PortKey)
				govshuttle.InitGenesis(ctx, a.GovshuttleKeeper, a.AccountKeeper, *gs)
				after, _ := c20Observe(a, ctx, in, watch)
				e.Stats.Count("genesis-round-trip")
				if before != after {
					e.Stats.ImplFailures = append(e.Stats.ImplFailures, ImplFailure{Case: c, Step: i, Monitor: "genesis-round-trip-changed-port-or-records",
						Detail: fmt.Sprintf("exported port %q; what the chain reports before and after export + import differs", gs.PortContractAddr)})
				}
			}
			if err := a.GovKeeper.ProposalID.Set(ctx, o.NextGovID); err != nil {
				panic(err)
			}
			seq, err := a.AccountKeeper.GetSequence(ctx, govshuttletypes.ModuleAddress.Bytes())
			if err != nil {
				panic(err)
			}
			fresh := crypto.CreateAddress(govshuttletypes.ModuleAddress, seq)
			msg := c20Msg(o)
			err = Try(ctx, func(cctx sdk.Context) error {
				h := a.MsgServiceRouter().Handler(msg)
				if h == nil {
					return fmt.Errorf("no handler")
				}
				_, err := h(cctx, msg)
				return err
			})
			e.Stats.Evaluations++
			ok := err == nil
			if ok {
				e.Stats.Count("result:ok-" + o.Kind)
				sig += fmt.Sprintf("%d:%s:%d:%d|", i, o.Kind, o.ID, o.NextGovID)
			} else {
				e.Stats.Count("result:rejected-" + o.Kind)
			}
			post, osig := c20Observe(a, ctx, in, watch)
			if ok {
				sig += osig
			}
			steps = append(steps, App("mkStep", c20OpTerm(o),
				App("mkOracle", c20U(o.NextGovID), Z(new(big.Int).SetBytes(fresh.Bytes()))), B(ok), post))
		}
		if sig != "" {
			e.Stats.Nontrivial(sig)
		}
		term := "(" + strings.Join(in.defs, "") + App("mkCase", App("mkCfg", c20Str(gov), Z(modAddr)), pre, L(steps)) + ")"
		e.AddCase("check_case", term, kase)
		if len(kase.Ops) <= 4 || c == nCases-1 {
			e.Stats.Sample(c20Case{Ops: kase.Ops[:min(4, len(kase.Ops))], Watch: kase.Watch})
		}
	}
}
