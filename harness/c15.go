//go:build verif

package harness

// C15 — token-pair registry of x/erc20.
//
// Every operation is a real message handled by the application's message-service router
// (MsgRegisterCoin, MsgRegisterERC20, MsgToggleTokenConversion, MsgConvertCoin,
// MsgConvertERC20, MsgUpdateParams) on the app of NewApp(); contracts are the shipped
// ERC20MinterBurnerDecimals deployed through the real EVM.
//
// Emulations (everything else is the real code path):
//   - self-destruct: statedb.Suicide(contract)+Commit on the real EVM state DB (what the
//     SELFDESTRUCT opcode does; the shipped contract has no such opcode).  The removal itself
//     is done by the real ConvertCoin / ConvertERC20 handlers, which call DeleteTokenPair.
//   - genesis export/import: erc20.ExportGenesis, JSON round trip, Validate, the three store
//     prefixes of the erc20 store emptied by raw deletes (a new chain starts from an empty
//     store), erc20.InitGenesis on the same context (bank / EVM state are kept).
//   - coin supply: bank MintCoins through the inflation module account.

import (
	"crypto/sha256"
	"encoding/hex"
	"fmt"
	"math/big"
	"os"
	"strings"

	sdkmath "cosmossdk.io/math"
	storetypes "cosmossdk.io/store/types"
	sdk "github.com/cosmos/cosmos-sdk/types"
	authtypes "github.com/cosmos/cosmos-sdk/x/auth/types"
	banktypes "github.com/cosmos/cosmos-sdk/x/bank/types"
	ibctransfertypes "github.com/cosmos/ibc-go/v8/modules/apps/transfer/types"
	"github.com/ethereum/go-ethereum/common"
	"github.com/ethereum/go-ethereum/crypto"
	"github.com/evmos/ethermint/crypto/ethsecp256k1"
	"github.com/evmos/ethermint/tests"
	ethermint "github.com/evmos/ethermint/types"
	"github.com/evmos/ethermint/x/evm/statedb"
	evmtypes "github.com/evmos/ethermint/x/evm/types"

	"github.com/Canto-Network/Canto/v8/app"
	"github.com/Canto-Network/Canto/v8/contracts"
	"github.com/Canto-Network/Canto/v8/x/erc20"
	erc20keeper "github.com/Canto-Network/Canto/v8/x/erc20/keeper"
	erc20types "github.com/Canto-Network/Canto/v8/x/erc20/types"
	inflationtypes "github.com/Canto-Network/Canto/v8/x/inflation/types"
)

func init() { runners["C15"] = runC15 }

// ---------- replay format ----------

type c15Op struct {
	Kind   string `json:"kind"`            // mint regcoin regerc20 toggle convcoin converc20 kill setparams expimp
	Token  string `json:"token,omitempty"` // denomination / contract address string / token string
	Auth   bool   `json:"auth"`            // message carries the module's authority
	Enable bool   `json:"enable"`          // setparams: new EnableErc20
	Meta   int    `json:"meta"`            // regcoin: metadata variant
	// kill: after the self-destruct somebody sends coins to the dead address, so the bank re-creates a plain account
	// WITHOUT code there; the contract is still gone and the next conversion must still remove the pair
	Refund bool `json:"refund,omitempty"`
}

type c15Case struct {
	Stream string  `json:"stream"`
	Ops    []c15Op `json:"ops"`
}

// ---------- fixed environment shared by all cases ----------

type c15World struct {
	a        *app.Canto
	base     sdk.Context
	user     common.Address
	pool     []common.Address // deployed ERC-20 contracts
	letter   []common.Address // those of pool whose lower-case hex begins with a letter
	reserved common.Address   // letter-first pool contract never registered outside the shadow stream
	auth     string
}

func c15LetterFirst(a common.Address) bool {
	c := strings.ToLower(a.Hex())[2]
	return c >= 'a' && c <= 'f'
}

func c15NewWorld() *c15World {
	w := &c15World{}
	w.a, w.base = NewApp()
	h := sha256.Sum256([]byte("verif-c15-deployer"))
	priv := &ethsecp256k1.PrivKey{Key: h[:]}
	w.user = common.BytesToAddress(priv.PubKey().Address().Bytes())
	signer := tests.NewSigner(priv)
	fc := sdk.NewCoins(sdk.NewCoin(evmtypes.DefaultEVMDenom, sdkmath.NewInt(1_000_000_000_000_000_000)))
	if err := w.a.BankKeeper.MintCoins(w.base, inflationtypes.ModuleName, fc); err != nil {
		panic(err)
	}
	if err := w.a.BankKeeper.SendCoinsFromModuleToModule(w.base, inflationtypes.ModuleName, authtypes.FeeCollectorName, fc); err != nil {
		panic(err)
	}
	abi := contracts.ERC20MinterBurnerDecimalsContract.ABI
	for i := 0; len(w.pool) < 8 || len(w.letter) < 3; i++ {
		if i > 60 {
			panic("c15: could not deploy enough contracts")
		}
		addr, err := erc20keeper.DeployContract(w.base, w.a.EvmKeeper, w.a.FeeMarketKeeper, w.user, signer,
			fmt.Sprintf("Token%d", i), fmt.Sprintf("TK%d", i), uint8(6*(i%4)))
		if err != nil {
			panic(err)
		}
		if _, err := w.a.Erc20Keeper.CallEVM(w.base, abi, w.user, addr, true, "mint", w.user, big.NewInt(1000)); err != nil {
			panic(err)
		}
		w.pool = append(w.pool, addr)
		if c15LetterFirst(addr) {
			w.letter = append(w.letter, addr)
		}
	}
	w.reserved = w.letter[len(w.letter)-1]
	w.auth = w.a.Erc20Keeper.GetAuthority()
	return w
}

// ---------- one running case ----------

type c15Run struct {
	w    *c15World
	e    *Env
	ctx  sdk.Context
	shad bool // shadowing allowed (shadow stream / replay)
	step int

	plain   map[string]int // intern table of ordinary strings
	hexv    map[string]int // intern table of hex-address-shaped strings
	tokName map[string]string
	tokDefs []string
	adrName map[common.Address]string
	adrDefs []string
	ids     map[string][2]string // hex(id) -> (address hex, denom)
	idOrder []string
	junk    map[string]int
	tokens  []string // token strings looked up after every step
	tokSeen map[string]bool
	addrs   []common.Address // addresses whose code is watched
}

func c15NewRun(w *c15World, e *Env, shadow bool) *c15Run {
	ctx, _ := w.base.CacheContext()
	r := &c15Run{w: w, e: e, ctx: ctx, shad: shadow, plain: map[string]int{}, hexv: map[string]int{}, tokName: map[string]string{},
		adrName: map[common.Address]string{}, ids: map[string][2]string{}, junk: map[string]int{}, tokSeen: map[string]bool{}}
	return r
}

func (r *c15Run) addr(a common.Address) string {
	if n, ok := r.adrName[a]; ok {
		return n
	}
	n := fmt.Sprintf("a%d", len(r.adrDefs))
	r.adrName[a] = n
	r.adrDefs = append(r.adrDefs, fmt.Sprintf("let %s := 0x%s in", n, hex.EncodeToString(a.Bytes())))
	return n
}

// tok translates a string into the model's token term (see Model/TokenPairs.v).
func (r *c15Run) tok(s string) string {
	if n, ok := r.tokName[s]; ok {
		return n
	}
	var term string
	switch {
	case common.IsHexAddress(s):
		if _, ok := r.hexv[s]; !ok {
			r.hexv[s] = len(r.hexv)
		}
		term = fmt.Sprintf("THex %s %d", r.addr(common.HexToAddress(s)), r.hexv[s])
	case strings.HasPrefix(s, "erc20/") && common.IsHexAddress(s[6:]) && s == erc20types.CreateDenom(common.HexToAddress(s[6:]).String()):
		term = fmt.Sprintf("TErc20 %s", r.addr(common.HexToAddress(s[6:])))
	default:
		if _, ok := r.plain[s]; !ok {
			r.plain[s] = len(r.plain)
		}
		term = fmt.Sprintf("TPlain %d", r.plain[s])
	}
	n := fmt.Sprintf("t%d", len(r.tokDefs))
	r.tokName[s] = n
	r.tokDefs = append(r.tokDefs, fmt.Sprintf("let %s := %s in", n, term))
	return n
}

func (r *c15Run) watchToken(s string) {
	if !r.tokSeen[s] {
		r.tokSeen[s] = true
		r.tokens = append(r.tokens, s)
	}
}

// the spellings of an address that the harness looks up
func c15Spellings(a common.Address) []string {
	lower := hex.EncodeToString(a.Bytes())
	return []string{a.Hex(), lower, "0x" + lower, "0X" + strings.ToUpper(lower), strings.ToUpper(lower)}
}

func (r *c15Run) watchAddr(a common.Address) {
	for _, x := range r.addrs {
		if x == a {
			return
		}
	}
	r.addrs = append(r.addrs, a)
	for _, s := range c15Spellings(a) {
		r.watchToken(s)
	}
}

func (r *c15Run) learnPair(p erc20types.TokenPair) {
	k := hex.EncodeToString(p.GetID())
	if _, ok := r.ids[k]; !ok {
		r.ids[k] = [2]string{p.Erc20Address, p.Denom}
		r.idOrder = append(r.idOrder, k)
	}
	r.watchAddr(p.GetERC20Contract())
	r.watchToken(p.Denom)
}

func (r *c15Run) pid(id []byte) string {
	k := hex.EncodeToString(id)
	if v, ok := r.ids[k]; ok {
		return App("I", r.addr(common.HexToAddress(v[0])), r.tok(v[1]))
	}
	if _, ok := r.junk[k]; !ok {
		r.junk[k] = len(r.junk) + 1
	}
	return fmt.Sprintf("(I (-%d) (TPlain (-%d)))", r.junk[k], r.junk[k])
}

func (r *c15Run) pair(p erc20types.TokenPair) string {
	o := "OU"
	switch p.ContractOwner {
	case erc20types.OWNER_MODULE:
		o = "OM"
	case erc20types.OWNER_EXTERNAL:
		o = "OE"
	}
	return App("P", r.addr(p.GetERC20Contract()), r.tok(p.Denom), B(p.Enabled), o)
}

func (r *c15Run) optPair(p erc20types.TokenPair, ok bool) string {
	if !ok {
		return "NoP"
	}
	return "(SoP " + r.pair(p) + ")"
}

func (r *c15Run) rawPairs() (keys [][]byte, pairs []erc20types.TokenPair) {
	store := r.ctx.KVStore(r.w.a.GetKey(erc20types.StoreKey))
	it := storetypes.KVStorePrefixIterator(store, erc20types.KeyPrefixTokenPair)
	defer it.Close()
	for ; it.Valid(); it.Next() {
		var p erc20types.TokenPair
		r.w.a.AppCodec().MustUnmarshal(it.Value(), &p)
		keys = append(keys, append([]byte{}, it.Key()[len(erc20types.KeyPrefixTokenPair):]...))
		pairs = append(pairs, p)
	}
	return
}

// observe builds the Coq term of the observation after an operation with result class res.
func (r *c15Run) observe(res string) (term string, nPairs int) {
	k := r.w.a.Erc20Keeper
	keys, pairs := r.rawPairs()
	for _, p := range pairs {
		r.learnPair(p)
	}
	var tPairs, tDen, tAdr, tList, tLook, tByid []string
	for i, p := range pairs {
		tPairs = append(tPairs, App("PE", r.pid(keys[i]), r.pair(p)))
	}
	for _, x := range k.GetAllTokenPairDenomIndexes(r.ctx) {
		r.watchToken(x.Denom)
		tDen = append(tDen, App("DE", r.tok(x.Denom), r.pid(x.TokenPairId)))
	}
	for _, x := range k.GetAllTokenPairERC20AddressIndexes(r.ctx) {
		a := common.BytesToAddress(x.Erc20Address)
		r.watchAddr(a)
		tAdr = append(tAdr, App("AE", r.addr(a), r.pid(x.TokenPairId)))
	}
	lres, err := k.TokenPairs(r.ctx, &erc20types.QueryTokenPairsRequest{})
	if err != nil {
		panic(err)
	}
	for _, p := range lres.TokenPairs {
		r.learnPair(p)
		tList = append(tList, r.pair(p))
	}
	for _, s := range r.tokens {
		id := k.GetTokenPairID(r.ctx, s)
		var p erc20types.TokenPair
		ok := false
		if len(id) > 0 {
			p, ok = k.GetTokenPair(r.ctx, id)
		}
		tLook = append(tLook, App("LK", r.tok(s), r.optPair(p, ok)))
		// the public query, for strings it accepts
		if ethermint.ValidateAddress(s) == nil || sdk.ValidateDenom(s) == nil {
			q, err := k.TokenPair(r.ctx, &erc20types.QueryTokenPairRequest{Token: s})
			if err != nil {
				tLook = append(tLook, App("LK", r.tok(s), "NoP"))
			} else {
				tLook = append(tLook, App("LK", r.tok(s), r.optPair(q.TokenPair, true)))
			}
		}
	}
	for _, h := range r.idOrder {
		id, _ := hex.DecodeString(h)
		p, ok := k.GetTokenPair(r.ctx, id)
		tByid = append(tByid, App("BI", r.pid(id), r.optPair(p, ok)))
	}
	term = App("mkObs", res, L(tPairs), L(tDen), L(tAdr), B(k.GetParams(r.ctx).EnableErc20), L(tList), L(tLook), L(tByid))
	return term, len(pairs)
}

func (r *c15Run) send(msg sdk.Msg) error {
	hd := r.w.a.MsgServiceRouter().Handler(msg)
	if hd == nil {
		panic(fmt.Sprintf("c15: no handler for %T", msg))
	}
	return Try(r.ctx, func(c sdk.Context) error {
		_, err := hd(c, msg)
		return err
	})
}

func c15Meta(base string, variant int) banktypes.Metadata {
	sym := strings.ToUpper(strings.Map(func(c rune) rune {
		if (c >= 'a' && c <= 'z') || (c >= 'A' && c <= 'Z') {
			return c
		}
		return -1
	}, base))
	if len(sym) > 6 {
		sym = sym[:6]
	}
	if sym == "" {
		sym = "SYM"
	}
	return banktypes.Metadata{Description: fmt.Sprintf("coin %s v%d", base, variant), Base: base, Name: base, Symbol: sym, Display: base,
		DenomUnits: []*banktypes.DenomUnit{{Denom: base, Exponent: 0}}}
}

func (r *c15Run) isDead(a common.Address) bool {
	acc := r.w.a.EvmKeeper.GetAccountWithoutBalance(r.ctx, a)
	return acc == nil || !acc.IsContract()
}

func (r *c15Run) deadList() string {
	var out []string
	for _, a := range r.addrs {
		if r.isDead(a) {
			out = append(out, r.addr(a))
		}
	}
	return L(out)
}

// shadowRisk: would this operation create (or make possible later) a coin denomination that
// spells the hex address of a DIFFERENT registered pair?  Such inputs violate the unconditional
// lookup agreement (see C15_lookup_by_denom_unconditional_refuted) and are generated only in
// the shadow stream (VERIF_C15_SHADOW=1) and executed in replays.
func (r *c15Run) shadowRisk(op c15Op) bool {
	k := r.w.a.Erc20Keeper
	switch op.Kind {
	case "regcoin":
		if !common.IsHexAddress(op.Token) {
			return false
		}
		a := common.HexToAddress(op.Token)
		if k.IsERC20Registered(r.ctx, a) {
			return true
		}
		for _, p := range r.w.pool {
			if p == a && p != r.w.reserved {
				return true
			}
		}
	case "regerc20":
		a := common.HexToAddress(op.Token)
		if a == r.w.reserved {
			return true
		}
		for _, x := range k.GetAllTokenPairDenomIndexes(r.ctx) {
			if common.IsHexAddress(x.Denom) && common.HexToAddress(x.Denom) == a {
				return true
			}
		}
	}
	return false
}

// exec performs one operation on the real application and returns the model's operation term
// (with the external inputs recorded before the call) and the result class.
func (r *c15Run) exec(op c15Op) (opTerm string, res string) {
	a := r.w.a
	k := a.Erc20Keeper
	authority := r.w.auth
	if !op.Auth {
		authority = sdk.AccAddress(r.w.user.Bytes()).String()
	}
	userAcc := sdk.AccAddress(r.w.user.Bytes())
	class := func(err error) string {
		if err != nil {
			return "Rejected"
		}
		return "Ok"
	}
	switch op.Kind {
	case "mint":
		if sdk.ValidateDenom(op.Token) == nil {
			c := sdk.NewCoins(sdk.NewCoin(op.Token, sdkmath.NewInt(1000)))
			if err := a.BankKeeper.MintCoins(r.ctx, inflationtypes.ModuleName, c); err != nil {
				panic(err)
			}
			half := sdk.NewCoins(sdk.NewCoin(op.Token, sdkmath.NewInt(500)))
			if err := a.BankKeeper.SendCoinsFromModuleToAccount(r.ctx, inflationtypes.ModuleName, userAcc, half); err != nil {
				panic(err)
			}
		}
		return "OpEnv", "Ok"
	case "kill":
		ad := common.HexToAddress(op.Token)
		r.watchAddr(ad)
		sdb := statedb.New(r.ctx, a.EvmKeeper, statedb.NewEmptyTxConfig(common.BytesToHash(r.ctx.HeaderHash())))
		if sdb.Suicide(ad) {
			if err := sdb.Commit(); err != nil {
				panic(err)
			}
		}
		if op.Refund {
			dust := sdk.NewCoins(sdk.NewCoin("dustcoin", sdkmath.NewInt(1)))
			if err := a.BankKeeper.MintCoins(r.ctx, inflationtypes.ModuleName, dust); err != nil {
				panic(err)
			}
			if err := a.BankKeeper.SendCoinsFromModuleToAccount(r.ctx, inflationtypes.ModuleName, sdk.AccAddress(ad.Bytes()), dust); err != nil {
				panic(err)
			}
		}
		return "OpEnv", "Ok"
	case "regcoin":
		base := op.Token
		r.watchToken(base)
		md := c15Meta(base, op.Meta)
		ext := !strings.Contains(base, "CANTO") && a.BankKeeper.HasSupply(r.ctx, base)
		if stored, found := a.BankKeeper.GetDenomMetaData(r.ctx, base); found && erc20types.EqualMetadata(stored, md) != nil {
			ext = false
		}
		nonce, err := a.AccountKeeper.GetSequence(r.ctx, erc20types.ModuleAddress.Bytes())
		if err != nil {
			panic(err)
		}
		fresh := crypto.CreateAddress(erc20types.ModuleAddress, nonce)
		r.watchAddr(fresh)
		err = r.send(&erc20types.MsgRegisterCoin{Authority: authority, Title: "t", Description: "d", Metadata: md})
		return App("OpRegCoin", B(op.Auth), B(ext), r.tok(base), r.addr(fresh)), class(err)
	case "regerc20":
		contract := common.HexToAddress(op.Token)
		r.watchAddr(contract)
		qctx, _ := r.ctx.CacheContext()
		_, qerr := k.QueryERC20(qctx, contract)
		_, metaFound := a.BankKeeper.GetDenomMetaData(r.ctx, erc20types.CreateDenom(contract.String()))
		ext := qerr == nil && !metaFound
		err := r.send(&erc20types.MsgRegisterERC20{Authority: authority, Title: "t", Description: "d", Erc20Address: op.Token})
		return App("OpRegErc20", B(op.Auth), B(ext), r.addr(contract)), class(err)
	case "toggle":
		r.watchToken(op.Token)
		err := r.send(&erc20types.MsgToggleTokenConversion{Authority: authority, Title: "t", Description: "d", Token: op.Token})
		return App("OpToggle", B(op.Auth), r.tok(op.Token)), class(err)
	case "convcoin":
		// the handler's stateless validation is outside the model: only send what passes it
		if erc20types.ValidateErc20Denom(op.Token) != nil && ibctransfertypes.ValidateIBCDenom(op.Token) != nil {
			return "OpEnv", "Ok"
		}
		r.watchToken(op.Token)
		dead := r.deadList()
		err := r.send(&erc20types.MsgConvertCoin{Coin: sdk.Coin{Denom: op.Token, Amount: sdkmath.NewInt(1)}, Receiver: r.w.user.Hex(), Sender: userAcc.String()})
		return App("OpConvert", "true", r.tok(op.Token), dead), class(err)
	case "converc20":
		if !common.IsHexAddress(op.Token) {
			return "OpEnv", "Ok"
		}
		r.watchToken(op.Token)
		dead := r.deadList()
		err := r.send(&erc20types.MsgConvertERC20{ContractAddress: op.Token, Amount: sdkmath.NewInt(1), Receiver: userAcc.String(), Sender: r.w.user.Hex()})
		return App("OpConvert", "false", r.tok(op.Token), dead), class(err)
	case "setparams":
		p := k.GetParams(r.ctx)
		p.EnableErc20 = op.Enable
		err := r.send(&erc20types.MsgUpdateParams{Authority: authority, Params: p})
		return App("OpSetEnable", B(op.Auth), B(op.Enable)), class(err)
	case "expimp":
		gs := erc20.ExportGenesis(r.ctx, k)
		bz := a.AppCodec().MustMarshalJSON(gs)
		var gs2 erc20types.GenesisState
		a.AppCodec().MustUnmarshalJSON(bz, &gs2)
		if err := gs2.Validate(); err != nil {
			r.e.Stats.ImplFailures = append(r.e.Stats.ImplFailures, ImplFailure{Case: r.e.Stats.Cases, Step: r.step, Monitor: "exported-genesis-invalid", Detail: err.Error()})
		}
		store := r.ctx.KVStore(a.GetKey(erc20types.StoreKey))
		for _, pfx := range [][]byte{erc20types.KeyPrefixTokenPair, erc20types.KeyPrefixTokenPairByERC20Address, erc20types.KeyPrefixTokenPairByDenom} {
			var ks [][]byte
			it := storetypes.KVStorePrefixIterator(store, pfx)
			for ; it.Valid(); it.Next() {
				ks = append(ks, append([]byte{}, it.Key()...))
			}
			it.Close()
			for _, key := range ks {
				store.Delete(key)
			}
		}
		erc20.InitGenesis(r.ctx, k, a.AccountKeeper, gs2)
		return "OpExportImport", "Ok"
	}
	panic("c15: unknown op kind " + op.Kind)
}

// ---------- generators ----------

type c15Gen struct {
	r     *c15Run
	e     *Env
	coins []string // coin denominations this case plays with
}

var c15PlainDenoms = []string{"acoin", "bcoin", "Acoin", "coinx", "ibc/27394FB092D2ECCD56123C74F36E4C1F926001CEADA9CA97EA622B25F41E5EB2", "u-v.w:z"}

func (g *c15Gen) pickPool() common.Address {
	w := g.r.w
	for {
		a := w.pool[g.e.Pick(len(w.pool))]
		if a != w.reserved || g.r.shad {
			return a
		}
	}
}

func (g *c15Gen) registered() []erc20types.TokenPair {
	return g.r.w.a.Erc20Keeper.GetTokenPairs(g.r.ctx)
}

// a token string designating pair p: its denomination or some spelling of its address
func (g *c15Gen) tokenFor(p erc20types.TokenPair) string {
	if g.e.Chance(0.45) {
		return p.Denom
	}
	sp := c15Spellings(p.GetERC20Contract())
	return sp[g.e.Pick(len(sp))]
}

// hex-shaped denominations that shadow nothing: spellings of addresses that are never registered
func (g *c15Gen) safeHexDenoms() []string {
	lower := hex.EncodeToString(g.r.w.reserved.Bytes())
	return []string{lower, strings.ToUpper(lower), "c0ffee254729296a45a3885639ac7e10f9d54979", "ABCDEFabcdef0123456789ABCDEFabcdef012345"}
}

func (g *c15Gen) next() c15Op {
	e := g.e
	pairs := g.registered()
	if !g.r.w.a.Erc20Keeper.GetParams(g.r.ctx).EnableErc20 && e.Chance(0.3) {
		return c15Op{Kind: "setparams", Enable: true, Auth: !e.Chance(0.1)}
	}
	roll := e.Pick(100)
	switch {
	case roll < 32: // coin flow: supply, then registration, then sometimes a repeat
		d := g.coins[e.Pick(len(g.coins))]
		k := g.r.w.a.Erc20Keeper
		m := 0
		if e.Chance(0.08) {
			m = 1
		}
		switch {
		case sdk.ValidateDenom(d) == nil && !g.r.w.a.BankKeeper.HasSupply(g.r.ctx, d):
			if e.Chance(0.9) {
				return c15Op{Kind: "mint", Token: d, Auth: true}
			}
			return c15Op{Kind: "regcoin", Token: d, Auth: true, Meta: m}
		case !k.IsDenomRegistered(g.r.ctx, d):
			return c15Op{Kind: "regcoin", Token: d, Auth: !e.Chance(0.05), Meta: m}
		default:
			if e.Chance(0.5) {
				return c15Op{Kind: "regcoin", Token: d, Auth: true, Meta: m}
			}
			return c15Op{Kind: "toggle", Token: d, Auth: true}
		}
	case roll < 48:
		a := g.pickPool()
		sp := c15Spellings(a)
		s := sp[0]
		if e.Chance(0.3) {
			s = sp[e.Pick(len(sp))]
		}
		return c15Op{Kind: "regerc20", Token: s, Auth: !e.Chance(0.05)}
	case roll < 56: // repeats and cross registrations
		if len(pairs) == 0 {
			return c15Op{Kind: "regerc20", Token: g.pickPool().Hex(), Auth: true}
		}
		p := pairs[e.Pick(len(pairs))]
		switch e.Pick(4) {
		case 0:
			return c15Op{Kind: "regcoin", Token: p.Denom, Auth: true}
		case 1:
			return c15Op{Kind: "regerc20", Token: p.Erc20Address, Auth: true}
		case 2: // the coin of an ERC-20 that is (or is not yet) registered
			return c15Op{Kind: "mint", Token: erc20types.CreateDenom(g.pickPool().String()), Auth: true}
		default:
			return c15Op{Kind: "regcoin", Token: erc20types.CreateDenom(g.pickPool().String()), Auth: true}
		}
	case roll < 74: // toggles
		if len(pairs) == 0 || e.Chance(0.08) {
			junk := []string{"nosuchcoin", "0x0000000000000000000000000000000000000001", g.coins[e.Pick(len(g.coins))], g.pickPool().Hex()}
			return c15Op{Kind: "toggle", Token: junk[e.Pick(len(junk))], Auth: true}
		}
		return c15Op{Kind: "toggle", Token: g.tokenFor(pairs[e.Pick(len(pairs))]), Auth: !e.Chance(0.05)}
	case roll < 82: // a contract disappears
		if len(pairs) == 0 {
			return c15Op{Kind: "kill", Token: g.pickPool().Hex(), Auth: true, Refund: e.Chance(0.5)}
		}
		return c15Op{Kind: "kill", Token: pairs[e.Pick(len(pairs))].Erc20Address, Auth: true, Refund: e.Chance(0.5)}
	case roll < 92: // conversions (removal when the contract is gone)
		if len(pairs) == 0 {
			return c15Op{Kind: "convcoin", Token: g.coins[e.Pick(len(g.coins))], Auth: true}
		}
		p := pairs[e.Pick(len(pairs))]
		// prefer pairs whose contract is gone
		for i := 0; i < 3 && !g.r.isDead(p.GetERC20Contract()); i++ {
			p = pairs[e.Pick(len(pairs))]
		}
		if e.Chance(0.5) {
			return c15Op{Kind: "convcoin", Token: p.Denom, Auth: true}
		}
		sp := c15Spellings(p.GetERC20Contract())
		return c15Op{Kind: "converc20", Token: sp[e.Pick(len(sp))], Auth: true}
	case roll < 95:
		en := g.r.w.a.Erc20Keeper.GetParams(g.r.ctx).EnableErc20
		if !en {
			return c15Op{Kind: "setparams", Enable: true, Auth: !e.Chance(0.1)}
		}
		return c15Op{Kind: "setparams", Enable: e.Chance(0.3), Auth: !e.Chance(0.1)}
	default:
		return c15Op{Kind: "expimp", Auth: true}
	}
}

// scripted boundary and malformed histories; A, B pool contracts, H a safe hex-shaped denomination
func c15Scripts(w *c15World) []c15Case {
	A, Bc, Cc := w.pool[0].Hex(), w.pool[1].Hex(), w.pool[2].Hex()
	if w.pool[0] == w.reserved {
		A = w.pool[3].Hex()
	}
	lowA := strings.ToLower(A[2:])
	H := hex.EncodeToString(w.reserved.Bytes())
	HU := strings.ToUpper(H)
	eA := erc20types.CreateDenom(common.HexToAddress(A).String())
	t := func(kind, tok string) c15Op { return c15Op{Kind: kind, Token: tok, Auth: true} }
	na := func(kind, tok string) c15Op { return c15Op{Kind: kind, Token: tok, Auth: false} }
	en := func(b bool) c15Op { return c15Op{Kind: "setparams", Enable: b, Auth: true} }
	return []c15Case{
		{Stream: "boundary:register-delete-reregister", Ops: []c15Op{t("mint", "acoin"), t("regcoin", "acoin"), t("regcoin", "acoin"), t("toggle", "acoin"), t("toggle", "acoin"),
			t("expimp", ""), t("kill", "@coin:acoin"), t("convcoin", "acoin"), t("expimp", ""), t("toggle", "acoin"), t("regcoin", "acoin"), t("toggle", "acoin"), t("expimp", "")}},
		{Stream: "boundary:dead-contract-address-funded-again", Ops: []c15Op{t("regerc20", A), {Kind: "kill", Token: A, Auth: true, Refund: true}, t("converc20", A), t("regerc20", A),
			t("mint", "acoin"), t("regcoin", "acoin"), {Kind: "kill", Token: "@coin:acoin", Auth: true, Refund: true}, t("convcoin", "acoin"), t("regcoin", "acoin")}},
		// a coin merely NAMED like the address of a pair whose contract is gone: ConvertCoin refuses it before it looks at
		// the contract (fix 1aaf795), so the pair stays until a conversion that names the pair itself prunes it
		{Stream: "boundary:dead-contract-named-by-a-lookalike-coin", Ops: []c15Op{t("regerc20", "0x"+H), {Kind: "kill", Token: "0x" + H, Auth: true, Refund: true}, t("convcoin", H),
			t("toggle", H), t("convcoin", H), t("toggle", "0x"+H), t("convcoin", erc20types.CreateDenom(w.reserved.String())), t("regerc20", "0x"+H)}},
		{Stream: "boundary:disabled-pair-dead-contract", Ops: []c15Op{t("regerc20", A), t("toggle", A), t("kill", A), t("converc20", A), t("convcoin", eA), t("toggle", lowA),
			t("converc20", "0X"+strings.ToUpper(lowA)), t("regerc20", A), t("toggle", A), t("toggle", eA)}},
		{Stream: "boundary:module-disabled", Ops: []c15Op{t("regerc20", A), t("mint", "bcoin"), en(false), t("regcoin", "bcoin"), t("regerc20", Bc), t("toggle", eA), t("kill", A),
			t("converc20", A), en(true), t("toggle", A), t("convcoin", eA), t("regcoin", "bcoin")}},
		{Stream: "boundary:hex-shaped-denomination", Ops: []c15Op{t("mint", H), t("regcoin", H), t("toggle", H), t("toggle", "0x"+H), t("mint", HU), t("regcoin", HU), t("toggle", HU), t("regcoin", H),
			t("expimp", ""), t("convcoin", H), t("toggle", H), t("regerc20", Bc), t("toggle", H)}},
		{Stream: "boundary:hex-shaped-denomination-removal", Ops: []c15Op{t("mint", H), t("regcoin", H), t("regerc20", A), t("kill", A), t("convcoin", H), t("converc20", H), t("converc20", A), t("toggle", H), t("expimp", ""),
			t("kill", "@coin:"+H), t("toggle", H), t("converc20", H), t("toggle", H), t("converc20", H), t("regcoin", H), t("convcoin", H)}},
		{Stream: "boundary:cross-registration", Ops: []c15Op{t("regerc20", A), t("mint", eA), t("regcoin", eA), t("regerc20", lowA), t("mint", erc20types.CreateDenom(common.HexToAddress(Bc).String())),
			t("regcoin", erc20types.CreateDenom(common.HexToAddress(Bc).String())), t("regerc20", Bc), t("mint", "erc20/"+strings.ToLower(Cc)), t("regcoin", "erc20/"+strings.ToLower(Cc)), t("regerc20", Cc), t("expimp", "")}},
		{Stream: "boundary:coin-contract-as-erc20", Ops: []c15Op{t("mint", "acoin"), t("regcoin", "acoin"), {Kind: "regerc20", Token: "@coin:acoin", Auth: true}, {Kind: "kill", Token: "@coin:acoin", Auth: true},
			{Kind: "regerc20", Token: "@coin:acoin", Auth: true}, t("convcoin", "acoin"), {Kind: "regerc20", Token: "@coin:acoin", Auth: true}, t("regcoin", "acoin")}},
		{Stream: "boundary:metadata-and-supply", Ops: []c15Op{t("regcoin", "acoin"), t("mint", "acoin"), {Kind: "regcoin", Token: "acoin", Auth: true, Meta: 1}, t("kill", "@coin:acoin"), t("convcoin", "acoin"),
			{Kind: "regcoin", Token: "acoin", Auth: true, Meta: 0}, {Kind: "regcoin", Token: "acoin", Auth: true, Meta: 1}, t("mint", "xCANTOx"), t("regcoin", "xCANTOx")}},
		{Stream: "malformed:authority", Ops: []c15Op{t("mint", "acoin"), na("regcoin", "acoin"), na("regerc20", A), t("regcoin", "acoin"), t("regerc20", A), na("toggle", "acoin"), na("toggle", A),
			{Kind: "setparams", Enable: false, Auth: false}, t("toggle", A), t("expimp", "")}},
		{Stream: "malformed:tokens", Ops: []c15Op{t("regerc20", "0x0000000000000000000000000000000000000000"), t("regerc20", "not-an-address"), t("regerc20", w.user.Hex()), t("regerc20", "0x1234"),
			t("toggle", ""), t("toggle", "0x123"), t("toggle", "not a denom!"), t("toggle", "erc20/"), t("regerc20", A), t("toggle", A+"00"), t("toggle", " "+A), t("converc20", "0x0000000000000000000000000000000000000000"),
			t("convcoin", "nosuchcoin"), t("convcoin", "erc20/0x123"), t("regcoin", "1bad"), t("expimp", "")}},
	}
}

func c15ShadowScripts(w *c15World) []c15Case {
	S := w.reserved.Hex()
	H := hex.EncodeToString(w.reserved.Bytes())
	t := func(kind, tok string) c15Op { return c15Op{Kind: kind, Token: tok, Auth: true} }
	return []c15Case{
		{Stream: "shadow:erc20-then-coin", Ops: []c15Op{t("regerc20", S), t("mint", H), t("regcoin", H), t("toggle", H), t("toggle", S)}},
		{Stream: "shadow:coin-then-erc20", Ops: []c15Op{t("mint", H), t("regcoin", H), t("toggle", H), t("regerc20", S), t("toggle", H), t("kill", S), t("convcoin", H)}},
	}
}

// ---------- runner ----------

func runC15(e *Env) {
	e.Header("From stdpp Require Import gmap.\nFrom Canto Require Import Model.TokenPairs Check.Common Check.TokenPairsCheck.\nOpen Scope Z_scope.\n")
	e.Stats.Rule = "case = history of real erc20 messages through the app's message router on a branch of one app (RegisterCoin with bank supply/metadata set up, RegisterERC20 of deployed ERC20MinterBurnerDecimals contracts, repeats and cross-registrations, toggles by denomination and by five spellings of the address, self-destruct (statedb.Suicide) followed by ConvertCoin/ConvertERC20 -> removal, UpdateParams, genesis export/JSON/validate/import into an emptied store); streams: random structured histories, scripted boundary histories (one per guard of the model), malformed (authority, junk tokens/addresses); after every operation: the three raw store tables, the TokenPairs listing, lookups of every token string and id seen so far (keeper and TokenPair query), result class; non-trivial = at least one accepted registration plus one accepted toggle or removal; distinct by hash of the (kind, result, table sizes) sequence"
	e.ShardSize = 10 // cases are large; more, smaller shards evaluate in parallel
	w := c15NewWorld()
	shadowOn := os.Getenv("VERIF_C15_SHADOW") != "0" // on by default: the residual finding is listed in known_findings.txt
	var cases []c15Case
	if e.Replay != nil {
		var kase c15Case
		mustUnmarshal(e.Replay, &kase)
		cases = []c15Case{kase}
	} else {
		cases = append(cases, c15Scripts(w)...)
		if shadowOn {
			cases = append(cases, c15ShadowScripts(w)...)
		}
		n := e.Scale(50, 1500)
		if e.Tier == "search" {
			n = 200
		}
		for i := 0; i < n; i++ {
			cases = append(cases, c15Case{Stream: "history"})
		}
	}
	for _, kase := range cases {
		shadow := e.Replay != nil || strings.HasPrefix(kase.Stream, "shadow:") || shadowOn
		r := c15NewRun(w, e, shadow)
		generate := kase.Stream == "history" && e.Replay == nil && len(kase.Ops) == 0
		g := &c15Gen{r: r, e: e}
		nOps := len(kase.Ops)
		if generate {
			nOps = 8 + e.Pick(e.Scale(22, 40))
			perm := e.Rng.Perm(len(c15PlainDenoms))
			g.coins = []string{c15PlainDenoms[perm[0]], c15PlainDenoms[perm[1]], c15PlainDenoms[perm[2]]}
			hx := g.safeHexDenoms()
			g.coins = append(g.coins, hx[e.Pick(len(hx))])
			if shadowOn {
				g.coins = append(g.coins, hex.EncodeToString(w.letter[e.Pick(len(w.letter))].Bytes()))
			}
		}
		e.Stats.Count("stream:" + strings.SplitN(kase.Stream, ":", 2)[0])
		init, nPrev := r.observe("Ok")
		removedDenoms := map[string]bool{}
		var steps []string
		sig := ""
		okReg, okOther := false, false
		var done []c15Op
		for i := 0; i < nOps; i++ {
			var op c15Op
			if generate {
				op = g.next()
				for tries := 0; tries < 20 && !r.shad && r.shadowRisk(op); tries++ {
					op = g.next()
				}
			} else {
				op = kase.Ops[i]
			}
			// "@coin:<denom>" names the contract currently (or last) paired with that coin
			real := op
			if strings.HasPrefix(op.Token, "@coin:") {
				real.Token = r.coinContract(strings.TrimPrefix(op.Token, "@coin:"))
			}
			if !r.shad && r.shadowRisk(real) {
				real = c15Op{Kind: "mint", Token: "", Auth: true} // no-op; keeps default runs free of the known shadowing input
			}
			r.step = i
			opTerm, res := r.exec(real)
			e.Stats.Evaluations++
			e.Stats.Count("op:" + real.Kind)
			e.Stats.Count("result:" + real.Kind + ":" + res)
			obs, n := r.observe(res)
			if n < nPrev {
				e.Stats.Count("event:pair-removed")
			}
			if real.Kind == "expimp" && n > 0 {
				e.Stats.Count("event:export-import-of-nonempty-registry")
			}
			if res == "Ok" && real.Kind == "regcoin" && removedDenoms[real.Token] {
				e.Stats.Count("event:coin-reregistered-after-removal")
			}
			if n < nPrev && real.Kind == "convcoin" {
				removedDenoms[real.Token] = true
			}
			if res == "Ok" && real.Kind == "toggle" {
				if common.IsHexAddress(real.Token) {
					e.Stats.Count("event:toggle-by-address-spelling")
				} else {
					e.Stats.Count("event:toggle-by-denomination")
				}
			}
			nPrev = n
			steps = append(steps, App("ST", opTerm, obs))
			sig += fmt.Sprintf("%s/%s/%d;", real.Kind, res, n)
			if res == "Ok" && (real.Kind == "regcoin" || real.Kind == "regerc20") {
				okReg = true
			}
			if res == "Ok" && (real.Kind == "toggle" || real.Kind == "convcoin" || real.Kind == "converc20") {
				okOther = true
			}
			done = append(done, real)
		}
		kase.Ops = done
		if okReg && okOther {
			e.Stats.Nontrivial(sig)
		}
		// let-bound names keep the case file small
		var b strings.Builder
		for _, d := range r.adrDefs {
			b.WriteString(d + " ")
		}
		for _, d := range r.tokDefs {
			b.WriteString(d + " ")
		}
		b.WriteString(App("mkTpCase", init, L(steps)))
		e.AddCase("check_case", b.String(), kase)
		e.Stats.Sample(kase)
	}
}

// coinContract returns the address string of the contract paired with a coin denomination
// (the last one seen when the pair is gone).
func (r *c15Run) coinContract(denom string) string {
	last := "0x00000000000000000000000000000000000000c0"
	for _, h := range r.idOrder {
		if v := r.ids[h]; v[1] == denom {
			last = v[0]
		}
	}
	return last
}
