//go:build verif

package harness

// C07 — only a message's required signers can be debited by it.
//
// For generated messages of the five user message types (MsgSwapOrder as sell and buy order, MsgAddLiquidity,
// MsgRemoveLiquidity, MsgConvertCoin, MsgConvertERC20) with independently chosen payer, recipient, amounts and
// textual presentation of every address field:
//   1. the REAL codec derives the signers  (app.AppCodec().GetMsgV1Signers -> InterfaceRegistry().SigningContext());
//   2. the same message object is executed by the REAL message server, reached through the app's MsgServiceRouter,
//      on a branch of the state that is written only on success (message atomicity);
//   3. the complete bank balances of every tracked account (users, bystanders, pool reserves, all module accounts,
//      the zero address, whatever address a malformed hex sender decodes to) in every tracked denomination, and the
//      ERC-20 balances of the same accounts on both pairs' contracts, are diffed before/after; a digest of every
//      other balance and supply of the bank must not move.
// Check/SignersCheck.v compares with the model and evaluates the monitors on these observations.

import (
	"encoding/hex"
	"fmt"
	"math/big"
	"sort"
	"strings"

	sdkmath "cosmossdk.io/math"
	sdk "github.com/cosmos/cosmos-sdk/types"
	"github.com/ethereum/go-ethereum/common"

	coinswaptypes "github.com/Canto-Network/Canto/v8/x/coinswap/types"
	erc20types "github.com/Canto-Network/Canto/v8/x/erc20/types"
)

func init() { runners["C07"] = c07Run }

// ---- replay format ----
type c07Params struct {
	Fee     string   `json:"fee"` // LegacyDec raw integer
	CfeeAmt string   `json:"cfee_amt"`
	Tax     string   `json:"tax"`
	Cap     string   `json:"cap"`
	WL      []string `json:"wl"` // whitelisted token codes
	WLMax   string   `json:"wl_max"`
}

type c07Op struct {
	Kind         string   `json:"kind"` // sell | buy | add | remove | convert-coin | convert-erc20
	NowNs        string   `json:"now_ns"`
	Payer        string   `json:"payer"`      // account code U0..U3
	PayerPres    string   `json:"payer_pres"` // presentation of the paying address field
	Rcpt         string   `json:"rcpt,omitempty"`
	RcptPres     string   `json:"rcpt_pres,omitempty"`
	Din          string   `json:"din,omitempty"` // denom codes S T0 L1
	Dout         string   `json:"dout,omitempty"`
	A            []string `json:"a"` // amounts, meaning per kind
	Deadline     int64    `json:"deadline,omitempty"`
	Pair         int      `json:"pair,omitempty"`
	ContractPres string   `json:"contract_pres,omitempty"`
}

type c07Case struct {
	Params c07Params `json:"params"`
	Ops    []c07Op   `json:"ops"`
}

var c07S18 = new(big.Int).Exp(big.NewInt(10), big.NewInt(18), nil)

func (w *c07World) c07ToParams(p c07Params) coinswaptypes.Params {
	var wl sdk.Coins
	for _, c := range p.WL {
		wl = append(wl, sdk.Coin{Denom: w.denoms[c], Amount: sdkmath.NewIntFromBigInt(bigOf(p.WLMax))})
	}
	sort.Slice(wl, func(i, j int) bool { return wl[i].Denom < wl[j].Denom })
	return coinswaptypes.Params{
		Fee:                    sdkmath.LegacyNewDecFromBigIntWithPrec(bigOf(p.Fee), 18),
		PoolCreationFee:        sdk.Coin{Denom: w.std, Amount: sdkmath.NewIntFromBigInt(bigOf(p.CfeeAmt))},
		TaxRate:                sdkmath.LegacyNewDecFromBigIntWithPrec(bigOf(p.Tax), 18),
		MaxStandardCoinPerPool: sdkmath.NewIntFromBigInt(bigOf(p.Cap)),
		MaxSwapAmount:          wl,
	}
}

// the stored parameters as the model's record (whitelist in the keeper's iteration order)
func (w *c07World) c07ParamsTerm(ctx sdk.Context) string {
	p := w.a.CoinswapKeeper.GetParams(ctx)
	var wl []string
	for _, c := range p.MaxSwapAmount {
		wl = append(wl, Tup(c07DenomTerm(w.c07DenomCode(c.Denom)), Z(c.Amount.BigInt())))
	}
	return App("mkParams", Z(p.Fee.BigInt()), c07DenomTerm(w.c07DenomCode(p.PoolCreationFee.Denom)), Z(p.PoolCreationFee.Amount.BigInt()),
		Z(p.TaxRate.BigInt()), Z(p.MaxStandardCoinPerPool.BigInt()), L(wl))
}

// ---- message construction ----

func (w *c07World) c07Msg(op c07Op) sdk.Msg {
	coin := func(dc string, amt string) sdk.Coin {
		return sdk.Coin{Denom: w.denoms[dc], Amount: sdkmath.NewIntFromBigInt(bigOf(amt))}
	}
	payer := c07Text(w.accts[op.Payer], op.PayerPres)
	switch op.Kind {
	case "sell", "buy":
		return &coinswaptypes.MsgSwapOrder{
			Input:      coinswaptypes.Input{Address: payer, Coin: coin(op.Din, op.A[0])},
			Output:     coinswaptypes.Output{Address: c07Text(w.accts[op.Rcpt], op.RcptPres), Coin: coin(op.Dout, op.A[1])},
			Deadline:   op.Deadline,
			IsBuyOrder: op.Kind == "buy",
		}
	case "add":
		return &coinswaptypes.MsgAddLiquidity{MaxToken: coin(op.Din, op.A[0]), ExactStandardAmt: sdkmath.NewIntFromBigInt(bigOf(op.A[1])),
			MinLiquidity: sdkmath.NewIntFromBigInt(bigOf(op.A[2])), Deadline: op.Deadline, Sender: payer}
	case "remove":
		return &coinswaptypes.MsgRemoveLiquidity{WithdrawLiquidity: coin(op.Din, op.A[0]), MinStandardAmt: sdkmath.NewIntFromBigInt(bigOf(op.A[1])),
			MinToken: sdkmath.NewIntFromBigInt(bigOf(op.A[2])), Deadline: op.Deadline, Sender: payer}
	case "convert-coin":
		p := w.pairs[op.Pair-1]
		return &erc20types.MsgConvertCoin{Coin: sdk.Coin{Denom: p.Denom, Amount: sdkmath.NewIntFromBigInt(bigOf(op.A[0]))},
			Receiver: c07Text(w.accts[op.Rcpt], op.RcptPres), Sender: payer}
	case "convert-erc20":
		p := w.pairs[op.Pair-1]
		return &erc20types.MsgConvertERC20{ContractAddress: c07Text(p.Contract.Bytes(), op.ContractPres), Amount: sdkmath.NewIntFromBigInt(bigOf(op.A[0])),
			Receiver: c07Text(w.accts[op.Rcpt], op.RcptPres), Sender: payer}
	}
	panic("unknown kind " + op.Kind)
}

// the signers the REAL codec derives
var c07HeldSigners, c07HeldCopy [][]byte

func c07SameBytes(a, b [][]byte) bool {
	if len(a) != len(b) {
		return false
	}
	for i := range a {
		if string(a[i]) != string(b[i]) {
			return false
		}
	}
	return true
}

func (w *c07World) c07Signers(msg sdk.Msg) (signers [][]byte, ok bool) {
	defer func() {
		if r := recover(); r != nil {
			signers, ok = nil, false
		}
	}()
	s, _, err := w.a.AppCodec().GetMsgV1Signers(msg)
	if err != nil {
		return nil, false
	}
	return s, true
}

// execution by the real message server (through the router, as baseapp.runMsgs does)
func (w *c07World) c07Deliver(ctx sdk.Context, op c07Op, msg sdk.Msg) bool {
	ctx = ctx.WithBlockTime(nsToTime(bigOf(op.NowNs)))
	h := w.a.MsgServiceRouter().Handler(msg)
	if h == nil {
		panic("no handler for " + sdk.MsgTypeURL(msg))
	}
	err := Try(ctx, func(c sdk.Context) error {
		_, err := h(c, msg)
		return err
	})
	return err == nil
}

// oracle inputs of the conversion model: does MintingEnabled let this conversion through; has the contract code
func (w *c07World) c07Gate(ctx sdk.Context, op c07Op, msg sdk.Msg) (gate, hasCode bool) {
	cctx, _ := ctx.CacheContext()
	p := w.pairs[op.Pair-1]
	acc := w.a.EvmKeeper.GetAccountWithoutBalance(cctx, p.Contract)
	hasCode = acc != nil && acc.IsContract()
	defer func() {
		if r := recover(); r != nil {
			gate = false
		}
	}()
	switch m := msg.(type) {
	case *erc20types.MsgConvertCoin:
		sender, err := sdk.AccAddressFromBech32(m.Sender)
		if err != nil || !common.IsHexAddress(m.Receiver) {
			return false, hasCode
		}
		_, err = w.a.Erc20Keeper.MintingEnabled(cctx, sender, common.HexToAddress(m.Receiver).Bytes(), m.Coin.Denom)
		return err == nil, hasCode
	case *erc20types.MsgConvertERC20:
		receiver, err := sdk.AccAddressFromBech32(m.Receiver)
		if err != nil || !common.IsHexAddress(m.Sender) || !common.IsHexAddress(m.ContractAddress) {
			return false, hasCode
		}
		_, err = w.a.Erc20Keeper.MintingEnabled(cctx, common.HexToAddress(m.Sender).Bytes(), receiver, m.ContractAddress)
		return err == nil, hasCode
	}
	return false, hasCode
}

// ---- op -> Coq term ----
func (w *c07World) c07MsgTerm(op c07Op, junk []byte, gate, hasCode bool) string {
	z := func(i int) string { return Z(bigOf(op.A[i])) }
	text := func(code, pres string) string { return App("mkText", c07PresTerm(pres), w.c07CodeTerm(code)) }
	pn, pp := w.c07UserNum(op.Payer), c07PresTerm(op.PayerPres)
	switch op.Kind {
	case "sell", "buy":
		return App("MSwapOrder", pn, pp, text(op.Rcpt, op.RcptPres), B(op.Kind == "buy"), c07DenomTerm(op.Din), z(0), c07DenomTerm(op.Dout), z(1), Zi(op.Deadline))
	case "add":
		return App("MAddLiquidity", pn, pp, c07DenomTerm(op.Din), z(0), z(1), z(2), Zi(op.Deadline))
	case "remove":
		return App("MRemoveLiquidity", pn, pp, c07DenomTerm(op.Din), z(0), z(1), z(2), Zi(op.Deadline))
	case "convert-coin":
		return App("MConvertCoin", pn, pp, text(op.Rcpt, op.RcptPres), Zi(int64(op.Pair)), z(0), B(gate), B(hasCode))
	default:
		return App("MConvertERC20", pn, pp, w.c07AcctTerm(junk), text(op.Rcpt, op.RcptPres), Zi(int64(op.Pair)), c07PresTerm(op.ContractPres), z(0), B(gate), B(hasCode))
	}
}

// ---- generation ----

var c07BechForms = []string{"bech", "bechU"}
var c07HexForms = []string{"hex0x", "hexbare", "eip55", "hexU"}

// a presentation for a field that accepts bech32 (hexField=false) or hex (hexField=true)
func (e *Env) c07Pres(hexField bool, pWrong float64) string {
	good, other := c07BechForms, c07HexForms
	if hexField {
		good, other = c07HexForms, c07BechForms
	}
	r := e.Rng.Float64()
	switch {
	case r < pWrong*0.4: // the other family
		return other[e.Pick(len(other))]
	case r < pWrong:
		return c07BadKinds[e.Pick(len(c07BadKinds))]
	}
	if hexField {
		return good[e.Pick(len(good))]
	}
	if e.Chance(0.2) {
		return "bechU"
	}
	return "bech"
}

func c07InputPrice(ain, inres, outres, fee *big.Int) *big.Int {
	g := new(big.Int).Sub(c07S18, fee)
	awf := new(big.Int).Mul(ain, g)
	num := new(big.Int).Mul(awf, outres)
	den := new(big.Int).Add(new(big.Int).Mul(inres, c07S18), awf)
	if den.Sign() == 0 {
		return big.NewInt(0)
	}
	return num.Quo(num, den)
}
func c07OutputPrice(aout, inres, outres, fee *big.Int) *big.Int {
	g := new(big.Int).Sub(c07S18, fee)
	num := new(big.Int).Mul(new(big.Int).Mul(inres, aout), c07S18)
	den := new(big.Int).Mul(new(big.Int).Sub(outres, aout), g)
	if den.Sign() <= 0 {
		return big.NewInt(1)
	}
	return new(big.Int).Add(num.Quo(num, den), big.NewInt(1))
}

// an amount aimed at a bound (a balance or a reserve): small, a fraction, exactly the bound, one beyond, zero
func (e *Env) c07Amount(bound *big.Int, tag string) *big.Int {
	if bound == nil || bound.Sign() <= 0 {
		return big.NewInt(int64(1 + e.Pick(50)))
	}
	r := e.Pick(20)
	switch {
	case r < 4:
		return big.NewInt(int64(1 + e.Pick(20)))
	case r < 14:
		d := big.NewInt(int64(2 + e.Pick(40)))
		return new(big.Int).Add(new(big.Int).Div(bound, d), big.NewInt(1))
	case r < 16:
		e.Stats.Count("boundary:" + tag + "-exactly-the-balance")
		return new(big.Int).Set(bound)
	case r < 18:
		e.Stats.Count("boundary:" + tag + "-balance-plus-1")
		return new(big.Int).Add(bound, big.NewInt(1))
	case r < 19:
		return big.NewInt(0)
	}
	return new(big.Int).Add(e.Below(bound), big.NewInt(1))
}

func (e *Env) c07Recipient(w *c07World, payer string, kind string, pool int64) string {
	r := e.Rng.Float64()
	otherUser := func() string {
		for {
			u := fmt.Sprintf("U%d", e.Pick(c07Users))
			if u != payer {
				return u
			}
		}
	}
	switch {
	case r < 0.30:
		return payer
	case r < 0.68:
		return otherUser()
	case r < 0.78: // a pool reserve: the traded pool's own, or another
		if pool > 0 && e.Chance(0.6) {
			return fmt.Sprintf("E%d", pool)
		}
		return fmt.Sprintf("E%d", 1+e.Pick(c07MaxPool))
	case r < 0.86:
		return "M3" // the erc20 module account
	case r < 0.94:
		return fmt.Sprintf("M%d", e.Pick(len(c07Modules)))
	}
	return "Z0"
}

func (e *Env) c07GenOp(w *c07World, o c07Obs, fee *big.Int, now *big.Int) c07Op {
	op := c07Op{NowNs: now.String(), Payer: fmt.Sprintf("U%d", e.Pick(c07Users))}
	bal := func(ac, dc string) *big.Int { return o.bal[ac+"|"+dc] }
	sec := new(big.Int).Div(now, big.NewInt(1_000_000_000)).Int64()
	op.Deadline = sec + 1000
	if e.Chance(0.04) {
		op.Deadline = sec - 1
	}
	kinds := []string{"sell", "buy", "add", "remove", "convert-coin", "convert-erc20"}
	weights := []int{18, 18, 14, 12, 19, 19}
	if len(o.pools) == 0 {
		weights[2] = 80
	}
	total := 0
	for _, x := range weights {
		total += x
	}
	r := e.Pick(total)
	for i, x := range weights {
		if r < x {
			op.Kind = kinds[i]
			break
		}
		r -= x
	}
	poolSeq := func(ti int) int64 {
		for _, p := range o.pools {
			if p[0] == int64(ti) {
				return p[1]
			}
		}
		return 0
	}
	ti := e.Pick(c07Tokens)
	if (op.Kind == "sell" || op.Kind == "buy") && len(o.pools) > 0 && e.Chance(0.92) {
		ti = int(o.pools[e.Pick(len(o.pools))][0])
	}
	tok := fmt.Sprintf("T%d", ti)
	seq := poolSeq(ti)
	esc := fmt.Sprintf("E%d", seq)
	switch op.Kind {
	case "sell", "buy":
		op.PayerPres = e.c07Pres(false, 0.16)
		op.Rcpt = e.c07Recipient(w, op.Payer, op.Kind, seq)
		op.RcptPres = e.c07Pres(false, 0.10)
		op.Din, op.Dout = tok, "S"
		if e.Chance(0.5) {
			op.Din, op.Dout = "S", tok
		}
		if e.Chance(0.03) {
			op.Din, op.Dout = "T0", "T1" // neither side is the standard coin
		}
		var inres, outres *big.Int
		if seq > 0 {
			inres, outres = bal(esc, op.Din), bal(esc, op.Dout)
		}
		live := inres != nil && inres.Sign() > 0 && outres.Sign() > 0
		if op.Kind == "sell" {
			ain := e.c07Amount(bal(op.Payer, op.Din), "sell-input")
			minOut := big.NewInt(1)
			if live {
				exact := c07InputPrice(ain, inres, outres, fee)
				switch e.Pick(6) {
				case 0:
					minOut = exact
					e.Stats.Count("boundary:sell-min-just-met")
				case 1:
					minOut = new(big.Int).Add(exact, big.NewInt(1))
					e.Stats.Count("boundary:sell-min-just-missed")
				}
			}
			if minOut.Sign() <= 0 {
				minOut = big.NewInt(1)
			}
			op.A = []string{ain.String(), minOut.String()}
		} else {
			aout := big.NewInt(int64(1 + e.Pick(50)))
			if live {
				aout = e.c07Amount(new(big.Int).Div(outres, big.NewInt(3)), "buy-output")
				if aout.Sign() <= 0 {
					aout = big.NewInt(1)
				}
			}
			maxIn := new(big.Int).Set(bal(op.Payer, op.Din))
			if live && aout.Cmp(outres) < 0 {
				exact := c07OutputPrice(aout, inres, outres, fee)
				switch e.Pick(6) {
				case 0:
					maxIn = exact
					e.Stats.Count("boundary:buy-max-just-met")
				case 1:
					maxIn = new(big.Int).Sub(exact, big.NewInt(1))
					e.Stats.Count("boundary:buy-max-just-missed")
				case 2: // the payer cannot afford it although the limit allows it
					maxIn = new(big.Int).Add(bal(op.Payer, op.Din), exact)
				}
			}
			if maxIn.Sign() <= 0 {
				maxIn = big.NewInt(1)
			}
			op.A = []string{maxIn.String(), aout.String()}
		}
	case "add":
		op.PayerPres = e.c07Pres(false, 0.16)
		op.Din = tok
		if e.Chance(0.03) {
			op.Din = "S"
		}
		exact := e.c07Amount(new(big.Int).Div(bal(op.Payer, "S"), big.NewInt(4)), "add-standard")
		maxTok := new(big.Int).Set(bal(op.Payer, tok))
		if seq > 0 && o.sup[fmt.Sprintf("L%d", seq)].Sign() > 0 && bal(esc, "S").Sign() > 0 && exact.Sign() > 0 {
			dep := new(big.Int).Add(new(big.Int).Div(new(big.Int).Mul(bal(esc, tok), exact), bal(esc, "S")), big.NewInt(1))
			switch e.Pick(6) {
			case 0:
				maxTok = dep
				e.Stats.Count("boundary:add-maxtoken-just-met")
			case 1:
				maxTok = new(big.Int).Sub(dep, big.NewInt(1))
				e.Stats.Count("boundary:add-maxtoken-just-missed")
			}
		} else if e.Chance(0.3) {
			maxTok = e.c07Amount(bal(op.Payer, tok), "add-token")
		}
		if maxTok.Sign() <= 0 {
			maxTok = big.NewInt(1)
		}
		op.A = []string{maxTok.String(), exact.String(), "0"}
	case "remove":
		op.PayerPres = e.c07Pres(false, 0.16)
		q := int64(1 + e.Pick(c07MaxPool))
		if len(o.pools) > 0 && e.Chance(0.92) {
			q = o.pools[e.Pick(len(o.pools))][1]
		}
		lc := fmt.Sprintf("L%d", q)
		op.Din = lc
		for try := 0; try < 4 && bal(op.Payer, lc).Sign() == 0; try++ { // prefer a holder of pool tokens
			op.Payer = fmt.Sprintf("U%d", e.Pick(c07Users))
		}
		wamt := e.c07Amount(bal(op.Payer, lc), "remove-pool-tokens")
		if wamt.Sign() <= 0 && e.Chance(0.8) {
			wamt = big.NewInt(1)
		}
		op.A = []string{wamt.String(), "0", "0"}
	case "convert-coin":
		op.Pair = 1 + e.Pick(2)
		op.PayerPres = e.c07Pres(false, 0.16)
		op.Rcpt = e.c07Recipient(w, op.Payer, op.Kind, 0)
		op.RcptPres = e.c07Pres(true, 0.10)
		op.A = []string{e.c07Amount(o.pbal[fmt.Sprintf("%d|%s", op.Pair, op.Payer)], "convert-coin").String()}
	default:
		op.Pair = 1 + e.Pick(2)
		op.PayerPres = e.c07Pres(true, 0.18)
		op.Rcpt = e.c07Recipient(w, op.Payer, op.Kind, 0)
		op.RcptPres = e.c07Pres(false, 0.10)
		op.ContractPres = e.c07Pres(true, 0.05)
		op.A = []string{e.c07Amount(o.tbal[fmt.Sprintf("%d|%s", op.Pair, op.Payer)], "convert-erc20").String()}
	}
	return op
}

func c07AcctClass(code string) string {
	switch code[0] {
	case 'U':
		return "user"
	case 'B':
		return "bystander"
	case 'E':
		return "reserve"
	case 'M':
		return "module"
	case 'Z':
		return "zero-address"
	}
	return "junk-address"
}

func c07Run(e *Env) {
	e.Header("From Coq Require Import ZArith List.\nFrom Canto Require Import Model.Coinswap Model.Signers Check.Common Check.SignersCheck.\nFrom Canto Require Check.CoinswapCheck.\nImport ListNotations.\nOpen Scope Z_scope.\n")
	e.Stats.Rule = "case = coinswap parameters (fee on/off, pool-creation fee+tax on/off, whitelist subsets) + a history of user messages of the five types (swap as sell and buy order, add, remove, convert coin, convert ERC-20 on a module-owned and an external pair with real ERC-20 contracts) with independently chosen payer, recipient (payer itself / another user / a pool reserve / the erc20 module / any module account / the zero address), amounts aimed at the payer's balance (fraction, exactly, one beyond, zero) and at the quoted bounds, and a presentation for EVERY address field (bech32 lower/upper, hex 0x/bare/EIP-55/0X-upper, 11 malformed spellings, forms of the other family); per message: signers derived by the real codec (GetMsgV1Signers), execution by the real message server through MsgServiceRouter on a branch written only on success, complete ledger diff of 24+ tracked accounts x 8 denominations + 2 pair denominations + 2 ERC-20 contracts, digest of all other balances; non-trivial = at least one accepted message that debited someone; distinct by hash of the accepted (kind, payer, recipient, presentations) sequence"
	w := c07NewWorld()
	e.ShardSize = 4
	nCases := e.Scale(72, 900)
	if e.Tier == "search" {
		nCases = 90
	}
	if e.Replay != nil {
		nCases = 1
	}
	for c := 0; c < nCases; c++ {
		ctx, _ := w.ctx.CacheContext()
		var kase c07Case
		if e.Replay != nil {
			mustUnmarshal(e.Replay, &kase)
		} else {
			p := c07Params{Fee: "3000000000000000", CfeeAmt: "0", Tax: "0", Cap: "1000000000000", WLMax: "1000000000"}
			if e.Chance(0.25) {
				p.Fee = "0"
			}
			if e.Chance(0.5) {
				p.CfeeAmt = fmt.Sprint(10 + e.Pick(2000))
				p.Tax = []string{"0", "250000000000000000", "999999999999999999"}[e.Pick(3)]
			}
			if e.Chance(0.1) {
				p.WLMax = fmt.Sprint(50 + e.Pick(2000)) // a per-swap maximum that bites
			}
			for i := 0; i < c07Tokens; i++ {
				if e.Chance(0.9) {
					p.WL = append(p.WL, fmt.Sprintf("T%d", i))
				}
			}
			kase.Params = p
		}
		w.a.CoinswapKeeper.SetParams(ctx, w.c07ToParams(kase.Params))
		fee := bigOf(kase.Params.Fee)
		extra := map[string][]byte{}
		obs := w.c07Observe(ctx, extra)
		initTerm := w.c07WorldTerm(obs, w.c07ParamsTerm(ctx), extra)
		blocked := w.a.BlockedAddrs()
		for _, m := range c07Modules {
			if !blocked[sdk.AccAddress(w.accts[fmt.Sprintf("M%d", c07IndexOf(m))]).String()] {
				e.Stats.ImplFailures = append(e.Stats.ImplFailures, ImplFailure{Case: c, Step: -1, Monitor: "module-account-not-blocked", Detail: m})
			}
		}
		now := new(big.Int).Add(TimeNs(GenesisTime), big.NewInt(e.Rng.Int63n(1_000_000_000)))
		nOps := e.Scale(18, 30)
		if e.Replay != nil {
			nOps = len(kase.Ops)
		}
		var steps []string
		sig := ""
		for i := 0; i < nOps; i++ {
			var op c07Op
			if e.Replay != nil {
				op = kase.Ops[i]
			} else {
				now = new(big.Int).Add(now, big.NewInt(e.Rng.Int63n(3_000_000_000)))
				wantValid := e.Chance(0.7)
				for attempt := 0; attempt < 6; attempt++ {
					op = e.c07GenOp(w, obs, fee, now)
					if !wantValid {
						break
					}
					dry, _ := ctx.CacheContext()
					if w.c07Deliver(dry, op, w.c07Msg(op)) {
						break
					}
				}
				kase.Ops = append(kase.Ops, op)
			}
			msg := w.c07Msg(op)
			// what HexToAddress reads out of the sender string of a MsgConvertERC20 (the model's oracle input [junk])
			var junk []byte
			if m, ok := msg.(*erc20types.MsgConvertERC20); ok {
				junk = common.HexToAddress(m.Sender).Bytes()
				if _, known := w.byAddr[hex.EncodeToString(junk)]; !known {
					code := "J" + hex.EncodeToString(junk)
					if _, seen := extra[code]; !seen {
						extra[code] = junk
						obs = w.c07Observe(ctx, extra)
						for k, v := range obs.bal {
							if strings.HasPrefix(k, code+"|") && v.Sign() != 0 {
								panic("a freshly tracked address holds coins")
							}
						}
						for _, p := range w.pairs {
							k := fmt.Sprintf("%d|%s", p.ID, code)
							if obs.pbal[k].Sign() != 0 || obs.tbal[k].Sign() != 0 {
								panic("a freshly tracked address holds coins or tokens")
							}
						}
					}
				}
			}
			// 1. signer derivation by the real codec
			signers, sok := w.c07Signers(msg)
			// the signer sets of all messages of a transaction are derived one after the other and held together
			// (Tx.GetSigners): a result must not be overwritten by a later derivation
			if c07HeldSigners != nil && !c07SameBytes(c07HeldSigners, c07HeldCopy) {
				e.Stats.ImplFailures = append(e.Stats.ImplFailures, ImplFailure{Case: c, Step: len(steps) - 1, Monitor: "derived-signers-overwritten-by-a-later-derivation",
					Detail: fmt.Sprintf("signers derived for the previous message read %x when derived and %x after the next derivation", c07HeldCopy, c07HeldSigners)})
			}
			c07HeldSigners, c07HeldCopy = nil, nil
			if sok {
				c07HeldSigners = signers
				for _, s := range signers {
					c07HeldCopy = append(c07HeldCopy, append([]byte{}, s...))
				}
			}
			sterm := "None"
			if sok {
				var ss []string
				for _, s := range signers {
					ss = append(ss, w.c07AcctTerm(s))
				}
				sterm = "(Some " + L(ss) + ")"
			}
			// 2. oracles, then execution by the real message server
			gate, hasCode := false, true
			if op.Pair > 0 {
				gate, hasCode = w.c07Gate(ctx, op, msg)
			}
			ok := w.c07Deliver(ctx, op, msg)
			e.Stats.Evaluations++
			// 3. ledger diff
			after := w.c07Observe(ctx, extra)
			if after.other != obs.other {
				e.Stats.ImplFailures = append(e.Stats.ImplFailures, ImplFailure{Case: c, Step: i, Monitor: "untracked-balance-changed",
					Detail: "a balance or supply outside the tracked accounts/denominations changed during a user message"})
			}
			losers := w.c07Losers(obs, after, extra)
			// statistics
			res := "rejected"
			if ok {
				res = "ok"
			}
			e.Stats.Count("type:" + op.Kind)
			e.Stats.Count("result:" + op.Kind + ":" + res)
			e.Stats.Count("payer-presentation:" + op.Kind + ":" + op.PayerPres + ":" + res)
			if op.Rcpt != "" {
				e.Stats.Count("recipient-presentation:" + op.RcptPres)
				rel := c07AcctClass(op.Rcpt)
				if op.Rcpt == op.Payer {
					rel = "payer-itself"
				} else if rel == "user" {
					rel = "another-user"
				}
				e.Stats.Count("recipient:" + op.Kind + ":" + rel + ":" + res)
			}
			if op.ContractPres != "" {
				e.Stats.Count("contract-presentation:" + op.ContractPres)
			}
			if sok {
				e.Stats.Count(fmt.Sprintf("signer-derivation:%s:ok-%d-signer", op.Kind, len(signers)))
			} else {
				e.Stats.Count("signer-derivation:" + op.Kind + ":failed")
			}
			var lc []string
			for _, l := range losers {
				cl := c07AcctClass(l)
				if l == op.Payer {
					cl = "payer"
				} else if l == "M3" {
					cl = "erc20-module"
				}
				lc = append(lc, cl)
			}
			sort.Strings(lc)
			if ok {
				e.Stats.Count("debited:" + op.Kind + ":[" + strings.Join(lc, ",") + "]")
				if len(losers) > 0 {
					sig += fmt.Sprintf("%s|%s|%s|%s|%s;", op.Kind, op.Payer, op.Rcpt, op.PayerPres, op.RcptPres)
				}
			} else if len(losers) > 0 {
				e.Stats.Count("debited-by-rejected-message:" + op.Kind)
			}
			class := 1
			if ok {
				class = 0
			}
			led := w.c07StepLedgers(obs, after, extra)
			steps = append(steps, App("mkSgStep", append([]string{Z(bigOf(op.NowNs)), w.c07MsgTerm(op, junk, gate, hasCode), sterm, Zi(int64(class))}, led...)...))
			obs = after
		}
		if sig != "" {
			e.Stats.Nontrivial(sig)
		}
		var accts, denoms []string
		for _, ac := range w.c07Codes(extra) {
			accts = append(accts, w.c07TermOf(ac, extra))
		}
		for _, dc := range w.dcodes {
			denoms = append(denoms, c07DenomTerm(dc))
		}
		term := App("mkSgCase", L(accts), L(denoms), "[1; 2]", initTerm, L(steps))
		e.AddCase("check_case", term, kase)
		e.Stats.Sample(kase)
	}
}

func c07IndexOf(m string) int {
	for i, x := range c07Modules {
		if x == m {
			return i
		}
	}
	return -1
}
