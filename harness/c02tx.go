//go:build verif

package harness

// Suite C02TX: the transaction clause of C02 on the real transaction path.
//
// "A rejected coinswap message delivered in a transaction leaves every balance, supply and pool record unchanged
// apart from the transaction fee."  That a failed message leaves no trace is baseapp's branch discipline, which the
// Coq model takes as given (deliver = exec on a branch written only on success); here it is exercised for real:
// signed MsgSwapOrder / MsgAddLiquidity / MsgRemoveLiquidity transactions with a non-zero fee go through
// FinalizeBlock + Commit on a chain with a genuine validator, and every block is executed twice -- on the node
// itself WITH the transaction and on a twin (a new application opened on a copy of the node's database) WITHOUT it.
// For a rejected transaction the two complete bank dumps (every balance of every account, every supply), the coinswap
// genesis export (pools, sequence, parameters) and every registered crisis invariant must agree, except that the
// fee payer holds `fee` less and the fee collector `fee` more (or nothing at all moved, when the ante handler refused).

import (
	"context"
	"encoding/json"
	"fmt"
	"math/big"
	"sort"
	"time"

	sdkmath "cosmossdk.io/math"
	dbm "github.com/cosmos/cosmos-db"
	clienttx "github.com/cosmos/cosmos-sdk/client/tx"
	sdk "github.com/cosmos/cosmos-sdk/types"
	"github.com/cosmos/cosmos-sdk/types/tx/signing"
	authsigning "github.com/cosmos/cosmos-sdk/x/auth/signing"
	authtypes "github.com/cosmos/cosmos-sdk/x/auth/types"
	"github.com/evmos/ethermint/crypto/ethsecp256k1"

	"github.com/Canto-Network/Canto/v8/app"
	coinswaptypes "github.com/Canto-Network/Canto/v8/x/coinswap/types"
)

func init() { runners["C02TX"] = runC02TX }

type c02txOp struct {
	Op    csOp   `json:"op"`
	Fee   string `json:"fee"`    // acanto paid as transaction fee
	DtNs  int64  `json:"dt_ns"`  // block time step
	DlRel int64  `json:"dl_rel"` // deadline relative to the block second
}

type c02txCase struct {
	Gen c06Gen    `json:"gen"`
	Ops []c02txOp `json:"ops"`
}

func c02txCopyDB(src dbm.DB) dbm.DB {
	dst := dbm.NewMemDB()
	it, err := src.Iterator(nil, nil)
	if err != nil {
		panic(err)
	}
	defer it.Close()
	for ; it.Valid(); it.Next() {
		k := append([]byte{}, it.Key()...)
		v := append([]byte{}, it.Value()...)
		if err := dst.Set(k, v); err != nil {
			panic(err)
		}
	}
	return dst
}

// complete ledger + coinswap records of the committed state
func c02txDump(r *c06Replica, w *c06World, t time.Time) (map[string]string, string) {
	ctx := r.readCtx(t, w)
	d := map[string]string{}
	r.app.BankKeeper.IterateAllBalances(ctx, func(addr sdk.AccAddress, c sdk.Coin) bool {
		d["bal|"+addr.String()+"|"+c.Denom] = c.Amount.String()
		return false
	})
	r.app.BankKeeper.IterateTotalSupply(ctx, func(c sdk.Coin) bool {
		d["sup|"+c.Denom] = c.Amount.String()
		return false
	})
	gs := r.app.CoinswapKeeper.ExportGenesis(ctx)
	bz, err := json.Marshal(gs)
	if err != nil {
		panic(err)
	}
	return d, string(bz)
}

func c02txSign(a *app.Canto, priv *ethsecp256k1.PrivKey, accNum, seq uint64, gas uint64, fee sdk.Coins, msgs ...sdk.Msg) ([]byte, error) {
	b := a.TxConfig().NewTxBuilder()
	if err := b.SetMsgs(msgs...); err != nil {
		return nil, err
	}
	b.SetGasLimit(gas)
	b.SetFeeAmount(fee)
	pub := priv.PubKey()
	if err := b.SetSignatures(signing.SignatureV2{PubKey: pub, Data: &signing.SingleSignatureData{SignMode: signing.SignMode_SIGN_MODE_DIRECT}, Sequence: seq}); err != nil {
		return nil, err
	}
	sd := authsigning.SignerData{Address: sdk.AccAddress(pub.Address()).String(), ChainID: ChainID, AccountNumber: accNum, Sequence: seq, PubKey: pub}
	sig, err := clienttx.SignWithPrivKey(context.Background(), signing.SignMode_SIGN_MODE_DIRECT, sd, b, priv, a.TxConfig(), seq)
	if err != nil {
		return nil, err
	}
	if err := b.SetSignatures(sig); err != nil {
		return nil, err
	}
	return a.TxConfig().TxEncoder()(b.GetTx())
}

func c02txMsg(cs *csWorld, op csOp) sdk.Msg {
	coin := func(dc string, amt string) sdk.Coin {
		return sdk.Coin{Denom: cs.denoms[dc], Amount: sdkmath.NewIntFromBigInt(bigOf(amt))}
	}
	sender := fmt.Sprintf("U%d", op.Sender)
	switch op.Kind {
	case "sell", "buy":
		return &coinswaptypes.MsgSwapOrder{
			Input:    coinswaptypes.Input{Address: cs.addrText(sender, ""), Coin: coin(op.Din, op.A[0])},
			Output:   coinswaptypes.Output{Address: cs.addrText(op.Rec, ""), Coin: coin(op.Dout, op.A[1])},
			Deadline: op.Deadline, IsBuyOrder: op.Kind == "buy"}
	case "add":
		return &coinswaptypes.MsgAddLiquidity{MaxToken: coin(op.Din, op.A[0]), ExactStandardAmt: sdkmath.NewIntFromBigInt(bigOf(op.A[1])),
			MinLiquidity: sdkmath.NewIntFromBigInt(bigOf(op.A[2])), Deadline: op.Deadline, Sender: cs.addrText(sender, "")}
	case "remove":
		return &coinswaptypes.MsgRemoveLiquidity{WithdrawLiquidity: coin(op.Din, op.A[0]), MinStandardAmt: sdkmath.NewIntFromBigInt(bigOf(op.A[1])),
			MinToken: sdkmath.NewIntFromBigInt(bigOf(op.A[2])), Deadline: op.Deadline, Sender: cs.addrText(sender, "")}
	}
	return nil
}

func runC02TX(e *Env) {
	e.Header("From Coq Require Import ZArith List.\nFrom Canto Require Import Check.Common.\nImport ListNotations.\nOpen Scope Z_scope.\n")
	e.Stats.Rule = "case = chain with a genuine bonded validator (InitChain, non-zero genesis time, random valid coinswap parameters incl. creation fee and tax, funded users) + a history of single-transaction blocks: signed MsgSwapOrder / MsgAddLiquidity / MsgRemoveLiquidity with a non-zero fee, about half of them chosen so that the keeper rejects them (limits just missed, deadline passed, amounts above balances, reserves or caps, unknown pool, non-whitelisted denomination, module-account recipient); every block is executed on the node with the transaction and on a twin opened on a copy of the node's database without it; for a rejected transaction the complete bank dump (all accounts, all denominations, all supplies), the coinswap genesis export and the crisis invariants of node and twin must agree except for the fee (payer -fee, fee collector +fee) or agree exactly (ante refused); non-trivial = a rejected transaction whose message reached the keeper; distinct by (kind, amounts, fee)"
	nCases := e.Scale(5, 60)
	if e.Tier == "search" {
		nCases = 12
	}
	if e.Replay != nil {
		nCases = 1
	}
	trivialChecker := "(fun (_ : Z) (_ : unit) => @nil diff)"
	for c := 0; c < nCases; c++ {
		var kase c02txCase
		replay := e.Replay != nil
		keys := c06NewKeys()
		if replay {
			mustUnmarshal(e.Replay, &kase)
		} else {
			kase.Gen = c06GenGenesis(e, c06CsWorld(nil, keys))
		}
		A, w := c06Start("A", keys, kase.Gen)
		r := &c06Run1{e: e, c: c, w: w, A: A, B: A, C: A, keys: keys, voted: map[uint64]bool{}}
		now := GenesisTime.Add(5 * time.Second)
		A.block(r.request(1, now, nil))
		collector := authtypes.NewModuleAddress(authtypes.FeeCollectorName).String()
		nOps := e.Scale(24, 60)
		if replay {
			nOps = len(kase.Ops)
		}
		for i := 0; i < nOps; i++ {
			height := A.app.LastBlockHeight() + 1
			var step c02txOp
			ctx := A.readCtx(now, w)
			if replay {
				step = kase.Ops[i]
			} else {
				step.DtNs = int64(1+e.Pick(5)) * int64(time.Second)
				if e.Chance(0.3) {
					step.DtNs += e.Rng.Int63n(int64(time.Second))
				}
				obs := w.cs.observe(ctx)
				next := now.Add(time.Duration(step.DtNs))
				wantRejected := e.Chance(0.55)
				for attempt := 0; attempt < 10; attempt++ {
					op := e.csGenOp(w.cs, obs, TimeNs(next), "C02")
					if op.Kind != "sell" && op.Kind != "buy" && op.Kind != "add" && op.Kind != "remove" {
						continue
					}
					if !c06Fits(op) {
						continue
					}
					op.Pres = ""
					step.Op = op
					dry, _ := ctx.CacheContext()
					ok, _ := w.cs.exec(dry.WithBlockTime(next), op)
					if ok != wantRejected {
						break
					}
				}
				if step.Op.Kind == "" {
					continue
				}
				step.DlRel = step.Op.Deadline - next.Unix()
				step.Fee = big.NewInt(int64(1 + e.Pick(1_000_000))).String()
				kase.Ops = append(kase.Ops, step)
			}
			now = now.Add(time.Duration(step.DtNs))
			op := step.Op
			op.Deadline = now.Unix() + step.DlRel
			msg := c02txMsg(w.cs, op)
			priv := keys.users[op.Sender%len(keys.users)]
			payer := c06Acc(priv)
			acc := A.app.AccountKeeper.GetAccount(ctx, payer)
			var num, seq uint64
			if acc != nil {
				num, seq = acc.GetAccountNumber(), acc.GetSequence()
			}
			fee := sdk.NewCoins(sdk.NewCoin(c06Denom, sdkmath.NewIntFromBigInt(bigOf(step.Fee))))
			bz, err := c02txSign(A.app, priv, num, seq, 3_000_000, fee, msg)
			if err != nil {
				e.Stats.Count("unsignable")
				continue
			}
			// the twin: same committed state, same block, no transaction
			T := &c06Replica{name: "twin", db: c02txCopyDB(A.db)}
			T.app = c06NewApp("T", T.db)
			T.block(r.request(height, now, nil))
			res := A.block(r.request(height, now, [][]byte{bz}))
			e.Stats.Evaluations++
			tr := res.TxResults[0]
			if tr.Code == 0 {
				e.Stats.Count("accepted:" + op.Kind)
				continue
			}
			e.Stats.Count(fmt.Sprintf("rejected:%s:%s/%d", op.Kind, tr.Codespace, tr.Code))
			dA, csA := c02txDump(A, w, now)
			dT, csT := c02txDump(T, w, now)
			var diffs []string
			keysU := map[string]bool{}
			for k := range dA {
				keysU[k] = true
			}
			for k := range dT {
				keysU[k] = true
			}
			for k := range keysU {
				if dA[k] != dT[k] {
					diffs = append(diffs, k)
				}
			}
			sort.Strings(diffs)
			feeKeyP := "bal|" + payer.String() + "|" + c06Denom
			feeKeyC := "bal|" + collector + "|" + c06Denom
			okDiff := len(diffs) == 0
			if len(diffs) == 2 {
				z := func(s string) *big.Int {
					if s == "" {
						return big.NewInt(0)
					}
					return bigOf(s)
				}
				f := bigOf(step.Fee)
				pd := new(big.Int).Sub(z(dT[feeKeyP]), z(dA[feeKeyP]))
				cd := new(big.Int).Sub(z(dA[feeKeyC]), z(dT[feeKeyC]))
				has := map[string]bool{diffs[0]: true, diffs[1]: true}
				okDiff = has[feeKeyP] && has[feeKeyC] && pd.Cmp(f) == 0 && cd.Cmp(f) == 0
				if okDiff {
					e.Stats.Count("fee-charged")
				}
			} else if okDiff {
				e.Stats.Count("no-fee-charged")
			}
			if !okDiff {
				detail := fmt.Sprintf("rejected %s transaction (%s/%d) changed the ledger beyond the fee %s:", op.Kind, tr.Codespace, tr.Code, step.Fee)
				for j, k := range diffs {
					if j >= 6 {
						break
					}
					detail += fmt.Sprintf(" %s twin=%s node=%s;", k, dT[k], dA[k])
				}
				e.Stats.ImplFailures = append(e.Stats.ImplFailures, ImplFailure{Case: c, Step: i, Monitor: "rejected-transaction-changed-ledger-beyond-fee", Detail: detail})
			}
			if csA != csT {
				e.Stats.ImplFailures = append(e.Stats.ImplFailures, ImplFailure{Case: c, Step: i, Monitor: "rejected-transaction-changed-pool-records",
					Detail: "coinswap genesis export differs between node and twin after a rejected " + op.Kind})
			}
			ctxA, ctxT := A.readCtx(now, w), T.readCtx(now, w)
			bT := csBrokenInvariants(T.app, ctxT)
			for route := range csBrokenInvariants(A.app, ctxA) {
				if !bT[route] {
					e.Stats.ImplFailures = append(e.Stats.ImplFailures, ImplFailure{Case: c, Step: i, Monitor: "registered-invariant-broken",
						Detail: "crisis invariant " + route + " holds on the twin and is broken on the node after a rejected " + op.Kind})
				}
			}
			e.Stats.Nontrivial(fmt.Sprintf("%s|%v|%s|%d", op.Kind, op.A, step.Fee, tr.Code))
		}
		e.AddCase(trivialChecker, "tt", kase)
		e.Stats.Sample(c02txCase{Gen: kase.Gen, Ops: kase.Ops[:min(2, len(kase.Ops))]})
	}
}
