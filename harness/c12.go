//go:build verif

package harness

import (
	"fmt"
	"math/big"
	"sort"
	"time"

	sdk "github.com/cosmos/cosmos-sdk/types"

	"github.com/Canto-Network/Canto/v8/x/epochs"
	epochskeeper "github.com/Canto-Network/Canto/v8/x/epochs/keeper"
	epochstypes "github.com/Canto-Network/Canto/v8/x/epochs/types"
)

func init() { runners["C12"] = runC12 }

type hookRec struct{ calls *[]string }

func (r hookRec) AfterEpochEnd(ctx sdk.Context, id string, n int64) {
	*r.calls = append(*r.calls, fmt.Sprintf("A|%s|%d", id, n))
}
func (r hookRec) BeforeEpochStart(ctx sdk.Context, id string, n int64) {
	*r.calls = append(*r.calls, fmt.Sprintf("B|%s|%d", id, n))
}

// JSON description of a C12 case (replay format)
type c12Epoch struct {
	ID       string `json:"id"`
	StartNs  string `json:"start_ns"`
	DurNs    int64  `json:"dur_ns"`
	Cur      int64  `json:"cur"`
	CurStart string `json:"cur_start_ns"`
	Started  bool   `json:"started"`
	Height   int64  `json:"height"`
}
type c12Block struct {
	TimeNs string `json:"time_ns"`
	Height int64  `json:"height"`
}
type c12Case struct {
	Genesis []c12Epoch `json:"genesis"`
	T0Ns    string     `json:"t0_ns"`
	H0      int64      `json:"h0"`
	Blocks  []c12Block `json:"blocks"`
}

func nsToTime(ns *big.Int) time.Time {
	q, r := new(big.Int).DivMod(ns, big.NewInt(1_000_000_000), new(big.Int))
	return time.Unix(q.Int64(), r.Int64()).UTC()
}

func epochTerm(rank map[string]int, e epochstypes.EpochInfo) string {
	return App("mkEpoch", Zi(int64(rank[e.Identifier])), Z(TimeNs(e.StartTime)), Zi(int64(e.Duration)), Zi(e.CurrentEpoch),
		Z(TimeNs(e.CurrentEpochStartTime)), B(e.EpochCountingStarted), Zi(e.CurrentEpochStartHeight))
}

func runC12(e *Env) {
	e.Header("From Coq Require Import ZArith List.\nFrom Canto Require Import Model.Epochs Check.Common Check.EpochsCheck.\nImport ListNotations.\nOpen Scope Z_scope.\n")
	e.Stats.Rule = "case = generated epochs genesis (1-4 identifiers; start before/at/after genesis or unset; durations 1ns..weeks; some already-started records) + non-decreasing block-time sequence aimed at epoch boundaries (exact hit, +-1ns, sub-second steps, multi-duration gaps); executed on the real epochs keeper with a recording listener; non-trivial = at least one listener call; distinct by hash of the listener-call sequence and block times"
	a, baseCtx := NewApp()
	nCases := e.Scale(60, 1500)
	if e.Replay != nil {
		nCases = 1
	}
	day := int64(24 * time.Hour)
	durs := []int64{1, 1000, int64(time.Second), int64(time.Minute), int64(time.Hour), day, 7 * day, 30 * day}
	idPool := []string{"day", "week", "hour", "a", "month", "zz", "Day", "d"}
	for c := 0; c < nCases; c++ {
		var kase c12Case
		if e.Replay != nil {
			mustUnmarshal(e.Replay, &kase)
		} else {
			// ----- generate genesis -----
			t0 := new(big.Int).Add(TimeNs(GenesisTime), big.NewInt(e.Rng.Int63n(1_000_000_000_000)))
			kase.T0Ns = t0.String()
			kase.H0 = int64(e.Pick(5))
			n := 1 + e.Pick(4)
			perm := e.Rng.Perm(len(idPool))
			for i := 0; i < n; i++ {
				id := idPool[perm[i]]
				dur := durs[e.Pick(len(durs))]
				if e.Chance(0.3) {
					dur = 1 + e.Rng.Int63n(3*day)
				}
				if e.Chance(0.04) {
					dur = -dur
				}
				far := e.Chance(0.12) // an identifier living centuries away from the block times (see below)
				if far && e.Chance(0.5) {
					// decades to ~250 years: (n-1)*duration no longer fits a time.Duration after a few epochs
					dur = int64(10+e.Pick(240)) * 365 * day
				}
				var start *big.Int
				switch e.Pick(6) {
				case 0:
					start = TimeNs(time.Time{})
				case 1:
					start = new(big.Int).Set(t0)
				case 2:
					start = new(big.Int).Sub(t0, big.NewInt(e.Rng.Int63n(10*day)))
				case 3:
					start = new(big.Int).Add(t0, big.NewInt(e.Rng.Int63n(3*day)))
				case 4:
					start = new(big.Int).Add(t0, big.NewInt(1))
				default:
					start = new(big.Int).Sub(t0, big.NewInt(1))
				}
				if far {
					// start times outside 1678..2262 do not fit an int64 of nanoseconds since 1970 (time.Time itself has
					// no such limit): year ~1500-1650 (long past: the clock catches up one epoch per block) or ~2300 (parked)
					yr := int64(1500 + e.Pick(150))
					if e.Chance(0.4) {
						yr = int64(2290 + e.Pick(40))
					}
					start = TimeNs(time.Date(int(yr), 3, 1, 0, 0, 0, e.Pick(1000), time.UTC))
					e.Stats.Count("genesis:start-centuries-away")
				}
				ep := c12Epoch{ID: id, StartNs: start.String(), DurNs: dur, CurStart: TimeNs(time.Time{}).String()}
				if e.Chance(0.25) && start.Cmp(TimeNs(time.Time{})) != 0 && !far { // (far records: (cur-1)*duration could pass year 9999, the protobuf limit)
					// an already started record, as an exported genesis carries
					ep.Started = true
					ep.Cur = 1 + int64(e.Pick(50))
					cs := new(big.Int).Add(start, new(big.Int).Mul(big.NewInt(ep.Cur-1), big.NewInt(dur)))
					if e.Chance(0.15) { // inconsistent record: the model is total, the code must agree anyway
						cs.Add(cs, big.NewInt(e.Rng.Int63n(1000)-500))
						e.Stats.Count("genesis:started-inconsistent")
					} else {
						e.Stats.Count("genesis:started-consistent")
					}
					ep.CurStart = cs.String()
					ep.Height = int64(e.Pick(100))
				} else {
					e.Stats.Count("genesis:not-started")
				}
				kase.Genesis = append(kase.Genesis, ep)
			}
		}
		// ----- execute -----
		ctx, _ := baseCtx.CacheContext()
		var calls []string
		k := epochskeeper.NewKeeper(a.AppCodec(), a.GetKey(epochstypes.StoreKey))
		k = k.SetHooks(epochskeeper.NewMultiEpochHooks(hookRec{&calls}))
		for _, old := range k.AllEpochInfos(ctx) {
			k.DeleteEpochInfo(ctx, old.Identifier)
		}
		ids := []string{}
		for _, g := range kase.Genesis {
			ids = append(ids, g.ID)
		}
		sort.Strings(ids)
		rank := map[string]int{}
		for i, id := range ids {
			rank[id] = i
		}
		var gs epochstypes.GenesisState
		for _, g := range kase.Genesis {
			gs.Epochs = append(gs.Epochs, epochstypes.EpochInfo{Identifier: g.ID, StartTime: nsToTime(bigOf(g.StartNs)), Duration: time.Duration(g.DurNs),
				CurrentEpoch: g.Cur, CurrentEpochStartTime: nsToTime(bigOf(g.CurStart)), EpochCountingStarted: g.Started, CurrentEpochStartHeight: g.Height})
		}
		t0 := bigOf(kase.T0Ns)
		ctx = ctx.WithBlockTime(nsToTime(t0)).WithBlockHeight(kase.H0)
		epochs.InitGenesis(ctx, *k, gs)
		// genesis term, sorted by rank so that it lines up with store order
		sorted := append([]epochstypes.EpochInfo{}, gs.Epochs...)
		sort.Slice(sorted, func(i, j int) bool { return rank[sorted[i].Identifier] < rank[sorted[j].Identifier] })
		var gterms, aterms []string
		for _, g := range sorted {
			gterms = append(gterms, epochTerm(rank, g))
		}
		after := k.AllEpochInfos(ctx)
		for i, x := range after {
			if rank[x.Identifier] != i {
				e.Stats.ImplFailures = append(e.Stats.ImplFailures, ImplFailure{Case: c, Step: -1, Monitor: "store-order", Detail: "AllEpochInfos is not in byte order of identifiers"})
			}
			aterms = append(aterms, epochTerm(rank, x))
		}
		// ----- blocks -----
		now := new(big.Int).Set(t0)
		height := kase.H0
		nBlocks := 10 + e.Pick(e.Scale(40, 120))
		if e.Replay != nil {
			nBlocks = len(kase.Blocks)
		}
		var steps []string
		sig := ""
		for b := 0; b < nBlocks; b++ {
			if e.Replay != nil {
				now = bigOf(kase.Blocks[b].TimeNs)
				height = kase.Blocks[b].Height
			} else {
				// the first block of a chain started from a genesis file has the height InitGenesis ran at
				// (InitChain with InitialHeight = N): half of the histories begin that way
				if b == 0 && e.Chance(0.5) {
					e.Stats.Count("first-block:same-height-as-init-genesis")
				} else {
					height += 1
				}
				cur := k.AllEpochInfos(ctx)
				tgt := cur[e.Pick(len(cur))]
				var boundary *big.Int
				if tgt.EpochCountingStarted {
					boundary = new(big.Int).Add(TimeNs(tgt.CurrentEpochStartTime), big.NewInt(int64(tgt.Duration)))
				} else {
					boundary = TimeNs(tgt.StartTime)
				}
				next := new(big.Int).Set(now)
				kind := e.Pick(9)
				switch kind {
				case 0: // same time
				case 1:
					next.Add(next, big.NewInt(1))
				case 2:
					next.Add(next, big.NewInt(e.Rng.Int63n(int64(time.Second))))
				case 3:
					next = boundary
				case 4:
					next = new(big.Int).Add(boundary, big.NewInt(1))
				case 5:
					next = new(big.Int).Sub(boundary, big.NewInt(1))
				case 6: // long gap: several durations of the target
					d := int64(tgt.Duration)
					if d < 0 {
						d = -d
					}
					next.Add(next, new(big.Int).Mul(big.NewInt(d), big.NewInt(int64(2+e.Pick(6)))))
				case 7:
					next.Add(next, big.NewInt(e.Rng.Int63n(int64(2*24*time.Hour))))
				default:
					next.Add(next, big.NewInt(e.Rng.Int63n(int64(time.Hour))))
				}
				if next.Cmp(now) < 0 { // block times never decrease
					next = new(big.Int).Set(now)
					kind = 0
				}
				// Block times stay below year 2500: records with century-long durations then stay below year 9999, the
				// largest time a stored record can hold (protobuf timestamp); a parked identifier (start ~2300) is still reached
				if next.Cmp(TimeNs(time.Date(2500, 1, 1, 0, 0, 0, 0, time.UTC))) > 0 {
					next = new(big.Int).Add(now, big.NewInt(int64(time.Second)))
					kind = 9
				}
				e.Stats.Count(fmt.Sprintf("step-kind:%d", kind))
				now = next
				kase.Blocks = append(kase.Blocks, c12Block{TimeNs: now.String(), Height: height})
			}
			calls = calls[:0]
			bctx := ctx.WithBlockTime(nsToTime(now)).WithBlockHeight(height)
			if err := k.BeginBlocker(bctx); err != nil {
				panic(err)
			}
			e.Stats.Evaluations++
			var eterms, hterms []string
			for _, x := range k.AllEpochInfos(ctx) {
				eterms = append(eterms, epochTerm(rank, x))
			}
			for _, cl := range calls {
				var kind, id string
				var n int64
				parts := splitN(cl, "|", 3)
				kind, id = parts[0], parts[1]
				fmt.Sscan(parts[2], &n)
				if kind == "A" {
					hterms = append(hterms, App("AfterEnd", Zi(int64(rank[id])), Zi(n)))
				} else {
					hterms = append(hterms, App("BeforeStart", Zi(int64(rank[id])), Zi(n)))
				}
				e.Stats.Count("listener-calls")
			}
			if len(calls) > 0 {
				sig += now.String() + fmt.Sprint(calls)
			}
			steps = append(steps, Tup(Z(now), Zi(height), L(eterms), L(hterms)))
		}
		if sig != "" {
			e.Stats.Nontrivial(sig)
		}
		term := App("mkEpochsCase", L(gterms), Z(t0), Zi(kase.H0), L(aterms), L(steps))
		e.AddCase("check_case", term, kase)
		e.Stats.Sample(kase)
	}
}
