//go:build verif

package harness

import (
	"encoding/json"
	"math/big"
	"strings"
)

func mustUnmarshal(bz []byte, v any) {
	if err := json.Unmarshal(bz, v); err != nil {
		panic(err)
	}
}

func bigOf(s string) *big.Int {
	x, ok := new(big.Int).SetString(s, 10)
	if !ok {
		panic("bad integer " + s)
	}
	return x
}

func splitN(s, sep string, n int) []string { return strings.SplitN(s, sep, n) }
