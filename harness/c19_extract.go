//go:build verif

package harness

// Semantic extraction of the admission tables (copied from tools/gokernel/ante.go, identifiers prefixed c19x):
// decorator chains are read from the arguments of sdk.ChainAnteDecorators(...) or from the slice literal passed
// as list..., with the constructor's parameter called `options` and hoisted locals replaced by their
// definitions; the routing of NewAnteHandler is read by following every path of the returned closure
// (if/else, switch on a value, switch x.(type), v, ok := x.(T), string constants, handler through a variable or
// called directly).  The output has the string forms of Model/Ante.v and is byte-identical to the former
// syntactic extraction on the pinned tree; behaviour-preserving rewrites of the two files do not change it.

import (
	"go/ast"
	"go/token"
	"strconv"
	"strings"
)

// c19xCanonText prints an expression with local names replaced by what they stand for (parameters by their
// canonical names, hoisted locals by their defining expressions), in the layout go/printer gives one-line code.
func c19xCanonText(fset *token.FileSet, e ast.Expr, subst map[string]string) string {
	list := func(l []ast.Expr) string {
		var a []string
		for _, x := range l {
			a = append(a, c19xCanonText(fset, x, subst))
		}
		return strings.Join(a, ", ")
	}
	switch x := e.(type) {
	case nil:
		return ""
	case *ast.Ident:
		if t, ok := subst[x.Name]; ok {
			return t
		}
		return x.Name
	case *ast.BasicLit:
		return x.Value
	case *ast.ParenExpr:
		return "(" + c19xCanonText(fset, x.X, subst) + ")"
	case *ast.SelectorExpr:
		return c19xCanonText(fset, x.X, subst) + "." + x.Sel.Name
	case *ast.CallExpr:
		ell := ""
		if x.Ellipsis.IsValid() {
			ell = "..."
		}
		return c19xCanonText(fset, x.Fun, subst) + "(" + list(x.Args) + ell + ")"
	case *ast.CompositeLit:
		return c19xCanonText(fset, x.Type, subst) + "{" + list(x.Elts) + "}"
	case *ast.KeyValueExpr:
		return c19xCanonText(fset, x.Key, subst) + ": " + c19xCanonText(fset, x.Value, subst)
	case *ast.UnaryExpr:
		return x.Op.String() + c19xCanonText(fset, x.X, subst)
	case *ast.StarExpr:
		return "*" + c19xCanonText(fset, x.X, subst)
	case *ast.BinaryExpr:
		return c19xCanonText(fset, x.X, subst) + " " + x.Op.String() + " " + c19xCanonText(fset, x.Y, subst)
	case *ast.IndexExpr:
		return c19xCanonText(fset, x.X, subst) + "[" + c19xCanonText(fset, x.Index, subst) + "]"
	case *ast.TypeAssertExpr:
		if x.Type == nil {
			return c19xCanonText(fset, x.X, subst) + ".(type)"
		}
		return c19xCanonText(fset, x.X, subst) + ".(" + c19Src(fset, x.Type) + ")"
	}
	return c19Src(fset, e)
}

// c19xQualifyCanon: c19xCanonText with the leading package qualifier replaced by the import path.
func c19xQualifyCanon(fset *token.FileSet, imp map[string]string, e ast.Expr, subst map[string]string) string {
	head := e
	switch x := e.(type) {
	case *ast.CallExpr:
		head = x.Fun
	case *ast.CompositeLit:
		head = x.Type
	}
	text := c19xCanonText(fset, e, subst)
	switch h := head.(type) {
	case *ast.SelectorExpr:
		if id, ok := h.X.(*ast.Ident); ok {
			if _, local := subst[id.Name]; !local {
				if p, ok := imp[id.Name]; ok {
					return p + strings.TrimPrefix(text, id.Name)
				}
			}
		}
	case *ast.Ident:
		return "local." + text
	}
	return text
}

// c19xParamSubst names the parameters of a function canonically (by position).
func c19xParamSubst(ft *ast.FuncType, canon []string, subst map[string]string) {
	i := 0
	for _, f := range ft.Params.List {
		for _, n := range f.Names {
			if i < len(canon) && n.Name != "_" {
				subst[n.Name] = canon[i]
			}
			i++
		}
	}
}

// c19xExtractChains: the decorators of every function that returns sdk.ChainAnteDecorators(...), whether they are
// written as arguments or collected in a slice literal that is passed with `...`; the function's parameter is
// called `options`, hoisted locals (evmKeeper := options.EvmKeeper) are replaced by their definitions.
func c19xExtractChains(fset *token.FileSet, f *ast.File) []c19Chain {
	imp := c19Imports(f)
	var out []c19Chain
	for _, d := range f.Decls {
		fd, ok := d.(*ast.FuncDecl)
		if !ok || fd.Body == nil {
			continue
		}
		subst := map[string]string{}
		if fd.Recv == nil {
			c19xParamSubst(fd.Type, []string{"options"}, subst)
		}
		slices := map[string]*ast.CompositeLit{}
		for _, st := range fd.Body.List {
			as, ok := st.(*ast.AssignStmt)
			if !ok || len(as.Lhs) != 1 || len(as.Rhs) != 1 {
				continue
			}
			id, ok := as.Lhs[0].(*ast.Ident)
			if !ok {
				continue
			}
			if cl, ok := as.Rhs[0].(*ast.CompositeLit); ok {
				if _, isSlice := cl.Type.(*ast.ArrayType); isSlice && as.Tok == token.DEFINE {
					slices[id.Name] = cl
					continue
				}
			}
			if as.Tok == token.DEFINE {
				subst[id.Name] = c19xCanonText(fset, as.Rhs[0], subst)
			} else {
				delete(slices, id.Name) // reassigned: no longer known
				subst[id.Name] = "<reassigned " + id.Name + ">"
			}
		}
		ast.Inspect(fd.Body, func(n ast.Node) bool {
			call, ok := n.(*ast.CallExpr)
			if !ok {
				return true
			}
			sel, ok := call.Fun.(*ast.SelectorExpr)
			if !ok || sel.Sel.Name != "ChainAnteDecorators" {
				return true
			}
			c := c19Chain{Name: fd.Name.Name}
			args := call.Args
			if call.Ellipsis.IsValid() && len(args) == 1 {
				if id, ok := args[0].(*ast.Ident); ok && slices[id.Name] != nil {
					args = slices[id.Name].Elts
				} else {
					c.Decorators = append(c.Decorators, "<unresolved: "+c19Src(fset, args[0])+"...>")
					args = nil
				}
			}
			for _, a := range args {
				c.Decorators = append(c.Decorators, c19xQualifyCanon(fset, imp, a, subst))
			}
			out = append(out, c)
			return false
		})
	}
	return out
}

// ---- routing of NewAnteHandler: every path of the returned closure, with the conditions it runs under ----

type c19xCond struct {
	kind string // "url": text == key (a string); "type": a type assertion on text succeeded; "other"
	text string
	key  string
	pos  bool
}

type c19xRoute struct {
	conds   []c19xCond
	handler string // "" = the path returns an error
}

type c19xState struct {
	subst map[string]string
	conds []c19xCond
}

func (s c19xState) with(c c19xCond) c19xState {
	n := c19xState{subst: map[string]string{}, conds: append(append([]c19xCond(nil), s.conds...), c)}
	for k, v := range s.subst {
		n.subst[k] = v
	}
	return n
}

type c19xRouter struct {
	fset   *token.FileSet
	consts map[string]string
	routes []c19xRoute
}

func (w *c19xRouter) strLit(e ast.Expr, st c19xState) (string, bool) {
	switch x := e.(type) {
	case *ast.BasicLit:
		if x.Kind == token.STRING {
			if u, err := strconv.Unquote(x.Value); err == nil {
				return u, true
			}
		}
	case *ast.Ident:
		if _, local := st.subst[x.Name]; !local {
			if v, ok := w.consts[x.Name]; ok {
				return v, true
			}
		}
	case *ast.ParenExpr:
		return w.strLit(x.X, st)
	}
	return "", false
}

func (w *c19xRouter) cond(e ast.Expr, st c19xState) c19xCond {
	pos := true
	for {
		switch x := e.(type) {
		case *ast.ParenExpr:
			e = x.X
			continue
		case *ast.UnaryExpr:
			if x.Op == token.NOT {
				pos = !pos
				e = x.X
				continue
			}
		}
		break
	}
	if b, ok := e.(*ast.BinaryExpr); ok && (b.Op == token.EQL || b.Op == token.NEQ) {
		if b.Op == token.NEQ {
			pos = !pos
		}
		if k, ok := w.strLit(b.Y, st); ok {
			return c19xCond{"url", c19xCanonText(w.fset, b.X, st.subst), k, pos}
		}
		if k, ok := w.strLit(b.X, st); ok {
			return c19xCond{"url", c19xCanonText(w.fset, b.Y, st.subst), k, pos}
		}
		return c19xCond{"other", c19xCanonText(w.fset, b.X, st.subst) + " == " + c19xCanonText(w.fset, b.Y, st.subst), "", pos}
	}
	t := c19xCanonText(w.fset, e, st.subst)
	if strings.HasSuffix(t, ")#1") && strings.Contains(t, ".(") {
		return c19xCond{"type", t, "", pos}
	}
	return c19xCond{"other", t, "", pos}
}

func (w *c19xRouter) assign(as *ast.AssignStmt, st c19xState) {
	if len(as.Rhs) == 1 && len(as.Lhs) == 2 {
		if ta, ok := as.Rhs[0].(*ast.TypeAssertExpr); ok {
			p := c19xCanonText(w.fset, ta, st.subst)
			for i, l := range as.Lhs {
				if id, ok := l.(*ast.Ident); ok && id.Name != "_" {
					st.subst[id.Name] = p + "#" + strconv.Itoa(i)
				}
			}
			return
		}
	}
	if len(as.Rhs) == len(as.Lhs) {
		var vals []string
		for _, r := range as.Rhs {
			vals = append(vals, c19xCanonText(w.fset, r, st.subst))
		}
		for i, l := range as.Lhs {
			if id, ok := l.(*ast.Ident); ok && id.Name != "_" {
				st.subst[id.Name] = vals[i]
			}
		}
		return
	}
	for _, l := range as.Lhs {
		if id, ok := l.(*ast.Ident); ok && id.Name != "_" {
			st.subst[id.Name] = "<" + c19Src(w.fset, as) + ">"
		}
	}
}

func (w *c19xRouter) walk(stmts []ast.Stmt, st c19xState, k func(c19xState)) {
	if len(stmts) == 0 {
		k(st)
		return
	}
	rest := func(st c19xState) { w.walk(stmts[1:], st, k) }
	flip := func(c c19xCond) c19xCond { c.pos = !c.pos; return c }
	switch s := stmts[0].(type) {
	case *ast.AssignStmt:
		w.assign(s, st)
		rest(st)
	case *ast.BlockStmt:
		w.walk(s.List, st, rest)
	case *ast.IfStmt:
		if in, ok := s.Init.(*ast.AssignStmt); ok {
			st = st.with(c19xCond{})
			st.conds = st.conds[:len(st.conds)-1]
			w.assign(in, st)
		}
		c := w.cond(s.Cond, st)
		w.walk(s.Body.List, st.with(c), rest)
		switch el := s.Else.(type) {
		case nil:
			rest(st.with(flip(c)))
		case *ast.BlockStmt:
			w.walk(el.List, st.with(flip(c)), rest)
		case *ast.IfStmt:
			w.walk([]ast.Stmt{el}, st.with(flip(c)), rest)
		}
	case *ast.SwitchStmt:
		if in, ok := s.Init.(*ast.AssignStmt); ok {
			st = st.with(c19xCond{})
			st.conds = st.conds[:len(st.conds)-1]
			w.assign(in, st)
		}
		subject := c19xCanonText(w.fset, s.Tag, st.subst)
		hasDefault := false
		for _, cl := range s.Body.List {
			cc := cl.(*ast.CaseClause)
			if cc.List == nil {
				hasDefault = true
				w.walk(cc.Body, st.with(c19xCond{"url", subject, "*", false}), rest)
				continue
			}
			for _, e := range cc.List {
				key, ok := w.strLit(e, st)
				if !ok {
					key = "<" + c19xCanonText(w.fset, e, st.subst) + ">"
				}
				w.walk(cc.Body, st.with(c19xCond{"url", subject, key, true}), rest)
			}
		}
		if !hasDefault {
			rest(st.with(c19xCond{"url", subject, "*", false}))
		}
	case *ast.TypeSwitchStmt:
		subj := "?"
		switch a := s.Assign.(type) {
		case *ast.ExprStmt:
			if ta, ok := a.X.(*ast.TypeAssertExpr); ok {
				subj = c19xCanonText(w.fset, ta.X, st.subst)
			}
		case *ast.AssignStmt:
			if ta, ok := a.Rhs[0].(*ast.TypeAssertExpr); ok {
				subj = c19xCanonText(w.fset, ta.X, st.subst)
			}
		}
		hasDefault := false
		for _, cl := range s.Body.List {
			cc := cl.(*ast.CaseClause)
			if cc.List == nil {
				hasDefault = true
				w.walk(cc.Body, st.with(c19xCond{"type", subj + ".(*)#1", "*", false}), rest)
				continue
			}
			for _, e := range cc.List {
				w.walk(cc.Body, st.with(c19xCond{"type", subj + ".(" + c19Src(w.fset, e) + ")#1", "", true}), rest)
			}
		}
		if !hasDefault {
			rest(st.with(c19xCond{"type", subj + ".(*)#1", "*", false}))
		}
	case *ast.ReturnStmt:
		r := c19xRoute{conds: st.conds}
		if len(s.Results) == 1 {
			if c, ok := s.Results[0].(*ast.CallExpr); ok {
				r.handler = c19xCanonText(w.fset, c.Fun, st.subst)
			}
		}
		w.routes = append(w.routes, r)
	default: // declarations, defers, logging
		rest(st)
	}
}

// the model's name for the value the extension-option switch dispatches on (Model/Ante.v ref_switch_on)
var c19xLegacySubject = map[string]string{
	"tx.(authante.HasExtensionOptionsTx)#0.GetExtensionOptions()[0].GetTypeUrl()": "typeURL := opts[0].GetTypeUrl(); typeURL",
}

func c19xCondText(c c19xCond) string {
	t := c.text
	if c.kind == "url" {
		t = c.text + " == " + strconv.Quote(c.key)
	}
	if !c.pos {
		return "!(" + t + ")"
	}
	return t
}

func c19xExtractSwitch(fset *token.FileSet, f *ast.File, t *c19Tables) {
	w := &c19xRouter{fset: fset, consts: map[string]string{}}
	for _, d := range f.Decls {
		if gd, ok := d.(*ast.GenDecl); ok && gd.Tok == token.CONST {
			for _, sp := range gd.Specs {
				vs := sp.(*ast.ValueSpec)
				for i, n := range vs.Names {
					if i < len(vs.Values) {
						if bl, ok := vs.Values[i].(*ast.BasicLit); ok && bl.Kind == token.STRING {
							if u, err := strconv.Unquote(bl.Value); err == nil {
								w.consts[n.Name] = u
							}
						}
					}
				}
			}
		}
	}
	for _, d := range f.Decls {
		fd, ok := d.(*ast.FuncDecl)
		if !ok || fd.Body == nil || fd.Name.Name != "NewAnteHandler" {
			continue
		}
		var fl *ast.FuncLit
		ast.Inspect(fd.Body, func(n ast.Node) bool {
			if r, ok := n.(*ast.ReturnStmt); ok && fl == nil && len(r.Results) > 0 {
				if x, ok := r.Results[0].(*ast.FuncLit); ok {
					fl = x
				}
			}
			return fl == nil
		})
		if fl == nil {
			t.SwitchOn = "<NewAnteHandler does not return a function literal>"
			continue
		}
		st := c19xState{subst: map[string]string{}}
		c19xParamSubst(fd.Type, []string{"options"}, st.subst)
		c19xParamSubst(fl.Type, []string{"ctx", "tx", "sim"}, st.subst)
		w.walk(fl.Body.List, st, func(c19xState) {
			w.routes = append(w.routes, c19xRoute{handler: "<falls off the end>"})
		})
	}
	// tables in the form of Model/Ante.v
	subject := ""
	seenPlain := map[string]bool{}
	defaultSeen := false
	for _, r := range w.routes {
		firstURL, posURL := -1, -1
		for i, c := range r.conds {
			if c.kind == "url" {
				if firstURL < 0 {
					firstURL = i
				}
				if c.pos && posURL < 0 {
					posURL = i
				}
			}
		}
		call := ""
		if r.handler != "" {
			call = r.handler
		}
		switch {
		case posURL >= 0: // a case of the extension-option switch
			c := r.conds[posURL]
			if subject == "" {
				subject = c.text
				for _, g := range r.conds[:firstURL] {
					t.SwitchGuard = append(t.SwitchGuard, c19xCondText(g))
				}
			} else if subject != c.text {
				subject += " || " + c.text
			}
			t.Switch = append(t.Switch, [2]string{c.key, call})
		case firstURL >= 0: // no case matched: the default
			if defaultSeen && t.SwitchDefault != call {
				t.SwitchDefault += " || " + call
			} else {
				t.SwitchDefault = call
			}
			defaultSeen = true
		case r.handler != "": // no extension option: the plain branch
			lastType := -1
			for i, c := range r.conds {
				if c.kind == "type" && !strings.Contains(subject, strings.TrimSuffix(c.text, "#1")+"#0") {
					lastType = i
				}
			}
			clause, cond := "always", "always"
			if lastType >= 0 {
				c := r.conds[lastType]
				ty := c.text[strings.LastIndex(c.text, ".(")+2 : len(c.text)-len(")#1")]
				switch {
				case c.key == "*":
					clause = "default"
				case c.pos:
					clause = "case " + ty
				default:
					clause = "!case " + ty
				}
			}
			if lastType+1 < len(r.conds) && lastType >= 0 {
				in := r.conds[len(r.conds)-1]
				if in.pos {
					cond = "if " + in.text
				} else {
					cond = "else " + in.text
				}
			}
			e := clause + " | " + cond + " | " + call
			if !seenPlain[e] {
				seenPlain[e] = true
				t.Plain = append(t.Plain, e)
			}
		}
	}
	if l, ok := c19xLegacySubject[subject]; ok {
		t.SwitchOn = l
	} else {
		t.SwitchOn = subject
	}
}
