//go:build verif

package harness

// C03 — every wrapped token is backed one-for-one by escrowed value.
// Random structured histories over several pairs of both kinds on the real application
// (real EVM, real bank), projection after every operation, evaluated by
// Check/Erc20Check.v check_case_c03 (model comparison + backing monitor).

import (
	"fmt"
	"math/big"

	sdk "github.com/cosmos/cosmos-sdk/types"
)

func init() { runners["C03"] = c03Run }

// replay format shared by the C03 and C14 suites
type c03Case struct {
	World   int     `json:"world"`   // which prepared application (index in the suite's list)
	Parties []int   `json:"parties"` // party indices observed in this case
	Setup   []c03Op `json:"setup"`   // executed before the first observation (not checked)
	Ops     []c03Op `json:"ops"`     // the checked history
	Names   []string `json:"party_names,omitempty"`
}

type c03Weights struct {
	ConvertCoin, ConvertERC20, Transfer, Burn, BurnCoins, BankSend, Toggle, SendEnabled, Params int
	Repair float64 // chance per step that a switched-off switch is switched on again
	Receipt int    // one Ethereum transaction with several logs (needs a world with c03AddContracts)
	Lookalike int  // MsgConvertCoin with a coin named like the pair's contract address (needs c03MintLookalikes)
}

var c03DefaultWeights = c03Weights{ConvertCoin: 18, ConvertERC20: 18, Transfer: 20, Burn: 6, BurnCoins: 5, BankSend: 5, Toggle: 5, SendEnabled: 4, Params: 7, Repair: 0.3, Receipt: 30, Lookalike: 9}

// c03Prelude puts value on both sides of every pair so that every route has something to
// work on: each holder converts part of its coins (native pairs) / tokens (external pairs).
func (w *c03World) c03Prelude(unit *big.Int) {
	for p, pr := range w.Pairs {
		for h := 0; h < w.NHold; h++ {
			amt := new(big.Int).Mul(unit, big.NewInt(int64(200+100*h))).String()
			kind := "convert_coin"
			if pr.External {
				kind = "convert_erc20"
			}
			if !w.apply(w.Ctx, c03Op{Kind: kind, Pair: p, From: h, To: h, Amt: amt}) {
				panic("prelude conversion failed")
			}
		}
	}
}

// c03Amount draws an amount around the balance b: mostly valid, with the boundary values
func c03Amount(e *Env, b *big.Int) *big.Int {
	r := e.Pick(100)
	switch {
	case r < 55:
		if b.Sign() > 0 {
			return new(big.Int).Add(e.Below(b), big.NewInt(1)) // 1..b
		}
		return big.NewInt(1)
	case r < 67:
		e.Stats.Count("amount:exactly-balance")
		return new(big.Int).Set(b)
	case r < 76:
		e.Stats.Count("amount:balance+1")
		return new(big.Int).Add(b, big.NewInt(1))
	case r < 81:
		e.Stats.Count("amount:zero")
		return big.NewInt(0)
	case r < 86:
		return big.NewInt(1)
	case r < 90:
		if b.Sign() > 0 {
			e.Stats.Count("amount:balance-1")
			return new(big.Int).Sub(b, big.NewInt(1))
		}
		return big.NewInt(1)
	default:
		e.Stats.Count("amount:free-magnitude")
		return e.Mag(100)
	}
}

// c03GenOp draws the next operation looking at the current observation
func (w *c03World) c03GenOp(e *Env, wt c03Weights, parties []int, cur c03Obs) c03Op {
	pos := map[int]int{}
	for i, p := range parties {
		pos[p] = i
	}
	var mods []int // module accounts of this case other than erc20
	for _, p := range parties {
		if w.Parties[p].Module && p != w.ModIdx {
			mods = append(mods, p)
		}
	}
	pair := e.Pick(len(w.Pairs))
	// keep histories mostly valid: switched-off things are switched on again after a while
	if (!cur.Mod || !cur.Hook) && e.Chance(wt.Repair) {
		return c03Op{Kind: "params", B1: true, B2: true}
	}
	if !cur.Pairs[pair].Enabled && e.Chance(wt.Repair) {
		return c03Op{Kind: "toggle", Pair: pair}
	}
	if !cur.Pairs[pair].SendOK && e.Chance(wt.Repair) {
		return c03Op{Kind: "send_enabled", Pair: pair, B1: true}
	}
	total := wt.ConvertCoin + wt.ConvertERC20 + wt.Transfer + wt.Burn + wt.BurnCoins + wt.BankSend + wt.Toggle + wt.SendEnabled + wt.Params + wt.Receipt + wt.Lookalike
	r := e.Pick(total)
	from := e.Pick(w.NHold)
	other := (from + 1 + e.Pick(w.NHold-1)) % w.NHold
	cb := cur.Pairs[pair].CBal[pos[from]]
	tb := cur.Pairs[pair].TBal[pos[from]]
	receiver := func() int {
		x := e.Pick(100)
		if _, ok := pos[w.ZeroIdx]; ok && e.Chance(0.04) {
			e.Stats.Count("receiver:zero-address")
			return w.ZeroIdx
		}
		switch {
		case x < 45:
			e.Stats.Count("receiver:self")
			return from
		case x < 75:
			e.Stats.Count("receiver:third-party")
			return other
		case x < 87 || len(mods) == 0:
			e.Stats.Count("receiver:erc20-module-account")
			return w.ModIdx
		default:
			e.Stats.Count("receiver:other-module-account")
			return mods[e.Pick(len(mods))]
		}
	}
	switch {
	case r < wt.ConvertCoin:
		return c03Op{Kind: "convert_coin", Pair: pair, From: from, To: receiver(), Amt: c03Amount(e, cb).String()}
	case r < wt.ConvertCoin+wt.ConvertERC20:
		return c03Op{Kind: "convert_erc20", Pair: pair, From: from, To: receiver(), Amt: c03Amount(e, tb).String()}
	case r < wt.ConvertCoin+wt.ConvertERC20+wt.Transfer:
		var to int
		x := e.Pick(100)
		switch {
		case x < 50:
			e.Stats.Count("transfer-to:erc20-module-address")
			to = w.ModIdx
		case x < 80:
			e.Stats.Count("transfer-to:holder")
			to = other
		case x < 86:
			e.Stats.Count("transfer-to:self")
			to = from
		case x < 89:
			e.Stats.Count("transfer-to:zero-address")
			to = w.ZeroIdx
			if _, ok := pos[to]; !ok {
				to = other
			}
		default:
			e.Stats.Count("transfer-to:other-module-account")
			if len(mods) > 0 {
				to = mods[e.Pick(len(mods))]
			} else {
				to = other
			}
		}
		if w.VaultIdx >= 0 && e.Chance(0.15) {
			e.Stats.Count("transfer-to:contract-account")
			to = w.VaultIdx
		}
		return c03Op{Kind: "transfer", Pair: pair, From: from, To: to, Amt: c03Amount(e, tb).String()}
	case r < wt.ConvertCoin+wt.ConvertERC20+wt.Transfer+wt.Burn:
		return c03Op{Kind: "burn", Pair: pair, From: from, Amt: c03Amount(e, tb).String()}
	case r < wt.ConvertCoin+wt.ConvertERC20+wt.Transfer+wt.Burn+wt.BurnCoins:
		// burnCoins needs BURNER_ROLE: holders do not have it, except holder 0 on the external
		// contracts it deployed; the deployer burning the module's escrow is outside the
		// property (origin_ok), so that victim is not generated for it
		victim := other
		x := e.Pick(100)
		isBurner := w.Pairs[pair].External && w.Pairs[pair].Owner == from
		if x < 30 && !isBurner {
			victim = w.ModIdx
		} else if x < 45 {
			victim = from
		} else if x < 55 && len(mods) > 0 {
			victim = mods[e.Pick(len(mods))]
		}
		if isBurner {
			e.Stats.Count("burn_coins:by-role-holder")
		} else {
			e.Stats.Count("burn_coins:without-role")
		}
		vb := cur.Pairs[pair].TBal[pos[victim]]
		return c03Op{Kind: "burn_coins", Pair: pair, From: from, To: victim, Amt: c03Amount(e, vb).String()}
	case r < wt.ConvertCoin+wt.ConvertERC20+wt.Transfer+wt.Burn+wt.BurnCoins+wt.BankSend:
		return c03Op{Kind: "bank_send", Pair: pair, From: from, To: receiver(), Amt: c03Amount(e, cb).String()}
	case r < wt.ConvertCoin+wt.ConvertERC20+wt.Transfer+wt.Burn+wt.BurnCoins+wt.BankSend+wt.Toggle:
		return c03Op{Kind: "toggle", Pair: pair}
	case r < wt.ConvertCoin+wt.ConvertERC20+wt.Transfer+wt.Burn+wt.BurnCoins+wt.BankSend+wt.Toggle+wt.SendEnabled:
		return c03Op{Kind: "send_enabled", Pair: pair, B1: e.Chance(0.5)}
	case r < wt.ConvertCoin+wt.ConvertERC20+wt.Transfer+wt.Burn+wt.BurnCoins+wt.BankSend+wt.Toggle+wt.SendEnabled+wt.Params:
		if e.Chance(0.45) {
			return c03Op{Kind: "params", B1: true, B2: true}
		}
		return c03Op{Kind: "params", B1: e.Chance(0.5), B2: e.Chance(0.5)}
	case r < wt.ConvertCoin+wt.ConvertERC20+wt.Transfer+wt.Burn+wt.BurnCoins+wt.BankSend+wt.Toggle+wt.SendEnabled+wt.Params+wt.Receipt || len(w.LookPairs) == 0:
		return w.c03GenReceipt(e, parties, cur)
	default:
		return w.c03GenLookalike(e, receiver)
	}
}

// c03Execute runs one case on a branch of the world's base context: Setup (unchecked), then
// the checked history — recorded ops when kase.Ops is given, else n generated ops — with
// an observation after every operation.  Returns the Coq term and fills kase.Ops.
func (w *c03World) c03Execute(e *Env, kase *c03Case, n int, gen func(cur c03Obs) c03Op) (term string, sig string) {
	ctx, _ := w.Ctx.CacheContext()
	for _, o := range kase.Setup {
		w.apply(ctx, o)
	}
	return w.c03ExecuteOn(e, ctx, kase, n, gen, nil)
}

// c03ExecuteOn: as c03Execute on an already prepared context; pre (optional) is the
// observation of that context if the caller already has it.
func (w *c03World) c03ExecuteOn(e *Env, prepared sdk.Context, kase *c03Case, n int, gen func(cur c03Obs) c03Op, pre *c03Obs) (term string, sig string) {
	ctx, _ := prepared.CacheContext()
	selfburned := make([]*big.Int, len(w.Pairs))
	stuck := make([]*big.Int, len(w.Pairs))
	zero := make([]*big.Int, len(w.Pairs))
	for i := range selfburned {
		selfburned[i] = big.NewInt(0)
		stuck[i] = big.NewInt(0)
		zero[i] = big.NewInt(0)
	}
	var init c03Obs
	if pre != nil {
		init = *pre
	} else {
		init = w.observe(ctx, kase.Parties)
	}
	cur := init
	prevSB := append([]*big.Int{}, zero...)
	prevStuck := append([]*big.Int{}, zero...)
	replay := gen == nil
	if replay {
		n = len(kase.Ops)
	}
	var steps []string
	for i := 0; i < n; i++ {
		var o c03Op
		if replay {
			o = kase.Ops[i]
		} else {
			o = gen(cur)
			kase.Ops = append(kase.Ops, o)
		}
		ok := w.apply(ctx, o)
		e.Stats.Evaluations++
		cls := "rejected"
		if ok {
			cls = "ok"
			if o.Kind == "burn" {
				selfburned[o.Pair] = new(big.Int).Add(selfburned[o.Pair], c03Big(o.Amt))
			}
		}
		e.Stats.Count("op:" + o.Kind + ":" + cls)
		if o.Kind == "receipt" {
			// ghost: coins that stay in escrow because the sender named by a log is a blocked address
			for p, d := range w.c03ReceiptStats(e, o, ok, cur) {
				stuck[p] = new(big.Int).Add(stuck[p], d)
			}
		}
		if o.Kind != "params" {
			k := "module-owned"
			if w.Pairs[o.Pair].External {
				k = "external"
			}
			e.Stats.Count("pair-kind:" + k)
		}
		post := w.observe(ctx, kase.Parties)
		if ok && (o.Kind == "convert_coin" || o.Kind == "convert_erc20") {
			sig += "C"
		}
		if ok && o.Kind == "transfer" && o.To == w.ModIdx {
			pp, qq := cur.Pairs[o.Pair], post.Pairs[o.Pair]
			if pp.Supply.Cmp(qq.Supply) != 0 || !c03SameInts(pp.CBal, qq.CBal) {
				e.Stats.Count("hook:converted")
				sig += "C"
			} else {
				e.Stats.Count("hook:plain-transfer-to-module-address")
			}
		}
		if ok && o.Kind == "receipt" {
			converted := false
			for p := range post.Pairs {
				pp, qq := cur.Pairs[p], post.Pairs[p]
				if pp.Supply.Cmp(qq.Supply) != 0 || !c03SameInts(pp.CBal, qq.CBal) {
					converted = true
				}
			}
			if converted {
				e.Stats.Count("hook:converted-in-multi-log-receipt")
				sig += "C"
			} else {
				e.Stats.Count("hook:multi-log-receipt-without-conversion")
			}
		}
		steps = append(steps, Tup(w.opTerm(o), B(ok), w.dobsTerm(cur, prevSB, prevStuck, post, selfburned, stuck)))
		cur = post
		prevSB = append([]*big.Int{}, selfburned...)
		prevStuck = append([]*big.Int{}, stuck...)
		sig += fmt.Sprintf("%s/%d/%d/%d/%s/%v;", o.Kind, o.Pair, o.From, o.To, o.Amt, ok)
		for _, l := range o.Legs {
			sig += fmt.Sprintf("%s.%s/%d/%d/%d/%s;", o.Via, l.Kind, l.Pair, l.From, l.To, l.Amt)
		}
	}
	kase.Names = nil
	for _, p := range kase.Parties {
		kase.Names = append(kase.Names, w.Parties[p].Name)
	}
	term = App("mkErc20Case", w.partiesTerm(kase.Parties), w.blockedTerm(), w.obsTerm(init, zero, zero), L(steps))
	return term, sig
}

// c03BoundaryScript: for one pair, every `if` of the model with the bound just met and just
// missed (amount = balance, balance+-1, 0, 1 on an empty balance), each gate closed once, the
// hook with each switch off, blocked and zero-address receivers.  Amounts are computed from
// the current observation when the step is reached.
func (w *c03World) c03BoundaryScript(pair int, parties []int) []func(cur c03Obs) c03Op {
	pos := map[int]int{}
	for i, p := range parties {
		pos[p] = i
	}
	const a, b = 1, 2
	otherMod := -1
	for _, p := range parties {
		if w.Parties[p].Module && p != w.ModIdx {
			otherMod = p
		}
	}
	cb := func(cur c03Obs, h int) *big.Int { return cur.Pairs[pair].CBal[pos[h]] }
	tb := func(cur c03Obs, h int) *big.Int { return cur.Pairs[pair].TBal[pos[h]] }
	plus := func(x *big.Int, d int64) string {
		y := new(big.Int).Add(x, big.NewInt(d))
		if y.Sign() < 0 {
			y = big.NewInt(0)
		}
		return y.String()
	}
	fixed := func(o c03Op) func(c03Obs) c03Op { return func(c03Obs) c03Op { return o } }
	return []func(cur c03Obs) c03Op{
		fixed(c03Op{Kind: "params", B1: true, B2: true}),
		func(c c03Obs) c03Op { return c03Op{Kind: "convert_coin", Pair: pair, From: a, To: a, Amt: plus(cb(c, a), 1)} },
		func(c c03Obs) c03Op { return c03Op{Kind: "convert_coin", Pair: pair, From: a, To: a, Amt: plus(cb(c, a), 0)} },
		fixed(c03Op{Kind: "convert_coin", Pair: pair, From: a, To: a, Amt: "1"}),
		func(c c03Obs) c03Op { return c03Op{Kind: "convert_erc20", Pair: pair, From: a, To: a, Amt: plus(tb(c, a), 1)} },
		func(c c03Obs) c03Op { return c03Op{Kind: "convert_erc20", Pair: pair, From: a, To: a, Amt: plus(tb(c, a), 0)} },
		fixed(c03Op{Kind: "convert_erc20", Pair: pair, From: a, To: b, Amt: "1"}),
		func(c c03Obs) c03Op { return c03Op{Kind: "convert_coin", Pair: pair, From: a, To: b, Amt: plus(cb(c, a), -1)} },
		fixed(c03Op{Kind: "convert_coin", Pair: pair, From: a, To: a, Amt: "0"}),
		fixed(c03Op{Kind: "convert_erc20", Pair: pair, From: b, To: b, Amt: "0"}),
		func(c c03Obs) c03Op { return c03Op{Kind: "transfer", Pair: pair, From: b, To: w.ModIdx, Amt: plus(tb(c, b), 1)} },
		func(c c03Obs) c03Op { return c03Op{Kind: "transfer", Pair: pair, From: b, To: w.ModIdx, Amt: plus(tb(c, b), 0)} },
		fixed(c03Op{Kind: "transfer", Pair: pair, From: b, To: w.ModIdx, Amt: "1"}),
		fixed(c03Op{Kind: "transfer", Pair: pair, From: a, To: w.ModIdx, Amt: "0"}),
		func(c c03Obs) c03Op { return c03Op{Kind: "burn", Pair: pair, From: a, Amt: plus(tb(c, a), 1)} },
		func(c c03Obs) c03Op { return c03Op{Kind: "burn", Pair: pair, From: a, Amt: plus(tb(c, a), -1)} },
		fixed(c03Op{Kind: "burn", Pair: pair, From: a, Amt: "1"}),
		fixed(c03Op{Kind: "burn", Pair: pair, From: a, Amt: "1"}),
		fixed(c03Op{Kind: "burn_coins", Pair: pair, From: a, To: b, Amt: "1"}),
		fixed(c03Op{Kind: "burn_coins", Pair: pair, From: a, To: w.ModIdx, Amt: "1"}),
		// every gate closed once, and the hook with each switch off
		fixed(c03Op{Kind: "params", B1: true, B2: false}),
		fixed(c03Op{Kind: "transfer", Pair: pair, From: 0, To: w.ModIdx, Amt: "10"}),
		fixed(c03Op{Kind: "convert_erc20", Pair: pair, From: 0, To: 0, Amt: "10"}),
		fixed(c03Op{Kind: "params", B1: false, B2: true}),
		fixed(c03Op{Kind: "transfer", Pair: pair, From: 0, To: w.ModIdx, Amt: "10"}),
		fixed(c03Op{Kind: "convert_coin", Pair: pair, From: 0, To: 0, Amt: "10"}),
		fixed(c03Op{Kind: "convert_erc20", Pair: pair, From: 0, To: 0, Amt: "10"}),
		fixed(c03Op{Kind: "params", B1: true, B2: true}),
		fixed(c03Op{Kind: "toggle", Pair: pair}),
		fixed(c03Op{Kind: "transfer", Pair: pair, From: 0, To: w.ModIdx, Amt: "10"}),
		fixed(c03Op{Kind: "convert_coin", Pair: pair, From: 0, To: 0, Amt: "10"}),
		fixed(c03Op{Kind: "convert_erc20", Pair: pair, From: 0, To: 0, Amt: "10"}),
		fixed(c03Op{Kind: "toggle", Pair: pair}),
		fixed(c03Op{Kind: "send_enabled", Pair: pair, B1: false}),
		fixed(c03Op{Kind: "convert_coin", Pair: pair, From: 0, To: b, Amt: "10"}),
		fixed(c03Op{Kind: "convert_coin", Pair: pair, From: 0, To: 0, Amt: "10"}),
		fixed(c03Op{Kind: "convert_erc20", Pair: pair, From: 0, To: b, Amt: "10"}),
		fixed(c03Op{Kind: "bank_send", Pair: pair, From: 0, To: b, Amt: "1"}),
		fixed(c03Op{Kind: "send_enabled", Pair: pair, B1: true}),
		fixed(c03Op{Kind: "convert_coin", Pair: pair, From: 0, To: w.ModIdx, Amt: "10"}),
		fixed(c03Op{Kind: "convert_erc20", Pair: pair, From: 0, To: w.ModIdx, Amt: "10"}),
		fixed(c03Op{Kind: "convert_coin", Pair: pair, From: 0, To: otherMod, Amt: "10"}),
		fixed(c03Op{Kind: "convert_erc20", Pair: pair, From: 0, To: otherMod, Amt: "10"}),
		fixed(c03Op{Kind: "bank_send", Pair: pair, From: 0, To: w.ModIdx, Amt: "1"}),
		fixed(c03Op{Kind: "convert_coin", Pair: pair, From: 0, To: w.ZeroIdx, Amt: "10"}),
		fixed(c03Op{Kind: "convert_erc20", Pair: pair, From: 0, To: w.ZeroIdx, Amt: "10"}),
		fixed(c03Op{Kind: "transfer", Pair: pair, From: 0, To: w.ZeroIdx, Amt: "1"}),
		fixed(c03Op{Kind: "transfer", Pair: pair, From: 0, To: 0, Amt: "5"}),
		fixed(c03Op{Kind: "transfer", Pair: pair, From: 0, To: otherMod, Amt: "5"}),
		fixed(c03Op{Kind: "transfer", Pair: pair, From: 0, To: w.ModIdx, Amt: "10"}),
		fixed(c03Op{Kind: "convert_coin", Pair: pair, From: 0, To: a, Amt: "10"}),
		fixed(c03Op{Kind: "convert_erc20", Pair: pair, From: 0, To: a, Amt: "10"}),
	}
}

// c03Nontrivial registers a case that contains at least one successful conversion (by
// message or by the hook); the signature marks those with "C"
func c03Nontrivial(e *Env, sig string) {
	for i := 0; i < len(sig); i++ {
		if sig[i] == 'C' {
			e.Stats.Nontrivial(sig)
			return
		}
	}
}

func (w *c03World) c03ReportFails(e *Env) {
	for _, f := range w.Fails {
		e.Stats.ImplFailures = append(e.Stats.ImplFailures, ImplFailure{Case: 0, Step: -1, Monitor: "hypothesis-false-on-the-app", Detail: f})
	}
}

// c03PickParties: all holders, the erc20 module account and k other module accounts
func (w *c03World) c03PickParties(e *Env, k int) []int {
	var ps []int
	for i := 0; i <= w.ModIdx; i++ {
		ps = append(ps, i)
	}
	others := w.ZeroIdx - w.ModIdx - 1
	perm := e.Rng.Perm(others)
	chosen := map[int]bool{}
	for i := 0; i < k && i < others; i++ {
		chosen[w.ModIdx+1+perm[i]] = true
	}
	for i := w.ModIdx + 1; i < w.ZeroIdx; i++ {
		if chosen[i] {
			ps = append(ps, i)
		}
	}
	ps = append(ps, w.ZeroIdx)
	if w.VaultIdx >= 0 {
		ps = append(ps, w.VaultIdx)
	}
	return ps
}

func c03Worlds() []*c03World {
	// world 0: small numbers (balances of 1000: boundaries are hit often);
	// world 1: 18-decimals magnitudes
	units := []*big.Int{big.NewInt(1), new(big.Int).Exp(big.NewInt(10), big.NewInt(18), nil)}
	var ws []*c03World
	for i, u := range units {
		// one pair of each kind as they come, one more of each kind whose contract address
		// starts with a hex letter (its 40-digit spelling is then a valid coin denomination)
		w := c03NewWorld(i, 3, 1, 1, u)
		w.c03AddQualifyingPairs(u)
		w.c03Prelude(u)
		w.c03AddContracts(u)
		w.c03MintLookalikes(u)
		ws = append(ws, w)
	}
	return ws
}

func c03Run(e *Env) {
	e.Stats.Rule = "case = random history of 20-40 operations (plus one scripted boundary history per pair and world: every bound of the model just met / just missed, every gate closed once, the hook with each switch off, blocked and zero-address receivers, and scripted multi-log receipts: a balance spent in two logs exactly / one too many, zero amount first, several holders, the contract account sending twice and four times in one real transaction, approval naming the module, logs of an unregistered contract, a blocked sender in the middle, two registered contracts in one receipt, several logs with each switch off) on the real application with 2 module-owned pairs (RegisterCoin) and 2 external pairs (shipped ERC20MinterBurnerDecimals deployed by a holder, RegisterERC20), 3 holders, a contract account (hand-assembled multicall vault deployed by a real transaction, holding tokens of every pair and an allowance of every holder), an unregistered copy of the ERC-20, the erc20 module account and 2 further module accounts; one pair of each kind has a contract address starting with a hex letter (module nonce advanced / contracts deployed until it does) and holders own coins whose denomination is that address's 40 hex digits in lower case (holders 1, 2) and in mixed case (holders 0, 2); operations: ConvertCoin / ConvertERC20 through the erc20 message server, MsgConvertCoin with such a look-alike coin (GetTokenPairID resolves its name to the pair; must be refused; amounts around the owned balance, all receivers; also in the boundary stream), ERC-20 transfer / burn / burnCoins as signed Ethereum transactions through EvmKeeper.EthereumTx (post-tx hooks run), Ethereum transactions with 1-5 calls and as many or more logs in ONE receipt (about a fifth of all operations; 40% as one signed transaction to the vault which calls transfer / transferFrom / approve on registered and unregistered contracts - sender of the tokens = the vault, an account with code, or a holder; 60% at keeper level: every call executed for real as its sender - holder, vault, another module account i.e. a blocked address, on the unregistered contract also the erc20 module address itself - and one receipt with all logs handed to Erc20Keeper.Hooks().PostTxProcessing; destinations module address / holder / vault / self / other module account / zero address; amounts up to half the running balance, exactly the rest, 0, 1, one too many, free; the same sender repeated; a quarter of the calls on another pair than the receipt's main pair), bank MsgSend, ToggleTokenConversion, bank send-enabled flips, MsgUpdateParams; amounts 1..balance, exactly balance, balance+-1, 0, free magnitudes; receivers self / third party / module accounts / contract account; projection after every operation (after every receipt as a whole): bank supply, totalSupply(), bank balance and balanceOf() of every party for every pair, flags, parameters, result class; non-trivial = at least one successful conversion or hook conversion; distinct by hash of (operations, result classes)"
	ws := c03Worlds()
	hdr := c03Header
	for _, w := range ws {
		w.c03ReportFails(e)
		hdr += w.headerDefs()
	}
	e.Header(hdr)
	e.ShardSize = 12 // long histories: smaller shards evaluate in parallel
	nCases := e.Scale(40, 900)
	if e.Tier == "search" {
		nCases = 120
	}
	if e.Replay != nil {
		nCases = 1
	}
	// boundary stream: one scripted history per pair and world
	if e.Replay == nil && e.Tier != "search" {
		for wi, w := range ws {
			for pair := range w.Pairs {
				kase := c03Case{World: wi, Parties: w.c03PickParties(e, 1)}
				script := append(w.c03BoundaryScript(pair, kase.Parties), w.c03ReceiptScript(pair, kase.Parties)...)
				script = append(script, w.c03LookalikeScript(pair)...)
				i := 0
				term, sig := w.c03Execute(e, &kase, len(script), func(cur c03Obs) c03Op { o := script[i](cur); i++; return o })
				e.AddCase("check_case_c03", term, kase)
				c03Nontrivial(e, sig)
				e.Stats.Count("stream:boundary-script")
			}
		}
	}
	for c := 0; c < nCases; c++ {
		var kase c03Case
		var term, sig string
		if e.Replay != nil {
			mustUnmarshal(e.Replay, &kase)
			w := ws[kase.World]
			term, sig = w.c03Execute(e, &kase, 0, nil)
		} else {
			kase.World = c % len(ws)
			w := ws[kase.World]
			kase.Parties = w.c03PickParties(e, 2)
			n := 20 + e.Pick(21)
			term, sig = w.c03Execute(e, &kase, n, func(cur c03Obs) c03Op { return w.c03GenOp(e, c03DefaultWeights, kase.Parties, cur) })
		}
		e.AddCase("check_case_c03", term, kase)
		c03Nontrivial(e, sig)
		e.Stats.Count("stream:random-history")
		e.Stats.Sample(kase)
	}
	for _, w := range ws {
		for _, n := range w.Notes {
			e.Stats.Notes = append(e.Stats.Notes, fmt.Sprintf("world %d: %s", w.ID, n))
		}
		for _, p := range w.LookPairs {
			e.Stats.Notes = append(e.Stats.Notes, fmt.Sprintf("world %d pair %d (external=%v): look-alike denominations %s / %s", w.ID, p, w.Pairs[p].External, w.LookLower[p], w.LookMixed[p]))
		}
	}
	d := e.Stats.Distribution
	pct := func(a, b int) string {
		if b == 0 {
			return "n/a"
		}
		return fmt.Sprintf("%d/%d = %.0f%%", a, b, 100*float64(a)/float64(b))
	}
	rAll, rOK := d["receipt:all:ok"]+d["receipt:all:rejected"], d["receipt:all:ok"]
	if rAll > 0 {
		e.Stats.Notes = append(e.Stats.Notes, fmt.Sprintf(
			"multi-log receipts: %s of all operations; executed (not reverted) %s; of the executed ones: two or more logs %s, two or more positive transfers to the module address of ONE contract %s, a transfer to the module address whose sender is an account with code %s, whose sender is a blocked address %s, logs of several registered contracts %s; converted something %s",
			pct(rAll, e.Stats.Evaluations), pct(rOK, rAll), pct(d["receipt:two-or-more-logs:ok"], rOK),
			pct(d["receipt:two-or-more-transfers-to-module-of-one-contract:ok"], rOK),
			pct(d["receipt:transfer-to-module-by-account-with-code:ok"], rOK),
			pct(d["receipt:transfer-to-module-by-blocked-address:ok"], rOK),
			pct(d["receipt:several-registered-contracts:ok"], rOK),
			pct(d["hook:converted-in-multi-log-receipt"], rOK)))
	}
}
