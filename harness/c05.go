//go:build verif

package harness

import (
	"fmt"
	"math/big"
	"sort"
	"time"

	sdkmath "cosmossdk.io/math"
	sdk "github.com/cosmos/cosmos-sdk/types"
	authtypes "github.com/cosmos/cosmos-sdk/x/auth/types"
	distrtypes "github.com/cosmos/cosmos-sdk/x/distribution/types"
	stakingtypes "github.com/cosmos/cosmos-sdk/x/staking/types"

	"github.com/Canto-Network/Canto/v8/app"
	"github.com/Canto-Network/Canto/v8/x/epochs"
	epochstypes "github.com/Canto-Network/Canto/v8/x/epochs/types"
	"github.com/Canto-Network/Canto/v8/x/inflation"
	inflationtypes "github.com/Canto-Network/Canto/v8/x/inflation/types"
)

// Suites C05 and C13 share this hook-history engine: the real epochs keeper of
// the app (with the real inflation hooks wired by app.go) is driven block by
// block through EpochsKeeper.BeginBlocker, and the projection is observed right
// after that call (before distribution's BeginBlocker would sweep the fee collector).

func init() { runners["C05"] = func(e *Env) { c05RunHistories(e, "C05") } }

// ---------- replay format ----------

type c05Exp struct {
	A      string `json:"a"` // raw LegacyDec integers (value * 10^18)
	R      string `json:"r"`
	C      string `json:"c"`
	Target string `json:"bonding_target"`
	MaxVar string `json:"max_variance"`
}
type c05Params struct {
	Exp       c05Exp `json:"exp"`
	Staking   string `json:"staking_rewards"`
	Community string `json:"community_pool"`
	Enable    bool   `json:"enable"`
}
type c05Epoch struct {
	ID       string `json:"id"`
	StartNs  string `json:"start_ns"`
	DurNs    int64  `json:"dur_ns"`
	Cur      int64  `json:"cur"`
	CurStart string `json:"cur_start_ns"`
	Started  bool   `json:"started"`
}
type c05Op struct {
	Kind   string     `json:"kind"`                // "block" | "set" | "prov"
	Prov   string     `json:"provision,omitempty"` // kind "prov": raw LegacyDec written with SetEpochMintProvision
	TimeNs string     `json:"time_ns,omitempty"`
	Height int64      `json:"height,omitempty"`
	Params *c05Params `json:"params,omitempty"`
}
type c05Case struct {
	Denom   string     `json:"mint_denom"`
	Ident   string     `json:"epoch_identifier"`
	Epp     int64      `json:"epochs_per_period"`
	Period  uint64     `json:"period"`
	Skipped uint64     `json:"skipped_epochs"`
	Params  c05Params  `json:"params"`
	Epochs  []c05Epoch `json:"epochs"`
	T0Ns    string     `json:"t0_ns"`
	H0      int64      `json:"h0"`
	Bonded  string     `json:"bonded_tokens"`     // bond-denom tokens placed in the bonded pool
	Extra   string     `json:"extra_bond_supply"` // bond-denom tokens minted to a bystander
	Prefund string     `json:"module_prefund"`    // mint-denom coins sitting in the inflation module account beforehand
	// PrefundForeign: coins of ANOTHER denomination ("foreigncoin") sitting in the inflation module account beforehand
	// (a genesis balance): the first enabled epoch end must sweep them into the community pool with everything else
	PrefundForeign string `json:"module_prefund_foreign,omitempty"`
	Ops     []c05Op    `json:"ops"`
}

// ---------- helpers ----------

var c05S = new(big.Int).Exp(big.NewInt(10), big.NewInt(18), nil)

// c05Z prints an integer as a hexadecimal Coq numeral (parsed several times faster than decimal).
func c05Z(x *big.Int) string {
	if x.Sign() < 0 {
		return "(-0x" + new(big.Int).Neg(x).Text(16) + ")"
	}
	return "0x" + x.Text(16)
}
func c05Zi(x int64) string { return c05Z(big.NewInt(x)) }

func c05Dec(s string) sdkmath.LegacyDec {
	return sdkmath.LegacyNewDecFromBigIntWithPrec(bigOf(s), sdkmath.LegacyPrecision)
}

func c05ToParams(denom string, p c05Params) inflationtypes.Params {
	return inflationtypes.Params{
		MintDenom: denom,
		ExponentialCalculation: inflationtypes.ExponentialCalculation{
			A: c05Dec(p.Exp.A), R: c05Dec(p.Exp.R), C: c05Dec(p.Exp.C),
			BondingTarget: c05Dec(p.Exp.Target), MaxVariance: c05Dec(p.Exp.MaxVar),
		},
		InflationDistribution: inflationtypes.InflationDistribution{
			StakingRewards: c05Dec(p.Staking), CommunityPool: c05Dec(p.Community),
		},
		EnableInflation: p.Enable,
	}
}

func c05ExpTerm(x inflationtypes.ExponentialCalculation) string {
	return App("mkExp", c05Z(x.A.BigInt()), c05Z(x.R.BigInt()), c05Z(x.C.BigInt()), c05Z(x.BondingTarget.BigInt()), c05Z(x.MaxVariance.BigInt()))
}
func c05DistTerm(x inflationtypes.InflationDistribution) string {
	return App("mkDistr", c05Z(x.StakingRewards.BigInt()), c05Z(x.CommunityPool.BigInt()))
}

// fraction of one (raw), with boundary values
func (e *Env) c05Unit() *big.Int {
	switch e.Pick(9) {
	case 0:
		return big.NewInt(0)
	case 1:
		return new(big.Int).Set(c05S)
	case 2:
		return big.NewInt(1)
	case 3:
		return new(big.Int).Sub(c05S, big.NewInt(1))
	case 4:
		return new(big.Int).Mul(big.NewInt(int64(e.Pick(101))), new(big.Int).Exp(big.NewInt(10), big.NewInt(16), nil))
	default:
		return e.Below(new(big.Int).Add(c05S, big.NewInt(1)))
	}
}

// c05GenExp draws valid calculation parameters (validateExponentialCalculation), boundary values included.
func (e *Env) c05GenExp(maxBitsA int) c05Exp {
	var a *big.Int
	switch e.Pick(8) {
	case 0:
		a = big.NewInt(0)
	case 1:
		a = new(big.Int).Mul(big.NewInt(16_304_348), c05S) // the chain's default
	case 2:
		a = e.Below(c05S) // less than one token per period
	case 3:
		a = big.NewInt(int64(e.Pick(3)))
	default:
		a = e.Mag(maxBitsA)
		if e.Chance(0.6) {
			a.Mul(a, c05S)
		}
	}
	r := e.c05Unit()
	if e.Chance(0.25) {
		r = new(big.Int).Mul(big.NewInt(35), new(big.Int).Exp(big.NewInt(10), big.NewInt(16), nil))
	}
	c := big.NewInt(0)
	if e.Chance(0.4) {
		c = e.Mag(maxBitsA)
		if e.Chance(0.5) {
			c.Mul(c, c05S)
		}
	}
	target := e.c05Unit()
	if target.Sign() == 0 {
		target = new(big.Int).Mul(big.NewInt(8), new(big.Int).Exp(big.NewInt(10), big.NewInt(17), nil))
	}
	var mv *big.Int
	switch e.Pick(5) {
	case 0:
		mv = big.NewInt(0)
	case 1:
		mv = e.c05Unit()
	case 2:
		mv = e.Below(new(big.Int).Mul(big.NewInt(10), c05S))
	case 3:
		mv = big.NewInt(int64(1 + e.Pick(3)))
	default:
		mv = e.Below(c05S)
	}
	// a LegacyDec holds at most 315 bits
	lim := new(big.Int).Lsh(big.NewInt(1), 314)
	a.Mod(a, lim)
	c.Mod(c, lim)
	return c05Exp{A: a.String(), R: r.String(), C: c.String(), Target: target.String(), MaxVar: mv.String()}
}

// c05GenStorableExp draws calculation parameters that the module's own validator accepts, i.e. that
// SetParams / InitGenesis can store.  Since the repair of the C18 finding the validator also rejects
// values for which the provision cannot be computed (provisionComputable); such draws are discarded
// here (the overflow behaviour of the formula itself is the subject of the C13 "calc" stream).
func (e *Env) c05GenStorableExp(maxBitsA int) c05Exp {
	for {
		x := e.c05GenExp(maxBitsA)
		p := inflationtypes.DefaultParams()
		p.ExponentialCalculation = inflationtypes.ExponentialCalculation{A: c05Dec(x.A), R: c05Dec(x.R), C: c05Dec(x.C),
			BondingTarget: c05Dec(x.Target), MaxVariance: c05Dec(x.MaxVar)}
		if p.Validate() == nil {
			// The theorems and the model assume that bank supply and balances stay below 2^256 (stated in the property
			// configuration): a provision of the order of 2^250 tokens per epoch is accepted by the validator but makes the
			// bank's supply overflow in MintCoins after a handful of epochs, which the model (unbounded integers) does not
			// exhibit.  Keep a history's total minting below 2^240: worst-case provision (period 0, one epoch per period,
			// bonded ratio 0) times the longest history.
			worst := inflationtypes.CalculateEpochMintProvision(p, 0, 1, sdkmath.LegacyZeroDec()).TruncateInt().BigInt()
			if new(big.Int).Mul(worst, big.NewInt(4096)).BitLen() <= 240 {
				return x
			}
			e.Stats.Count("generator:exp-would-overflow-bank-supply(redrawn)")
			continue
		}
		e.Stats.Count("generator:exp-rejected-by-validator(redrawn)")
	}
}

func (e *Env) c05GenSplit() (string, string) {
	st := e.c05Unit()
	if e.Chance(0.15) { // the chain's default: everything to staking
		st = new(big.Int).Set(c05S)
	}
	return st.String(), new(big.Int).Sub(c05S, st).String()
}

const c05ForeignDenom = "foreigncoin"

type c05Obs struct {
	params                                 inflationtypes.Params
	period, skipped                        uint64
	epp                                    int64
	ident                                  string
	prov, fee, module, distr, pool, supply *big.Int
}

func c05Observe(a *app.Canto, ctx sdk.Context) c05Obs {
	k := a.InflationKeeper
	var o c05Obs
	o.params = k.GetParams(ctx)
	d := o.params.MintDenom
	o.period = k.GetPeriod(ctx)
	o.skipped = k.GetSkippedEpochs(ctx)
	o.epp = k.GetEpochsPerPeriod(ctx)
	o.ident = k.GetEpochIdentifier(ctx)
	prov, _ := k.GetEpochMintProvision(ctx)
	o.prov = prov.BigInt()
	bal := func(module string) *big.Int {
		return a.BankKeeper.GetBalance(ctx, a.AccountKeeper.GetModuleAddress(module), d).Amount.BigInt()
	}
	o.fee = bal(authtypes.FeeCollectorName)
	o.module = bal(inflationtypes.ModuleName)
	o.distr = bal(distrtypes.ModuleName)
	fp, err := a.DistrKeeper.FeePool.Get(ctx)
	if err != nil {
		panic(err)
	}
	o.pool = fp.CommunityPool.AmountOf(d).BigInt()
	o.supply = a.BankKeeper.GetSupply(ctx, d).Amount.BigInt()
	return o
}

func c05Rank(rank map[string]int, id string) int64 {
	if r, ok := rank[id]; ok {
		return int64(r)
	}
	return -1
}

func c05StateTerm(rank map[string]int, o c05Obs, prov *big.Int) string {
	return App("mkState",
		App("mkParams", "0", c05ExpTerm(o.params.ExponentialCalculation), c05DistTerm(o.params.InflationDistribution), B(o.params.EnableInflation)),
		c05Z(new(big.Int).SetUint64(o.period)), c05Z(new(big.Int).SetUint64(o.skipped)), c05Zi(o.epp), c05Zi(c05Rank(rank, o.ident)),
		c05Z(prov), c05Z(o.fee), c05Z(o.module), c05Z(o.distr), c05Z(o.pool), c05Z(o.supply))
}

func c05DynTerm(o c05Obs) string {
	return App("mkDyn", c05Z(new(big.Int).SetUint64(o.period)), c05Z(new(big.Int).SetUint64(o.skipped)), c05Z(o.prov),
		c05Z(o.fee), c05Z(o.module), c05Z(o.distr), c05Z(o.pool), c05Z(o.supply))
}

func c05EpochTerm(rank map[string]int, x epochstypes.EpochInfo) string {
	return App("mkEpoch", c05Zi(int64(rank[x.Identifier])), c05Z(TimeNs(x.StartTime)), c05Zi(int64(x.Duration)), c05Zi(x.CurrentEpoch),
		c05Z(TimeNs(x.CurrentEpochStartTime)), B(x.EpochCountingStarted), c05Zi(x.CurrentEpochStartHeight))
}

func c05NsToTime(ns *big.Int) time.Time {
	q, r := new(big.Int).DivMod(ns, big.NewInt(1_000_000_000), new(big.Int))
	return time.Unix(q.Int64(), r.Int64()).UTC()
}

// oracle inputs of BondedRatio, read with the keeper calls the hook itself uses
func c05OracleTerm(a *app.Canto, ctx sdk.Context, mintDenom string) string {
	bonded, err := a.StakingKeeper.TotalBondedTokens(ctx)
	if err != nil {
		panic(err)
	}
	bd, err := a.StakingKeeper.BondDenom(ctx)
	if err != nil {
		panic(err)
	}
	if bd == mintDenom {
		return App("mkOracle", c05Z(bonded.BigInt()), "None")
	}
	sup, err := a.StakingKeeper.StakingTokenSupply(ctx)
	if err != nil {
		panic(err)
	}
	return App("mkOracle", c05Z(bonded.BigInt()), "(Some "+c05Z(sup.BigInt())+")")
}

func c05Mint(a *app.Canto, ctx sdk.Context, denom string, amt *big.Int, toModule string, toAcc sdk.AccAddress) {
	if amt.Sign() <= 0 {
		return
	}
	coins := sdk.NewCoins(sdk.NewCoin(denom, sdkmath.NewIntFromBigInt(amt)))
	if err := a.BankKeeper.MintCoins(ctx, inflationtypes.ModuleName, coins); err != nil {
		panic(err)
	}
	if toModule != "" && toModule != inflationtypes.ModuleName {
		if err := a.BankKeeper.SendCoinsFromModuleToModule(ctx, inflationtypes.ModuleName, toModule, coins); err != nil {
			panic(err)
		}
	}
	if toAcc != nil {
		if err := a.BankKeeper.SendCoinsFromModuleToAccount(ctx, inflationtypes.ModuleName, toAcc, coins); err != nil {
			panic(err)
		}
	}
}

// ---------- the engine ----------

func c05RunHistories(e *Env, suite string) {
	e.Header("From Coq Require Import ZArith List.\nFrom Canto Require Import Model.Epochs Model.Inflation Check.Common Check.InflationCheck.\nImport ListNotations.\nOpen Scope Z_scope.\n")
	rule := "case = inflation genesis (valid random decay parameters and split, epochs_per_period in {1,2,3,5,7,30,365}, fresh or exported-style schedule placed at / next to a period boundary, enabled or not, identifier day / week / absent, mint denom = bond denom or not, bonded pool and supply chosen for bonded ratio 0 / around target / random, optional pre-existing module balance) + epochs genesis (day plus optional hour/week) + history of blocks through the app's EpochsKeeper.BeginBlocker (boundary +1ns / exact / same time / long gaps ending several epochs) interleaved with SetParams (toggle, new split, new decay parameters); projection observed right after BeginBlocker; non-trivial = at least one mint or skipped epoch; distinct by hash of observed (period, skipped, supply) sequence"
	if suite == "C13" {
		rule = "hook histories: " + rule
	}
	if e.Stats.Rule == "" {
		e.Stats.Rule = rule
	} else {
		e.Stats.Rule += " || " + rule
	}
	a, baseCtx := NewApp()
	nCases := e.Scale(60, 1500)
	if suite == "C13" {
		nCases = e.Scale(45, 1200)
	}
	if e.Tier == "search" {
		nCases *= 3
	}
	if e.Replay != nil {
		nCases = 1
	}
	bystander := sdk.AccAddress([]byte("c05-bystander-account"))
	day := int64(24 * time.Hour)
	for c := 0; c < nCases; c++ {
		var kase c05Case
		if e.Replay != nil {
			mustUnmarshal(e.Replay, &kase)
			if kase.Denom == "" { // a library-level case of suite C13: not a history
				return
			}
		} else {
			c05GenCase(e, suite, &kase, day)
		}
		// ----- set up -----
		ctx, _ := baseCtx.CacheContext()
		t0 := bigOf(kase.T0Ns)
		ctx = ctx.WithBlockTime(c05NsToTime(t0)).WithBlockHeight(kase.H0)
		ek := a.EpochsKeeper
		for _, old := range ek.AllEpochInfos(ctx) {
			ek.DeleteEpochInfo(ctx, old.Identifier)
		}
		ids := []string{}
		var gs epochstypes.GenesisState
		for _, g := range kase.Epochs {
			ids = append(ids, g.ID)
			gs.Epochs = append(gs.Epochs, epochstypes.EpochInfo{Identifier: g.ID, StartTime: c05NsToTime(bigOf(g.StartNs)), Duration: time.Duration(g.DurNs),
				CurrentEpoch: g.Cur, CurrentEpochStartTime: c05NsToTime(bigOf(g.CurStart)), EpochCountingStarted: g.Started})
		}
		sort.Strings(ids)
		rank := map[string]int{}
		for i, id := range ids {
			rank[id] = i
		}
		epochs.InitGenesis(ctx, ek, gs)
		// the Canto chain bonds and mints the same denomination (acanto); the test application's default genesis bonds
		// "stake", which would make the bonded ratio independent of what the hook mints
		sp, err := a.StakingKeeper.GetParams(ctx)
		if err != nil {
			panic(err)
		}
		sp.BondDenom = "acanto"
		if err := a.StakingKeeper.SetParams(ctx, sp); err != nil {
			panic(err)
		}
		bondDenom, err := a.StakingKeeper.BondDenom(ctx)
		if err != nil {
			panic(err)
		}
		c05Mint(a, ctx, bondDenom, bigOf(kase.Bonded), stakingtypes.BondedPoolName, nil)
		c05Mint(a, ctx, bondDenom, bigOf(kase.Extra), "", bystander)
		c05Mint(a, ctx, kase.Denom, bigOf(kase.Prefund), inflationtypes.ModuleName, nil)
		foreign := big.NewInt(0)
		if kase.PrefundForeign != "" && kase.Denom != c05ForeignDenom {
			foreign = bigOf(kase.PrefundForeign)
			c05Mint(a, ctx, c05ForeignDenom, foreign, inflationtypes.ModuleName, nil)
		}
		genOracle := c05OracleTerm(a, ctx, kase.Denom)
		inflation.InitGenesis(ctx, a.InflationKeeper, a.AccountKeeper, a.StakingKeeper, inflationtypes.GenesisState{
			Params: c05ToParams(kase.Denom, kase.Params), Period: kase.Period, EpochIdentifier: kase.Ident,
			EpochsPerPeriod: kase.Epp, SkippedEpochs: kase.Skipped,
		})
		ini := c05Observe(a, ctx)
		var eterms []string
		for i, x := range ek.AllEpochInfos(ctx) {
			if rank[x.Identifier] != i {
				e.Stats.ImplFailures = append(e.Stats.ImplFailures, ImplFailure{Case: c, Step: -1, Monitor: "store-order", Detail: "AllEpochInfos is not in byte order of identifiers"})
			}
			eterms = append(eterms, c05EpochTerm(rank, x))
		}
		// ----- history -----
		now := new(big.Int).Set(t0)
		height := kase.H0
		nSteps := 25 + e.Pick(e.Scale(50, 150))
		if e.Replay != nil {
			nSteps = len(kase.Ops)
		}
		var steps []string
		sig := ""
		nontrivial := false
		prev := ini
		for i := 0; i < nSteps; i++ {
			var op c05Op
			if e.Replay != nil {
				op = kase.Ops[i]
			} else {
				pProv := 0.008
				if i == 0 {
					pProv = 0.2
					if suite == "C13" {
						pProv = 0.08
					}
				}
				if e.Chance(pProv) {
					// a provision with a fractional part: integer part vs rounding matters
					v := new(big.Int).Set(prev.prov)
					if e.Chance(0.3) {
						v = e.Mag(150)
					}
					fr := e.c05Unit()
					if e.Chance(0.5) {
						fr = new(big.Int).Add(new(big.Int).Quo(c05S, big.NewInt(2)), big.NewInt(int64(e.Pick(3)-1)))
					}
					v.Sub(v, new(big.Int).Mod(v, c05S))
					v.Add(v, new(big.Int).Mod(fr, c05S))
					op = c05Op{Kind: "prov", Prov: v.String()}
				} else {
					op = c05GenOp(e, suite, a, ctx, &kase, now, &height)
				}
				kase.Ops = append(kase.Ops, op)
			}
			switch op.Kind {
			case "prov":
				a.InflationKeeper.SetEpochMintProvision(ctx, c05Dec(op.Prov))
				o := c05Observe(a, ctx)
				steps = append(steps, App("HProv", c05Z(bigOf(op.Prov)), c05StateTerm(rank, o, o.prov)))
				prev = o
				e.Stats.Count("op:set-provision-fractional")
			case "set":
				p := c05ToParams(kase.Denom, *op.Params)
				a.InflationKeeper.SetParams(ctx, p)
				o := c05Observe(a, ctx)
				steps = append(steps, App("HSet", c05ExpTerm(p.ExponentialCalculation), c05DistTerm(p.InflationDistribution), B(p.EnableInflation), c05StateTerm(rank, o, o.prov)))
				prev = o
				e.Stats.Count("op:set-params")
			default:
				now = bigOf(op.TimeNs)
				height = op.Height
				oracle := c05OracleTerm(a, ctx, kase.Denom)
				ratio := a.InflationKeeper.BondedRatio(ctx).BigInt()
				bctx, write := ctx.WithBlockTime(c05NsToTime(now)).WithBlockHeight(height).CacheContext()
				panicked := false
				func() {
					defer func() {
						if r := recover(); r != nil {
							panicked = true
						}
					}()
					if err := ek.BeginBlocker(bctx); err != nil {
						panic(err)
					}
				}()
				e.Stats.Evaluations++
				res := "None"
				if panicked {
					e.Stats.Count("block:panicked")
				} else {
					write()
					o := c05Observe(a, ctx)
					res = "(Some " + c05DynTerm(o) + ")"
					if o.params.String() != prev.params.String() || o.epp != prev.epp || o.ident != prev.ident {
						e.Stats.ImplFailures = append(e.Stats.ImplFailures, ImplFailure{Case: c, Step: i, Monitor: "static-state-changed", Detail: "BeginBlocker changed params, epochs_per_period or the epoch identifier"})
					}
					switch {
					case o.supply.Cmp(prev.supply) != 0:
						e.Stats.Count("block:minted")
						nontrivial = true
						// "the inflation module account is left empty": of every denomination, and what it held went to the community pool
						if left := a.BankKeeper.GetAllBalances(ctx, a.AccountKeeper.GetModuleAddress(inflationtypes.ModuleName)); !left.IsZero() {
							e.Stats.ImplFailures = append(e.Stats.ImplFailures, ImplFailure{Case: c, Step: i, Monitor: "module-account-not-empty-after-epoch-end",
								Detail: "after an enabled epoch end the inflation module account still holds " + left.String()})
						}
						if foreign.Sign() > 0 {
							e.Stats.Count("block:minted-with-foreign-coins-in-the-module-account")
							fp, err := a.DistrKeeper.FeePool.Get(ctx)
							if err != nil {
								panic(err)
							}
							if got := fp.CommunityPool.AmountOf(c05ForeignDenom).TruncateInt().BigInt(); got.Cmp(foreign) != 0 {
								e.Stats.ImplFailures = append(e.Stats.ImplFailures, ImplFailure{Case: c, Step: i, Monitor: "module-account-not-empty-after-epoch-end",
									Detail: fmt.Sprintf("the community pool holds %s %s, the module account held %s before the epoch end", got, c05ForeignDenom, foreign)})
							}
						}
						if o.period != prev.period {
							e.Stats.Count("block:period-advanced")
						}
						if o.prov.Cmp(prev.prov) != 0 {
							e.Stats.Count("block:provision-changed")
						}
					case o.skipped != prev.skipped:
						e.Stats.Count("block:skipped")
						nontrivial = true
					default:
						e.Stats.Count("block:no-inflation-event")
					}
					sig += fmt.Sprintf("%d/%d/%s;", o.period, o.skipped, o.supply)
					prev = o
				}
				var ets []string
				for _, x := range ek.AllEpochInfos(ctx) {
					ets = append(ets, c05EpochTerm(rank, x))
				}
				steps = append(steps, App("HBlock", c05Z(now), c05Zi(height), oracle, c05Z(ratio), L(ets), res))
			}
		}
		if nontrivial {
			e.Stats.Nontrivial(sig)
		}
		term := App("mkHistCase", Zi(c05Rank(rank, epochstypes.DayEpochID)), genOracle,
			c05StateTerm(rank, ini, big.NewInt(0)), c05StateTerm(rank, ini, ini.prov), L(eterms), L(steps))
		e.AddCase("check_hist", term, kase)
		e.Stats.Sample(kase)
	}
}

// c05GenCase draws the genesis part of a case.
func c05GenCase(e *Env, suite string, kase *c05Case, day int64) {
	t0 := new(big.Int).Add(TimeNs(GenesisTime), big.NewInt(e.Rng.Int63n(1_000_000_000_000)))
	kase.T0Ns = t0.String()
	kase.H0 = int64(1 + e.Pick(5))
	// identifiers
	kase.Ident = epochstypes.DayEpochID
	switch {
	case e.Chance(0.08):
		kase.Ident = epochstypes.WeekEpochID
		e.Stats.Count("identifier:week")
	case e.Chance(0.03):
		kase.Ident = "month" // never among the epochs
		e.Stats.Count("identifier:absent")
	default:
		e.Stats.Count("identifier:day")
	}
	durs := []int64{day, int64(time.Hour), int64(100 * time.Second), 1_000_000_007}
	dur := durs[e.Pick(len(durs))]
	epps := []int64{1, 2, 3, 30, 365, 5, 7}
	nE := 5
	if suite == "C05" && e.Chance(0.3) {
		nE = 7
	}
	kase.Epp = epps[e.Pick(nE)]
	e.Stats.Count(fmt.Sprintf("epochs-per-period:%d", kase.Epp))
	// the schedule: fresh, or as an exported genesis carries it, next to a period boundary
	exported := e.Chance(0.45)
	var dayCur int64
	if exported {
		p := int64(e.Pick(4))
		if e.Chance(0.15) {
			p = int64(100 + e.Pick(4000))
		}
		k := int64(e.Pick(12))
		var d int64
		switch e.Pick(4) {
		case 0:
			d = kase.Epp - 1
		case 1:
			d = kase.Epp - 2
		case 2:
			d = 0
		default:
			d = int64(e.Pick(int(kase.Epp)))
		}
		if d < 0 {
			d = 0
		}
		dayCur = 1 + k + kase.Epp*p + d
		if e.Chance(0.1) { // inconsistent schedule: the model is total, the code must agree anyway
			dayCur = int64(1 + e.Pick(50))
			e.Stats.Count("genesis:exported-inconsistent")
		} else {
			e.Stats.Count("genesis:exported-near-boundary")
		}
		kase.Period, kase.Skipped = uint64(p), uint64(k)
	} else {
		e.Stats.Count("genesis:fresh")
	}
	zero := TimeNs(time.Time{}).String()
	mk := func(id string, d int64, cur int64) c05Epoch {
		if cur > 0 {
			// the start time of an epoch record that has counted `cur` epochs lies (cur-1) durations back; it must stay
			// representable (protobuf timestamps begin at year 1): with the thousands of periods of the thorough tier a
			// day-long duration would not, so the duration is shortened for such records
			span := new(big.Int).Sub(t0, TimeNs(time.Time{}))
			maxD := new(big.Int).Div(span, big.NewInt(cur+2))
			if maxD.IsInt64() && maxD.Int64() < d {
				d = maxD.Int64()
				if d < 1 {
					d = 1
				}
			}
		}
		ep := c05Epoch{ID: id, DurNs: d, CurStart: zero}
		if cur > 0 {
			start := new(big.Int).Sub(t0, new(big.Int).Mul(big.NewInt(cur-1), big.NewInt(d)))
			start.Sub(start, big.NewInt(e.Rng.Int63n(d)))
			ep.StartNs = start.String()
			ep.Started, ep.Cur = true, cur
			ep.CurStart = new(big.Int).Add(start, new(big.Int).Mul(big.NewInt(cur-1), big.NewInt(d))).String()
		} else {
			switch e.Pick(4) {
			case 0:
				ep.StartNs = zero // unset: InitGenesis puts the block time
			case 1:
				ep.StartNs = t0.String()
			case 2:
				ep.StartNs = new(big.Int).Sub(t0, big.NewInt(e.Rng.Int63n(d))).String()
			default:
				ep.StartNs = new(big.Int).Add(t0, big.NewInt(e.Rng.Int63n(d))).String()
			}
		}
		return ep
	}
	identCur := dayCur
	kase.Epochs = append(kase.Epochs, mk(epochstypes.DayEpochID, dur, func() int64 {
		if kase.Ident == epochstypes.DayEpochID {
			return identCur
		}
		return 0
	}()))
	if kase.Ident == epochstypes.WeekEpochID || e.Chance(0.4) {
		wd := 7 * dur
		if e.Chance(0.3) {
			wd = 2 * dur
		}
		cur := int64(0)
		if kase.Ident == epochstypes.WeekEpochID {
			cur = identCur
		}
		kase.Epochs = append(kase.Epochs, mk(epochstypes.WeekEpochID, wd, cur))
		e.Stats.Count("epochs:week-present")
	}
	if e.Chance(0.3) {
		kase.Epochs = append(kase.Epochs, mk(epochstypes.HourEpochID, dur/3+1, 0))
		e.Stats.Count("epochs:hour-present")
	}
	// parameters
	kase.Params.Exp = e.c05GenStorableExp(120)
	kase.Params.Staking, kase.Params.Community = e.c05GenSplit()
	kase.Params.Enable = e.Chance(0.75)
	// denominations and the bonded ratio
	kase.Denom = "acanto"
	if e.Chance(0.2) {
		kase.Denom = "ainfl"
		e.Stats.Count("mint-denom:not-bond-denom")
	} else {
		e.Stats.Count("mint-denom:bond-denom")
	}
	bonded := big.NewInt(0)
	extra := big.NewInt(0)
	target := bigOf(kase.Params.Exp.Target)
	switch e.Pick(6) {
	case 5: // supply of the order of ONE epoch's provision and a ratio well below the target: every mint moves the bonded
		// ratio visibly, so it matters at which point of the hook the ratio is read (before or after the mint)
		per := new(big.Int).Quo(bigOf(kase.Params.Exp.A), big.NewInt(kase.Epp)) // ~ tokens minted per epoch (a is scaled by 10^18, as the provision is)
		if per.Sign() <= 0 {
			per = big.NewInt(1000)
		}
		bonded = new(big.Int).Mul(per, big.NewInt(int64(1+e.Pick(3))))
		extra = new(big.Int).Mul(per, big.NewInt(int64(2+e.Pick(6))))
		// ... with a bonding incentive that really depends on the ratio: variance > 0, target above the ratio, minting on,
		// mint denomination = bond denomination (the mint itself then changes the ratio)
		if bigOf(kase.Params.Exp.MaxVar).Sign() == 0 {
			kase.Params.Exp.MaxVar = new(big.Int).Quo(c05S, big.NewInt(2)).String()
		}
		if min := new(big.Int).Quo(new(big.Int).Mul(c05S, big.NewInt(8)), big.NewInt(10)); target.Cmp(min) < 0 {
			target = min
			kase.Params.Exp.Target = min.String()
		}
		kase.Params.Enable = true
		kase.Denom = "acanto"
		e.Stats.Count("bonded-ratio:supply-comparable-to-one-provision")
	case 0: // nothing bonded
		extra = e.Mag(100)
		e.Stats.Count("bonded-ratio:zero")
	case 1: // ratio around the target
		bonded = e.Mag(90)
		total := new(big.Int).Quo(new(big.Int).Mul(bonded, c05S), target)
		extra = new(big.Int).Sub(total, bonded)
		extra.Add(extra, big.NewInt(int64(e.Pick(3)-1)))
		if extra.Sign() < 0 {
			extra.SetInt64(0)
		}
		e.Stats.Count("bonded-ratio:around-target")
	case 2: // everything bonded
		bonded = e.Mag(100)
		e.Stats.Count("bonded-ratio:one")
	default:
		bonded = e.Mag(100)
		extra = e.Mag(100)
		e.Stats.Count("bonded-ratio:random")
	}
	kase.Bonded, kase.Extra = bonded.String(), extra.String()
	kase.Prefund = "0"
	if e.Chance(0.3) {
		kase.Prefund = e.Mag(80).String()
		e.Stats.Count("module-prefunded")
	}
	if e.Chance(0.25) {
		kase.PrefundForeign = new(big.Int).Add(e.Mag(60), big.NewInt(1)).String()
		e.Stats.Count("module-prefunded-with-another-denomination")
	}
}

// c05GenOp draws the next operation, aiming block times at the boundaries of the configured identifier.
func c05GenOp(e *Env, suite string, a *app.Canto, ctx sdk.Context, kase *c05Case, now *big.Int, height *int64) c05Op {
	pSet := 0.10
	if suite == "C13" {
		pSet = 0.16
	}
	if !a.InflationKeeper.GetParams(ctx).EnableInflation {
		pSet *= 2.5 // do not stay disabled for most of the history
	}
	if e.Chance(pSet) {
		cur := a.InflationKeeper.GetParams(ctx)
		p := c05Params{
			Exp: c05Exp{A: cur.ExponentialCalculation.A.BigInt().String(), R: cur.ExponentialCalculation.R.BigInt().String(), C: cur.ExponentialCalculation.C.BigInt().String(),
				Target: cur.ExponentialCalculation.BondingTarget.BigInt().String(), MaxVar: cur.ExponentialCalculation.MaxVariance.BigInt().String()},
			Staking: cur.InflationDistribution.StakingRewards.BigInt().String(), Community: cur.InflationDistribution.CommunityPool.BigInt().String(),
			Enable: cur.EnableInflation,
		}
		k := e.Pick(10)
		if !cur.EnableInflation && k >= 6 && e.Chance(0.5) {
			k = 0
		}
		switch {
		case k < 6:
			p.Enable = !p.Enable
			e.Stats.Count("set:toggle")
		case k < 8:
			p.Staking, p.Community = e.c05GenSplit()
			e.Stats.Count("set:split")
		default:
			bits := 120
			if e.Chance(0.25) {
				bits = 300 // the recomputation at the next period boundary overflows LegacyDec: the hook panics
			}
			p.Exp = e.c05GenStorableExp(bits)
			e.Stats.Count("set:decay-parameters")
		}
		return c05Op{Kind: "set", Params: &p}
	}
	*height++
	infos := a.EpochsKeeper.AllEpochInfos(ctx)
	tgt := infos[0]
	for _, x := range infos {
		if x.Identifier == epochstypes.DayEpochID {
			tgt = x
		}
	}
	for _, x := range infos {
		if x.Identifier == kase.Ident {
			tgt = x
		}
	}
	if e.Chance(0.1) {
		tgt = infos[e.Pick(len(infos))]
	}
	var boundary *big.Int
	if tgt.EpochCountingStarted {
		boundary = new(big.Int).Add(TimeNs(tgt.CurrentEpochStartTime), big.NewInt(int64(tgt.Duration)))
	} else {
		boundary = TimeNs(tgt.StartTime)
	}
	next := new(big.Int).Set(now)
	kind := e.Pick(20)
	gapP := 1
	if suite == "C05" {
		gapP = 3
	}
	switch {
	case kind < 9: // just past the boundary: the epoch ends
		next = new(big.Int).Add(boundary, big.NewInt(1+e.Rng.Int63n(int64(tgt.Duration)/2+1)))
		e.Stats.Count("block-time:past-boundary")
	case kind < 11:
		next = new(big.Int).Add(boundary, big.NewInt(1))
		e.Stats.Count("block-time:boundary+1ns")
	case kind < 12:
		next = boundary
		e.Stats.Count("block-time:boundary-exact")
	case kind < 12+gapP: // long gap: several epochs end, one per following block
		next.Add(next, new(big.Int).Mul(big.NewInt(int64(tgt.Duration)), big.NewInt(int64(2+e.Pick(6)))))
		e.Stats.Count("block-time:long-gap")
	case kind < 17:
		e.Stats.Count("block-time:same")
	default:
		next.Add(next, big.NewInt(e.Rng.Int63n(int64(tgt.Duration)/4+1)))
		e.Stats.Count("block-time:small-step")
	}
	if next.Cmp(now) < 0 { // block times never decrease
		next = new(big.Int).Set(now)
	}
	return c05Op{Kind: "block", TimeNs: next.String(), Height: *height}
}
