//go:build verif

package harness

// Machinery of the C06 suite: a chain with a genuine bonded genesis validator on a caller-owned
// database (so that a replica can be re-created from it), signed Cosmos and Ethereum transactions
// as raw bytes, the read-only requests issued on the noisy replica, and the observation of the
// projection the node model talks about.

import (
	servertypes "github.com/cosmos/cosmos-sdk/server/types"
	"context"
	"crypto/sha256"
	"encoding/hex"
	"encoding/json"
	"fmt"
	"math/big"
	"math/rand"
	"sort"
	"time"

	"cosmossdk.io/log"
	sdkmath "cosmossdk.io/math"
	abci "github.com/cometbft/cometbft/abci/types"
	cmted25519 "github.com/cometbft/cometbft/crypto/ed25519"
	tmproto "github.com/cometbft/cometbft/proto/tendermint/types"
	tmtypes "github.com/cometbft/cometbft/types"
	dbm "github.com/cosmos/cosmos-db"
	"github.com/cosmos/cosmos-sdk/baseapp"
	clienttx "github.com/cosmos/cosmos-sdk/client/tx"
	codectypes "github.com/cosmos/cosmos-sdk/codec/types"
	cryptocodec "github.com/cosmos/cosmos-sdk/crypto/codec"
	cosmosed25519 "github.com/cosmos/cosmos-sdk/crypto/keys/ed25519"
	simtestutil "github.com/cosmos/cosmos-sdk/testutil/sims"
	sdk "github.com/cosmos/cosmos-sdk/types"
	txtypes "github.com/cosmos/cosmos-sdk/types/tx"
	"github.com/cosmos/cosmos-sdk/types/tx/signing"
	authsigning "github.com/cosmos/cosmos-sdk/x/auth/signing"
	authtypes "github.com/cosmos/cosmos-sdk/x/auth/types"
	banktypes "github.com/cosmos/cosmos-sdk/x/bank/types"
	govtypes "github.com/cosmos/cosmos-sdk/x/gov/types"
	govv1 "github.com/cosmos/cosmos-sdk/x/gov/types/v1"
	slashingtypes "github.com/cosmos/cosmos-sdk/x/slashing/types"
	stakingtypes "github.com/cosmos/cosmos-sdk/x/staking/types"
	"github.com/ethereum/go-ethereum/common"
	"github.com/ethereum/go-ethereum/common/hexutil"
	ethtypes "github.com/ethereum/go-ethereum/core/types"
	ethcrypto "github.com/ethereum/go-ethereum/crypto"
	"github.com/evmos/ethermint/crypto/ethsecp256k1"
	"github.com/evmos/ethermint/tests"
	ethermint "github.com/evmos/ethermint/types"
	evmtypes "github.com/evmos/ethermint/x/evm/types"

	"github.com/Canto-Network/Canto/v8/app"
	"github.com/Canto-Network/Canto/v8/contracts"
	coinswaptypes "github.com/Canto-Network/Canto/v8/x/coinswap/types"
	csrtypes "github.com/Canto-Network/Canto/v8/x/csr/types"
	epochstypes "github.com/Canto-Network/Canto/v8/x/epochs/types"
	erc20types "github.com/Canto-Network/Canto/v8/x/erc20/types"
	inflationtypes "github.com/Canto-Network/Canto/v8/x/inflation/types"
)

const c06Denom = "acanto"

// ---------------------------------------------------------------- keys

func c06Key(name string) *ethsecp256k1.PrivKey {
	h := sha256.Sum256([]byte("verif-c06-" + name))
	k, err := ethcrypto.ToECDSA(h[:])
	if err != nil {
		panic(err)
	}
	return &ethsecp256k1.PrivKey{Key: ethcrypto.FromECDSA(k)}
}

type c06Keys struct {
	users []*ethsecp256k1.PrivKey // U0..U3: coinswap users, also senders of Ethereum transactions
	op    *ethsecp256k1.PrivKey   // the delegator of the genesis validator: proposes and votes
	dep   common.Address          // deployer of the external ERC20 (keeper-level, during genesis preparation)
	val   cosmosed25519.PrivKey
}

func c06NewKeys() *c06Keys {
	k := &c06Keys{op: c06Key("operator"), dep: common.HexToAddress("0x00000000000000000000000000000000C06D0001")}
	for i := 0; i < csUsers; i++ {
		k.users = append(k.users, c06Key(fmt.Sprintf("user-%d", i)))
	}
	k.val = *cosmosed25519.GenPrivKeyFromSecret([]byte("verif-c06-validator"))
	return k
}

func c06Acc(p *ethsecp256k1.PrivKey) sdk.AccAddress {
	return sdk.AccAddress(p.PubKey().Address().Bytes())
}
func c06Eth(p *ethsecp256k1.PrivKey) common.Address {
	return common.BytesToAddress(p.PubKey().Address().Bytes())
}

// ---------------------------------------------------------------- genesis configuration (part of the case)

type c06Gen struct {
	Coinswap   csParams            `json:"coinswap"`
	Funds      map[string][]string `json:"funds"` // user -> amounts for S, T0..T3
	InflEnable bool                `json:"infl_enable"`
	Epp        int64               `json:"epochs_per_period"`
	Staking    string              `json:"staking_share"` // LegacyDec raw; community = 1 - staking
	MaxVar     string              `json:"max_variance"`  // LegacyDec raw
	Hour       bool                `json:"hour_epoch"`    // a third identifier "hour"
	InflIdent  string              `json:"infl_ident"`
	CsrShare   string              `json:"csr_share"` // LegacyDec raw
	// CsrLate: CSR disabled in genesis and NO keeper-level Turnstile / CSR-contract preparation; governance enables
	// CSR during the history and csr's own BeginBlock deploys the Turnstile inside a block
	CsrLate bool `json:"csr_late"`
}

// ---------------------------------------------------------------- a replica

type c06Replica struct {
	name string
	db   dbm.DB
	app  *app.Canto
	// counters (statistics)
	restarts, reads int
}

// c06NodeOptions: node-local configuration (app.toml keys of the JSON-RPC, API and gRPC servers and of the node's own
// housekeeping).  It differs from operator to operator and is not part of the replicated state machine: replicas run
// with DIFFERENT values and must still agree on every block.
type c06NodeOptions map[string]interface{}

func (o c06NodeOptions) Get(k string) interface{} { return o[k] }

func c06OptionsOf(name string) servertypes.AppOptions {
	switch name {
	case "B", "E":
		return c06NodeOptions{"json-rpc.gas-cap": uint64(10_000_000), "json-rpc.evm-timeout": "1s", "json-rpc.logs-cap": int32(7), "json-rpc.block-range-cap": int32(11),
			"json-rpc.txfee-cap": float64(0.5), "json-rpc.filter-cap": int32(3), "api.enable": true, "grpc.enable": false, "iavl-cache-size": 5, "index-events": []string{"message.sender"},
			"min-retain-blocks": uint64(3), "halt-height": uint64(0), "inter-block-cache": false}
	case "D":
		return c06NodeOptions{"json-rpc.gas-cap": uint64(50_000_000), "json-rpc.evm-timeout": "10m", "json-rpc.logs-cap": int32(100000), "json-rpc.allow-unprotected-txs": true,
			"api.enable": false, "grpc.enable": true, "iavl-cache-size": 1_000_000, "inter-block-cache": true}
	}
	return simtestutil.EmptyAppOptions{}
}

func c06NewApp(name string, db dbm.DB) *app.Canto {
	return app.NewCanto(log.NewNopLogger(), db, nil, true, map[int64]bool{}, app.DefaultNodeHome, 0, false,
		c06OptionsOf(name), baseapp.SetChainID(ChainID))
}

func c06DecOf(raw string) sdkmath.LegacyDec {
	return sdkmath.LegacyNewDecFromBigIntWithPrec(bigOf(raw), 18)
}

// world: the name <-> address tables shared by all replicas of a case
type c06World struct {
	keys      *c06Keys
	cs        *csWorld // coinswap naming (accounts, denominations), bound to the replica that is read
	cons      sdk.ConsAddress
	gov       string
	pairCoin  common.Address // ERC20 contract of the native coin "acoin"
	pairExt   common.Address // external ERC20 registered through RegisterERC20
	extDenom  string
	turnstile common.Address
	csr0      common.Address // a CSRSmartContract deployed during preparation
	contracts []common.Address
	selfReg   []common.Address // self-registering contracts created by transactions of the history
}

func c06GenesisBytes(a *app.Canto, k *c06Keys, g c06Gen, w *csWorld) []byte {
	cdc := a.AppCodec()
	gs := app.NewDefaultGenesisState()
	// accounts
	empty := common.BytesToHash(ethcrypto.Keccak256(nil)).String()
	var accs []authtypes.GenesisAccount
	all := append([]*ethsecp256k1.PrivKey{k.op}, k.users...)
	for _, p := range all {
		accs = append(accs, &ethermint.EthAccount{BaseAccount: authtypes.NewBaseAccount(c06Acc(p), nil, 0, 0), CodeHash: empty})
	}
	accs = append(accs, &ethermint.EthAccount{BaseAccount: authtypes.NewBaseAccount(sdk.AccAddress(k.dep.Bytes()), nil, 0, 0), CodeHash: empty})
	gs[authtypes.ModuleName] = cdc.MustMarshalJSON(authtypes.NewGenesisState(authtypes.DefaultParams(), accs))
	// validator
	val := tmtypes.NewValidator(cmted25519.PubKey(k.val.PubKey().Bytes()), 1)
	pk, err := cryptocodec.FromCmtPubKeyInterface(val.PubKey)
	if err != nil {
		panic(err)
	}
	pkAny, err := codectypes.NewAnyWithValue(pk)
	if err != nil {
		panic(err)
	}
	bondAmt := sdk.TokensFromConsensusPower(1_000_000, ethermint.PowerReduction)
	v := stakingtypes.Validator{OperatorAddress: sdk.ValAddress(val.Address).String(), ConsensusPubkey: pkAny, Status: stakingtypes.Bonded,
		Tokens: bondAmt, DelegatorShares: sdkmath.LegacyNewDecFromInt(bondAmt), UnbondingTime: time.Unix(0, 0).UTC(),
		Commission:        stakingtypes.NewCommission(sdkmath.LegacyZeroDec(), sdkmath.LegacyZeroDec(), sdkmath.LegacyZeroDec()),
		MinSelfDelegation: sdkmath.ZeroInt()}
	del := stakingtypes.NewDelegation(c06Acc(k.op).String(), sdk.ValAddress(val.Address).String(), sdkmath.LegacyNewDecFromInt(bondAmt))
	sp := stakingtypes.DefaultParams()
	sp.BondDenom = c06Denom
	gs[stakingtypes.ModuleName] = cdc.MustMarshalJSON(stakingtypes.NewGenesisState(sp, []stakingtypes.Validator{v}, []stakingtypes.Delegation{del}))
	// slashing: signing info of the genesis validator (what the bonding hook writes for a validator created by a gentx)
	consAddr := sdk.ConsAddress(val.Address)
	sl := slashingtypes.DefaultGenesisState()
	sl.SigningInfos = []slashingtypes.SigningInfo{{Address: consAddr.String(),
		ValidatorSigningInfo: slashingtypes.NewValidatorSigningInfo(consAddr, 0, 0, time.Unix(0, 0).UTC(), false, 0)}}
	gs[slashingtypes.ModuleName] = cdc.MustMarshalJSON(sl)
	// bank
	big24, _ := new(big.Int).SetString("1000000000000000000000000", 10)
	balances := []banktypes.Balance{
		{Address: authtypes.NewModuleAddress(stakingtypes.BondedPoolName).String(), Coins: sdk.NewCoins(sdk.NewCoin(c06Denom, bondAmt))},
		{Address: c06Acc(k.op).String(), Coins: sdk.NewCoins(sdk.NewCoin(c06Denom, sdkmath.NewIntFromBigInt(big24)))},
	}
	total := sdk.NewCoins(sdk.NewCoin(c06Denom, bondAmt.Add(sdkmath.NewIntFromBigInt(big24))))
	for i, p := range k.users {
		f := g.Funds[fmt.Sprintf("U%d", i)]
		coins := sdk.NewCoins(sdk.NewCoin("acoin", sdkmath.NewInt(1_000_000_000)))
		for d, dc := range append([]string{"S"}, w.dcodes[1:1+csTokens]...) {
			coins = coins.Add(sdk.NewCoin(w.denoms[dc], sdkmath.NewIntFromBigInt(bigOf(f[d]))))
		}
		balances = append(balances, banktypes.Balance{Address: c06Acc(p).String(), Coins: coins})
		total = total.Add(coins...)
	}
	gs[banktypes.ModuleName] = cdc.MustMarshalJSON(banktypes.NewGenesisState(banktypes.DefaultGenesisState().Params, balances, total, nil, nil))
	// gov: short voting period, deposits in acanto
	gp := govv1.DefaultParams()
	gp.MinDeposit = sdk.NewCoins(sdk.NewInt64Coin(c06Denom, 1000))
	gp.ExpeditedMinDeposit = sdk.NewCoins(sdk.NewInt64Coin(c06Denom, 5000))
	vp, evp := 6*time.Hour, 3*time.Hour
	gp.VotingPeriod, gp.ExpeditedVotingPeriod = &vp, &evp
	ggs := govv1.DefaultGenesisState()
	ggs.Params = &gp
	gs[govtypes.ModuleName] = cdc.MustMarshalJSON(ggs)
	// coinswap
	var cs coinswaptypes.GenesisState
	cdc.MustUnmarshalJSON(gs[coinswaptypes.ModuleName], &cs)
	cs.StandardDenom = c06Denom
	cs.Params = w.toParams(g.Coinswap)
	gs[coinswaptypes.ModuleName] = cdc.MustMarshalJSON(&cs)
	// inflation
	var ig inflationtypes.GenesisState
	cdc.MustUnmarshalJSON(gs[inflationtypes.ModuleName], &ig)
	ig.Params.EnableInflation = g.InflEnable
	ig.Params.InflationDistribution.StakingRewards = c06DecOf(g.Staking)
	ig.Params.InflationDistribution.CommunityPool = sdkmath.LegacyOneDec().Sub(c06DecOf(g.Staking))
	ig.Params.ExponentialCalculation.MaxVariance = c06DecOf(g.MaxVar)
	ig.EpochsPerPeriod = g.Epp
	ig.EpochIdentifier = g.InflIdent
	gs[inflationtypes.ModuleName] = cdc.MustMarshalJSON(&ig)
	// epochs
	if g.Hour {
		var eg epochstypes.GenesisState
		cdc.MustUnmarshalJSON(gs[epochstypes.ModuleName], &eg)
		eg.Epochs = append(eg.Epochs, epochstypes.EpochInfo{Identifier: "hour", Duration: time.Hour})
		gs[epochstypes.ModuleName] = cdc.MustMarshalJSON(&eg)
	}
	// evm: the production denomination
	var eg evmtypes.GenesisState
	cdc.MustUnmarshalJSON(gs[evmtypes.ModuleName], &eg)
	eg.Params.EvmDenom = c06Denom
	gs[evmtypes.ModuleName] = cdc.MustMarshalJSON(&eg)
	// csr
	var cg csrtypes.GenesisState
	cdc.MustUnmarshalJSON(gs[csrtypes.ModuleName], &cg)
	cg.Params.EnableCsr = !g.CsrLate
	cg.Params.CsrShares = c06DecOf(g.CsrShare)
	gs[csrtypes.ModuleName] = cdc.MustMarshalJSON(&cg)
	bz, err := json.Marshal(gs)
	if err != nil {
		panic(err)
	}
	return bz
}

// c06Start creates a replica on a fresh database: InitChain with the generated genesis, then the
// keeper-level preparation on the state of block 1 (token pairs, contracts), identical on every replica.
func c06Start(name string, k *c06Keys, g c06Gen) (*c06Replica, *c06World) {
	r := &c06Replica{name: name, db: dbm.NewMemDB()}
	r.app = c06NewApp(r.name, r.db)
	a := r.app
	cw := c06CsWorld(a, k)
	bz := c06GenesisBytes(a, k, g, cw)
	if _, err := a.InitChain(&abci.RequestInitChain{ChainId: ChainID, Time: GenesisTime, ConsensusParams: app.DefaultConsensusParams,
		AppStateBytes: bz, InitialHeight: 1}); err != nil {
		panic(fmt.Sprintf("InitChain: %v", err))
	}
	w := &c06World{keys: k, cs: cw, cons: sdk.ConsAddress(k.val.PubKey().Address()), gov: authtypes.NewModuleAddress(govtypes.ModuleName).String()}
	ctx := a.BaseApp.NewContextLegacy(false, tmproto.Header{Height: 1, ChainID: ChainID, Time: GenesisTime, ProposerAddress: w.cons.Bytes()})
	// native coin pair
	meta := banktypes.Metadata{Description: "verif coin", Base: "acoin", Name: "acoin", Symbol: "VCOIN", Display: "coin",
		DenomUnits: []*banktypes.DenomUnit{{Denom: "acoin", Exponent: 0}, {Denom: "coin", Exponent: 18}}}
	tp, err := a.Erc20Keeper.RegisterCoin(ctx, meta)
	c04Must(err)
	w.pairCoin = tp.GetERC20Contract()
	// external ERC20, deployed by dep, registered, minted to the users
	eabi := contracts.ERC20MinterBurnerDecimalsContract.ABI
	ctor, err := eabi.Pack("", "Verif Token", "VTKN", uint8(18))
	c04Must(err)
	nonce, err := a.AccountKeeper.GetSequence(ctx, k.dep.Bytes())
	c04Must(err)
	_, err = a.Erc20Keeper.CallEVMWithData(ctx, k.dep, nil, append(append([]byte{}, contracts.ERC20MinterBurnerDecimalsContract.Bin...), ctor...), true)
	c04Must(err)
	w.pairExt = ethcrypto.CreateAddress(k.dep, nonce)
	tp2, err := a.Erc20Keeper.RegisterERC20(ctx, w.pairExt)
	c04Must(err)
	w.extDenom = tp2.Denom
	for _, p := range k.users {
		_, err := a.Erc20Keeper.CallEVM(ctx, eabi, k.dep, w.pairExt, true, "mint", c06Eth(p), big.NewInt(1_000_000_000))
		c04Must(err)
	}
	w.contracts = []common.Address{w.pairCoin, w.pairExt}
	if !g.CsrLate {
		// csr: Turnstile (what csr's BeginBlock does in block 1 when CSR is enabled) and one CSRSmartContract
		ts, err := a.CSRKeeper.DeployTurnstile(ctx)
		c04Must(err)
		a.CSRKeeper.SetTurnstile(ctx, ts)
		w.turnstile = ts
		c0, err := a.CSRKeeper.DeployContract(ctx, c10LoadSmartContract(), ts)
		c04Must(err)
		w.csr0 = c0
		w.contracts = append(w.contracts, ts, c0)
	}
	return r, w
}

// c06CsWorld: the coinswap naming of harness/coinswap.go with signing users
func c06CsWorld(a *app.Canto, k *c06Keys) *csWorld {
	w := &csWorld{a: a, accts: map[string]sdk.AccAddress{}, denoms: map[string]string{}, std: c06Denom}
	for i, p := range k.users {
		code := fmt.Sprintf("U%d", i)
		w.users = append(w.users, c06Acc(p))
		w.accts[code] = c06Acc(p)
		w.acodes = append(w.acodes, code)
	}
	for q := 1; q <= csMaxPool; q++ {
		code := fmt.Sprintf("E%d", q)
		w.accts[code] = coinswaptypes.GetReservePoolAddr(coinswaptypes.GetLptDenom(uint64(q)))
		w.acodes = append(w.acodes, code)
	}
	for i, m := range csModules {
		code := fmt.Sprintf("M%d", i)
		w.accts[code] = authtypes.NewModuleAddress(m)
		w.acodes = append(w.acodes, code)
	}
	w.denoms["S"] = c06Denom
	w.dcodes = append(w.dcodes, "S")
	for i := 0; i < csTokens; i++ {
		code := fmt.Sprintf("T%d", i)
		w.denoms[code] = csTokNames[i]
		w.dcodes = append(w.dcodes, code)
	}
	for q := 1; q <= csMaxPool; q++ {
		code := fmt.Sprintf("L%d", q)
		w.denoms[code] = coinswaptypes.GetLptDenom(uint64(q))
		w.dcodes = append(w.dcodes, code)
	}
	return w
}

// restart: a new process image on the same database
func (r *c06Replica) restart() {
	r.app = c06NewApp(r.name, r.db)
	r.restarts++
}

func (r *c06Replica) block(req *abci.RequestFinalizeBlock) *abci.ResponseFinalizeBlock {
	res, err := r.app.FinalizeBlock(req)
	if err != nil {
		panic(fmt.Sprintf("replica %s: FinalizeBlock height %d: %v", r.name, req.Height, err))
	}
	if _, err := r.app.Commit(); err != nil {
		panic(err)
	}
	return res
}

// readCtx: a throw-away branch of the COMMITTED multistore (not of the check state, which CheckTx moves);
// used on the noisy replica only, by the generator and the observer -- replicas A, B and D never see
// anything but FinalizeBlock and Commit (and the export at the compared heights).
func (r *c06Replica) readCtx(t time.Time, w *c06World) sdk.Context {
	hdr := tmproto.Header{Height: r.app.LastBlockHeight(), ChainID: ChainID, Time: t, ProposerAddress: w.cons.Bytes()}
	ms := r.app.CommitMultiStore().CacheMultiStore()
	return sdk.NewContext(ms, hdr, false, log.NewNopLogger())
}

func (r *c06Replica) exportHash() string {
	ex, err := r.app.ExportAppStateAndValidators(false, nil, nil)
	if err != nil {
		panic(fmt.Sprintf("replica %s: export: %v", r.name, err))
	}
	h := sha256.New()
	h.Write(ex.AppState)
	for _, v := range ex.Validators {
		fmt.Fprintf(h, "|%s|%d|%x", v.Address.String(), v.Power, v.PubKey.Bytes())
	}
	fmt.Fprintf(h, "|%d", ex.Height)
	return hex.EncodeToString(h.Sum(nil))
}

// ---------------------------------------------------------------- transactions as bytes

func c06SignCosmos(a *app.Canto, priv *ethsecp256k1.PrivKey, accNum, seq uint64, gas uint64, msgs ...sdk.Msg) ([]byte, error) {
	b := a.TxConfig().NewTxBuilder()
	if err := b.SetMsgs(msgs...); err != nil {
		return nil, err
	}
	b.SetGasLimit(gas)
	b.SetFeeAmount(sdk.Coins{})
	pub := priv.PubKey()
	if err := b.SetSignatures(signing.SignatureV2{PubKey: pub, Data: &signing.SingleSignatureData{SignMode: signing.SignMode_SIGN_MODE_DIRECT}, Sequence: seq}); err != nil {
		return nil, err
	}
	sd := authsigning.SignerData{Address: sdk.AccAddress(pub.Address()).String(), ChainID: ChainID, AccountNumber: accNum, Sequence: seq, PubKey: pub}
	sig, err := clienttx.SignWithPrivKey(context.Background(), signing.SignMode_SIGN_MODE_DIRECT, sd, b, priv, a.TxConfig(), seq)
	if err != nil {
		return nil, err
	}
	if err := b.SetSignatures(sig); err != nil {
		return nil, err
	}
	return a.TxConfig().TxEncoder()(b.GetTx())
}

func c06SignEth(a *app.Canto, priv *ethsecp256k1.PrivKey, nonce uint64, to *common.Address, gas uint64, gasPrice *big.Int, data []byte) ([]byte, error) {
	cid, err := ethermint.ParseChainID(ChainID)
	if err != nil {
		return nil, err
	}
	m := evmtypes.NewTx(cid, nonce, to, nil, gas, gasPrice, nil, nil, data, nil)
	m.From = c06Eth(priv).Hex()
	if err := m.Sign(ethtypes.LatestSignerForChainID(cid), tests.NewSigner(priv)); err != nil {
		return nil, err
	}
	tx, err := m.BuildTx(a.TxConfig().NewTxBuilder(), c06Denom)
	if err != nil {
		return nil, err
	}
	return a.TxConfig().TxEncoder()(tx)
}

// init code of a contract that registers itself with the Turnstile in its constructor (recipient =
// tx.origin) and whose runtime code is a single STOP: every later call to it succeeds.
func c06SelfRegisteringInit(ts common.Address) []byte {
	sel := ethcrypto.Keccak256([]byte("register(address)"))[:4]
	var b []byte
	b = append(b, 0x63)
	b = append(b, sel...)           // PUSH4 selector
	b = append(b, 0x60, 0xe0, 0x1b) // PUSH1 0xe0; SHL
	b = append(b, 0x60, 0x00, 0x52) // PUSH1 0; MSTORE
	b = append(b, 0x32, 0x60, 0x04, 0x52)
	b = append(b, 0x60, 0x00, 0x60, 0x00, 0x60, 0x24, 0x60, 0x00, 0x60, 0x00)
	b = append(b, 0x73)
	b = append(b, ts.Bytes()...)                // PUSH20 turnstile
	b = append(b, 0x5a, 0xf1, 0x50)             // GAS; CALL; POP
	b = append(b, 0x60, 0x00, 0x60, 0x00, 0x53) // MSTORE8(0, 0)
	b = append(b, 0x60, 0x01, 0x60, 0x00, 0xf3) // RETURN(0, 1)
	return b
}

// ---------------------------------------------------------------- observation of the projection (on replica C)

type c06Obs struct {
	epochs  []epochstypes.EpochInfo
	infl    c06InflObs
	swap    csObs
	csrs    []csrtypes.CSR
	csrEn   bool
	csrSh   *big.Int
	csrMod  *big.Int
	ts      *common.Address
	ercEn   bool
	ercHook bool
	bonded  *big.Int
}

type c06InflObs struct {
	params    inflationtypes.Params
	period    uint64
	skipped   uint64
	epp       int64
	ident     string
	provision *big.Int
	module    *big.Int
	supply    *big.Int
}

func c06Observe(a *app.Canto, ctx sdk.Context, w *c06World) c06Obs {
	var o c06Obs
	o.epochs = a.EpochsKeeper.AllEpochInfos(ctx)
	ik := a.InflationKeeper
	o.infl.params = ik.GetParams(ctx)
	o.infl.period = ik.GetPeriod(ctx)
	o.infl.skipped = ik.GetSkippedEpochs(ctx)
	o.infl.epp = ik.GetEpochsPerPeriod(ctx)
	o.infl.ident = ik.GetEpochIdentifier(ctx)
	prov, _ := ik.GetEpochMintProvision(ctx)
	o.infl.provision = prov.BigInt()
	o.infl.module = a.BankKeeper.GetBalance(ctx, authtypes.NewModuleAddress(inflationtypes.ModuleName), c06Denom).Amount.BigInt()
	o.infl.supply = a.BankKeeper.GetSupply(ctx, c06Denom).Amount.BigInt()
	o.swap = w.cs.observe(ctx)
	o.csrs = a.CSRKeeper.GetAllCSRs(ctx)
	sort.Slice(o.csrs, func(i, j int) bool { return o.csrs[i].Id < o.csrs[j].Id })
	cp := a.CSRKeeper.GetParams(ctx)
	o.csrEn, o.csrSh = cp.EnableCsr, cp.CsrShares.BigInt()
	o.csrMod = a.BankKeeper.GetBalance(ctx, authtypes.NewModuleAddress(csrtypes.ModuleName), c06Denom).Amount.BigInt()
	if ts, found := a.CSRKeeper.GetTurnstile(ctx); found {
		o.ts = &ts
	}
	ep := a.Erc20Keeper.GetParams(ctx)
	o.ercEn, o.ercHook = ep.EnableErc20, ep.EnableEVMHook
	tb, err := a.StakingKeeper.TotalBondedTokens(ctx)
	if err != nil {
		panic(err)
	}
	o.bonded = tb.BigInt()
	return o
}

func c06AddrZ(a common.Address) string { return Z(new(big.Int).SetBytes(a.Bytes())) }

func c06EpochRank(eps []epochstypes.EpochInfo) map[string]int {
	ids := []string{}
	for _, e := range eps {
		ids = append(ids, e.Identifier)
	}
	sort.Strings(ids)
	rank := map[string]int{}
	for i, id := range ids {
		rank[id] = i
	}
	return rank
}

func c06ObsTerm(w *c06World, o c06Obs) string {
	rank := c06EpochRank(o.epochs)
	var eps []string
	for _, e := range o.epochs {
		eps = append(eps, epochTerm(rank, e))
	}
	p := o.infl.params
	ex := p.ExponentialCalculation
	ident, ok := rank[o.infl.ident]
	if !ok {
		ident = -1
	}
	infl := App("Inflation.mkState",
		App("Inflation.mkParams", "0",
			App("Inflation.mkExp", Z(ex.A.BigInt()), Z(ex.R.BigInt()), Z(ex.C.BigInt()), Z(ex.BondingTarget.BigInt()), Z(ex.MaxVariance.BigInt())),
			App("Inflation.mkDistr", Z(p.InflationDistribution.StakingRewards.BigInt()), Z(p.InflationDistribution.CommunityPool.BigInt())),
			B(p.EnableInflation)),
		Zi(int64(o.infl.period)), Zi(int64(o.infl.skipped)), Zi(o.infl.epp), Zi(int64(ident)), Z(o.infl.provision),
		"0", Z(o.infl.module), "0", "0", Z(o.infl.supply))
	var csrs []string
	for _, c := range o.csrs {
		var cs []string
		for _, x := range c.Contracts {
			cs = append(cs, c06AddrZ(common.HexToAddress(x)))
		}
		csrs = append(csrs, Tup(Zi(int64(c.Id)), App("Csr.mkCsr", L(cs), Zi(int64(c.Txs)), Z(c.Revenue.BigInt()))))
	}
	ts := "None"
	if o.ts != nil {
		ts = "(Some " + c06AddrZ(*o.ts) + ")"
	}
	csr := App("mkCsrObs", L(csrs), ts, B(o.csrEn), Z(o.csrSh), Z(o.csrMod))
	return App("mkCObs", L(eps), infl, csObsTerm(w.cs, o.swap), csr, App("Authority.mkErc", B(o.ercEn), B(o.ercHook)))
}

func c06Str(s string) string {
	var xs []string
	for _, b := range []byte(s) {
		xs = append(xs, fmt.Sprint(int(b)))
	}
	return L(xs)
}

// ---------------------------------------------------------------- interning of byte strings (AppHash, results, exports)

type c06Intern struct{ m map[string]int }

func (t *c06Intern) idx(s string) int64 {
	if t.m == nil {
		t.m = map[string]int{}
	}
	if i, ok := t.m[s]; ok {
		return int64(i)
	}
	i := len(t.m)
	t.m[s] = i
	return int64(i)
}

// the deterministic part of a transaction result, as CometBFT hashes it into LastResultsHash
func c06ResultKey(r *abci.ExecTxResult) string {
	return fmt.Sprintf("%d|%s|%x|%d|%d", r.Code, r.Codespace, r.Data, r.GasWanted, r.GasUsed)
}

// ---------------------------------------------------------------- read-only requests on the noisy replica

type c06Query struct {
	path string
	data []byte
}

func c06Queries(w *c06World, a *app.Canto) []c06Query {
	cdc := a.AppCodec()
	m := func(x interface{ Marshal() ([]byte, error) }) []byte {
		bz, err := x.Marshal()
		if err != nil {
			panic(err)
		}
		return bz
	}
	_ = cdc
	u0 := c06Acc(w.keys.users[0]).String()
	qs := []c06Query{
		{"/canto.coinswap.v1.Query/Params", nil},
		{"/canto.coinswap.v1.Query/LiquidityPools", nil},
		{"/canto.coinswap.v1.Query/LiquidityPool", m(&coinswaptypes.QueryLiquidityPoolRequest{LptDenom: "lpt-1"})},
		{"/canto.erc20.v1.Query/TokenPairs", nil},
		{"/canto.erc20.v1.Query/TokenPair", m(&erc20types.QueryTokenPairRequest{Token: "acoin"})},
		{"/canto.erc20.v1.Query/Params", nil},
		{"/canto.inflation.v1.Query/Period", nil},
		{"/canto.inflation.v1.Query/EpochMintProvision", nil},
		{"/canto.inflation.v1.Query/SkippedEpochs", nil},
		{"/canto.inflation.v1.Query/CirculatingSupply", nil},
		{"/canto.inflation.v1.Query/InflationRate", nil},
		{"/canto.inflation.v1.Query/Params", nil},
		{"/canto.epochs.v1.Query/EpochInfos", nil},
		{"/canto.epochs.v1.Query/CurrentEpoch", m(&epochstypes.QueryCurrentEpochRequest{Identifier: "day"})},
		{"/canto.csr.v1.Query/Params", nil},
		{"/canto.csr.v1.Query/CSRs", nil},
		{"/canto.csr.v1.Query/Turnstile", nil},
		{"/canto.csr.v1.Query/CSRByNFT", m(&csrtypes.QueryCSRByNFTRequest{NftId: 1})},
		{"/canto.csr.v1.Query/CSRByContract", m(&csrtypes.QueryCSRByContractRequest{Address: w.csr0.Hex()})},
		{"/canto.govshuttle.v1.Query/Params", nil},
		{"/canto.onboarding.v1.Query/Params", nil},
		{"/cosmos.bank.v1beta1.Query/TotalSupply", nil},
		{"/cosmos.bank.v1beta1.Query/AllBalances", m(&banktypes.QueryAllBalancesRequest{Address: u0})},
		{"/cosmos.gov.v1.Query/Proposals", nil},
		{"/cosmos.staking.v1beta1.Query/Validators", nil},
		{"/cosmos.distribution.v1beta1.Query/CommunityPool", nil},
		{"/cosmos.auth.v1beta1.Query/Accounts", nil},
		{"/ethermint.feemarket.v1.Query/BaseFee", nil},
		{"/ethermint.evm.v1.Query/Balance", m(&evmtypes.QueryBalanceRequest{Address: c06Eth(w.keys.users[0]).Hex()})},
		{"/ethermint.evm.v1.Query/Account", m(&evmtypes.QueryAccountRequest{Address: w.pairExt.Hex()})},
		{"/ethermint.evm.v1.Query/Code", m(&evmtypes.QueryCodeRequest{Address: w.turnstile.Hex()})},
	}
	// eth_call / estimateGas: run the EVM (an ERC20 transfer to the module address, i.e. the hook's trigger) on a branch
	data, err := contracts.ERC20MinterBurnerDecimalsContract.ABI.Pack("transfer", erc20types.ModuleAddress, big.NewInt(7))
	if err != nil {
		panic(err)
	}
	from := c06Eth(w.keys.users[1])
	args, _ := json.Marshal(&evmtypes.TransactionArgs{From: &from, To: &w.pairExt, Data: (*hexutil.Bytes)(&data)})
	call := &evmtypes.EthCallRequest{Args: args, GasCap: 25_000_000, ProposerAddress: w.cons.Bytes(), ChainId: 9001}
	qs = append(qs, c06Query{"/ethermint.evm.v1.Query/EthCall", m(call)}, c06Query{"/ethermint.evm.v1.Query/EstimateGas", m(call)})
	return qs
}

// c06Reads issues a pseudo-random selection of read-only requests; returns how many were made
func c06Reads(r *c06Replica, w *c06World, rng *rand.Rand, nextTxs [][]byte, req *abci.RequestFinalizeBlock, stats *Stats) {
	a := r.app
	count := func(k string) { stats.Count("read:" + k); r.reads++ }
	qs := c06Queries(w, a)
	// every second boundary: every query of the list once, in random order; otherwise a small sample.
	// Four in ten are asked at a historical height (up to five blocks back).
	order := rng.Perm(len(qs))
	n := 3 + rng.Intn(8)
	if rng.Intn(2) == 0 {
		n = len(qs)
	}
	for i := 0; i < n; i++ {
		q := qs[order[i%len(qs)]]
		rq := &abci.RequestQuery{Path: q.path, Data: q.data}
		if h := a.LastBlockHeight(); rng.Intn(10) < 4 && h > 2 {
			back := int64(1 + rng.Intn(5))
			if back > h-1 {
				back = h - 1
			}
			rq.Height = h - back
		}
		res, err := a.Query(context.Background(), rq)
		if err != nil || res.Code != 0 {
			count("query-error")
		} else if rq.Height != 0 {
			count("query-historical")
		} else {
			count("query")
		}
	}
	if rng.Intn(3) == 0 { // a raw store read with proof
		key := append([]byte{0x02}, []byte("day")...)
		_, _ = a.Query(context.Background(), &abci.RequestQuery{Path: "/store/epochs/key", Data: key, Prove: true})
		count("store-proof")
	}
	// mempool checks and simulations of the transactions of the next block, in arrival order, some twice
	for _, tx := range nextTxs {
		if rng.Intn(4) != 0 {
			res, err := a.CheckTx(&abci.RequestCheckTx{Tx: tx, Type: abci.CheckTxType_New})
			if err == nil && res.Code == 0 {
				count("checktx-ok")
			} else {
				count("checktx-rejected")
			}
		}
		if rng.Intn(3) == 0 {
			_, _, err := a.Simulate(tx)
			if err == nil {
				count("simulate-ok")
			} else {
				count("simulate-failed")
			}
		}
		if rng.Intn(5) == 0 {
			sr, _ := (&txtypes.SimulateRequest{TxBytes: tx}).Marshal()
			_, _ = a.Query(context.Background(), &abci.RequestQuery{Path: "/cosmos.tx.v1beta1.Service/Simulate", Data: sr})
			count("simulate-grpc")
		}
		if rng.Intn(5) == 0 {
			_, _ = a.CheckTx(&abci.RequestCheckTx{Tx: tx, Type: abci.CheckTxType_Recheck})
			count("recheck")
		}
	}
	// invalid requests
	if rng.Intn(2) == 0 {
		junk := make([]byte, 1+rng.Intn(80))
		rng.Read(junk)
		_, _ = a.CheckTx(&abci.RequestCheckTx{Tx: junk, Type: abci.CheckTxType_New})
		count("checktx-garbage")
	}
	if len(nextTxs) > 0 && rng.Intn(2) == 0 { // a valid transaction with one byte flipped (bad signature or undecodable)
		tx := append([]byte{}, nextTxs[rng.Intn(len(nextTxs))]...)
		tx[len(tx)-1-rng.Intn(len(tx)/2+1)] ^= 0x01
		_, _ = a.CheckTx(&abci.RequestCheckTx{Tx: tx, Type: abci.CheckTxType_New})
		_, _, _ = a.Simulate(tx)
		count("checktx-corrupted")
	}
	if req != nil && rng.Intn(2) == 0 { // what a validator does before FinalizeBlock
		pp, err := a.PrepareProposal(&abci.RequestPrepareProposal{MaxTxBytes: 1 << 22, Txs: req.Txs, Height: req.Height, Time: req.Time, ProposerAddress: req.ProposerAddress})
		_ = pp
		if err == nil {
			count("prepare-proposal")
		}
		_, err = a.ProcessProposal(&abci.RequestProcessProposal{Txs: req.Txs, Height: req.Height, Time: req.Time, ProposerAddress: req.ProposerAddress, Hash: []byte("verif")})
		if err == nil {
			count("process-proposal")
		}
	}
}

// ---------------------------------------------------------------- governance helpers

func c06ProposalsByStatus(a *app.Canto, ctx sdk.Context) map[uint64]govv1.ProposalStatus {
	out := map[uint64]govv1.ProposalStatus{}
	_ = a.GovKeeper.Proposals.Walk(ctx, nil, func(id uint64, p govv1.Proposal) (bool, error) {
		out[id] = p.Status
		return false, nil
	})
	return out
}
