//go:build verif

package harness

// C18 — exported genesis is complete: export, import, export is a fixed point.
//
// Every case runs a generated history on a real chain created by InitChain with a genuine
// bonded genesis validator and a non-zero genesis time (c18NewChain):
//   coinswap   MsgAddLiquidity (creates pools), MsgSwapOrder, MsgRemoveLiquidity, MsgUpdateParams
//   erc20      MsgRegisterCoin, MsgRegisterERC20 (shipped ERC20MinterBurnerDecimals deployed through
//              the EVM), MsgToggleTokenConversion, removal of a pair whose contract self-destructed
//              (statedb.Suicide, then the real MsgConvertCoin / MsgConvertERC20), MsgUpdateParams
//   csr        MsgUpdateParams (enable), the module's BeginBlock deploying the Turnstile, signed
//              Ethereum transactions through EvmKeeper.EthereumTx calling CSRSmartContract.register /
//              assign (real Turnstile events, real post-tx hook: NFTs, contracts, revenue, tx counters)
//   govshuttle MsgLendingMarketProposal (deploys the proposal-store contract, sets the port address)
//   epochs / inflation   block time advanced across day / week boundaries through the app's
//              EpochsKeeper.BeginBlocker (inflation is its listener), MsgUpdateParams of inflation
//   onboarding MsgUpdateParams
// Messages go through the application's message-service router on the deliver context inside a
// recovered branch.  Then: ModuleManager.ExportGenesisForModules (all modules) on the live deliver
// context, every Canto module's own ValidateGenesis on its document, InitChain of a FRESH
// application from the whole export, export again without running a block, and the modules' query
// servers on both chains.  The seven documents, verdicts and answers are written as Coq terms for
// Check/GenesisCheck.v; a small stream of malformed documents checks the model's validate against
// the real ValidateGenesis.

import (
	"bytes"
	"crypto/sha256"
	"encoding/hex"
	"encoding/json"
	"fmt"
	"math/big"
	"math/rand"
	"os"
	"regexp"
	"sort"
	"strings"
	"time"

	sdkmath "cosmossdk.io/math"
	sdk "github.com/cosmos/cosmos-sdk/types"
	"github.com/cosmos/cosmos-sdk/types/query"
	authtypes "github.com/cosmos/cosmos-sdk/x/auth/types"
	banktypes "github.com/cosmos/cosmos-sdk/x/bank/types"
	govtypes "github.com/cosmos/cosmos-sdk/x/gov/types"
	"github.com/ethereum/go-ethereum/common"
	"github.com/evmos/ethermint/tests"
	"github.com/evmos/ethermint/x/evm/statedb"

	"github.com/Canto-Network/Canto/v8/app"
	coinswaptypes "github.com/Canto-Network/Canto/v8/x/coinswap/types"
	"github.com/Canto-Network/Canto/v8/x/csr"
	csrtypes "github.com/Canto-Network/Canto/v8/x/csr/types"
	epochstypes "github.com/Canto-Network/Canto/v8/x/epochs/types"
	erc20keeper "github.com/Canto-Network/Canto/v8/x/erc20/keeper"
	erc20types "github.com/Canto-Network/Canto/v8/x/erc20/types"
	govshuttletypes "github.com/Canto-Network/Canto/v8/x/govshuttle/types"
	inflationtypes "github.com/Canto-Network/Canto/v8/x/inflation/types"
	onboardingtypes "github.com/Canto-Network/Canto/v8/x/onboarding/types"
)

func init() { runners["C18"] = runC18 }

// ---------- replay format ----------

type c18Op struct {
	Kind string `json:"kind"`
	A    int    `json:"a,omitempty"`
	B    int    `json:"b,omitempty"`
	Seed int64  `json:"seed,omitempty"` // source of the operation's own random choices (amounts, parameter values)
}

type c18Bad struct {
	Module string `json:"module"`
	Kind   string `json:"kind"`
	Seed   int64  `json:"seed"`
}

type c18Case struct {
	Stream    string   `json:"stream"`
	GenOffset int64    `json:"genesis_offset_s"`
	Epp       int64    `json:"epochs_per_period"`
	Ident     string   `json:"epoch_identifier,omitempty"` // inflation's epoch identifier at genesis ("" = day)
	Extra     []string `json:"extra_epochs,omitempty"`     // further epoch identifiers of the genesis
	Ops       []c18Op  `json:"ops"`
	Bad       []c18Bad `json:"bad,omitempty"`
}

var c18Gov = authtypes.NewModuleAddress(govtypes.ModuleName).String()

// coin denominations the histories play with (the first three are whitelisted by the default coinswap params)
var c18Denoms = []string{coinswaptypes.UsdcIBCDenom, coinswaptypes.UsdtIBCDenom, coinswaptypes.EthIBCDenom,
	"ibc/27394FB092D2ECCD56123C74F36E4C1F926001CEADA9CA97EA622B25F41E5EB2", "uatom", "abcd", "ffee1234", "note"}

// ---------- one running case ----------

type c18Run struct {
	e         *Env
	ch        *c18Chain
	contracts []common.Address // deployed ERC-20 contracts
	csrc      []common.Address // deployed CSRSmartContracts
	nPropID   uint64
}

func (r *c18Run) userAcc() sdk.AccAddress { return sdk.AccAddress(r.ch.user.Bytes()) }

func (r *c18Run) count(op c18Op, err error) bool {
	if err == nil {
		r.e.Stats.Count("op:" + op.Kind + ":ok")
		return true
	}
	r.e.Stats.Count("op:" + op.Kind + ":rejected")
	return false
}

func c18RandDec01(rg *rand.Rand) sdkmath.LegacyDec { // [0,1)
	switch rg.Intn(4) {
	case 0:
		return sdkmath.LegacyZeroDec()
	case 1:
		return sdkmath.LegacyNewDecWithPrec(int64(rg.Intn(1000)), 3)
	case 2:
		return sdkmath.LegacyNewDecFromBigIntWithPrec(new(big.Int).Sub(new(big.Int).Exp(big.NewInt(10), big.NewInt(18), nil), big.NewInt(1)), 18)
	default:
		return sdkmath.LegacyNewDecFromBigIntWithPrec(new(big.Int).Rand(rg, new(big.Int).Exp(big.NewInt(10), big.NewInt(18), nil)), 18)
	}
}

func (r *c18Run) exec(op c18Op) {
	ch := r.ch
	a := ch.a
	rg := rand.New(rand.NewSource(op.Seed))
	switch op.Kind {
	case "advance":
		// A: 0 = a few hours, 1 = to one ns after the day boundary, 2 = exactly the boundary, 3 = more than a week, 4 = same time
		day, _ := a.EpochsKeeper.GetEpochInfo(ch.cur(), epochstypes.DayEpochID)
		boundary := day.CurrentEpochStartTime.Add(day.Duration)
		switch op.A {
		case 0:
			ch.now = ch.now.Add(time.Duration(1+rg.Intn(9)) * time.Hour)
		case 1:
			if boundary.After(ch.now) {
				ch.now = boundary.Add(time.Nanosecond)
			} else {
				ch.now = ch.now.Add(time.Hour)
			}
		case 2:
			if boundary.After(ch.now) {
				ch.now = boundary
			}
		case 3:
			ch.now = ch.now.Add(time.Duration(170+rg.Intn(400)) * time.Hour)
		}
		ch.h++
		err := Try(ch.cur(), func(c sdk.Context) error {
			if err := a.EpochsKeeper.BeginBlocker(c); err != nil {
				return err
			}
			return csr.NewAppModule(a.AppCodec(), a.CSRKeeper, a.AccountKeeper).BeginBlock(c)
		})
		r.count(op, err)
	case "mint":
		d := c18Denoms[op.A%len(c18Denoms)]
		amt := new(big.Int).Exp(big.NewInt(10), big.NewInt(int64(6+rg.Intn(18))), nil)
		ch.mintTo(r.userAcc(), sdk.NewCoins(sdk.NewCoin(d, sdkmath.NewIntFromBigInt(amt))))
		r.count(op, nil)
	case "addliq":
		d := c18Denoms[op.A%len(c18Denoms)]
		if wl := a.CoinswapKeeper.GetParams(ch.cur()).MaxSwapAmount; len(wl) > 0 && op.B%4 != 3 {
			d = wl[op.A%len(wl)].Denom // mostly a whitelisted denomination
		}
		bal := a.BankKeeper.GetBalance(ch.cur(), r.userAcc(), d).Amount
		if !bal.IsPositive() {
			ch.mintTo(r.userAcc(), sdk.NewCoins(sdk.NewCoin(d, sdkmath.NewInt(1_000_000_000_000))))
			bal = a.BankKeeper.GetBalance(ch.cur(), r.userAcc(), d).Amount
		}
		tok := bal.QuoRaw(int64(2 + rg.Intn(20)))
		if !tok.IsPositive() {
			tok = sdkmath.OneInt()
		}
		std := sdkmath.NewInt(int64(1 + rg.Intn(1_000_000_000)))
		err := ch.send(&coinswaptypes.MsgAddLiquidity{MaxToken: sdk.NewCoin(d, tok), ExactStandardAmt: std, MinLiquidity: sdkmath.OneInt(),
			Deadline: ch.now.Unix() + 1000, Sender: r.userAcc().String()})
		r.count(op, err)
	case "swap":
		pools := a.CoinswapKeeper.GetAllPools(ch.cur())
		if len(pools) == 0 {
			r.e.Stats.Count("op:swap:no-pool")
			return
		}
		p := pools[op.A%len(pools)]
		var err error
		if op.B%2 == 0 { // sell the standard coin for the token
			err = ch.send(&coinswaptypes.MsgSwapOrder{Input: coinswaptypes.Input{Address: r.userAcc().String(), Coin: sdk.NewCoin(p.StandardDenom, sdkmath.NewInt(int64(1+rg.Intn(100000))))},
				Output: coinswaptypes.Output{Address: r.userAcc().String(), Coin: sdk.NewCoin(p.CounterpartyDenom, sdkmath.OneInt())}, Deadline: ch.now.Unix() + 1000, IsBuyOrder: false})
		} else {
			err = ch.send(&coinswaptypes.MsgSwapOrder{Input: coinswaptypes.Input{Address: r.userAcc().String(), Coin: sdk.NewCoin(p.CounterpartyDenom, sdkmath.NewInt(int64(1+rg.Intn(100000))))},
				Output: coinswaptypes.Output{Address: r.userAcc().String(), Coin: sdk.NewCoin(p.StandardDenom, sdkmath.OneInt())}, Deadline: ch.now.Unix() + 1000, IsBuyOrder: false})
		}
		r.count(op, err)
	case "rmliq":
		pools := a.CoinswapKeeper.GetAllPools(ch.cur())
		if len(pools) == 0 {
			r.e.Stats.Count("op:rmliq:no-pool")
			return
		}
		p := pools[op.A%len(pools)]
		bal := a.BankKeeper.GetBalance(ch.cur(), r.userAcc(), p.LptDenom).Amount
		w := bal.QuoRaw(int64(1 + rg.Intn(4)))
		if !w.IsPositive() {
			r.e.Stats.Count("op:rmliq:no-shares")
			return
		}
		err := ch.send(&coinswaptypes.MsgRemoveLiquidity{WithdrawLiquidity: sdk.NewCoin(p.LptDenom, w), MinToken: sdkmath.ZeroInt(), MinStandardAmt: sdkmath.ZeroInt(),
			Deadline: ch.now.Unix() + 1000, Sender: r.userAcc().String()})
		r.count(op, err)
	case "regcoin":
		d := c18Denoms[op.A%len(c18Denoms)]
		if !a.BankKeeper.HasSupply(ch.cur(), d) {
			ch.mintTo(r.userAcc(), sdk.NewCoins(sdk.NewCoin(d, sdkmath.NewInt(1_000_000))))
		}
		md := banktypes.Metadata{Description: "coin " + d, Base: d, Display: d, Name: "Coin" + fmt.Sprint(op.A), Symbol: "C" + fmt.Sprint(op.A),
			DenomUnits: []*banktypes.DenomUnit{{Denom: d, Exponent: 0}}}
		err := ch.send(&erc20types.MsgRegisterCoin{Authority: c18Gov, Title: "t", Description: "d", Metadata: md})
		r.count(op, err)
	case "deploy":
		n := len(r.contracts)
		ch.fundCollector(big.NewInt(1_000_000_000_000_000_000)) // the helper's transaction is refunded its unused gas from the collector
		var addr common.Address
		err := Try(ch.cur(), func(c sdk.Context) error { // a panic in a post-transaction hook rejects the transaction
			var err error
			addr, err = erc20keeper.DeployContract(c, a.EvmKeeper, a.FeeMarketKeeper, ch.user, tests.NewSigner(ch.priv),
				fmt.Sprintf("Token%d", n), fmt.Sprintf("TK%d", n), uint8(6*(n%4)))
			return err
		})
		if err == nil {
			r.contracts = append(r.contracts, addr)
		}
		r.count(op, err)
	case "regerc20":
		if len(r.contracts) == 0 {
			r.e.Stats.Count("op:regerc20:no-contract")
			return
		}
		c := r.contracts[op.A%len(r.contracts)]
		err := ch.send(&erc20types.MsgRegisterERC20{Authority: c18Gov, Title: "t", Description: "d", Erc20Address: c.Hex()})
		r.count(op, err)
	case "toggle":
		pairs := a.Erc20Keeper.GetTokenPairs(ch.cur())
		if len(pairs) == 0 {
			r.e.Stats.Count("op:toggle:no-pair")
			return
		}
		p := pairs[op.A%len(pairs)]
		token := p.Denom
		if op.B%2 == 1 {
			token = p.Erc20Address
		}
		err := ch.send(&erc20types.MsgToggleTokenConversion{Authority: c18Gov, Title: "t", Description: "d", Token: token})
		r.count(op, err)
	case "kill":
		// the pair's contract self-destructs; the next conversion removes the pair (x/erc20 msg_server)
		pairs := a.Erc20Keeper.GetTokenPairs(ch.cur())
		if len(pairs) == 0 {
			r.e.Stats.Count("op:kill:no-pair")
			return
		}
		p := pairs[op.A%len(pairs)]
		ctx := ch.cur()
		sdb := statedb.New(ctx, a.EvmKeeper, statedb.NewEmptyTxConfig(common.BytesToHash(ctx.HeaderHash())))
		if sdb.Suicide(p.GetERC20Contract()) {
			if err := sdb.Commit(); err != nil {
				panic(err)
			}
		}
		var err error
		if p.IsNativeCoin() {
			err = ch.send(&erc20types.MsgConvertCoin{Coin: sdk.Coin{Denom: p.Denom, Amount: sdkmath.NewInt(1)}, Receiver: ch.user.Hex(), Sender: r.userAcc().String()})
		} else {
			err = ch.send(&erc20types.MsgConvertERC20{ContractAddress: p.Erc20Address, Amount: sdkmath.NewInt(1), Receiver: r.userAcc().String(), Sender: ch.user.Hex()})
		}
		r.count(op, err)
	case "csr-enable":
		sh := c18RandDec01(rg)
		if rg.Intn(5) == 0 {
			sh = sdkmath.LegacyOneDec()
		}
		err := ch.send(&csrtypes.MsgUpdateParams{Authority: c18Gov, Params: csrtypes.NewParams(op.A%5 != 4, sh)})
		if err == nil {
			// governance messages run at the end of a block; the next block's BeginBlock deploys the Turnstile
			// before any transaction can reach the csr hook
			err = Try(ch.cur(), func(c sdk.Context) error {
				return csr.NewAppModule(a.AppCodec(), a.CSRKeeper, a.AccountKeeper).BeginBlock(c)
			})
		}
		r.count(op, err)
	case "csr-deploy":
		ts, found := a.CSRKeeper.GetTurnstile(ch.cur())
		if !found {
			r.e.Stats.Count("op:csr-deploy:no-turnstile")
			return
		}
		var addr common.Address
		err := Try(ch.cur(), func(c sdk.Context) error {
			var err error
			addr, err = a.CSRKeeper.DeployContract(c, c18LoadCsrContract(), ts)
			return err
		})
		if err == nil {
			r.csrc = append(r.csrc, addr)
		}
		r.count(op, err)
	case "csr-register", "csr-assign":
		if len(r.csrc) == 0 {
			r.e.Stats.Count("op:" + op.Kind + ":no-contract")
			return
		}
		c := r.csrc[op.A%len(r.csrc)]
		cc := c18LoadCsrContract()
		var data []byte
		var err error
		if op.Kind == "csr-register" {
			data, err = cc.ABI.Pack("register", ch.user)
		} else {
			all := a.CSRKeeper.GetAllCSRs(ch.cur())
			if len(all) == 0 {
				r.e.Stats.Count("op:csr-assign:no-nft")
				return
			}
			data, err = cc.ABI.Pack("assign", new(big.Int).SetUint64(all[op.B%len(all)].Id))
		}
		if err != nil {
			panic(err)
		}
		price := big.NewInt(int64(rg.Intn(3)) * int64(1+rg.Intn(1_000_000)))
		if ch.ethTx(&c, data, price) {
			r.count(op, nil)
		} else {
			r.count(op, fmt.Errorf("failed"))
		}
	case "proposal":
		r.nPropID++
		m := &govshuttletypes.MsgLendingMarketProposal{Authority: c18Gov, Title: "lending", Description: "d",
			Metadata: &govshuttletypes.LendingMarketMetadata{Account: []string{ch.user.Hex()}, PropId: r.nPropID, Values: []uint64{uint64(rg.Intn(5))},
				Calldatas: []string{"a9059cbb"}, Signatures: []string{"transfer(address,uint256)"}}}
		err := ch.send(m)
		r.count(op, err)
	case "params-coinswap":
		p := a.CoinswapKeeper.GetParams(ch.cur())
		p.Fee = c18RandDec01(rg)
		p.TaxRate = c18RandDec01(rg)
		p.PoolCreationFee = sdk.NewCoin(c18Denom, sdkmath.NewInt(int64(rg.Intn(3))*int64(rg.Intn(1000))))
		p.MaxStandardCoinPerPool = sdkmath.NewIntFromBigInt(new(big.Int).Exp(big.NewInt(10), big.NewInt(int64(10+rg.Intn(20))), nil))
		var wl sdk.Coins
		for _, d := range c18Denoms {
			if rg.Intn(3) != 0 {
				wl = wl.Add(sdk.NewCoin(d, sdkmath.NewIntFromBigInt(new(big.Int).Exp(big.NewInt(10), big.NewInt(int64(6+rg.Intn(14))), nil))))
			}
		}
		if rg.Intn(8) == 0 {
			wl = sdk.Coins{}
		}
		p.MaxSwapAmount = wl
		err := ch.send(&coinswaptypes.MsgUpdateParams{Authority: c18Gov, Params: p})
		r.count(op, err)
	case "params-inflation":
		p := a.InflationKeeper.GetParams(ch.cur())
		p.EnableInflation = op.A%4 != 3
		if rg.Intn(2) == 0 {
			st := sdkmath.LegacyNewDecWithPrec(int64(rg.Intn(1001)), 3)
			p.InflationDistribution = inflationtypes.InflationDistribution{StakingRewards: st, CommunityPool: sdkmath.LegacyOneDec().Sub(st)}
		}
		if rg.Intn(2) == 0 {
			p.ExponentialCalculation = inflationtypes.ExponentialCalculation{A: sdkmath.LegacyNewDec(int64(rg.Intn(20_000_000))),
				R: sdkmath.LegacyNewDecWithPrec(int64(rg.Intn(1001)), 3), C: sdkmath.LegacyNewDec(int64(rg.Intn(3)) * int64(rg.Intn(1_000_000))),
				BondingTarget: sdkmath.LegacyNewDecWithPrec(int64(1+rg.Intn(1000)), 3), MaxVariance: sdkmath.LegacyNewDecWithPrec(int64(rg.Intn(3))*int64(rg.Intn(1000)), 3)}
		}
		err := ch.send(&inflationtypes.MsgUpdateParams{Authority: c18Gov, Params: p})
		r.count(op, err)
	case "params-onboarding":
		var chans []string
		for i := 0; i < rg.Intn(4); i++ {
			chans = append(chans, fmt.Sprintf("channel-%d", rg.Intn(20)))
		}
		if len(chans) > 0 && rg.Intn(3) == 0 {
			// the whitelist is a list, not a set: a repeated entry is valid and must survive export and import as stored
			chans = append(chans, chans[0])
		}
		p := onboardingtypes.NewParams(rg.Intn(2) == 0, sdkmath.NewIntFromBigInt(new(big.Int).Exp(big.NewInt(10), big.NewInt(int64(rg.Intn(25))), nil)), chans)
		if rg.Intn(6) == 0 {
			p.AutoSwapThreshold = sdkmath.ZeroInt()
		}
		err := ch.send(&onboardingtypes.MsgUpdateParams{Authority: c18Gov, Params: p})
		r.count(op, err)
	case "params-erc20":
		err := ch.send(&erc20types.MsgUpdateParams{Authority: c18Gov, Params: erc20types.NewParams(op.A%4 != 3, op.B%2 == 0)})
		r.count(op, err)
	default:
		if r.execGuard(op) || r.execExtra(op) || r.execBulk(op) {
			return
		}
		panic("c18: unknown op kind " + op.Kind)
	}
}

// ---------- generator ----------

func (e *Env) c18GenOps(stream string, n int) []c18Op {
	var ops []c18Op
	add := func(kind string, a, b int) { ops = append(ops, c18Op{Kind: kind, A: a, B: b, Seed: e.Rng.Int63()}) }
	// a prologue that makes the interesting operations possible
	if stream != "sparse" {
		add("csr-enable", 0, 0)
		add("params-inflation", 0, 0)
		add("advance", 0, 0)
		for i := 0; i < 2+e.Pick(3); i++ {
			add("deploy", 0, 0)
			add("csr-deploy", 0, 0)
		}
		if e.Chance(0.4) { // two coins / a voucher and a coin whose denominations differ only in letter case
			add("regcoin-case", e.Pick(8), 0)
		}
	}
	kinds := []struct {
		k string
		w int
	}{{"advance", 14}, {"mint", 4}, {"addliq", 9}, {"swap", 6}, {"rmliq", 3}, {"regcoin", 7}, {"deploy", 3}, {"regerc20", 7}, {"toggle", 6}, {"kill", 3},
		{"csr-enable", 2}, {"csr-deploy", 3}, {"csr-register", 8}, {"csr-assign", 5}, {"proposal", 3}, {"params-coinswap", 3}, {"params-inflation", 3},
		{"params-onboarding", 3}, {"params-erc20", 2}, {"inflation-toggle", 4}, {"rmliq-all", 2}, {"regcoin-case", 2}}
	total := 0
	for _, k := range kinds {
		total += k.w
	}
	for len(ops) < n {
		x := e.Pick(total)
		for _, k := range kinds {
			if x < k.w {
				a := e.Pick(8)
				if k.k == "advance" {
					a = e.Pick(5)
					if stream == "epochs" {
						a = 1 + e.Pick(3)
					}
				}
				add(k.k, a, e.Pick(8))
				break
			}
			x -= k.w
		}
	}
	return ops
}

// ---------- projection to Coq terms ----------

type c18Proj struct {
	in    *c18Intern
	rank  map[string]int64 // epoch identifiers: rank in byte order, blank ones negative
	ids   map[string][2]string
	hexv  map[string]int
	plain map[string]int
	junk  int
	names map[string]string
	defs  []string
}

func c18NewProj() *c18Proj {
	return &c18Proj{in: c18NewIntern(), rank: map[string]int64{}, ids: map[string][2]string{}, hexv: map[string]int{}, plain: map[string]int{}, names: map[string]string{}}
}

// name binds a (large, repeated) term to a let-variable of the case definition
func (p *c18Proj) name(prefix, term string) string {
	if n, ok := p.names[term]; ok {
		return n
	}
	n := fmt.Sprintf("%s%d", prefix, len(p.defs))
	p.names[term] = n
	p.defs = append(p.defs, "let "+n+" := "+term+" in ")
	return n
}

func (p *c18Proj) str(s string) string { return p.name("s", c18Str(s)) }

func (p *c18Proj) setIdents(ids []string) {
	set := map[string]bool{}
	for _, s := range ids {
		set[s] = true
	}
	var blank, rest []string
	for _, s := range c18SortedKeys(set) {
		if strings.TrimSpace(s) == "" {
			blank = append(blank, s)
		} else {
			rest = append(rest, s)
		}
	}
	for i, s := range blank {
		p.rank[s] = int64(-1 - i)
	}
	for i, s := range rest {
		p.rank[s] = int64(i)
	}
}

func (p *c18Proj) csParams(x coinswaptypes.Params) string {
	var coins []string
	for _, c := range x.MaxSwapAmount {
		coins = append(coins, Tup(p.str(c.Denom), Z(c.Amount.BigInt())))
	}
	return p.name("csp", App("mkCs", Z(x.Fee.BigInt()), p.str(x.PoolCreationFee.Denom), Z(x.PoolCreationFee.Amount.BigInt()), Z(x.TaxRate.BigInt()),
		Z(x.MaxStandardCoinPerPool.BigInt()), L(coins)))
}

func (p *c18Proj) denom(d string) string { return Zi(p.in.id("d:" + d)) }

func (p *c18Proj) pool(id, std, tok, escrow, lpt string) string {
	idT := Zi(-p.in.id("id:" + id))
	if strings.HasPrefix(id, "pool-") {
		idT = p.denom(id[5:])
	}
	escT := Zi(p.in.id("esc:" + escrow))
	if escrow == coinswaptypes.GetReservePoolAddr(lpt).String() {
		escT = "0"
	}
	_, escErr := sdk.AccAddressFromBech32(escrow)
	seq, perr := coinswaptypes.ParseLptDenom(lpt)
	lptT := Zi(-p.in.id("lpt:" + lpt))
	seqT := "None"
	if perr == nil {
		seqT = "(Some " + c18U(seq) + ")"
		if lpt == coinswaptypes.GetLptDenom(seq) {
			lptT = c18U(seq)
		}
	}
	return App("mkGPool", idT, p.denom(std), B(sdk.ValidateDenom(std) == nil), p.denom(tok), B(sdk.ValidateDenom(tok) == nil), escT, B(escErr == nil), lptT, seqT)
}

func (p *c18Proj) csGen(g coinswaptypes.GenesisState) string {
	var pools []string
	for _, x := range g.Pool {
		pools = append(pools, p.pool(x.Id, x.StandardDenom, x.CounterpartyDenom, x.EscrowAddress, x.LptDenom))
	}
	return App("mkCsGen", p.csParams(g.Params), p.denom(g.StandardDenom), B(sdk.ValidateDenom(g.StandardDenom) == nil), L(pools), c18U(g.Sequence))
}

func (p *c18Proj) tok(s string) string {
	switch {
	case common.IsHexAddress(s):
		if _, ok := p.hexv[s]; !ok {
			p.hexv[s] = len(p.hexv)
		}
		return App("TokenPairs.THex", c18AddrZ(common.HexToAddress(s)), fmt.Sprint(p.hexv[s]))
	case strings.HasPrefix(s, "erc20/") && common.IsHexAddress(s[6:]) && s == erc20types.CreateDenom(common.HexToAddress(s[6:]).String()):
		return App("TokenPairs.TErc20", c18AddrZ(common.HexToAddress(s[6:])))
	default:
		if _, ok := p.plain[s]; !ok {
			p.plain[s] = len(p.plain)
		}
		return App("TokenPairs.TPlain", fmt.Sprint(p.plain[s]))
	}
}

func (p *c18Proj) learnPair(x erc20types.TokenPair) {
	p.ids[hex.EncodeToString(x.GetID())] = [2]string{x.Erc20Address, x.Denom}
}

func (p *c18Proj) pid(id []byte) string {
	if v, ok := p.ids[hex.EncodeToString(id)]; ok {
		return App("PID", c18AddrZ(common.HexToAddress(v[0])), p.tok(v[1]))
	}
	p.junk++
	return fmt.Sprintf("(PID (-%d) (TokenPairs.TPlain (-%d)))", p.junk, p.junk)
}

func (p *c18Proj) pair(x erc20types.TokenPair) string {
	owner := "TokenPairs.OwnerUnspecified"
	switch x.ContractOwner {
	case erc20types.OWNER_MODULE:
		owner = "TokenPairs.OwnerModule"
	case erc20types.OWNER_EXTERNAL:
		owner = "TokenPairs.OwnerExternal"
	}
	return App("TokenPairs.mkPair", c18AddrZ(common.HexToAddress(x.Erc20Address)), p.tok(x.Denom), B(x.Enabled), owner)
}

func (p *c18Proj) optPair(x erc20types.TokenPair, ok bool) string {
	if !ok {
		return "NoPair"
	}
	return App("SoPair", p.pair(x))
}

func c18ErcParams(x erc20types.Params) string {
	return App("mkErc", B(x.EnableErc20), B(x.EnableEVMHook))
}

func (p *c18Proj) ercGen(g erc20types.GenesisState) string {
	ok := true
	var pairs, dens, addrs []string
	for _, x := range g.TokenPairs {
		p.learnPair(x)
		if x.Validate() != nil {
			ok = false
		}
	}
	for _, x := range g.TokenPairs {
		pairs = append(pairs, p.pair(x))
	}
	for _, x := range g.DenomIndexes {
		dens = append(dens, App("DIX", p.tok(x.Denom), p.pid(x.TokenPairId)))
	}
	for _, x := range g.Erc20AddressIndexes {
		addrs = append(addrs, App("AIX", c18AddrZ(common.BytesToAddress(x.Erc20Address)), p.pid(x.TokenPairId)))
	}
	return App("mkErcGen", c18ErcParams(g.Params), L(pairs), L(dens), L(addrs), B(ok))
}

func c18CsrParams(x csrtypes.Params) string {
	return App("Authority.mkCsr", B(x.EnableCsr), Z(x.CsrShares.BigInt()))
}

func c18CsrRec(x csrtypes.CSR) string {
	var cs []string
	for _, c := range x.Contracts {
		cs = append(cs, c18AddrZ(common.HexToAddress(c)))
	}
	rev := big.NewInt(0)
	if !x.Revenue.IsNil() {
		rev = x.Revenue.BigInt()
	}
	return App("NCSR", c18U(x.Id), L(cs), c18U(x.Txs), Z(rev))
}

func c18OptHexAddr(s string) string {
	if s == "" {
		return "None"
	}
	return "(Some " + c18AddrZ(common.HexToAddress(s)) + ")"
}

func (p *c18Proj) csrGen(g csrtypes.GenesisState) string {
	var l []string
	for _, x := range g.Csrs {
		l = append(l, c18CsrRec(x))
	}
	return App("mkCsrGen", c18CsrParams(g.Params), L(l), c18OptHexAddr(g.TurnstileAddress))
}

func (p *c18Proj) infParams(x inflationtypes.Params) string {
	ec, d := x.ExponentialCalculation, x.InflationDistribution
	return p.name("infp", App("mkInf", p.str(x.MintDenom), Z(ec.A.BigInt()), Z(ec.R.BigInt()), Z(ec.C.BigInt()), Z(ec.BondingTarget.BigInt()), Z(ec.MaxVariance.BigInt()),
		Z(d.StakingRewards.BigInt()), Z(d.CommunityPool.BigInt()), B(x.EnableInflation)))
}

func (p *c18Proj) infGen(g inflationtypes.GenesisState) string {
	return App("mkInfGen", p.infParams(g.Params), c18U(g.Period), Zi(p.rank[g.EpochIdentifier]), Zi(g.EpochsPerPeriod), c18U(g.SkippedEpochs))
}

func (p *c18Proj) epoch(x epochstypes.EpochInfo, maskHeight bool) string {
	h := x.CurrentEpochStartHeight
	if maskHeight {
		h = 0
	}
	return App("mkEpoch", Zi(p.rank[x.Identifier]), Z(TimeNs(x.StartTime)), Zi(int64(x.Duration)), Zi(x.CurrentEpoch), Z(TimeNs(x.CurrentEpochStartTime)),
		B(x.EpochCountingStarted), Zi(h))
}

func (p *c18Proj) epGen(g epochstypes.GenesisState) string {
	es := append([]epochstypes.EpochInfo{}, g.Epochs...)
	var l []string
	for _, x := range es {
		l = append(l, p.epoch(x, false))
	}
	return L(l)
}

func (p *c18Proj) onbParams(x onboardingtypes.Params) string {
	var ch []string
	for _, c := range x.WhitelistedChannels {
		ch = append(ch, p.str(c))
	}
	return p.name("onbp", App("mkOnb", B(x.EnableOnboarding), Z(x.AutoSwapThreshold.BigInt()), L(ch)))
}

// the seven documents of one export
type c18Docs struct {
	cs  coinswaptypes.GenesisState
	erc erc20types.GenesisState
	csr csrtypes.GenesisState
	inf inflationtypes.GenesisState
	ep  epochstypes.GenesisState
	gs  govshuttletypes.GenesisState
	onb onboardingtypes.GenesisState
}

func c18Decode(a *app.Canto, gs map[string]json.RawMessage) *c18Docs {
	d := &c18Docs{}
	cdc := a.AppCodec()
	cdc.MustUnmarshalJSON(gs[coinswaptypes.ModuleName], &d.cs)
	cdc.MustUnmarshalJSON(gs[erc20types.ModuleName], &d.erc)
	cdc.MustUnmarshalJSON(gs[csrtypes.ModuleName], &d.csr)
	cdc.MustUnmarshalJSON(gs[inflationtypes.ModuleName], &d.inf)
	cdc.MustUnmarshalJSON(gs[epochstypes.ModuleName], &d.ep)
	cdc.MustUnmarshalJSON(gs[govshuttletypes.ModuleName], &d.gs)
	cdc.MustUnmarshalJSON(gs[onboardingtypes.ModuleName], &d.onb)
	return d
}

func (d *c18Docs) verdicts() []bool {
	return []bool{coinswaptypes.ValidateGenesis(d.cs) == nil, d.erc.Validate() == nil, d.csr.Validate() == nil, d.inf.Validate() == nil,
		d.ep.Validate() == nil, d.gs.Validate() == nil, d.onb.Validate() == nil}
}

func (p *c18Proj) genesis(d *c18Docs) string {
	return App("mkGen", p.csGen(d.cs), p.ercGen(d.erc), p.csrGen(d.csr), p.infGen(d.inf), p.epGen(d.ep), c18OptHexAddr(d.gs.PortContractAddr), p.onbParams(d.onb.Params))
}

// ---------- queries ----------

type c18Probes struct {
	lpts      []string
	toks      []string
	pids      [][]byte
	nfts      []uint64
	contracts []string
	idents    []string
}

func (p *c18Proj) probes(q *c18Probes) string {
	var l, t, i, n, c, d []string
	for _, x := range q.lpts {
		seq, err := coinswaptypes.ParseLptDenom(x)
		if err == nil && x == coinswaptypes.GetLptDenom(seq) {
			l = append(l, c18U(seq))
		} else {
			l = append(l, Zi(-p.in.id("lpt:"+x)))
		}
	}
	for _, x := range q.toks {
		t = append(t, p.tok(x))
	}
	for _, x := range q.pids {
		i = append(i, p.pid(x))
	}
	for _, x := range q.nfts {
		n = append(n, c18U(x))
	}
	for _, x := range q.contracts {
		c = append(c, c18AddrZ(common.HexToAddress(x)))
	}
	for _, x := range q.idents {
		d = append(d, Zi(p.rank[x]))
	}
	return App("mkProbes", L(l), L(t), L(i), L(n), L(c), L(d))
}

func (p *c18Proj) poolInfo(x coinswaptypes.PoolInfo) string {
	return p.pool(x.Id, x.Standard.Denom, x.Token.Denom, x.EscrowAddress, x.Lpt.Denom)
}

// answers asks the module query servers (and, where a module has no query for a stored value, its keeper getter).
func (p *c18Proj) answers(a *app.Canto, ctx sdk.Context, q *c18Probes) (term string, prov *big.Int) {
	big100 := &query.PageRequest{Limit: 10000}
	var pools, byLpt []string
	if res, err := a.CoinswapKeeper.LiquidityPools(ctx, &coinswaptypes.QueryLiquidityPoolsRequest{Pagination: big100}); err == nil {
		for _, x := range res.Pools {
			pools = append(pools, p.poolInfo(x))
		}
	} else {
		pools = append(pools, "QUERY_FAILED")
	}
	for _, l := range q.lpts {
		if res, err := a.CoinswapKeeper.LiquidityPool(ctx, &coinswaptypes.QueryLiquidityPoolRequest{LptDenom: l}); err == nil {
			byLpt = append(byLpt, App("SoPool", p.poolInfo(res.Pool)))
		} else {
			byLpt = append(byLpt, "NoPool")
		}
	}
	csp, err := a.CoinswapKeeper.Params(ctx, &coinswaptypes.QueryParamsRequest{})
	if err != nil {
		panic(err)
	}
	var pairs, byTok, byID []string
	tp, err := a.Erc20Keeper.TokenPairs(ctx, &erc20types.QueryTokenPairsRequest{Pagination: big100})
	if err != nil {
		panic(err)
	}
	for _, x := range tp.TokenPairs {
		pairs = append(pairs, p.pair(x))
	}
	for _, t := range q.toks {
		res, err := a.Erc20Keeper.TokenPair(ctx, &erc20types.QueryTokenPairRequest{Token: t})
		if err == nil {
			byTok = append(byTok, p.optPair(res.TokenPair, true))
		} else {
			byTok = append(byTok, "NoPair")
		}
	}
	for _, id := range q.pids {
		x, ok := a.Erc20Keeper.GetTokenPair(ctx, id)
		byID = append(byID, p.optPair(x, ok))
	}
	ercp, err := a.Erc20Keeper.Params(ctx, &erc20types.QueryParamsRequest{})
	if err != nil {
		panic(err)
	}
	var csrs, byNft, byC []string
	cr, err := a.CSRKeeper.CSRs(ctx, &csrtypes.QueryCSRsRequest{Pagination: big100})
	if err != nil {
		panic(err)
	}
	for _, x := range cr.Csrs {
		csrs = append(csrs, c18CsrRec(x))
	}
	for _, n := range q.nfts {
		if res, err := a.CSRKeeper.CSRByNFT(ctx, &csrtypes.QueryCSRByNFTRequest{NftId: n}); err == nil {
			byNft = append(byNft, App("SoCsrOf", c18CsrRec(res.Csr)))
		} else {
			byNft = append(byNft, "NoCsr")
		}
	}
	for _, c := range q.contracts {
		if res, err := a.CSRKeeper.CSRByContract(ctx, &csrtypes.QueryCSRByContractRequest{Address: c}); err == nil {
			byC = append(byC, App("SoNCsr", c18CsrRec(res.Csr)))
		} else {
			byC = append(byC, "NoNCsr")
		}
	}
	ts := "None"
	if res, err := a.CSRKeeper.Turnstile(ctx, &csrtypes.QueryTurnstileRequest{}); err == nil {
		ts = c18OptHexAddr(res.Address)
	}
	csrp, err := a.CSRKeeper.Params(ctx, &csrtypes.QueryParamsRequest{})
	if err != nil {
		panic(err)
	}
	port, found := a.GovshuttleKeeper.GetPort(ctx)
	var eps, cur []string
	er, err := a.EpochsKeeper.EpochInfos(ctx, &epochstypes.QueryEpochsInfoRequest{Pagination: big100})
	if err != nil {
		panic(err)
	}
	for _, x := range er.Epochs {
		eps = append(eps, p.epoch(x, true))
	}
	for _, id := range q.idents {
		if res, err := a.EpochsKeeper.CurrentEpoch(ctx, &epochstypes.QueryCurrentEpochRequest{Identifier: id}); err == nil {
			cur = append(cur, "(Some "+Zi(res.CurrentEpoch)+")")
		} else {
			cur = append(cur, "None")
		}
	}
	per, err := a.InflationKeeper.Period(ctx, &inflationtypes.QueryPeriodRequest{})
	if err != nil {
		panic(err)
	}
	sk, err := a.InflationKeeper.SkippedEpochs(ctx, &inflationtypes.QuerySkippedEpochsRequest{})
	if err != nil {
		panic(err)
	}
	infp, err := a.InflationKeeper.Params(ctx, &inflationtypes.QueryParamsRequest{})
	if err != nil {
		panic(err)
	}
	onbp, err := a.OnboardingKeeper.Params(ctx, &onboardingtypes.QueryParamsRequest{})
	if err != nil {
		panic(err)
	}
	pv, _ := a.InflationKeeper.GetEpochMintProvision(ctx)
	term = App("mkAns", L(pools), L(byLpt), p.csParams(csp.Params), L(pairs), L(byTok), L(byID), c18ErcParams(ercp.Params),
		L(csrs), L(byNft), L(byC), ts, c18CsrParams(csrp.Params), c18OptAddr(port, found), L(eps), L(cur),
		c18U(per.Period), c18U(sk.SkippedEpochs), Zi(a.InflationKeeper.GetEpochsPerPeriod(ctx)), Zi(p.rank[a.InflationKeeper.GetEpochIdentifier(ctx)]),
		p.infParams(infp.Params), p.onbParams(onbp.Params))
	return term, pv.BigInt()
}

// ---------- raw JSON comparison (Go-side monitor, independent of the projection) ----------

var c18HeightRe = regexp.MustCompile(`"current_epoch_start_height":"[0-9-]*"`)

func c18RawEqual(a, b map[string]json.RawMessage) []bool {
	var out []bool
	for _, m := range c18Modules {
		x, y := []byte(a[m]), []byte(b[m])
		if m == epochstypes.ModuleName {
			x = c18HeightRe.ReplaceAll(x, []byte(`"current_epoch_start_height":"*"`))
			y = c18HeightRe.ReplaceAll(y, []byte(`"current_epoch_start_height":"*"`))
		}
		out = append(out, bytes.Equal(x, y))
	}
	return out
}

func c18Bools(bs []bool) string {
	var l []string
	for _, b := range bs {
		l = append(l, B(b))
	}
	return L(l)
}

// ---------- malformed documents ----------

// c18BadDoc perturbs one module's exported document and returns the BadXxx term with the real verdict.
func (p *c18Proj) badDoc(d *c18Docs, b c18Bad, stats *Stats) string {
	rg := rand.New(rand.NewSource(b.Seed))
	switch b.Module {
	case "coinswap":
		g := d.cs
		g.Pool = append([]coinswaptypes.Pool{}, g.Pool...)
		mk := func(tok string, seq uint64) coinswaptypes.Pool {
			l := coinswaptypes.GetLptDenom(seq)
			return coinswaptypes.Pool{Id: coinswaptypes.GetPoolId(tok), StandardDenom: g.StandardDenom, CounterpartyDenom: tok,
				EscrowAddress: coinswaptypes.GetReservePoolAddr(l).String(), LptDenom: l}
		}
		switch b.Kind {
		case "dup-id":
			x := mk("zzdup", g.Sequence)
			y := mk("zzdup", g.Sequence+1)
			g.Pool = append(g.Pool, x, y)
			g.Sequence += 2
		case "dup-lpt":
			x := mk("zzaaa", g.Sequence)
			y := mk("zzbbb", g.Sequence)
			g.Pool = append(g.Pool, x, y)
			g.Sequence++
		case "seq-low":
			g.Pool = append(g.Pool, mk("zzaaa", g.Sequence))
		case "seq-high":
			g.Sequence += uint64(1 + rg.Intn(3))
		case "seq-ok-extra":
			g.Pool = append(g.Pool, mk("zzaaa", g.Sequence))
			g.Sequence++
		case "seq-gap-ok": // a gap below the maximum is accepted
			g.Pool = append(g.Pool, mk("zzaaa", g.Sequence+5))
			g.Sequence += 6
		case "bad-lpt":
			x := mk("zzaaa", g.Sequence)
			x.LptDenom = []string{"lpt", "lpt-1-2", "lpt-x", "lpt--1"}[rg.Intn(4)]
			g.Pool = append(g.Pool, x)
			g.Sequence++
		case "odd-lpt-ok": // ParseLptDenom only looks at the part after the dash
			x := mk("zzaaa", g.Sequence)
			x.LptDenom = fmt.Sprintf("foo-%d", g.Sequence)
			g.Pool = append(g.Pool, x)
			g.Sequence++
		case "bad-denom":
			x := mk("zzaaa", g.Sequence)
			if rg.Intn(2) == 0 {
				x.CounterpartyDenom = "1x"
			} else {
				x.StandardDenom = "!"
			}
			g.Pool = append(g.Pool, x)
			g.Sequence++
		case "bad-escrow":
			x := mk("zzaaa", g.Sequence)
			x.EscrowAddress = "canto1notanaddress"
			g.Pool = append(g.Pool, x)
			g.Sequence++
		case "bad-std":
			g.StandardDenom = "x"
		case "bad-fee":
			g.Params.Fee = sdkmath.LegacyOneDec()
		case "neg-fee":
			g.Params.Fee = sdkmath.LegacyNewDec(-1)
		case "bad-tax-ok": // Params.Validate looks at the fee only
			g.Params.TaxRate = sdkmath.LegacyNewDec(2)
		}
		v := coinswaptypes.ValidateGenesis(g) == nil
		stats.Count(fmt.Sprintf("bad:coinswap:%s:%v", b.Kind, v))
		return App("BadCs", p.csGen(g), B(v))
	case "erc20":
		g := d.erc
		g.TokenPairs = append([]erc20types.TokenPair{}, g.TokenPairs...)
		a1 := common.BytesToAddress([]byte{0x11, byte(rg.Intn(200))}).String()
		a2 := common.BytesToAddress([]byte{0x22, byte(rg.Intn(200))}).String()
		switch b.Kind {
		case "dup-addr":
			g.TokenPairs = append(g.TokenPairs, erc20types.NewTokenPair(common.HexToAddress(a1), "zzcoin1", true, erc20types.OWNER_MODULE), erc20types.NewTokenPair(common.HexToAddress(a1), "zzcoin2", true, erc20types.OWNER_MODULE))
		case "dup-denom":
			g.TokenPairs = append(g.TokenPairs, erc20types.NewTokenPair(common.HexToAddress(a1), "zzcoin1", true, erc20types.OWNER_MODULE), erc20types.NewTokenPair(common.HexToAddress(a2), "zzcoin1", true, erc20types.OWNER_EXTERNAL))
		case "extra-ok":
			g.TokenPairs = append(g.TokenPairs, erc20types.NewTokenPair(common.HexToAddress(a1), "zzcoin1", true, erc20types.OWNER_MODULE), erc20types.NewTokenPair(common.HexToAddress(a2), "zzcoin2", true, erc20types.OWNER_EXTERNAL))
		case "bad-denom":
			g.TokenPairs = append(g.TokenPairs, erc20types.TokenPair{Erc20Address: a1, Denom: "9", Enabled: true, ContractOwner: erc20types.OWNER_MODULE})
		case "dangling-index-ok": // the indexes are not validated at all
			g.DenomIndexes = append(g.DenomIndexes, erc20types.TokenPairDenomIndex{Denom: "zzghost", TokenPairId: []byte{1, 2, 3}})
		}
		v := g.Validate() == nil
		stats.Count(fmt.Sprintf("bad:erc20:%s:%v", b.Kind, v))
		return App("BadErc", p.ercGen(g), B(v))
	case "csr":
		g := d.csr
		g.Csrs = append([]csrtypes.CSR{}, g.Csrs...)
		c1 := common.BytesToAddress([]byte{0x33, 1}).String()
		switch b.Kind {
		case "dup-nft-ok": // only the parameters are validated
			g.Csrs = append(g.Csrs, csrtypes.NewCSR([]string{c1}, 77), csrtypes.NewCSR([]string{c1}, 77))
		case "empty-contracts-ok":
			g.Csrs = append(g.Csrs, csrtypes.NewCSR(nil, 78))
		case "bad-turnstile-ok":
			g.TurnstileAddress = "not-hex"
		case "shares-above-one":
			g.Params.CsrShares = sdkmath.LegacyNewDecWithPrec(1001, 3)
		case "shares-negative":
			g.Params.CsrShares = sdkmath.LegacyNewDecWithPrec(-1, 3)
		case "shares-one-ok":
			g.Params.CsrShares = sdkmath.LegacyOneDec()
		}
		v := g.Validate() == nil
		stats.Count(fmt.Sprintf("bad:csr:%s:%v", b.Kind, v))
		return App("BadCsr", p.csrGen(g), B(v))
	case "inflation":
		g := d.inf
		switch b.Kind {
		case "blank-ident":
			g.EpochIdentifier = []string{"", " ", "\t "}[rg.Intn(3)]
		case "epp-zero":
			g.EpochsPerPeriod = 0
		case "epp-negative":
			g.EpochsPerPeriod = -int64(1 + rg.Intn(5))
		case "epp-one-ok":
			g.EpochsPerPeriod = 1
		case "dist-sum":
			g.Params.InflationDistribution.StakingRewards = g.Params.InflationDistribution.StakingRewards.Add(sdkmath.LegacySmallestDec())
		case "bad-denom":
			g.Params.MintDenom = "a"
		case "target-zero":
			g.Params.ExponentialCalculation.BondingTarget = sdkmath.LegacyZeroDec()
		case "r-above-one":
			g.Params.ExponentialCalculation.R = sdkmath.LegacyNewDecWithPrec(1001, 3)
		case "unknown-ident-ok":
			g.EpochIdentifier = "fortnight"
		}
		if _, ok := p.rank[g.EpochIdentifier]; !ok {
			panic("c18: identifier not ranked: " + g.EpochIdentifier)
		}
		v := g.Validate() == nil
		stats.Count(fmt.Sprintf("bad:inflation:%s:%v", b.Kind, v))
		return App("BadInf", p.infGen(g), B(v))
	case "epochs":
		g := d.ep
		g.Epochs = append([]epochstypes.EpochInfo{}, g.Epochs...)
		switch b.Kind {
		case "dup-ident":
			g.Epochs = append(g.Epochs, g.Epochs[rg.Intn(len(g.Epochs))])
		case "blank-ident":
			x := g.Epochs[0]
			x.Identifier = []string{"", " ", "\t "}[rg.Intn(3)]
			g.Epochs = append(g.Epochs, x)
		case "zero-duration":
			g.Epochs[rg.Intn(len(g.Epochs))].Duration = 0
		case "negative-duration-ok": // only zero is refused
			g.Epochs[rg.Intn(len(g.Epochs))].Duration = -time.Hour
		case "negative-epoch":
			g.Epochs[rg.Intn(len(g.Epochs))].CurrentEpoch = -1
		case "negative-height":
			g.Epochs[rg.Intn(len(g.Epochs))].CurrentEpochStartHeight = -1
		case "extra-ok":
			x := g.Epochs[0]
			x.Identifier = "fortnight"
			g.Epochs = append(g.Epochs, x)
		}
		v := g.Validate() == nil
		stats.Count(fmt.Sprintf("bad:epochs:%s:%v", b.Kind, v))
		return App("BadEp", p.epGen(g), B(v))
	case "onboarding":
		g := d.onb
		switch b.Kind {
		case "negative-threshold":
			g.Params.AutoSwapThreshold = sdkmath.NewInt(-1)
		case "zero-threshold-ok":
			g.Params.AutoSwapThreshold = sdkmath.ZeroInt()
		}
		v := g.Validate() == nil
		stats.Count(fmt.Sprintf("bad:onboarding:%s:%v", b.Kind, v))
		return App("BadOnb", p.onbParams(g.Params), B(v))
	}
	panic("c18: unknown bad module " + b.Module)
}

var c18BadKinds = map[string][]string{
	"coinswap":   {"dup-id", "dup-lpt", "seq-low", "seq-high", "seq-ok-extra", "seq-gap-ok", "bad-lpt", "odd-lpt-ok", "bad-denom", "bad-escrow", "bad-std", "bad-fee", "neg-fee", "bad-tax-ok"},
	"erc20":      {"dup-addr", "dup-denom", "extra-ok", "bad-denom", "dangling-index-ok"},
	"csr":        {"dup-nft-ok", "empty-contracts-ok", "bad-turnstile-ok", "shares-above-one", "shares-negative", "shares-one-ok"},
	"inflation":  {"blank-ident", "epp-zero", "epp-negative", "epp-one-ok", "dist-sum", "bad-denom", "target-zero", "r-above-one", "unknown-ident-ok"},
	"epochs":     {"dup-ident", "blank-ident", "zero-duration", "negative-duration-ok", "negative-epoch", "negative-height", "extra-ok"},
	"onboarding": {"negative-threshold", "zero-threshold-ok"},
}

// ---------- the suite ----------

func runC18(e *Env) {
	e.Header("From stdpp Require Import gmap.\nFrom Coq Require Import ZArith List.\nFrom Canto Require Model.TokenPairs Model.Csr.\nFrom Canto Require Import Model.Authority Model.Epochs Model.Genesis Check.Common Check.GenesisCheck.\nImport ListNotations.\nOpen Scope Z_scope.\n")
	e.ShardSize = 4
	e.Stats.Rule = "case = generated history on a real chain (InitChain with a genuine bonded validator, non-zero genesis time): coinswap add/remove liquidity and swaps, erc20 register coin / register ERC-20 / toggle / removal after self-destruct, csr enable + Turnstile deployment by BeginBlock + register/assign through signed Ethereum transactions (revenue, tx counters), govshuttle lending-market proposal (port contract), block time advanced through EpochsKeeper.BeginBlocker across day/week boundaries with inflation as listener, parameter updates of coinswap / inflation / csr / onboarding / erc20; stream pools: 14 whitelisted denominations and 10-13 pools (two-digit pool sequence), full liquidity removal; stream inflation: enable_inflation toggled both ways around day/week boundaries; genesis varies epochs_per_period {1,2,3,5,30} and the inflation identifier {day, week}; stream guard-overflow-params: overflowing inflation parameters must be rejected; case variants: pairs of registered coins / a voucher and a coin whose denominations differ only in letter case, pool counterparties and epoch identifiers differing only in case; stream bulk: more than 100 CSR NFTs (real Turnstile + hook), token pairs and pools, with probes for every object of the original chain's stores; then whole-app export from the live deliver context, each module's ValidateGenesis, InitChain of a fresh app from the export, second export without a block, module queries on both; plus malformed documents per module against the real ValidateGenesis; non-trivial = the exported Canto state differs from the default genesis; distinct by hash of the seven exported documents"
	var cases []c18Case
	if e.Replay != nil {
		var k c18Case
		mustUnmarshal(e.Replay, &k)
		cases = []c18Case{k}
	} else {
		n := e.Scale(24, 240)
		if e.Tier == "search" {
			n = 40
		}
		for c := 0; c < n; c++ {
			k := c18Case{GenOffset: e.Rng.Int63n(1_000_000_000), Epp: []int64{1, 2, 3, 5, 30}[e.Pick(5)]}
			if e.Chance(0.25) {
				k.Ident = "week"
			}
			if e.Chance(0.25) { // identifiers that differ from the usual ones only in letter case
				k.Extra = [][]string{{"Day"}, {"WEEK", "Day"}, {"DAY", "hour"}}[e.Pick(3)]
			}
			switch {
			case c == 0:
				k.Stream = "empty"
				k.Ops = []c18Op{}
			case c%64 == 11:
				k.Stream = "bulk" // more than 100 objects in every exported collection
				k.Ops = e.c18GenBulkOps()
			case c%4 == 1:
				k.Stream = "pools"
				k.Ops = e.c18GenPoolsOps()
			case c%8 == 2:
				k.Stream = "inflation"
				k.Ops = e.c18GenInflationOps()
			case c%8 == 3:
				k.Stream = "sparse"
				k.Ops = e.c18GenOps("sparse", 3+e.Pick(10))
			case c%8 == 6:
				k.Stream = "epochs"
				k.Ops = e.c18GenOps("epochs", 25+e.Pick(e.Scale(25, 60)))
			default:
				k.Stream = "mixed"
				k.Ops = e.c18GenOps("mixed", 20+e.Pick(e.Scale(40, 120)))
			}
			mods := []string{"coinswap", "erc20", "csr", "inflation", "epochs", "onboarding"}
			for i := 0; i < 6; i++ {
				m := mods[(c+i)%len(mods)]
				ks := c18BadKinds[m]
				k.Bad = append(k.Bad, c18Bad{Module: m, Kind: ks[e.Pick(len(ks))], Seed: e.Rng.Int63()})
			}
			cases = append(cases, k)
		}
		if e.Tier != "search" {
			cases = append(cases, e.c18GuardCases()...) // the known non-importable state class, reported on every run
		}
	}
	for c, k := range cases {
		if k.Epp <= 0 {
			k.Epp = 30
		}
		ch := c18NewChain(GenesisTime.Add(time.Duration(k.GenOffset)*time.Second), k.Epp, k.Ident, k.Extra...)
		r := &c18Run{e: e, ch: ch}
		for _, op := range k.Ops {
			r.exec(op)
			e.Stats.Evaluations++
			e.Stats.Count("kind:" + op.Kind)
		}
		e.Stats.Count("stream:" + k.Stream)
		a := ch.a
		ctx := ch.cur()
		// ----- export, validate, import, export -----
		gs1 := c18Export(a, ctx)
		d1 := c18Decode(a, gs1)
		valid := d1.verdicts()
		bonded := a.InflationKeeper.BondedRatio(ctx)
		b, bctx, failure := c18Import(gs1, ch.now, ch.cons)
		imported := b != nil
		if !imported && os.Getenv("VERIF_DEBUG") != "" {
			fmt.Fprintf(os.Stderr, "c18 case %d: InitChain from the export failed: %s\n", c, failure)
		}
		d2 := d1
		raw := []bool{true, true, true, true, true, true, true}
		if imported {
			gs2 := c18Export(b, bctx)
			d2 = c18Decode(b, gs2)
			raw = c18RawEqual(gs1, gs2)
			bonded = b.InflationKeeper.BondedRatio(bctx)
		}
		// ----- probes -----
		q := &c18Probes{}
		for _, p := range d1.cs.Pool {
			q.lpts = append(q.lpts, p.LptDenom)
		}
		q.lpts = append(q.lpts, coinswaptypes.GetLptDenom(d1.cs.Sequence), "lpt-0", "lpt-999")
		for _, p := range d1.erc.TokenPairs {
			q.toks = append(q.toks, p.Denom, p.Erc20Address, strings.ToLower(p.Erc20Address))
			q.pids = append(q.pids, p.GetID())
		}
		for _, c := range r.contracts {
			q.toks = append(q.toks, c.Hex())
		}
		q.toks = append(q.toks, c18Denoms[0], c18Denom)
		q.pids = append(q.pids, []byte{1, 2, 3})
		for _, x := range d1.csr.Csrs {
			q.nfts = append(q.nfts, x.Id)
			q.contracts = append(q.contracts, x.Contracts...)
		}
		// ... and every object the ORIGINAL chain's stores hold, whether or not the export lists it
		{
			seenN, seenL, seenP := map[uint64]bool{}, map[string]bool{}, map[string]bool{}
			for _, x := range q.nfts {
				seenN[x] = true
			}
			for _, x := range q.lpts {
				seenL[x] = true
			}
			for _, x := range d1.erc.TokenPairs {
				seenP[x.Denom] = true
			}
			for _, x := range c18RawCSRs(a, ctx) {
				if !seenN[x.Id] {
					q.nfts = append(q.nfts, x.Id)
					q.contracts = append(q.contracts, x.Contracts...)
				}
			}
			for _, x := range c18RawPools(a, ctx) {
				if !seenL[x.LptDenom] {
					q.lpts = append(q.lpts, x.LptDenom)
				}
			}
			for _, x := range c18RawPairs(a, ctx) {
				if !seenP[x.Denom] {
					q.toks = append(q.toks, x.Denom, x.Erc20Address)
					q.pids = append(q.pids, x.GetID())
				}
			}
		}
		q.nfts = append(q.nfts, 0, 1, 424242)
		for _, c := range r.csrc {
			q.contracts = append(q.contracts, c.Hex())
		}
		q.contracts = append(q.contracts, ch.user.Hex())
		q.idents = []string{epochstypes.DayEpochID, epochstypes.WeekEpochID, "hour", d1.inf.EpochIdentifier}
		// ----- projection -----
		p := c18NewProj()
		idents := append([]string{"", " ", "\t ", "fortnight"}, q.idents...)
		for _, x := range d1.ep.Epochs {
			idents = append(idents, x.Identifier)
		}
		for _, x := range d2.ep.Epochs {
			idents = append(idents, x.Identifier)
		}
		idents = append(idents, d2.inf.EpochIdentifier)
		p.setIdents(idents)
		for _, x := range d1.erc.TokenPairs {
			p.learnPair(x)
		}
		for _, x := range d2.erc.TokenPairs {
			p.learnPair(x)
		}
		for _, x := range c18RawPairs(a, ctx) {
			p.learnPair(x)
		}
		e1 := p.genesis(d1)
		e2 := p.genesis(d2)
		q1, _ := p.answers(a, ctx, q)
		q2, prov2 := q1, big.NewInt(0)
		if imported {
			q2, prov2 = p.answers(b, bctx, q)
		}
		var bads []string
		for _, bd := range k.Bad {
			bads = append(bads, p.badDoc(d1, bd, e.Stats))
		}
		ictx := App("mkICtx", Z(TimeNs(ch.now)), "0", Z(bonded.BigInt()))
		body := App("mkCase", ictx, e1, c18Bools(valid), B(imported), e2, c18Bools(raw), p.probes(q), q1, q2, Z(prov2), L(bads), Zi(int64(len(k.Ops)-1)))
		term := "(" + strings.Join(p.defs, "") + body + ")"
		e.AddCase("check_case", term, k)
		// ----- statistics -----
		sum := sha256.Sum256(bytes.Join([][]byte{gs1[coinswaptypes.ModuleName], gs1[erc20types.ModuleName], gs1[csrtypes.ModuleName], gs1[inflationtypes.ModuleName],
			gs1[epochstypes.ModuleName], gs1[govshuttletypes.ModuleName], gs1[onboardingtypes.ModuleName]}, nil))
		if len(k.Ops) > 0 {
			e.Stats.Nontrivial(hex.EncodeToString(sum[:]))
		}
		e.Stats.Count(fmt.Sprintf("exported-pools:%d", c18Bucket(len(d1.cs.Pool))))
		e.Stats.Count(fmt.Sprintf("exported-pairs:%d", c18Bucket(len(d1.erc.TokenPairs))))
		e.Stats.Count(fmt.Sprintf("exported-csrs:%d", c18Bucket(len(d1.csr.Csrs))))
		rev := 0
		for _, x := range d1.csr.Csrs {
			if x.Revenue.IsPositive() {
				rev++
			}
		}
		e.Stats.Count(fmt.Sprintf("csrs-with-revenue:%d", c18Bucket(rev)))
		dis := 0
		for _, x := range d1.erc.TokenPairs {
			if !x.Enabled {
				dis++
			}
		}
		e.Stats.Count(fmt.Sprintf("disabled-pairs:%d", c18Bucket(dis)))
		e.Stats.Count(fmt.Sprintf("turnstile-set:%v", d1.csr.TurnstileAddress != ""))
		e.Stats.Count(fmt.Sprintf("port-set:%v", d1.gs.PortContractAddr != ""))
		e.Stats.Count(fmt.Sprintf("inflation-period:%d", c18Bucket(int(d1.inf.Period))))
		e.Stats.Count(fmt.Sprintf("skipped-epochs:%d", c18Bucket(int(d1.inf.SkippedEpochs))))
		for _, x := range d1.ep.Epochs {
			e.Stats.Count(fmt.Sprintf("epoch-%s-number:%d", x.Identifier, c18Bucket(int(x.CurrentEpoch))))
		}
		e.Stats.Count(fmt.Sprintf("imported:%v", imported))
		r.coverStats(d1)
		r.guardReport(c, k, valid[3], imported, failure)
		r.bulkMonitors(c, len(k.Ops)-1, d1, b, bctx)
		e.Stats.Sample(k)
	}
}

func c18Bucket(n int) int {
	switch {
	case n <= 3:
		return n
	case n <= 7:
		return 4
	case n <= 15:
		return 8
	case n <= 63:
		return 16
	default:
		return 64
	}
}

var _ = sort.Strings
