//go:build verif

package harness

// The signed stream of C19: transactions that are correctly signed by a funded
// account, so that every check the model leaves to its oracle passes and the
// response is decided by the modelled part alone: code 0 (admitted) on each of the
// three routes, and the rejections that are only visible behind the signature checks
// (the EIP-712 chain's "exactly one extension option").

import (
	"strings"
	"context"
	"math/big"

	sdkmath "cosmossdk.io/math"
	abci "github.com/cometbft/cometbft/abci/types"
	clienttx "github.com/cosmos/cosmos-sdk/client/tx"
	"github.com/cosmos/cosmos-sdk/codec"
	codectypes "github.com/cosmos/cosmos-sdk/codec/types"
	sdk "github.com/cosmos/cosmos-sdk/types"
	"github.com/cosmos/cosmos-sdk/types/tx/signing"
	"github.com/cosmos/cosmos-sdk/x/auth/migrations/legacytx"
	authsigning "github.com/cosmos/cosmos-sdk/x/auth/signing"
	authtx "github.com/cosmos/cosmos-sdk/x/auth/tx"
	"github.com/ethereum/go-ethereum/common"
	ethtypes "github.com/ethereum/go-ethereum/core/types"
	ethcrypto "github.com/ethereum/go-ethereum/crypto"
	"github.com/ethereum/go-ethereum/signer/core/apitypes"
	cryptocodec "github.com/evmos/ethermint/crypto/codec"
	"github.com/evmos/ethermint/ethereum/eip712"
	ethermint "github.com/evmos/ethermint/types"
	evmtypes "github.com/evmos/ethermint/x/evm/types"
)

// c19Fund gives the signing account money in the fee denomination and in the evm denomination
// (on the block-1 state, before it is committed).
func (f *c19Fix) c19Fund(ctx sdk.Context) {
	amt, _ := new(big.Int).SetString("1000000000000000000000000000", 10)
	coins := sdk.NewCoins(sdk.NewCoin("acanto", sdkmath.NewIntFromBigInt(amt)))
	if d := f.a.EvmKeeper.GetParams(ctx).EvmDenom; d != "acanto" {
		coins = coins.Add(sdk.NewCoin(d, sdkmath.NewIntFromBigInt(amt)))
	}
	if err := f.a.BankKeeper.MintCoins(ctx, evmtypes.ModuleName, coins); err != nil {
		panic(err)
	}
	if err := f.a.BankKeeper.SendCoinsFromModuleToAccount(ctx, evmtypes.ModuleName, f.saddr, coins); err != nil {
		panic(err)
	}
}

// account number and sequence of the signing account in the check state
func (f *c19Fix) c19Seq() (uint64, uint64) {
	cctx := f.a.BaseApp.NewContext(true)
	acc := f.a.AccountKeeper.GetAccount(cctx, f.saddr)
	if acc == nil {
		panic("c19: signing account missing from the check state")
	}
	return acc.GetAccountNumber(), acc.GetSequence()
}

// c19SignedEth: a MsgEthereumTx of the funded account with the given nonce.
func (f *c19Fix) c19SignedEth(nonce uint64) *evmtypes.MsgEthereumTx {
	cid, _ := ethermint.ParseChainID(ChainID)
	to := common.HexToAddress("0x4444444444444444444444444444444444444444")
	m := evmtypes.NewTx(cid, nonce, &to, big.NewInt(1), 21000, big.NewInt(1_000_000_000), nil, nil, nil, nil)
	m.From = common.BytesToAddress(f.saddr.Bytes()).Hex()
	if err := m.Sign(ethtypes.LatestSignerForChainID(cid), c19Signer{f.spriv}); err != nil {
		panic(err)
	}
	m.From = ""
	return m
}

// runSigned builds the transaction of t with the funded account as the only signer, signs it the
// way its first extension option asks for (Ethereum: signed messages, no Cosmos signature;
// web3: legacy EIP-712 typed data; otherwise SIGN_MODE_DIRECT) and sends it through CheckTx.
func (f *c19Fix) runSigned(t c19Tx) (urls []string, code uint32, ok bool) {
	accNum, seq := f.c19Seq()
	saveAddr, saveEth := f.addr, f.eth
	f.addr = f.saddr
	defer func() { f.addr, f.eth = saveAddr, saveEth }()
	// every Ethereum message of the forest carries the next nonce
	nonce := seq
	var msgs []sdk.Msg
	for _, n := range t.Msgs {
		if n.K == "eth" {
			f.eth = f.c19SignedEth(nonce)
			nonce++
		}
		msgs = append(msgs, f.msg(n)) // an Ethereum message below the top level reuses the current one (rejected anyway)
	}
	b := f.a.TxConfig().NewTxBuilder()
	if err := b.SetMsgs(msgs...); err != nil {
		return nil, 0, false
	}
	first := ""
	if len(t.Opts) > 0 {
		first = t.Opts[0]
	}
	fees := sdk.NewCoins(sdk.NewInt64Coin("acanto", 1_000_000))
	gas := uint64(2_000_000)
	ethStyle := first == "eth" || t.EthStyle
	if ethStyle {
		fee, g := big.NewInt(0), uint64(0)
		for _, m := range msgs {
			if em, isEth := m.(*evmtypes.MsgEthereumTx); isEth {
				fee.Add(fee, em.GetFee())
				g += em.GetGas()
			}
		}
		fees = sdk.Coins{}
		if fee.Sign() > 0 {
			fees = sdk.NewCoins(sdk.NewCoin(f.evmDenom, sdkmath.NewIntFromBigInt(fee)))
		}
		gas = g
	}
	b.SetFeeAmount(fees)
	b.SetGasLimit(gas)
	pub := f.spriv.PubKey()
	chainID := ChainID // the chain id of app.Setup; NewContext(true) carries an empty header
	var web3 *codectypes.Any
	if first == "web3" && !ethStyle {
		if len(msgs) == 0 {
			return nil, 0, false
		}
		data := legacytx.StdSignBytes(chainID, accNum, seq, 0, legacytx.NewStdFee(gas, fees), msgs, "") //nolint:staticcheck
		reg := codectypes.NewInterfaceRegistry()
		ethermint.RegisterInterfaces(reg)
		cryptocodec.RegisterInterfaces(reg)
		td, err := eip712.LegacyWrapTxToTypedData(codec.NewProtoCodec(reg), 9001, msgs[0], data, &eip712.FeeDelegationOptions{FeePayer: f.saddr})
		if err != nil {
			return nil, 0, false
		}
		hash, _, err := apitypes.TypedDataAndHash(td)
		if err != nil {
			return nil, 0, false
		}
		sig, err := f.spriv.Sign(hash)
		if err != nil {
			return nil, 0, false
		}
		sig[ethcrypto.RecoveryIDOffset] += 27
		web3, err = codectypes.NewAnyWithValue(&ethermint.ExtensionOptionsWeb3Tx{FeePayer: f.saddr.String(), TypedDataChainID: 9001, FeePayerSig: sig})
		if err != nil {
			return nil, 0, false
		}
	}
	var opts []*codectypes.Any
	for _, k := range t.Opts {
		o := f.opt(k)
		if k == "web3" && web3 != nil {
			o = web3
		}
		opts = append(opts, o)
		urls = append(urls, o.TypeUrl)
	}
	if len(opts) > 0 {
		b.(authtx.ExtensionOptionsTxBuilder).SetExtensionOptions(opts...)
	}
	sigKind := first
	if ethStyle {
		sigKind = "eth"
	}
	switch sigKind {
	case "eth": // no Cosmos signature on the Ethereum route
	case "web3":
		if err := b.SetSignatures(signing.SignatureV2{PubKey: pub, Data: &signing.SingleSignatureData{SignMode: signing.SignMode_SIGN_MODE_LEGACY_AMINO_JSON}, Sequence: seq}); err != nil {
			return nil, 0, false
		}
	default:
		if err := b.SetSignatures(signing.SignatureV2{PubKey: pub, Data: &signing.SingleSignatureData{SignMode: signing.SignMode_SIGN_MODE_DIRECT}, Sequence: seq}); err != nil {
			return nil, 0, false
		}
		sd := authsigning.SignerData{Address: f.saddr.String(), ChainID: chainID, AccountNumber: accNum, Sequence: seq, PubKey: pub}
		sig, err := clienttx.SignWithPrivKey(context.Background(), signing.SignMode_SIGN_MODE_DIRECT, sd, b, f.spriv, f.a.TxConfig(), seq)
		if err != nil {
			return nil, 0, false
		}
		if err := b.SetSignatures(sig); err != nil {
			return nil, 0, false
		}
	}
	bz, err := f.a.TxConfig().TxEncoder()(b.GetTx())
	if err != nil {
		return nil, 0, false
	}
	f.lastBz = bz
	res, err := f.a.CheckTx(&abci.RequestCheckTx{Tx: bz, Type: abci.CheckTxType_New})
	if err != nil {
		return nil, 0, false
	}
	return urls, res.Code, true
}

// c19SignedTxs: the signed stream.  The EIP-712 route is driven with single bank/staking messages
// (the legacy typed-data encoding cannot express the Any fields of authz messages).
func (f *c19Fix) c19SignedTxs(e *Env) []c19Tx {
	send, eth := c19Leaf("send"), c19Leaf("eth")
	var out []c19Tx
	add := func(label string, opts []string, msgs ...c19Node) {
		out = append(out, c19Tx{Opts: opts, Msgs: msgs, Label: "sig " + label})
	}
	for rep := 0; rep < 2; rep++ { // twice: the second round runs on advanced sequence numbers
		add("plain send", []string{}, send)
		add("plain send,exec[send],grant", []string{}, send, c19Exec(send, c19Exec(c19Leaf("delegate"))), c19Leaf("grantsend"))
		add("plain nest5", []string{}, c19Nest(5, send))
		add("plain nest6", []string{}, c19Nest(6, send))
		add("plain siblings4", []string{}, c19Exec(c19Rep(4, c19Exec(send))...))
		add("plain siblings5", []string{}, c19Exec(c19Rep(5, c19Exec(send))...))
		add("plain by-value-forgets", []string{}, c19Nest(4, send), c19Nest(4, send))
		add("plain exec[eth]", []string{}, c19Exec(eth))
		add("plain send,eth", []string{}, send, eth)
		add("plain grant(disabled)", []string{}, c19Grant(f.disURLs[0]))
		add("dyn send", []string{"dyn"}, send)
		add("dyn,web3 send", []string{"dyn", "web3"}, send)
		add("web3 send", []string{"web3"}, send)
		add("web3 delegate", []string{"web3"}, c19Leaf("delegate"))
		add("web3 send,send", []string{"web3"}, send, send)
		add("web3,dyn send", []string{"web3", "dyn"}, send)
		add("web3,web3 send", []string{"web3", "web3"}, send)
		add("web3,eth send", []string{"web3", "eth"}, send)
		add("eth eth", []string{"eth"}, eth)
		add("eth eth,eth", []string{"eth"}, eth, eth)
		add("eth,dyn eth", []string{"eth", "dyn"}, eth)
		add("eth,eth eth", []string{"eth", "eth"}, eth)
		add("eth eth,send", []string{"eth"}, eth, send)
		add("eth send", []string{"eth"}, send)
		add("eth exec[eth]", []string{"eth"}, c19Exec(eth))
		// a correctly signed, funded Ethereum message dressed the Ethereum way under every other option list
		for _, o := range [][]string{{}, {"dyn"}, {"web3"}, {"dyn", "eth"}, {"web3", "eth"}, {"dyn", "web3"}, {"msgasopt"}} {
			out = append(out, c19Tx{Opts: o, Msgs: []c19Node{eth}, Label: "sig ethstyle " + strings.Join(o, "+") + " eth", EthStyle: true})
			out = append(out, c19Tx{Opts: o, Msgs: []c19Node{eth, eth}, Label: "sig ethstyle " + strings.Join(o, "+") + " eth,eth", EthStyle: true})
		}
	}
	// random harmless forests and boundary shapes, signed, on the plain route
	sendURL := sdk.MsgTypeURL(f.msg(send))
	n := e.Scale(25, 400)
	for i := 0; i < n; i++ {
		var forest []c19Node
		for j, nTop := 0, 1+e.Pick(3); j < nTop; j++ {
			forest = append(forest, c19RandTree(e, e.Pick(7), sendURL))
		}
		add("random harmless forest", []string{}, forest...)
	}
	for _, s := range c19Boundary() {
		if e.Chance(0.35) {
			add(s.name, []string{}, s.msgs...)
		}
	}
	return out
}
