//go:build verif

package harness

import (
	"fmt"
	"math/big"

	sdkmath "cosmossdk.io/math"
)

// Suite LIB: the model's SdkInt / SdkDec operations against the real cosmossdk.io/math.

func init() { runners["LIB"] = runLIB }

type libOp struct {
	Op string `json:"op"`
	A  string `json:"a"`
	B  string `json:"b,omitempty"`
}
type libCase struct {
	Ops []libOp `json:"ops"`
}

var libIntOps = []string{"IAdd", "ISub", "IMul", "IQuo", "IOfBig", "IWithDec"}
var libDecOps = []string{"DAdd", "DSub", "DMul", "DQuo", "DMulInt", "DQuoInt", "DTrunc", "DOfInt", "DMin", "DPow"}

func libPow2(k uint) *big.Int { return new(big.Int).Lsh(big.NewInt(1), k) }

// operand of at most `bits` bits: mixture of tiny, random, near powers of two, near the bound
func libOperand(e *Env, bits int) *big.Int {
	var x *big.Int
	switch e.Pick(8) {
	case 0:
		x = big.NewInt(int64(e.Pick(6)))
	case 1:
		x = e.Mag(bits)
	case 2: // 2^k + d
		k := uint(e.Pick(bits))
		x = new(big.Int).Add(libPow2(k), big.NewInt(int64(e.Pick(5)-2)))
	case 3: // bound - d
		x = new(big.Int).Sub(libPow2(uint(bits)), big.NewInt(int64(1+e.Pick(3))))
	case 4: // around 10^18 multiples (rounding boundaries of Dec)
		h := new(big.Int).Exp(big.NewInt(10), big.NewInt(18), nil)
		x = new(big.Int).Mul(h, big.NewInt(int64(e.Pick(1000))))
		x.Add(x, new(big.Int).Div(h, big.NewInt(2)))
		x.Add(x, big.NewInt(int64(e.Pick(3)-1)))
	default:
		x = e.Mag(1 + e.Pick(bits))
	}
	if x.BitLen() > bits {
		x = new(big.Int).Sub(libPow2(uint(bits)), big.NewInt(1))
	}
	if e.Chance(0.25) {
		x = new(big.Int).Neg(x)
	}
	return x
}

func libBig(s string) *big.Int {
	x, ok := new(big.Int).SetString(s, 10)
	if !ok {
		panic("bad integer " + s)
	}
	return x
}

func libDec(raw *big.Int) sdkmath.LegacyDec {
	return sdkmath.LegacyNewDecFromBigIntWithPrec(new(big.Int).Set(raw), sdkmath.LegacyPrecision)
}

// libRun executes one operation on the real library; nil = panic
func libRun(o libOp) (res *big.Int) {
	defer func() {
		if r := recover(); r != nil {
			res = nil
		}
	}()
	a := libBig(o.A)
	var b *big.Int
	if o.B != "" {
		b = libBig(o.B)
	}
	switch o.Op {
	case "IAdd":
		return sdkmath.NewIntFromBigInt(a).Add(sdkmath.NewIntFromBigInt(b)).BigInt()
	case "ISub":
		return sdkmath.NewIntFromBigInt(a).Sub(sdkmath.NewIntFromBigInt(b)).BigInt()
	case "IMul":
		return sdkmath.NewIntFromBigInt(a).Mul(sdkmath.NewIntFromBigInt(b)).BigInt()
	case "IQuo":
		return sdkmath.NewIntFromBigInt(a).Quo(sdkmath.NewIntFromBigInt(b)).BigInt()
	case "IOfBig":
		return sdkmath.NewIntFromBigInt(a).BigInt()
	case "IWithDec":
		return sdkmath.NewIntWithDecimal(a.Int64(), int(b.Int64())).BigInt()
	case "DAdd":
		return libDec(a).Add(libDec(b)).BigInt()
	case "DSub":
		return libDec(a).Sub(libDec(b)).BigInt()
	case "DMul":
		return libDec(a).Mul(libDec(b)).BigInt()
	case "DQuo":
		return libDec(a).Quo(libDec(b)).BigInt()
	case "DMulInt":
		return libDec(a).MulInt(sdkmath.NewIntFromBigInt(b)).BigInt()
	case "DQuoInt":
		return libDec(a).QuoInt(sdkmath.NewIntFromBigInt(b)).BigInt()
	case "DTrunc":
		return libDec(a).TruncateInt().BigInt()
	case "DOfInt":
		return sdkmath.LegacyNewDecFromInt(sdkmath.NewIntFromBigInt(a)).BigInt()
	case "DMin":
		return sdkmath.LegacyMinDec(libDec(a), libDec(b)).BigInt()
	case "DPow":
		return libDec(a).Power(b.Uint64()).BigInt()
	}
	panic("unknown op " + o.Op)
}

func libGenOp(e *Env) libOp {
	h18 := new(big.Int).Exp(big.NewInt(10), big.NewInt(18), nil)
	if e.Chance(0.4) {
		op := libIntOps[e.Pick(len(libIntOps))]
		switch op {
		case "IOfBig":
			return libOp{Op: op, A: libOperand(e, 256+e.Pick(3)).String()} // may exceed the bound
		case "IWithDec":
			return libOp{Op: op, A: big.NewInt(int64(e.Pick(1000) - 100)).String(), B: big.NewInt(int64(e.Pick(80))).String()}
		}
		return libOp{Op: op, A: libOperand(e, 256).String(), B: libOperand(e, 256).String()}
	}
	op := libDecOps[e.Pick(len(libDecOps))]
	switch op {
	case "DTrunc":
		return libOp{Op: op, A: libOperand(e, 315).String()}
	case "DOfInt":
		return libOp{Op: op, A: libOperand(e, 256).String()}
	case "DMulInt", "DQuoInt":
		return libOp{Op: op, A: libOperand(e, 315).String(), B: libOperand(e, 256).String()}
	case "DPow":
		// bases in (0, ~2): decay factors; a few larger / negative ones to reach overflow
		var base *big.Int
		switch e.Pick(4) {
		case 0:
			base = e.Below(h18)
		case 1:
			base = new(big.Int).Add(h18, e.Below(h18))
		case 2:
			base = new(big.Int).Sub(h18, big.NewInt(int64(e.Pick(1000))))
		default:
			base = libOperand(e, 80)
		}
		var n int64
		switch e.Pick(3) {
		case 0:
			n = int64(e.Pick(8))
		case 1:
			n = int64(e.Pick(400))
		default:
			n = int64(e.Pick(6000))
		}
		return libOp{Op: op, A: base.String(), B: big.NewInt(n).String()}
	}
	return libOp{Op: op, A: libOperand(e, 315).String(), B: libOperand(e, 315).String()}
}

func libTerm(o libOp, res *big.Int) string {
	var t string
	switch o.Op {
	case "IOfBig", "DTrunc", "DOfInt":
		t = App(o.Op, Z(libBig(o.A)))
	case "DPow":
		t = App(o.Op, Z(libBig(o.A)), fmt.Sprintf("%s%%N", o.B))
	default:
		t = App(o.Op, Z(libBig(o.A)), Z(libBig(o.B)))
	}
	return Tup(t, OptZ(res))
}

func runLIB(e *Env) {
	e.Header("From Coq Require Import ZArith NArith List.\nFrom Canto Require Import Lib.SdkInt Lib.SdkDec Check.Common Check.LibCheck.\nImport ListNotations.\nOpen Scope Z_scope.\n")
	e.Stats.Rule = "case = 40 operations of sdkmath.Int / sdkmath.LegacyDec (Add Sub Mul Quo NewIntFromBigInt NewIntWithDecimal; Dec Add Sub Mul Quo MulInt QuoInt TruncateInt NewDecFromInt MinDec Power) on operands drawn from {tiny, random up to 256/315 bits, 2^k+-d, bound-d, half-unit rounding boundaries}, executed on the real cosmossdk.io/math with recover (panic = None); non-trivial = an operation whose result is not an operand; distinct by operation and operands"
	nCases := e.Scale(25, 600)
	if e.Replay != nil {
		nCases = 1
	}
	e.ShardSize = 5
	for c := 0; c < nCases; c++ {
		var kase libCase
		if e.Replay != nil {
			mustUnmarshal(e.Replay, &kase)
		} else {
			for i := 0; i < 40; i++ {
				kase.Ops = append(kase.Ops, libGenOp(e))
			}
		}
		var terms []string
		for _, o := range kase.Ops {
			res := libRun(o)
			e.Stats.Evaluations++
			e.Stats.Count("op:" + o.Op)
			if res == nil {
				e.Stats.Count("result:panic")
			} else {
				e.Stats.Count("result:value")
				if res.String() != o.A && res.String() != o.B {
					e.Stats.Nontrivial(o.Op + "|" + o.A + "|" + o.B)
				}
			}
			terms = append(terms, libTerm(o, res))
		}
		e.Stats.Sample(kase)
		e.AddCase("check_case", L(terms), kase)
	}
}
