//go:build verif

package harness

// C10 (CSR fee split) and the pieces shared with C16 (CSR registry): fixture,
// case format, executor and observer for the csr post-tx hook.

import (
	"fmt"
	"math/big"
	"sort"
	"strings"

	sdkmath "cosmossdk.io/math"
	"cosmossdk.io/store/prefix"
	storetypes "cosmossdk.io/store/types"
	sdk "github.com/cosmos/cosmos-sdk/types"
	"github.com/cosmos/cosmos-sdk/types/query"
	"github.com/ethereum/go-ethereum/accounts/abi"
	"github.com/ethereum/go-ethereum/common"
	ethtypes "github.com/ethereum/go-ethereum/core/types"
	"github.com/ethereum/go-ethereum/crypto"
	"github.com/evmos/ethermint/x/evm/statedb"
	evmtypes "github.com/evmos/ethermint/x/evm/types"

	"github.com/Canto-Network/Canto/v8/app"
	"github.com/Canto-Network/Canto/v8/contracts"
	"github.com/Canto-Network/Canto/v8/x/csr"
	csrtypes "github.com/Canto-Network/Canto/v8/x/csr/types"
)

func init() { runners["C10"] = runC10 }

// ---------- case format (replay JSON) ----------

type c10Log struct {
	Emitter  string `json:"emitter"`            // "T" = the stored Turnstile address, otherwise a hex address
	Kind     string `json:"kind"`               // register | assign | malformed | other | unknown | notopics
	Contract string `json:"contract,omitempty"` // hex
	Recv     string `json:"recv,omitempty"`     // hex
	ID       string `json:"id,omitempty"`       // decimal uint256
	Dirty    bool   `json:"dirty,omitempty"`    // non-zero padding in the address words and trailing bytes (still unpacks)
	Base     string `json:"base,omitempty"`     // malformed: which event's topic (register | assign)
	Cut      int    `json:"cut,omitempty"`      // malformed: number of data bytes kept
	Other    string `json:"other,omitempty"`    // other: name of the Turnstile event
	Topic    string `json:"topic,omitempty"`    // unknown: topic0, hex
}

type c10Params struct {
	Enable bool   `json:"enable"`
	Share  string `json:"share"` // raw LegacyDec integer (value * 10^18)
}

type c10Op struct {
	// environment changes made before the hook call
	SetParams *c10Params `json:"set_params,omitempty"`
	CodeOn    []string   `json:"code_on,omitempty"`
	CodeOff   []string   `json:"code_off,omitempty"`
	Fund      string     `json:"fund,omitempty"` // minted into the fee collector
	// the hook call
	Logs     []c10Log `json:"logs"`
	GasUsed  string   `json:"gas_used"`
	GasPrice string   `json:"gas_price"`
	To       string   `json:"to"` // "" = contract creation
	// synthetic creation receipts: receipt.ContractAddress, which ethermint fills in for every creation (the address
	// derived from sender and nonce, whatever ended up there); "" = left zero
	Created string `json:"created,omitempty"`
	// instead of a synthetic receipt: a real signed transaction through EvmKeeper.EthereumTx
	Real *c10Real `json:"real,omitempty"`
}

type c10Csr struct {
	ID        string   `json:"id"`
	Contracts []string `json:"contracts"`
	Txs       string   `json:"txs"`
	Revenue   string   `json:"revenue"`
}

type c10Case struct {
	Suite         string    `json:"suite"`
	NoTurnstile   bool      `json:"no_turnstile,omitempty"`
	Genesis       []c10Csr  `json:"genesis"`
	Params        c10Params `json:"params"`
	Collector     string    `json:"collector"`                // initial funding of the fee collector
	ModulePrefund string    `json:"module_prefund,omitempty"` // coins sitting in the csr module account before the history ("afterwards the module account's balance is unchanged" must hold for a non-empty account too)
	ProbeIDs      []string  `json:"probe_ids"`                // NFT ids whose Turnstile balance is read after every step
	RealContracts int       `json:"real_contracts,omitempty"` // CSRSmartContracts deployed for real transactions
	Ops           []c10Op   `json:"ops"`
}

// ---------- fixture ----------

type c10Fix struct {
	a         *app.Canto
	ctx       sdk.Context
	ts        common.Address
	denom     string
	collector sdk.AccAddress
	module    sdk.AccAddress
	pool      []common.Address // addresses the generators draw contracts from
	abi       abi.ABI
}

var c10Code = []byte{0x60, 0x00, 0x60, 0x00, 0xf3} // PUSH1 0 PUSH1 0 RETURN

func c10Setup() *c10Fix {
	a, ctx := NewApp()
	f := &c10Fix{a: a, ctx: ctx, abi: contracts.TurnstileContract.ABI}
	a.CSRKeeper.SetParams(ctx, csrtypes.NewParams(true, csrtypes.DefaultCSRShares))
	// the module's BeginBlock deploys the Turnstile when csr is enabled
	if err := csr.NewAppModule(a.AppCodec(), a.CSRKeeper, a.AccountKeeper).BeginBlock(ctx); err != nil {
		panic(err)
	}
	ts, found := a.CSRKeeper.GetTurnstile(ctx)
	if !found {
		panic("turnstile not deployed")
	}
	f.ts = ts
	f.denom = a.EvmKeeper.GetParams(ctx).EvmDenom
	f.collector = a.AccountKeeper.GetModuleAddress(a.CSRKeeper.FeeCollectorName)
	f.module = a.AccountKeeper.GetModuleAddress(csrtypes.ModuleName)
	for i := 1; i <= 12; i++ {
		f.pool = append(f.pool, common.BytesToAddress(crypto.Keccak256([]byte(fmt.Sprintf("verif-csr-pool-%d", i)))[12:]))
	}
	a.EvmKeeper.SetCode(ctx, crypto.Keccak256(c10Code), c10Code)
	return f
}

// c10Tab interns the big numbers of a case: the case term binds each of them once
// (hexadecimal literal) and refers to it by name, which keeps Coq's parsing time low.
type c10Tab struct {
	names map[string]string
	defs  []string
}

func (t *c10Tab) Z(x *big.Int) string {
	if x.BitLen() <= 30 {
		return Z(x)
	}
	k := x.String()
	if n, ok := t.names[k]; ok {
		return n
	}
	if t.names == nil {
		t.names = map[string]string{}
	}
	n := fmt.Sprintf("v%d", len(t.defs))
	t.names[k] = n
	lit := "0x" + new(big.Int).Abs(x).Text(16)
	if x.Sign() < 0 {
		lit = "(-" + lit + ")"
	}
	t.defs = append(t.defs, "let "+n+" := "+lit+" in ")
	return n
}
func (t *c10Tab) Addr(a common.Address) string { return t.Z(new(big.Int).SetBytes(a.Bytes())) }
func (t *c10Tab) Wrap(term string) string {
	return "(" + strings.Join(t.defs, "") + term + ")"
}

func c10SetCode(f *c10Fix, ctx sdk.Context, addr common.Address, on bool) {
	acct := f.a.EvmKeeper.GetAccount(ctx, addr)
	if acct == nil {
		acct = &statedb.Account{Balance: new(big.Int), CodeHash: evmtypes.EmptyCodeHash}
	}
	if on {
		acct.CodeHash = crypto.Keccak256(c10Code)
	} else {
		acct.CodeHash = evmtypes.EmptyCodeHash
	}
	if err := f.a.EvmKeeper.SetAccount(ctx, addr, *acct); err != nil {
		panic(err)
	}
}

func c10HasCode(f *c10Fix, ctx sdk.Context, addr common.Address) bool {
	acct := f.a.EvmKeeper.GetAccount(ctx, addr)
	return acct != nil && acct.IsContract()
}

func c10Fund(f *c10Fix, ctx sdk.Context, amt *big.Int) {
	if amt.Sign() <= 0 {
		return
	}
	coins := sdk.NewCoins(sdk.NewCoin(f.denom, sdkmath.NewIntFromBigInt(amt)))
	if err := f.a.BankKeeper.MintCoins(ctx, csrtypes.ModuleName, coins); err != nil {
		panic(err)
	}
	if err := f.a.BankKeeper.SendCoinsFromModuleToModule(ctx, csrtypes.ModuleName, f.a.CSRKeeper.FeeCollectorName, coins); err != nil {
		panic(err)
	}
}

// ---------- observer ----------

type c10Obs struct {
	csrs      []csrtypes.CSR
	byc       [][2]string // (hex address as stored, id)
	collector *big.Int
	module    *big.Int
	supply    *big.Int
	tsacct    *big.Int
	tsbal     [][2]*big.Int
}

func c10TurnstileBalance(f *c10Fix, ctx sdk.Context, ts common.Address, id *big.Int) *big.Int {
	cctx, _ := ctx.CacheContext()
	data, err := f.abi.Pack("balances", id)
	if err != nil {
		panic(err)
	}
	res, err := f.a.CSRKeeper.CallEVM(cctx, csrtypes.ModuleAddress, &ts, big.NewInt(0), data, false)
	if err != nil {
		panic(fmt.Sprintf("balances(%s): %v", id, err))
	}
	out, err := f.abi.Unpack("balances", res.Ret)
	if err != nil {
		panic(err)
	}
	return out[0].(*big.Int)
}

func c10Observe(f *c10Fix, ctx sdk.Context, probe []*big.Int) c10Obs {
	var o c10Obs
	o.csrs = f.a.CSRKeeper.GetAllCSRs(ctx)
	sort.Slice(o.csrs, func(i, j int) bool { return o.csrs[i].Id < o.csrs[j].Id })
	store := prefix.NewStore(ctx.KVStore(f.a.GetKey(csrtypes.StoreKey)), csrtypes.KeyPrefixContract)
	it := storetypes.KVStorePrefixIterator(store, nil)
	for ; it.Valid(); it.Next() {
		v := it.Value()
		id := new(big.Int)
		if len(v) == 8 {
			le := make([]byte, 8)
			for i := range v {
				le[7-i] = v[i]
			}
			id.SetBytes(le)
		} else {
			id.SetInt64(-1)
		}
		o.byc = append(o.byc, [2]string{string(it.Key()), id.String()})
	}
	it.Close()
	bal := func(addr sdk.AccAddress) *big.Int {
		return f.a.BankKeeper.GetBalance(ctx, addr, f.denom).Amount.BigInt()
	}
	o.collector = bal(f.collector)
	o.module = bal(f.module)
	o.supply = f.a.BankKeeper.GetSupply(ctx, f.denom).Amount.BigInt()
	ts, found := f.a.CSRKeeper.GetTurnstile(ctx)
	if !found {
		ts = f.ts
	}
	o.tsacct = bal(sdk.AccAddress(ts.Bytes()))
	seen := map[string]bool{}
	ids := append([]*big.Int{}, probe...)
	for _, c := range o.csrs {
		ids = append(ids, new(big.Int).SetUint64(c.Id))
	}
	for _, id := range ids {
		if seen[id.String()] {
			continue
		}
		seen[id.String()] = true
		o.tsbal = append(o.tsbal, [2]*big.Int{id, c10TurnstileBalance(f, ctx, f.ts, id)})
	}
	return o
}

func c10CsrTerm(t *c10Tab, c csrtypes.CSR) string {
	var cs []string
	for _, s := range c.Contracts {
		cs = append(cs, t.Addr(common.HexToAddress(s)))
	}
	return Tup(t.Z(new(big.Int).SetUint64(c.Id)), App("mkCsr", L(cs), t.Z(new(big.Int).SetUint64(c.Txs)), t.Z(c.Revenue.BigInt())))
}

func (o c10Obs) term(t *c10Tab) string {
	var cs, bs, ts []string
	for _, c := range o.csrs {
		cs = append(cs, c10CsrTerm(t, c))
	}
	for _, p := range o.byc {
		bs = append(bs, Tup(t.Addr(common.HexToAddress(p[0])), t.Z(bigOf(p[1]))))
	}
	for _, p := range o.tsbal {
		ts = append(ts, Tup(t.Z(p[0]), t.Z(p[1])))
	}
	return App("mkObs", L(cs), L(bs), t.Z(o.collector), t.Z(o.module), t.Z(o.supply), t.Z(o.tsacct), L(ts))
}

// registered contracts (as the implementation's index has them)
func (o c10Obs) registered() []common.Address {
	var out []common.Address
	for _, p := range o.byc {
		out = append(out, common.HexToAddress(p[0]))
	}
	return out
}

// c10CrossCheck compares the public query answers with the raw stores (implementation-side monitor).
func c10CrossCheck(f *c10Fix, ctx sdk.Context, o c10Obs, universe []common.Address) string {
	for _, p := range o.byc {
		if common.HexToAddress(p[0]).Hex() != p[0] {
			return "contract index key is not the canonical address string: " + p[0]
		}
	}
	idx := map[string]string{}
	for _, p := range o.byc {
		idx[p[0]] = p[1]
	}
	all := append(append([]common.Address{}, universe...), o.registered()...)
	for _, a := range all {
		id, found := f.a.CSRKeeper.GetNFTByContract(ctx, a.Hex())
		want, ok := idx[a.Hex()]
		if found != ok || (found && fmt.Sprint(id) != want) {
			return fmt.Sprintf("GetNFTByContract(%s) = (%d,%v) but the index holds %q", a.Hex(), id, found, want)
		}
		if a == (common.Address{}) {
			continue
		}
		var got *csrtypes.QueryCSRByContractResponse
		var qerr error
		func() {
			defer func() {
				if r := recover(); r != nil {
					qerr = fmt.Errorf("panic: %v", r)
				}
			}()
			got, qerr = f.a.CSRKeeper.CSRByContract(ctx, &csrtypes.QueryCSRByContractRequest{Address: a.Hex()})
		}()
		if ok != (qerr == nil) {
			return fmt.Sprintf("CSRByContract(%s): err=%v but index entry present=%v", a.Hex(), qerr, ok)
		}
		if qerr == nil {
			if fmt.Sprint(got.Csr.Id) != want {
				return fmt.Sprintf("CSRByContract(%s) returns NFT %d, index says %s", a.Hex(), got.Csr.Id, want)
			}
			has := false
			for _, c := range got.Csr.Contracts {
				if c == a.Hex() {
					has = true
				}
			}
			if !has {
				return fmt.Sprintf("CSRByContract(%s) returns NFT %d whose list does not contain it", a.Hex(), got.Csr.Id)
			}
		}
	}
	res, err := f.a.CSRKeeper.CSRs(ctx, &csrtypes.QueryCSRsRequest{Pagination: &query.PageRequest{Limit: 10000}})
	if err != nil || len(res.Csrs) != len(o.csrs) {
		return fmt.Sprintf("CSRs query lists %d records (err=%v), store holds %d", len(res.Csrs), err, len(o.csrs))
	}
	for _, c := range o.csrs {
		r, err := f.a.CSRKeeper.CSRByNFT(ctx, &csrtypes.QueryCSRByNFTRequest{NftId: c.Id})
		if err != nil || r.Csr.String() != c.String() {
			return fmt.Sprintf("CSRByNFT(%d) differs from the stored record", c.Id)
		}
	}
	return ""
}

// ---------- logs ----------

func c10ParseAddr(f *c10Fix, s string) common.Address {
	if s == "T" {
		return f.ts
	}
	return common.HexToAddress(s)
}

// c10BuildLog returns the go-ethereum log and the model term of its payload.
func c10BuildLog(f *c10Fix, t *c10Tab, ts common.Address, l c10Log) (*ethtypes.Log, string) {
	em := ts
	if l.Emitter != "T" {
		em = common.HexToAddress(l.Emitter)
	}
	reg := f.abi.Events["Register"]
	asg := f.abi.Events["Assign"]
	out := &ethtypes.Log{Address: em}
	payload := ""
	dirty := func(data []byte, words int) []byte {
		for w := 0; w < words; w++ {
			for i := 0; i < 12; i++ {
				data[w*32+i] = byte(0xa0 + i + w)
			}
		}
		return append(data, crypto.Keccak256([]byte("trailing"))...)
	}
	switch l.Kind {
	case "register":
		c, r, id := common.HexToAddress(l.Contract), common.HexToAddress(l.Recv), bigOf(l.ID)
		data, err := reg.Inputs.Pack(c, r, id)
		if err != nil {
			panic(err)
		}
		if l.Dirty {
			data = dirty(data, 2)
		}
		out.Topics = []common.Hash{reg.ID}
		out.Data = data
		payload = App("PRegister", t.Addr(c), t.Addr(r), t.Z(id))
	case "assign":
		c, id := common.HexToAddress(l.Contract), bigOf(l.ID)
		data, err := asg.Inputs.Pack(c, id)
		if err != nil {
			panic(err)
		}
		if l.Dirty {
			data = dirty(data, 1)
		}
		out.Topics = []common.Hash{asg.ID}
		out.Data = data
		payload = App("PAssign", t.Addr(c), t.Z(id))
	case "malformed":
		c := common.HexToAddress(l.Contract)
		var data []byte
		if l.Base == "assign" {
			data, _ = asg.Inputs.Pack(c, big.NewInt(1))
			out.Topics = []common.Hash{asg.ID}
		} else {
			data, _ = reg.Inputs.Pack(c, c, big.NewInt(1))
			out.Topics = []common.Hash{reg.ID}
		}
		if l.Cut < 0 || l.Cut >= len(data) {
			panic("malformed log must be cut short")
		}
		out.Data = data[:l.Cut]
		payload = "PMalformed"
	case "other":
		ev, ok := f.abi.Events[l.Other]
		if !ok || l.Other == "Register" || l.Other == "Assign" {
			panic("bad other event " + l.Other)
		}
		out.Topics = []common.Hash{ev.ID, common.BytesToHash(f.pool[0].Bytes()), common.BytesToHash(f.pool[1].Bytes()), common.BigToHash(big.NewInt(1))}
		out.Data = common.LeftPadBytes([]byte{1}, 64)
		payload = "POther"
	case "unknown":
		out.Topics = []common.Hash{common.HexToHash(l.Topic)}
		if _, err := f.abi.EventByID(out.Topics[0]); err == nil {
			panic("topic is a Turnstile event")
		}
		out.Data = common.LeftPadBytes([]byte{1}, 96)
		payload = "PUnknown"
	case "notopics":
		out.Data = common.LeftPadBytes([]byte{1}, 96)
		payload = "PNoTopics"
	default:
		panic("unknown log kind " + l.Kind)
	}
	return out, App("mkLog", t.Addr(em), payload)
}

// ---------- executor ----------

type c10Live struct {
	f        *c10Fix
	ctx      sdk.Context
	kase     *c10Case
	probe    []*big.Int
	obs      c10Obs
	params   c10Params
	universe []common.Address
	real     []common.Address
	steps    []string
	tab      c10Tab
	initTerm string
	sig      strings.Builder
	nOK      int
	nFail    int
}

func c10ParamsOf(p c10Params) csrtypes.Params {
	return csrtypes.NewParams(p.Enable, sdkmath.LegacyNewDecFromBigIntWithPrec(bigOf(p.Share), 18))
}

// c10GhostParams: a parameter update that is executed on a branch of state and then DISCARDED (a governance proposal whose
// later message fails, a simulation): with probability 1/4 (always in a replay) the csr parameters are set to a different
// share on a throw-away branch before the operation.  On code whose parameters live in the store this has no effect; a
// parameter set memoised outside the store would now split the next fee with a share that was never committed.
func c10GhostParams(a *app.Canto, ctx sdk.Context, cur c10Params) {
	if ghostOff || !(ghostAlways || ghostRng.Intn(4) == 0) {
		return
	}
	defer func() { _ = recover() }()
	one := new(big.Int).Exp(big.NewInt(10), big.NewInt(18), nil)
	share := new(big.Int).Sub(one, bigOf(cur.Share))
	if share.Cmp(bigOf(cur.Share)) == 0 || share.Sign() < 0 {
		share = new(big.Int).Div(one, big.NewInt(4))
	}
	g, _ := ctx.CacheContext()
	a.CSRKeeper.SetParams(g, csrtypes.NewParams(true, sdkmath.LegacyNewDecFromBigIntWithPrec(share, 18)))
	GhostRuns++
}

// checkParams: what the keeper reports as the csr parameters must be the last update this history COMMITTED (the model is
// fed the parameters the keeper reports, so a value left behind by a discarded branch would otherwise go unnoticed)
func (lv *c10Live) checkParams(e *Env, c int) {
	got := lv.f.a.CSRKeeper.GetParams(lv.ctx)
	want := c10ParamsOf(lv.params)
	if got.EnableCsr != want.EnableCsr || !got.CsrShares.Equal(want.CsrShares) {
		e.Stats.ImplFailures = append(e.Stats.ImplFailures, ImplFailure{Case: c, Step: len(lv.steps), Monitor: "csr-params-differ-from-last-committed-update",
			Detail: fmt.Sprintf("keeper reports share %s enable %v, the last committed update was share %s enable %v", got.CsrShares, got.EnableCsr, want.CsrShares, want.EnableCsr)})
	}
}

// c10Start builds the initial state of a case in a branch of the fixture context.
func c10Start(e *Env, f *c10Fix, kase *c10Case) *c10Live {
	ctx, _ := f.ctx.CacheContext()
	lv := &c10Live{f: f, ctx: ctx, kase: kase, params: kase.Params}
	for _, s := range kase.ProbeIDs {
		lv.probe = append(lv.probe, new(big.Int).And(bigOf(s), new(big.Int).SetUint64(^uint64(0))))
	}
	lv.universe = append(append([]common.Address{}, f.pool...), common.Address{}, f.ts)
	gs := csrtypes.GenesisState{Params: c10ParamsOf(kase.Params), TurnstileAddress: ""}
	for _, g := range kase.Genesis {
		gs.Csrs = append(gs.Csrs, csrtypes.CSR{Id: bigOf(g.ID).Uint64(), Contracts: g.Contracts, Txs: bigOf(g.Txs).Uint64(), Revenue: sdkmath.NewIntFromBigInt(bigOf(g.Revenue))})
	}
	csr.InitGenesis(ctx, f.a.CSRKeeper, f.a.AccountKeeper, gs)
	if kase.NoTurnstile {
		prefix.NewStore(ctx.KVStore(f.a.GetKey(csrtypes.StoreKey)), csrtypes.KeyPrefixAddrs).Delete(csrtypes.TurnstileKey)
	}
	c10Fund(f, ctx, bigOf(kase.Collector))
	if kase.ModulePrefund != "" && bigOf(kase.ModulePrefund).Sign() > 0 {
		coins := sdk.NewCoins(sdk.NewCoin(f.denom, sdkmath.NewIntFromBigInt(bigOf(kase.ModulePrefund))))
		if err := f.a.BankKeeper.MintCoins(ctx, csrtypes.ModuleName, coins); err != nil {
			panic(err)
		}
	}
	lv.obs = c10Observe(f, ctx, lv.probe)
	lv.initTerm = lv.obs.term(&lv.tab)
	return lv
}

func (lv *c10Live) codeList() []common.Address {
	var out []common.Address
	seen := map[common.Address]bool{}
	for _, a := range lv.universe {
		if !seen[a] && c10HasCode(lv.f, lv.ctx, a) {
			out = append(out, a)
		}
		seen[a] = true
	}
	return out
}

// exec runs one operation on the real keeper and records the step term.
func (lv *c10Live) exec(e *Env, c int, op c10Op) bool {
	f := lv.f
	pre := "None"
	changed := false
	if op.SetParams != nil {
		f.a.CSRKeeper.SetParams(lv.ctx, c10ParamsOf(*op.SetParams))
		lv.params = *op.SetParams
		changed = true
	}
	c10GhostParams(f.a, lv.ctx, lv.params)
	lv.checkParams(e, c)
	for _, s := range op.CodeOn {
		c10SetCode(f, lv.ctx, common.HexToAddress(s), true)
		changed = true
	}
	for _, s := range op.CodeOff {
		c10SetCode(f, lv.ctx, common.HexToAddress(s), false)
		changed = true
	}
	if op.Fund != "" {
		c10Fund(f, lv.ctx, bigOf(op.Fund))
		changed = true
	}
	if changed {
		lv.obs = c10Observe(f, lv.ctx, lv.probe)
		pre = "(Some " + lv.obs.term(&lv.tab) + ")"
	}
	// the parameters actually in force are read back from the keeper
	p := f.a.CSRKeeper.GetParams(lv.ctx)
	share := p.CsrShares.BigInt()
	var logs []*ethtypes.Log
	var lterms []string
	for _, l := range op.Logs {
		for _, s := range []string{l.Contract, l.Recv} {
			if s != "" {
				lv.universe = append(lv.universe, common.HexToAddress(s))
			}
		}
		lg, t := c10BuildLog(f, &lv.tab, f.ts, l)
		if got := c10ClassifyLog(f, &lv.tab, lg); got != t {
			panic(fmt.Sprintf("log built as %s decodes as %s", t, got))
		}
		logs = append(logs, lg)
		lterms = append(lterms, t)
	}
	var to *common.Address
	toTerm := "None"
	if op.To != "" {
		a := common.HexToAddress(op.To)
		to = &a
		toTerm = "(Some " + lv.tab.Addr(a) + ")"
		lv.universe = append(lv.universe, a)
	}
	var codes []string
	for _, a := range lv.codeList() {
		codes = append(codes, lv.tab.Addr(a))
	}
	gasUsed := bigOf(op.GasUsed)
	gasPrice := bigOf(op.GasPrice)
	receipt := &ethtypes.Receipt{Logs: logs, GasUsed: gasUsed.Uint64()}
	if to == nil && op.Created != "" {
		receipt.ContractAddress = common.HexToAddress(op.Created)
		lv.universe = append(lv.universe, receipt.ContractAddress)
	}
	// a dynamic-fee (EIP-1559) transaction: the message's GasPrice is already the EFFECTIVE price min(tip + base fee, cap);
	// its fee cap is larger and its tip smaller.  The fee that leaves the collector is gas used x the effective price,
	// so cap and tip must not matter: derived from the operation (no extra generator state) for every third message
	feeCap, tipCap := big.NewInt(0), big.NewInt(0)
	if h := new(big.Int).Add(gasUsed, gasPrice); new(big.Int).Mod(h, big.NewInt(3)).Sign() == 0 {
		feeCap = new(big.Int).Add(new(big.Int).Mul(gasPrice, big.NewInt(3)), big.NewInt(1000))
		tipCap = new(big.Int).Div(gasPrice, big.NewInt(2))
		e.Stats.Count("message:dynamic-fee(cap>effective-price)")
	}
	msg := ethtypes.NewMessage(f.pool[7], to, 0, big.NewInt(0), 0, gasPrice, feeCap, tipCap, nil, ethtypes.AccessList{}, true)
	err := Try(lv.ctx, func(cc sdk.Context) error { return f.a.CSRKeeper.Hooks().PostTxProcessing(cc, msg, receipt) })
	e.Stats.Evaluations++
	if err == nil {
		lv.nOK++
	} else {
		lv.nFail++
	}
	lv.obs = c10Observe(f, lv.ctx, lv.probe)
	lv.steps = append(lv.steps, App("mkStep", pre, B(p.EnableCsr), lv.tab.Z(share), L(codes), L(lterms), lv.tab.Z(gasUsed), lv.tab.Z(gasPrice), toTerm, B(err == nil), lv.obs.term(&lv.tab)))
	return err == nil
}

func (lv *c10Live) finish(e *Env, c int, checker string) {
	f := lv.f
	if msg := c10CrossCheck(f, lv.ctx, lv.obs, lv.universe); msg != "" {
		e.Stats.ImplFailures = append(e.Stats.ImplFailures, ImplFailure{Case: c, Step: len(lv.steps) - 1, Monitor: "query-answers-disagree-with-index", Detail: msg})
	}
	var gterms []string
	for _, g := range lv.kase.Genesis {
		gterms = append(gterms, c10CsrTerm(&lv.tab, csrtypes.CSR{Id: bigOf(g.ID).Uint64(), Contracts: g.Contracts, Txs: bigOf(g.Txs).Uint64(), Revenue: sdkmath.NewIntFromBigInt(bigOf(g.Revenue))}))
	}
	ts := "(Some " + lv.tab.Addr(f.ts) + ")"
	if lv.kase.NoTurnstile {
		ts = "None"
	}
	// k_init is the observation made by c10Start
	term := App("mkCsrCase", ts, L(gterms), lv.initTerm, L(lv.steps))
	e.AddCase(checker, lv.tab.Wrap(term), lv.kase)
}

// ---------- generator of C10 ----------

var c10S = new(big.Int).Exp(big.NewInt(10), big.NewInt(18), nil)

func c10Pow2(n uint) *big.Int { return new(big.Int).Lsh(big.NewInt(1), n) }

func c10GenShare(e *Env) (string, string) {
	switch e.Pick(9) {
	case 0:
		return "0", "0"
	case 1:
		return "1", "1ulp"
	case 2:
		return new(big.Int).Sub(c10S, big.NewInt(1)).String(), "1-1ulp"
	case 3:
		return c10S.String(), "1"
	case 4:
		return new(big.Int).Div(c10S, big.NewInt(5)).String(), "0.2"
	case 5:
		return new(big.Int).Div(c10S, big.NewInt(3)).String(), "1/3"
	case 6:
		return new(big.Int).Mod(e.Mag(59), new(big.Int).Add(c10S, big.NewInt(1))).String(), "small"
	default:
		return e.Below(new(big.Int).Add(c10S, big.NewInt(1))).String(), "random"
	}
}

func c10ProbeIDs(e *Env) []string {
	two64 := c10Pow2(64)
	r := new(big.Int).SetUint64(e.Rng.Uint64())
	return []string{"0", "1", "2", "7", new(big.Int).Add(two64, big.NewInt(1)).String(), two64.String(), r.String(),
		new(big.Int).Sub(c10Pow2(256), big.NewInt(1)).String()}
}

// a well-formed genesis: distinct ids, disjoint duplicate-free contract lists (what an export produces)
func c10GenGenesis(e *Env, f *c10Fix, ids []string, maxCsrs int) []c10Csr {
	n := e.Pick(maxCsrs + 1)
	perm := e.Rng.Perm(len(f.pool))
	used := 0
	var out []c10Csr
	seen := map[uint64]bool{}
	for i := 0; i < n; i++ {
		id := new(big.Int).And(bigOf(ids[e.Pick(len(ids))]), new(big.Int).SetUint64(^uint64(0)))
		if seen[id.Uint64()] {
			continue
		}
		seen[id.Uint64()] = true
		k := 1 + e.Pick(2)
		var cs []string
		for j := 0; j < k && used < len(perm)-2; j++ {
			cs = append(cs, f.pool[perm[used]].Hex())
			used++
		}
		if len(cs) == 0 {
			break
		}
		txs := big.NewInt(int64(e.Pick(1000)))
		if e.Chance(0.05) {
			txs = new(big.Int).SetUint64(^uint64(0)) // the counter wraps
		}
		rev := new(big.Int).Sub(e.Mag(100), big.NewInt(1))
		out = append(out, c10Csr{ID: id.String(), Contracts: cs, Txs: txs.String(), Revenue: rev.String()})
	}
	return out
}

func c10GenFee(e *Env, lv *c10Live) (gasUsed, gasPrice *big.Int, kind string) {
	share := bigOf(lv.params.Share)
	switch r := e.Pick(100); {
	case r < 6:
		return big.NewInt(0), e.Mag(40), "gas-used-0"
	case r < 18:
		return new(big.Int).SetUint64(uint64(21000 + e.Pick(500000))), big.NewInt(0), "gas-price-0"
	case r < 30:
		return new(big.Int).SetUint64(uint64(1 + e.Pick(3_000_000))), big.NewInt(1), "gas-price-1"
	case r < 40 && share.Sign() > 0:
		// rounding boundary: the smallest fee whose share reaches k, and the one below it
		k := e.Mag(60)
		t := new(big.Int).Mul(k, c10S)
		t.Add(t, new(big.Int).Sub(share, big.NewInt(1)))
		t.Div(t, share)
		if e.Chance(0.5) {
			t.Sub(t, big.NewInt(1))
		}
		return big.NewInt(1), t, "rounding-boundary"
	case r < 45:
		return big.NewInt(1), big.NewInt(int64(1 + e.Pick(3))), "tiny-fee"
	case r < 50:
		return new(big.Int).SetUint64(^uint64(0)), e.Mag(100), "gas-used-max"
	case r < 80:
		return new(big.Int).SetUint64(uint64(21000 + e.Pick(10_000_000))), e.Mag(40), "typical"
	case r < 92:
		return new(big.Int).SetUint64(e.Rng.Uint64()>>uint(e.Pick(64)) | 1), e.Mag(120), "large"
	default:
		return new(big.Int).SetUint64(e.Rng.Uint64() | 1), e.Mag(180), "very-large"
	}
}

func c10GenOp(e *Env, lv *c10Live, hugeOK bool) c10Op {
	f := lv.f
	var op c10Op
	if e.Chance(0.08) {
		s, k := c10GenShare(e)
		op.SetParams = &c10Params{Enable: !e.Chance(0.1), Share: s}
		lv.params = *op.SetParams
		e.Stats.Count("share-set:" + k)
	}
	gu, gp, kind := c10GenFee(e, lv)
	share := bigOf(lv.params.Share)
	if hugeOK && e.Chance(0.5) {
		// the 315-bit limit of LegacyDec.Mul: fee*share just below / at 2^315
		gu = big.NewInt(1)
		if share.Sign() > 0 && e.Chance(0.7) {
			gp = new(big.Int).Add(c10Pow2(315), new(big.Int).Sub(share, big.NewInt(1)))
			gp.Div(gp, share)
			if gp.BitLen() > 255 {
				gp = c10Pow2(255)
			}
		} else {
			gp = c10Pow2(255)
		}
		if e.Chance(0.5) {
			gp.Sub(gp, big.NewInt(1))
		}
		kind = "dec-overflow-boundary"
	}
	fee := new(big.Int).Mul(gu, gp)
	// keep the bank supply below 2^256
	if new(big.Int).Add(lv.obs.supply, fee).BitLen() > 255 && kind != "dec-overflow-boundary" {
		gp = big.NewInt(int64(e.Pick(1000)))
		fee = new(big.Int).Mul(gu, gp)
		kind = "typical"
	}
	e.Stats.Count("fee:" + kind)
	op.GasUsed, op.GasPrice = gu.String(), gp.String()
	// funding of the fee collector: enough / exactly enough / one short
	have := lv.obs.collector
	switch r := e.Pick(100); {
	case r < 5 && fee.Sign() > 0:
		if have.Cmp(fee) < 0 {
			d := new(big.Int).Sub(fee, have)
			d.Sub(d, big.NewInt(1))
			if d.Sign() > 0 {
				op.Fund = d.String()
			}
			e.Stats.Count("funding:one-short")
		} else {
			e.Stats.Count("funding:enough")
		}
	case r < 30:
		if have.Cmp(fee) < 0 {
			op.Fund = new(big.Int).Sub(fee, have).String()
			e.Stats.Count("funding:exact")
		} else {
			e.Stats.Count("funding:enough")
		}
	default:
		if have.Cmp(fee) < 0 {
			op.Fund = new(big.Int).Add(new(big.Int).Sub(fee, have), e.Mag(40)).String()
		}
		e.Stats.Count("funding:enough")
	}
	// target
	regd := lv.obs.registered()
	switch r := e.Pick(100); {
	case r < 60 && len(regd) > 0:
		op.To = regd[e.Pick(len(regd))].Hex()
		e.Stats.Count("target:registered")
	case r < 75:
		op.To = ""
		e.Stats.Count("target:creation")
	case r < 80:
		op.To = common.BytesToAddress(e.Below(c10Pow2(160)).Bytes()).Hex()
		e.Stats.Count("target:fresh-address")
	case r < 88:
		// a contract that registers itself in this very transaction
		var free []common.Address
		isReg := map[common.Address]bool{}
		for _, a := range regd {
			isReg[a] = true
		}
		for _, a := range f.pool {
			if !isReg[a] {
				free = append(free, a)
			}
		}
		if len(free) > 0 {
			a := free[e.Pick(len(free))]
			op.To = a.Hex()
			if !c10HasCode(f, lv.ctx, a) {
				op.CodeOn = append(op.CodeOn, a.Hex())
			}
			id := lv.kase.ProbeIDs[e.Pick(len(lv.kase.ProbeIDs))]
			if e.Chance(0.5) && len(lv.obs.csrs) > 0 {
				op.Logs = append(op.Logs, c10Log{Emitter: "T", Kind: "assign", Contract: a.Hex(), ID: fmt.Sprint(lv.obs.csrs[e.Pick(len(lv.obs.csrs))].Id)})
			} else {
				op.Logs = append(op.Logs, c10Log{Emitter: "T", Kind: "register", Contract: a.Hex(), Recv: f.pool[0].Hex(), ID: id})
			}
			e.Stats.Count("target:registers-itself-in-this-tx")
		} else {
			op.To = ""
			e.Stats.Count("target:creation")
		}
	default:
		op.To = f.pool[e.Pick(len(f.pool))].Hex()
		e.Stats.Count("target:pool-address")
	}
	if len(op.Logs) == 0 && e.Chance(0.12) {
		for i := 0; i < 1+e.Pick(2); i++ {
			op.Logs = append(op.Logs, c16GenLog(e, lv))
		}
	}
	return op
}

func runC10(e *Env) {
	e.Header("From Coq Require Import ZArith List.\nFrom Canto Require Import Model.Csr Check.Common Check.CsrCheck.\nImport ListNotations.\nOpen Scope Z_scope.\n")
	e.Stats.Rule = "case = csr genesis with 0-4 NFTs over a pool of 8 contracts + a history of post-tx hook calls on the real csr keeper (real bank, real EVM, the Turnstile deployed by the module's BeginBlock): share in {0, 1ulp, 0.2, 1/3, small, random, 1-1ulp, 1} changed during the history, gas used in {0, 1, typical, 2^64-1, random}, gas price in {0, 1, random up to 2^190, rounding boundaries of fee*share, the 315-bit limit of LegacyDec.Mul}, target registered / unregistered / creation / registering itself in the same receipt, fee collector funded generously / exactly / one short; plus cases of real signed EVM transactions through EvmKeeper.EthereumTx (legacy gas price 1 .. 2^70: CSRSmartContract.register / assign against the real Turnstile, calls of registered and unregistered contracts, plain transfers, contract creations incl. constructors that register the contract being created with the Turnstile and leave a one-byte runtime / no code at all; the holds-code oracle of a creation is taken at hook time); non-trivial = a call that moves money; distinct by hash of (share, fee, target class, result) sequence"
	e.ShardSize = 10 // ~25 steps per case: small shards keep the parallel Coq evaluation short
	f := c10Setup()
	n := e.Scale(50, 1500)
	if e.Tier == "search" {
		n = 200
	}
	nReal := e.Scale(4, 150) // cases made of real signed EVM transactions
	if e.Replay != nil {
		n = 1
	}
	for c := 0; c < n; c++ {
		var kase c10Case
		if e.Replay != nil {
			mustUnmarshal(e.Replay, &kase)
			if kase.RealContracts > 0 {
				c10RunRealCase(e, f, c, "C10", "check_c10", &kase)
				continue
			}
			lv := c10Start(e, f, &kase)
			for _, op := range kase.Ops {
				lv.exec(e, c, op)
			}
			lv.finish(e, c, "check_c10")
			continue
		}
		if c >= n-nReal {
			c10RunRealCase(e, f, c, "C10", "check_c10", nil)
			continue
		}
		kase.Suite = "C10"
		kase.ProbeIDs = c10ProbeIDs(e)
		kase.Genesis = c10GenGenesis(e, f, kase.ProbeIDs, 4)
		s, k := c10GenShare(e)
		kase.Params = c10Params{Enable: true, Share: s}
		e.Stats.Count("share-set:" + k)
		kase.Collector = new(big.Int).Sub(e.Mag(80), big.NewInt(1)).String()
		if e.Chance(0.5) {
			kase.ModulePrefund = e.Mag(70).String()
			e.Stats.Count("module-account:prefunded")
		} else {
			e.Stats.Count("module-account:empty")
		}
		kase.NoTurnstile = e.Chance(0.03)
		lv := c10Start(e, f, &kase)
		// genesis contracts hold code, as registered contracts do
		nOps := 12 + e.Pick(e.Scale(25, 40))
		hugeAt := -1
		if e.Chance(0.15) {
			hugeAt = nOps - 1 - e.Pick(2)
		}
		for i := 0; i < nOps; i++ {
			op := c10GenOp(e, lv, i == hugeAt)
			kase.Ops = append(kase.Ops, op)
			before := lv.obs
			ok := lv.exec(e, c, op)
			moved := before.collector.Cmp(lv.obs.collector) != 0
			if moved {
				fmt.Fprintf(&lv.sig, "%s|%s|%s|%s|%v;", lv.params.Share, op.GasUsed, op.GasPrice, op.To, ok)
			}
			if ok {
				e.Stats.Count("result:ok")
			} else {
				e.Stats.Count("result:failed")
			}
		}
		if lv.sig.Len() > 0 {
			e.Stats.Nontrivial(lv.sig.String())
		}
		lv.finish(e, c, "check_c10")
		e.Stats.Sample(kase)
	}
}
