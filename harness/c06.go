//go:build verif

package harness

// Suite C06: one generated block history executed on four instances of the real application
// (A plain, B re-created from its database at every block boundary, C with read-only requests
// interleaved, D a second quiet node run afterwards in a fresh application; in half of the cases a fifth, E,
// restarted exactly once at a random boundary), compared at every height;
// the projection (read on C, so that A and D see nothing but blocks) is compared with the node model
// of coq/Model/Chain.v.

import (
	"fmt"
	"math/big"
	"math/rand"
	"os"
	"sort"
	"strings"
	"time"

	sdkmath "cosmossdk.io/math"
	abci "github.com/cometbft/cometbft/abci/types"
	tmproto "github.com/cometbft/cometbft/proto/tendermint/types"
	sdk "github.com/cosmos/cosmos-sdk/types"
	banktypes "github.com/cosmos/cosmos-sdk/x/bank/types"
	govv1 "github.com/cosmos/cosmos-sdk/x/gov/types/v1"
	"github.com/ethereum/go-ethereum/common"
	ethcrypto "github.com/ethereum/go-ethereum/crypto"
	evmtypes "github.com/evmos/ethermint/x/evm/types"

	"github.com/Canto-Network/Canto/v8/contracts"
	coinswaptypes "github.com/Canto-Network/Canto/v8/x/coinswap/types"
	csrtypes "github.com/Canto-Network/Canto/v8/x/csr/types"
	erc20types "github.com/Canto-Network/Canto/v8/x/erc20/types"
	govshuttletypes "github.com/Canto-Network/Canto/v8/x/govshuttle/types"
	inflationtypes "github.com/Canto-Network/Canto/v8/x/inflation/types"
)

func init() { runners["C06"] = c06Run }

// ---- replay format ----
type c06Update struct {
	Module   string    `json:"module"`          // coinswap | inflation | csr | erc20 | lending (govshuttle) | register-coin (erc20)
	Denom    int       `json:"denom,omitempty"` // register-coin: index into the coinswap token names
	Coinswap *csParams `json:"coinswap,omitempty"`
	Enable   bool      `json:"enable"`
	Staking  string    `json:"staking,omitempty"`   // inflation: staking share (raw dec)
	Commun   string    `json:"community,omitempty"` // inflation: community share (raw dec)
	MaxVar   string    `json:"max_var,omitempty"`
	Share    string    `json:"share,omitempty"` // csr share (raw dec)
	Hook     bool      `json:"hook"`            // erc20: EnableEVMHook
}

type c06Tx struct {
	Kind   string     `json:"kind"`
	User   int        `json:"user"`
	Swap   *csOp      `json:"swap,omitempty"`
	DlRel  *int64     `json:"dl_rel,omitempty"` // deadline relative to the block second (nil: Swap.Deadline is absolute)
	Amt    string     `json:"amt,omitempty"`
	Target int        `json:"target,omitempty"`
	GasMul int64      `json:"gas_mul,omitempty"`
	Gas    uint64     `json:"gas,omitempty"`
	Upd    *c06Update `json:"upd,omitempty"`
}

type c06Block struct {
	DtNs     string  `json:"dt_ns"`
	Txs      []c06Tx `json:"txs"`
	ReadSeed int64   `json:"read_seed"`
	Export   bool    `json:"export"`
}

type c06Case struct {
	Gen c06Gen `json:"gen"`
	// RestartOnce: 0 = no replica E; k > 0 = a fifth replica E that is restarted from its database exactly once,
	// after the k-th block of the history (state built up in memory over several blocks is lost only then)
	RestartOnce int        `json:"restart_once"`
	Blocks      []c06Block `json:"blocks"`
}

// per-block record kept until replica D has run
type c06Rec struct {
	blkTerm  string
	height   int64
	hash     []string // A B C (E) D
	results  [][]string
	exports  []string
	codes    []string
	postTerm string
	req      *abci.RequestFinalizeBlock
}

func c06GenGenesis(e *Env, w *csWorld) c06Gen {
	g := c06Gen{Funds: map[string][]string{}}
	scale := e.Pick(3)
	for i := 0; i < csUsers; i++ {
		var f []string
		for d := 0; d <= csTokens; d++ {
			var v *big.Int
			switch {
			case d == 0: // acanto: enough for gas in every case
				v = new(big.Int).Mul(csS18, big.NewInt(int64(1000+e.Pick(100000))))
			case scale == 0:
				v = big.NewInt(int64(1000 + e.Pick(1_000_000)))
			case scale == 1:
				v = new(big.Int).Mul(csS18, big.NewInt(int64(1+e.Pick(100000))))
			default:
				v = new(big.Int).Lsh(big.NewInt(int64(1+e.Pick(1000))), uint(60+e.Pick(100)))
			}
			f = append(f, v.String())
		}
		g.Funds[fmt.Sprintf("U%d", i)] = f
	}
	g.Coinswap = e.csGenParams(w, bigOf(g.Funds["U0"][1]))
	g.InflEnable = e.Chance(0.85)
	g.Epp = []int64{1, 2, 3, 5, 30}[e.Pick(5)]
	g.Staking = []string{csS18.String(), "0", "500000000000000000", "333333333333333333", e.Below(csS18).String()}[e.Pick(5)]
	g.MaxVar = []string{"0", "0", "100000000000000000", "400000000000000000"}[e.Pick(4)]
	g.Hour = e.Chance(0.4)
	g.InflIdent = "day"
	if g.Hour && e.Chance(0.5) {
		g.InflIdent = "hour"
	}
	if e.Chance(0.1) {
		g.InflIdent = "week"
	}
	g.CsrShare = []string{"200000000000000000", "0", csS18.String(), "500000000000000000", e.Below(csS18).String()}[e.Pick(5)]
	g.CsrLate = e.Chance(0.34)
	return g
}

func c06GenUpdate(e *Env, w *csWorld, o c06Obs) *c06Update {
	u := &c06Update{}
	switch e.Pick(6) {
	case 4: // govshuttle: the first one deploys the ProposalStore ("port") contract inside the EndBlocker
		u.Module = "lending"
		u.Enable = e.Chance(0.85) // false: array lengths differ -> the proposal fails when executed
	case 5: // erc20: RegisterCoin deploys an ERC20 contract inside the EndBlocker; a second one for the same coin fails
		u.Module = "register-coin"
		u.Denom = e.Pick(3)
	case 0:
		u.Module = "coinswap"
		np := e.csGenParams(w, csTypicalFund(o.swap))
		if e.Chance(0.5) {
			np.Fee, np.Tax, np.CfeeAmt, np.CfeeDenom = o.swap.params.Fee, o.swap.params.Tax, o.swap.params.CfeeAmt, o.swap.params.CfeeDenom
		}
		if e.Chance(0.1) {
			np.Cap = "0" // invalid: the proposal fails when executed
		}
		u.Coinswap = &np
	case 1:
		u.Module = "inflation"
		u.Enable = e.Chance(0.7)
		st := []string{csS18.String(), "0", "250000000000000000", e.Below(csS18).String()}[e.Pick(4)]
		u.Staking = st
		u.Commun = new(big.Int).Sub(csS18, bigOf(st)).String()
		if e.Chance(0.1) {
			u.Commun = "1" // does not sum to one: invalid
		}
		u.MaxVar = []string{"0", "100000000000000000", "300000000000000000"}[e.Pick(3)]
	case 2:
		u.Module = "csr"
		u.Enable = e.Chance(0.8)
		u.Share = []string{"0", csS18.String(), "200000000000000000", e.Below(csS18).String(), "1000000000000000001"}[e.Pick(5)]
	default:
		u.Module = "erc20"
		u.Enable = e.Chance(0.8)
		u.Hook = e.Chance(0.8)
	}
	return u
}

// the message of an update with the given authority, and its model term (for the privileged handlers
// the keeper function's own success is an oracle input: known when the proposal has been executed)
func c06UpdateMsg(w *c06World, cur c06Obs, u *c06Update, authority string) (sdk.Msg, func(executedOK bool) string) {
	auth := c06Str(authority)
	konst := func(t string) func(bool) string { return func(bool) string { return t } }
	priv := func(kind string) func(bool) string {
		return func(ok bool) string {
			inner := "(fun _ => None)"
			if ok {
				inner = "(fun _ => Some tt)"
			}
			return App("PUAuth", App("Authority.Priv", kind, auth, inner))
		}
	}
	switch u.Module {
	case "coinswap":
		return &coinswaptypes.MsgUpdateParams{Authority: authority, Params: w.cs.toParams(*u.Coinswap)}, konst(App("PUSwap", csParamsTerm(*u.Coinswap)))
	case "inflation":
		p := cur.infl.params
		p.EnableInflation = u.Enable
		p.InflationDistribution = inflationtypes.InflationDistribution{StakingRewards: c06DecOf(u.Staking), CommunityPool: c06DecOf(u.Commun)}
		p.ExponentialCalculation.MaxVariance = c06DecOf(u.MaxVar)
		ex := p.ExponentialCalculation
		t := App("PUAuth", App("Authority.UpdInflation", auth, "false",
			App("Authority.mkInf", c06Str(p.MintDenom), Z(ex.A.BigInt()), Z(ex.R.BigInt()), Z(ex.C.BigInt()), Z(ex.BondingTarget.BigInt()), Z(ex.MaxVariance.BigInt()),
				Z(bigOf(u.Staking)), Z(bigOf(u.Commun)), B(u.Enable))))
		return &inflationtypes.MsgUpdateParams{Authority: authority, Params: p}, konst(t)
	case "csr":
		t := App("PUAuth", App("Authority.UpdCsr", auth, "false", App("Authority.mkCsr", B(u.Enable), Z(bigOf(u.Share)))))
		return &csrtypes.MsgUpdateParams{Authority: authority, Params: csrtypes.Params{EnableCsr: u.Enable, CsrShares: c06DecOf(u.Share)}}, konst(t)
	case "lending":
		md := &govshuttletypes.LendingMarketMetadata{Account: []string{c06Eth(w.keys.users[0]).Hex()}, PropId: 0, Values: []uint64{1},
			Calldatas: []string{"abcd"}, Signatures: []string{"f()"}}
		if !u.Enable {
			md.Values = []uint64{1, 2}
		}
		return &govshuttletypes.MsgLendingMarketProposal{Authority: authority, Title: "lending market", Description: "verif", Metadata: md}, priv("Authority.LendingMarket")
	case "register-coin":
		d := csTokNames[u.Denom%3]
		disp := fmt.Sprintf("disp%d", u.Denom%3)
		meta := banktypes.Metadata{Description: "registered by governance", Base: d, Name: d, Symbol: fmt.Sprintf("REG%d", u.Denom%3), Display: disp,
			DenomUnits: []*banktypes.DenomUnit{{Denom: d, Exponent: 0}, {Denom: disp, Exponent: 18}}}
		return &erc20types.MsgRegisterCoin{Authority: authority, Title: "register coin", Description: "verif", Metadata: meta}, priv("Authority.RegisterCoin")
	default:
		t := App("PUAuth", App("Authority.UpdErc20", auth, App("Authority.mkErc", B(u.Enable), B(u.Hook))))
		return &erc20types.MsgUpdateParams{Authority: authority, Params: erc20types.NewParams(u.Enable, u.Hook)}, konst(t)
	}
}

// a pending proposal of the history
type c06Pending struct {
	id   uint64
	term func(executedOK bool) string
}

type c06Run1 struct {
	e        *Env
	c        int
	w        *c06World
	A, B, C  *c06Replica
	keys     *c06Keys
	now      time.Time
	obs      c06Obs
	seqs     map[string]uint64 // per block: next sequence per account
	pending  []c06Pending
	voted    map[uint64]bool
	recs     []c06Rec
	intern   c06Intern
	sig      strings.Builder
	ticks    int
	postCtx  sdk.Context // the observed replica after the block (for the term builders)
	lastSeq  uint64      // sequence number used by the transaction built last
	sameUser int         // generator: the next transactions come from the sender of the last one
	lastUser int
}

func (r *c06Run1) account(ctx sdk.Context, addr sdk.AccAddress) (uint64, uint64) {
	acc := r.C.app.AccountKeeper.GetAccount(ctx, addr)
	if acc == nil {
		return 0, 0
	}
	seq := acc.GetSequence()
	if s, ok := r.seqs[addr.String()]; ok {
		seq = s
	}
	return acc.GetAccountNumber(), seq
}

// every signed transaction takes the next sequence number of its signer, whether or not it will be admitted: the
// transactions of one signer that the ante handler admitted are then exactly those whose number lies below the
// signer's sequence after the block
func (r *c06Run1) bump(addr sdk.AccAddress, seq uint64) {
	r.seqs[addr.String()] = seq + 1
	r.lastSeq = seq
}

// build turns a transaction description into bytes (signed with the sequence numbers of the committed
// state) and the model's transaction term builder (which needs the result)
type c06Built struct {
	bz     []byte
	kind   string
	term   func(res *abci.ExecTxResult) string
	signer sdk.AccAddress
	seq    uint64 // the sequence number / nonce the transaction was signed with
}

func (r *c06Run1) build(ctx sdk.Context, t *c06Tx, blockTime time.Time) c06Built {
	a := r.C.app
	k := r.keys
	w := r.w
	user := k.users[t.User%len(k.users)]
	other := func(accepted *abci.ExecTxResult) string { return App("TxOther", B(accepted.Code == 0)) }
	cosmos := func(priv interface{}, msgs ...sdk.Msg) []byte { return nil }
	_ = cosmos
	sign := func(p int, msgs ...sdk.Msg) ([]byte, sdk.AccAddress) {
		priv := k.op
		if p >= 0 {
			priv = k.users[p%len(k.users)]
		}
		addr := c06Acc(priv)
		num, seq := r.account(ctx, addr)
		bz, err := c06SignCosmos(a, priv, num, seq, 3_000_000, msgs...)
		if err != nil {
			// a message the SDK refuses to encode or sign (e.g. an unparseable signer): send the failure as garbage bytes
			return []byte("unsignable:" + err.Error()), addr
		}
		r.bump(addr, seq)
		return bz, addr
	}
	switch t.Kind {
	case "swap":
		op := *t.Swap
		op.Pres = ""
		if t.DlRel != nil {
			op.Deadline = blockTime.Unix() + *t.DlRel
		}
		cs := w.cs
		coin := func(dc string, amt string) sdk.Coin {
			return sdk.Coin{Denom: cs.denoms[dc], Amount: sdkmath.NewIntFromBigInt(bigOf(amt))}
		}
		sender := fmt.Sprintf("U%d", op.Sender)
		var msg sdk.Msg
		switch op.Kind {
		case "sell", "buy":
			msg = &coinswaptypes.MsgSwapOrder{
				Input:    coinswaptypes.Input{Address: cs.addrText(sender, ""), Coin: coin(op.Din, op.A[0])},
				Output:   coinswaptypes.Output{Address: cs.addrText(op.Rec, ""), Coin: coin(op.Dout, op.A[1])},
				Deadline: op.Deadline, IsBuyOrder: op.Kind == "buy"}
		case "add":
			msg = &coinswaptypes.MsgAddLiquidity{MaxToken: coin(op.Din, op.A[0]), ExactStandardAmt: sdkmath.NewIntFromBigInt(bigOf(op.A[1])),
				MinLiquidity: sdkmath.NewIntFromBigInt(bigOf(op.A[2])), Deadline: op.Deadline, Sender: cs.addrText(sender, "")}
		case "remove":
			msg = &coinswaptypes.MsgRemoveLiquidity{WithdrawLiquidity: coin(op.Din, op.A[0]), MinStandardAmt: sdkmath.NewIntFromBigInt(bigOf(op.A[1])),
				MinToken: sdkmath.NewIntFromBigInt(bigOf(op.A[2])), Deadline: op.Deadline, Sender: cs.addrText(sender, "")}
		case "donate":
			msg = &banktypes.MsgSend{FromAddress: cs.addrText(sender, ""), ToAddress: cs.addrText(op.Rec, ""), Amount: sdk.Coins{coin(op.Din, op.A[0])}}
		default:
			panic("c06: unexpected coinswap kind " + op.Kind)
		}
		bz, addr := sign(op.Sender, msg)
		term := App("TxSwap", csOpTerm(op))
		return c06Built{bz: bz, kind: "swap:" + op.Kind, term: func(*abci.ExecTxResult) string { return term }, signer: addr}
	case "convert-coin":
		msg := &erc20types.MsgConvertCoin{Coin: sdk.Coin{Denom: "acoin", Amount: sdkmath.NewIntFromBigInt(bigOf(t.Amt))},
			Receiver: c06Eth(k.users[t.Target%len(k.users)]).Hex(), Sender: c06Acc(user).String()}
		bz, addr := sign(t.User, msg)
		return c06Built{bz: bz, kind: t.Kind, term: other, signer: addr}
	case "convert-erc20":
		contract := w.pairCoin
		if t.Target%2 == 1 {
			contract = w.pairExt
		}
		msg := &erc20types.MsgConvertERC20{ContractAddress: contract.Hex(), Amount: sdkmath.NewIntFromBigInt(bigOf(t.Amt)),
			Receiver: c06Acc(k.users[(t.Target/2)%len(k.users)]).String(), Sender: c06Eth(user).Hex()}
		bz, addr := sign(t.User, msg)
		return c06Built{bz: bz, kind: t.Kind, term: other, signer: addr}
	case "gov-submit":
		msg, uterm := c06UpdateMsg(w, r.obs, t.Upd, w.gov)
		sp, err := govv1.NewMsgSubmitProposal([]sdk.Msg{msg}, sdk.NewCoins(sdk.NewInt64Coin(c06Denom, 1000)), c06Acc(k.op).String(), "", "update "+t.Upd.Module, "verif", false)
		if err != nil {
			panic(err)
		}
		bz, addr := sign(-1, sp)
		return c06Built{bz: bz, kind: "gov-submit:" + t.Upd.Module, signer: addr, term: func(res *abci.ExecTxResult) string {
			if res.Code == 0 {
				var resp govv1.MsgSubmitProposalResponse
				var md sdk.TxMsgData
				if err := md.Unmarshal(res.Data); err == nil && len(md.MsgResponses) > 0 {
					if err := resp.Unmarshal(md.MsgResponses[0].Value); err == nil {
						r.pending = append(r.pending, c06Pending{id: resp.ProposalId, term: uterm})
					}
				}
			}
			return other(res)
		}}
	case "gov-vote":
		var msgs []sdk.Msg
		for _, p := range r.pending {
			if !r.voted[p.id] {
				msgs = append(msgs, govv1.NewMsgVote(c06Acc(k.op), p.id, govv1.OptionYes, ""))
				r.voted[p.id] = true
			}
		}
		if len(msgs) == 0 { // nothing to vote on: a vote on a proposal that does not exist (rejected)
			msgs = append(msgs, govv1.NewMsgVote(c06Acc(k.op), 999, govv1.OptionYes, ""))
		}
		bz, addr := sign(-1, msgs...)
		return c06Built{bz: bz, kind: t.Kind, term: other, signer: addr}
	case "params-user": // MsgUpdateParams signed by a user naming itself as authority
		msg, uterm := c06UpdateMsg(w, r.obs, t.Upd, c06Acc(user).String())
		bz, addr := sign(t.User, msg)
		term := App("TxParams", c06Str(c06Acc(user).String()), uterm(true))
		return c06Built{bz: bz, kind: t.Kind, term: func(*abci.ExecTxResult) string { return term }, signer: addr}
	case "badseq": // a correctly signed bank transfer with a sequence number from the future
		addr := c06Acc(user)
		num, seq := r.account(ctx, addr)
		msg := &banktypes.MsgSend{FromAddress: addr.String(), ToAddress: c06Acc(k.op).String(), Amount: sdk.NewCoins(sdk.NewInt64Coin(c06Denom, 1))}
		bz, err := c06SignCosmos(a, user, num, seq+7, 200_000, msg)
		if err != nil {
			panic(err)
		}
		r.lastSeq = seq + 7
		return c06Built{bz: bz, kind: t.Kind, term: other, signer: addr}
	case "garbage":
		rng := rand.New(rand.NewSource(int64(t.Target)))
		junk := make([]byte, 1+rng.Intn(60))
		rng.Read(junk)
		return c06Built{bz: junk, kind: t.Kind, term: other}
	case "evm-erc20", "evm-erc20-user", "evm-selfreg", "evm-call", "evm-csr0":
		addr := c06Acc(user)
		_, nonce := r.account(ctx, addr)
		from := c06Eth(user)
		var to *common.Address
		var data []byte
		var err error
		eabi := contracts.ERC20MinterBurnerDecimalsContract.ABI
		var created *common.Address
		ekind := t.Kind
		if ekind == "evm-csr0" && w.csr0 == (common.Address{}) {
			ekind = "evm-selfreg" // no prepared CSR contract on this chain: register a fresh contract instead
		}
		switch ekind {
		case "evm-erc20", "evm-erc20-user":
			c := w.pairCoin
			if t.Target%2 == 1 {
				c = w.pairExt
			}
			to = &c
			dst := erc20types.ModuleAddress
			if t.Kind == "evm-erc20-user" {
				dst = c06Eth(k.users[(t.Target/2)%len(k.users)])
			}
			data, err = eabi.Pack("transfer", dst, bigOf(t.Amt))
		case "evm-selfreg":
			data = c06SelfRegisteringInit(w.turnstile)
			ca := ethcrypto.CreateAddress(from, nonce)
			created = &ca
		case "evm-call":
			if len(w.selfReg) > 0 {
				c := w.selfReg[t.Target%len(w.selfReg)]
				to = &c
			} else {
				c := w.csr0 // the zero address on a chain without prepared CSR contract: a plain call of an empty account
				to = &c
			}
		case "evm-csr0":
			c := w.csr0
			to = &c
			data, err = c10LoadSmartContract().ABI.Pack("register", c06Eth(k.users[t.Target%len(k.users)]))
		}
		if err != nil {
			panic(err)
		}
		base := a.FeeMarketKeeper.GetBaseFee(ctx)
		if base == nil || base.Sign() == 0 {
			base = big.NewInt(1_000_000_000)
		}
		price := new(big.Int).Mul(base, big.NewInt(t.GasMul))
		bz, err := c06SignEth(a, user, nonce, to, t.Gas, price, data)
		if err != nil {
			panic(err)
		}
		r.bump(addr, nonce)
		kind := t.Kind
		return c06Built{bz: bz, kind: kind, signer: addr, term: func(res *abci.ExecTxResult) string {
			toTerm := "None"
			if to != nil {
				toTerm = "(Some " + c06AddrZ(*to) + ")"
			}
			if res.Code != 0 {
				// admitted by the ante handler (its effects stay although the message failed) exactly when the
				// account's sequence number moved past this transaction's nonce
				anteOK := false
				if acc := a.AccountKeeper.GetAccount(r.postCtx, addr); acc != nil {
					anteOK = acc.GetSequence() > nonce
				}
				return App("TxEvm", Zi(int64(t.User%len(k.users))), Zi(int64(t.Gas)), B(anteOK), "false", "false", App("Csr.mkTx", "(fun _ => false)", "[]", "0", Z(price), toTerm))
			}
			rsp, err := evmtypes.DecodeTxResponse(res.Data)
			if err != nil {
				panic(err)
			}
			var lterms []string
			for _, lg := range rsp.Logs {
				lterms = append(lterms, c06LogTerm(w, lg))
			}
			if created != nil && !rsp.Failed() {
				w.selfReg = append(w.selfReg, *created)
			}
			var codes []string
			for _, c := range append(append([]common.Address{}, w.contracts...), w.selfReg...) {
				codes = append(codes, c06AddrZ(c))
			}
			if created != nil {
				codes = append(codes, c06AddrZ(*created))
			}
			r.e.Stats.Count(fmt.Sprintf("evm:%s:failed=%v", kind, rsp.Failed()))
			return App("TxEvm", Zi(int64(t.User%len(k.users))), Zi(int64(t.Gas)), "true", "true", B(!rsp.Failed()),
				App("Csr.mkTx", "(fun a => existsb (Z.eqb a) "+L(codes)+")", L(lterms), Zi(int64(rsp.GasUsed)), Z(price), toTerm))
		}}
	}
	panic("c06: unknown transaction kind " + t.Kind)
}

var c06TurnstileABI = contracts.TurnstileContract.ABI

func c06LogTerm(w *c06World, lg *evmtypes.Log) string {
	emitter := common.HexToAddress(lg.Address)
	payload := ""
	if len(lg.Topics) == 0 {
		payload = "Csr.PNoTopics"
	} else if ev, err := c06TurnstileABI.EventByID(common.HexToHash(lg.Topics[0])); err != nil {
		payload = "Csr.PUnknown"
	} else {
		switch ev.Name {
		case csrtypes.TurnstileEventRegister:
			var x csrtypes.RegisterCSREvent
			if err := c06TurnstileABI.UnpackIntoInterface(&x, ev.Name, lg.Data); err != nil {
				payload = "Csr.PMalformed"
			} else {
				payload = App("Csr.PRegister", c06AddrZ(x.SmartContract), c06AddrZ(x.Recipient), Z(x.TokenId))
			}
		case csrtypes.TurnstileEventUpdate:
			var x csrtypes.UpdateCSREvent
			if err := c06TurnstileABI.UnpackIntoInterface(&x, ev.Name, lg.Data); err != nil {
				payload = "Csr.PMalformed"
			} else {
				payload = App("Csr.PAssign", c06AddrZ(x.SmartContract), Z(x.TokenId))
			}
		default:
			payload = "Csr.POther"
		}
	}
	return App("Csr.mkLog", c06AddrZ(emitter), payload)
}

// ---- generation of one transaction description against the current committed state (read on replica C) ----
func (r *c06Run1) genTx(dry sdk.Context, blockTime time.Time) c06Tx {
	e := r.e
	w := r.w
	weights := []struct {
		k string
		n int
	}{{"swap", 50}, {"evm-erc20", 8}, {"evm-erc20-user", 3}, {"evm-selfreg", 4}, {"evm-call", 9}, {"evm-csr0", 2},
		{"convert-coin", 6}, {"convert-erc20", 5}, {"gov-submit", 6}, {"gov-vote", 3}, {"params-user", 2}, {"garbage", 1}, {"badseq", 2}}
	unvoted := 0
	for _, p := range r.pending {
		if !r.voted[p.id] {
			unvoted++
		}
	}
	total := 0
	for i := range weights {
		if weights[i].k == "gov-vote" && unvoted > 0 {
			weights[i].n = 40
		}
		total += weights[i].n
	}
	x := e.Pick(total)
	kind := ""
	for _, wt := range weights {
		if x < wt.n {
			kind = wt.k
			break
		}
		x -= wt.n
	}
	if w.turnstile == (common.Address{}) && (kind == "evm-selfreg" || kind == "evm-call" || kind == "evm-csr0") {
		kind = "evm-erc20" // no Turnstile yet (CSR is enabled later by governance)
	}
	t := c06Tx{Kind: kind, User: e.Pick(csUsers), Target: e.Pick(16)}
	forceUser := -1
	if r.sameUser > 0 && r.lastUser >= 0 {
		forceUser = r.lastUser
		r.sameUser--
		t.User = forceUser
	}
	defer func() { r.lastUser = t.User }()
	switch kind {
	case "swap":
		now := TimeNs(blockTime)
		obs := w.cs.observe(dry)
		var op csOp
		wantValid := e.Chance(0.75)
		for attempt := 0; attempt < 8; attempt++ {
			op = c06SafeGenOp(e, w.cs, obs, now)
			if op.Kind == "autoswap" || op.Kind == "setparams" || op.Kind == "invalid" {
				attempt--
				continue
			}
			op.Pres = ""
			if (op.Rec != "" && op.Rec[0] == 'M' && op.Kind == "donate") || !c06Fits(op) {
				attempt--
				continue
			}
			if !wantValid {
				break
			}
			try, _ := dry.CacheContext()
			if ok, _ := w.cs.exec(try, op); ok {
				break
			}
		}
		if forceUser >= 0 {
			op.Sender = forceUser
		}
		// keep the effect on the dry-run branch so that later transactions of the block see it
		w.cs.exec(dry, op)
		sec := blockTime.Unix()
		if op.Deadline > 1_000_000 { // a real deadline: keep it relative to the block, so that shrinking keeps its meaning
			rel := op.Deadline - sec
			t.DlRel = &rel
		}
		t.Swap = &op
		t.User = op.Sender
	case "convert-coin", "convert-erc20", "evm-erc20", "evm-erc20-user":
		t.Amt = fmt.Sprint(1 + e.Pick(5000))
		if e.Chance(0.1) {
			t.Amt = "2000000000" // more than anybody holds: rejected / reverted
		}
	case "gov-submit", "params-user":
		t.Upd = c06GenUpdate(e, w.cs, r.obs)
	}
	if strings.HasPrefix(kind, "evm-") {
		t.GasMul = int64(2 + e.Pick(3))
		t.Gas = []uint64{300_000, 400_000, 600_000}[e.Pick(3)]
		if e.Chance(0.05) {
			t.Gas = 30_000 // too little for a contract call: out of gas
		}
		if e.Chance(0.04) {
			// a gas price nobody can pay: the ante handler refuses the transaction, its nonce stays unused and every
			// later transaction of the same sender in this block is refused for its sequence number
			t.GasMul = 1_000_000_000_000
			r.sameUser = 2
			e.Stats.Count("shape:evm-unaffordable-then-same-sender")
		} else {
			// otherwise a sender who can pay for the gas
			base := r.C.app.FeeMarketKeeper.GetBaseFee(dry)
			if base == nil || base.Sign() == 0 {
				base = big.NewInt(1_000_000_000)
			}
			cost := new(big.Int).Mul(new(big.Int).Mul(base, big.NewInt(t.GasMul)), new(big.Int).SetUint64(t.Gas))
			for try := 0; try < csUsers; try++ {
				bal := r.C.app.BankKeeper.GetBalance(dry, c06Acc(r.keys.users[t.User%csUsers]), c06Denom).Amount.BigInt()
				if bal.Cmp(cost) >= 0 {
					break
				}
				t.User = (t.User + 1) % csUsers
			}
		}
	}
	return t
}

// the shared coinswap generator assumes at most csMaxPool pools; on a tree where that breaks, fall back to a transfer
func c06SafeGenOp(e *Env, w *csWorld, obs csObs, now *big.Int) (op csOp) {
	defer func() {
		if rec := recover(); rec != nil {
			op = csOp{Kind: "donate", NowNs: now.String(), Sender: 0, Rec: "U1", Din: "S", A: []string{"1"}}
		}
	}()
	return e.csGenOp(w, obs, now, "C06")
}

// amounts that sdkmath.Int cannot even represent cannot be put into a message
func c06Fits(op csOp) bool {
	for _, a := range op.A {
		if bigOf(a).BitLen() > 255 {
			return false
		}
	}
	return true
}

func c06Step(e *Env, obs c06Obs, now time.Time) time.Duration {
	// aim at the end of a running epoch (exactly / 1 ns before / 1 ns after / a little later), or take an ordinary step
	switch x := e.Pick(100); {
	case x < 35:
		return time.Duration(1+e.Pick(10)) * time.Second
	case x < 50:
		return time.Duration(1+e.Rng.Int63n(int64(3*time.Hour))) * time.Nanosecond
	case x < 85:
		ep := obs.epochs[e.Pick(len(obs.epochs))]
		if x < 60 { // prefer the shortest running epoch
			for _, c := range obs.epochs {
				if c.Duration < ep.Duration {
					ep = c
				}
			}
		}
		end := ep.CurrentEpochStartTime.Add(ep.Duration)
		d := end.Sub(now)
		switch e.Pick(5) {
		case 0:
			d -= 1
		case 1:
		case 2:
			d += 1
		default:
			d += time.Duration(1 + e.Rng.Int63n(int64(time.Minute)))
		}
		if d <= 0 {
			d = time.Duration(1+e.Pick(5)) * time.Second
		}
		return d
	case x < 95:
		return 24*time.Hour + time.Duration(e.Rng.Int63n(int64(30*time.Hour)))
	default:
		return 7*24*time.Hour + time.Duration(e.Rng.Int63n(int64(48*time.Hour)))
	}
}

func (r *c06Run1) request(height int64, now time.Time, txs [][]byte) *abci.RequestFinalizeBlock {
	cons := r.w.cons.Bytes()
	return &abci.RequestFinalizeBlock{Height: height, Time: now, ProposerAddress: cons, Txs: txs,
		DecidedLastCommit: abci.CommitInfo{Votes: []abci.VoteInfo{{Validator: abci.Validator{Address: cons, Power: 1_000_000}, BlockIdFlag: tmproto.BlockIDFlagCommit}}}}
}

func c06ResultKeys(res *abci.ResponseFinalizeBlock) []string {
	var out []string
	for _, tr := range res.TxResults {
		out = append(out, c06ResultKey(tr))
	}
	return out
}

func c06RunCase(e *Env, c int, kase *c06Case, replay bool) {
	keys := c06NewKeys()
	if !replay {
		probe := c06CsWorld(nil, keys)
		kase.Gen = c06GenGenesis(e, probe)
		// structural variants are stratified, not drawn: every third case starts with CSR disabled and no Turnstile,
		// so that every run (even a short one) contains the late-enabling path
		kase.Gen.CsrLate = c%3 == 1
	}
	A, _ := c06Start("A", keys, kase.Gen)
	RB, _ := c06Start("B", keys, kase.Gen)
	C, w := c06Start("C", keys, kase.Gen) // the naming tables are bound to the replica that is read: C
	r := &c06Run1{e: e, c: c, w: w, A: A, B: RB, C: C, keys: keys, voted: map[uint64]bool{}}
	if kase.Gen.CsrLate {
		e.Stats.Count("case:csr-enabled-late")
	}
	// block 1: empty, a few seconds after genesis (commits the prepared state everywhere)
	r.now = GenesisTime.Add(5 * time.Second)
	req1 := r.request(1, r.now, nil)
	var reqs []*abci.RequestFinalizeBlock
	reqs = append(reqs, req1)
	nBlocks := 14 + e.Pick(e.Scale(14, 40))
	if replay {
		nBlocks = len(kase.Blocks)
	} else if e.Chance(0.5) && nBlocks > 3 {
		kase.RestartOnce = 2 + e.Pick(nBlocks-2)
	}
	var E *c06Replica
	first := []*c06Replica{A, RB, C}
	if kase.RestartOnce > 0 {
		E, _ = c06Start("E", keys, kase.Gen)
		first = append(first, E)
		e.Stats.Count("case:replica-E-restarted-once")
	}
	h1 := make([]string, len(first))
	same1 := true
	for i, rep := range first {
		h1[i] = fmt.Sprintf("%x", rep.block(req1).AppHash)
		same1 = same1 && h1[i] == h1[0]
	}
	if !same1 {
		e.Stats.ImplFailures = append(e.Stats.ImplFailures, ImplFailure{Case: c, Step: -1, Monitor: "apphash-differs-between-replicas", Detail: "after the first (empty) block"})
	}
	RB.restart()
	r.obs = c06Observe(C.app, C.readCtx(r.now, w), w)
	initTerm := c06ObsTerm(w, r.obs)
	t0 := r.now
	rank := c06EpochRank(r.obs.epochs)

	for bi := 0; bi < nBlocks; bi++ {
		height := A.app.LastBlockHeight() + 1
		var blk c06Block
		if replay {
			blk = kase.Blocks[bi]
		} else {
			blk.DtNs = fmt.Sprint(int64(c06Step(e, r.obs, r.now)))
			blk.ReadSeed = e.Rng.Int63()
			blk.Export = e.Chance(0.25)
		}
		prev := r.now
		r.now = r.now.Add(time.Duration(bigOf(blk.DtNs).Int64()))
		r.seqs = map[string]uint64{}
		ctx := C.readCtx(prev, w).WithBlockTime(r.now)
		nTx := 0
		if !replay {
			nTx = []int{0, 0, 1, 1, 1, 2, 2, 3, 4, 6}[e.Pick(10)]
		} else {
			nTx = len(blk.Txs)
		}
		var built []c06Built
		var txs [][]byte
		var forced []c06Tx
		if !replay && kase.Gen.CsrLate {
			switch bi {
			case 0: // governance switches CSR on; csr's BeginBlock then deploys the Turnstile inside a block
				forced = append(forced, c06Tx{Kind: "gov-submit", Upd: &c06Update{Module: "csr", Enable: true, Share: kase.Gen.CsrShare}})
			case 1:
				forced = append(forced, c06Tx{Kind: "gov-vote"})
			}
			nTx += len(forced)
		}
		for ti := 0; ti < nTx; ti++ {
			var t c06Tx
			if replay {
				t = blk.Txs[ti]
			} else {
				if ti < len(forced) {
					t = forced[ti]
				} else {
					t = r.genTx(ctx, r.now)
				}
				blk.Txs = append(blk.Txs, t)
			}
			b := r.build(ctx, &t, r.now)
			b.seq = r.lastSeq
			built = append(built, b)
			txs = append(txs, b.bz)
			e.Stats.Count("tx:" + b.kind)
		}
		if !replay {
			kase.Blocks = append(kase.Blocks, blk)
		}
		req := r.request(height, r.now, txs)
		reqs = append(reqs, req)
		// replica C: reads between the blocks
		c06Reads(C, w, rand.New(rand.NewSource(blk.ReadSeed)), txs, req, e.Stats)
		pre := r.obs
		statusBefore := c06ProposalsByStatus(C.app, C.readCtx(prev, w))
		resA := A.block(req)
		resB := RB.block(req)
		resC := C.block(req)
		var resE *abci.ResponseFinalizeBlock
		if E != nil {
			resE = E.block(req)
			e.Stats.Evaluations++
			if bi+1 == kase.RestartOnce {
				E.restart()
				e.Stats.Count("restart-once")
			}
		}
		RB.restart()
		if RB.app.LastBlockHeight() != height {
			e.Stats.ImplFailures = append(e.Stats.ImplFailures, ImplFailure{Case: c, Step: bi, Monitor: "restart-lost-height",
				Detail: fmt.Sprintf("replica B restarted at height %d, database says %d", height, RB.app.LastBlockHeight())})
		}
		e.Stats.Evaluations += 3
		rec := c06Rec{height: height, req: req}
		rec.hash = []string{fmt.Sprintf("%x", resA.AppHash), fmt.Sprintf("%x", resB.AppHash), fmt.Sprintf("%x", resC.AppHash)}
		rec.results = [][]string{c06ResultKeys(resA), c06ResultKeys(resB), c06ResultKeys(resC)}
		if E != nil {
			rec.hash = append(rec.hash, fmt.Sprintf("%x", resE.AppHash))
			rec.results = append(rec.results, c06ResultKeys(resE))
		}
		if blk.Export || bi == nBlocks-1 {
			rec.exports = []string{A.exportHash(), RB.exportHash(), C.exportHash()}
			if E != nil {
				rec.exports = append(rec.exports, E.exportHash())
			}
			e.Stats.Count("export-compared")
		}
		r.postCtx = C.readCtx(r.now, w)
		r.obs = c06Observe(C.app, r.postCtx, w)
		// model terms of the transactions (need the results) and the result classes
		var txTerms []string
		for i, b := range built {
			tr := resA.TxResults[i]
			term := b.term(tr)
			if tr.Code != 0 && b.signer != nil && !strings.HasPrefix(b.kind, "evm-") {
				// not admitted by the ante handler (its sequence number was not consumed: an earlier transaction of
				// the signer broke the chain, or the number was wrong): sequence numbers and signatures are outside the
				// model, for which such a transaction is an opaque rejected one
				if acc := C.app.AccountKeeper.GetAccount(r.postCtx, b.signer); acc == nil || acc.GetSequence() <= b.seq {
					term = App("TxOther", "false")
					e.Stats.Count("not-admitted-by-ante:" + b.kind)
				}
			}
			txTerms = append(txTerms, term)
			rec.codes = append(rec.codes, B(tr.Code == 0))
			if tr.Code == 0 {
				e.Stats.Count("accepted:" + b.kind)
				fmt.Fprintf(&r.sig, "%s;", b.kind)
			} else {
				e.Stats.Count("rejected:" + b.kind)
				if os.Getenv("VERIF_DEBUG") != "" {
					fmt.Fprintf(os.Stderr, "c06 rejected %s: %s/%d %.120s\n", b.kind, tr.Codespace, tr.Code, tr.Log)
				}
			}
		}
		// proposals decided in this block's EndBlocker (passed or failed at execution), in queue order
		statusAfter := c06ProposalsByStatus(C.app, r.postCtx)
		var govTerms []string
		var still []c06Pending
		sort.Slice(r.pending, func(i, j int) bool { return r.pending[i].id < r.pending[j].id })
		for _, p := range r.pending {
			before, after := statusBefore[p.id], statusAfter[p.id]
			switch {
			case after == govv1.StatusPassed || after == govv1.StatusFailed:
				if before != after {
					govTerms = append(govTerms, p.term(after == govv1.StatusPassed))
					e.Stats.Count("gov-executed:" + after.String())
				}
			case after == govv1.StatusRejected:
				e.Stats.Count("gov-rejected-by-tally")
			default:
				still = append(still, p)
			}
		}
		r.pending = still
		// epoch ticks in this block
		for i, ep := range r.obs.epochs {
			if i < len(pre.epochs) && ep.CurrentEpoch != pre.epochs[i].CurrentEpoch {
				r.ticks++
				e.Stats.Count("tick:" + ep.Identifier)
				fmt.Fprintf(&r.sig, "tick%s%d;", ep.Identifier, ep.CurrentEpoch)
			}
		}
		if pre.infl.supply.Cmp(r.obs.infl.supply) < 0 {
			e.Stats.Count("block-with-mint")
		}
		if pre.infl.period != r.obs.infl.period {
			e.Stats.Count("inflation-period-advanced")
		}
		_ = rank
		// the Turnstile deployed by csr's BeginBlock in this block (oracle: its address)
		fresh := "0"
		if pre.ts == nil && r.obs.ts != nil {
			fresh = c06AddrZ(*r.obs.ts)
			w.turnstile = *r.obs.ts
			w.contracts = append(w.contracts, *r.obs.ts)
			e.Stats.Count("turnstile-deployed-by-begin-block")
		}
		rec.blkTerm = App("mkBlk", Z(TimeNs(r.now)), App("Inflation.mkOracle", Z(pre.bonded), "None"), fresh, L(txTerms), L(govTerms))
		rec.postTerm = c06ObsTerm(w, r.obs)
		r.recs = append(r.recs, rec)
		e.Stats.Count("blocks")
	}
	e.Stats.Distribution["restarts"] += RB.restarts
	if E != nil {
		e.Stats.Distribution["restarts"] += E.restarts
	}
	e.Stats.Distribution["reads"] += C.reads
	// replica D: a second quiet node, run afterwards in a fresh application on the same requests
	D, _ := c06Start("D", keys, kase.Gen)
	for i, req := range reqs {
		res := D.block(req)
		e.Stats.Evaluations++
		if i == 0 {
			if fmt.Sprintf("%x", res.AppHash) != h1[0] {
				e.Stats.ImplFailures = append(e.Stats.ImplFailures, ImplFailure{Case: c, Step: -1, Monitor: "apphash-differs-between-replicas", Detail: "replica D after the first (empty) block"})
			}
			continue
		}
		r.recs[i-1].hash = append(r.recs[i-1].hash, fmt.Sprintf("%x", res.AppHash))
		r.recs[i-1].results = append(r.recs[i-1].results, c06ResultKeys(res))
	}
	if len(r.recs) > 0 {
		last := &r.recs[len(r.recs)-1]
		last.exports = append(last.exports, D.exportHash())
	}
	// ---- the Coq case ----
	var bterms []string
	for _, rec := range r.recs {
		var hs, exps, rs []string
		for i := range rec.hash {
			hs = append(hs, Zi(r.intern.idx("h:"+rec.hash[i])))
			var one []string
			for _, k := range rec.results[i] {
				one = append(one, Zi(r.intern.idx("r:"+k)))
			}
			rs = append(rs, L(one))
		}
		for _, x := range rec.exports {
			exps = append(exps, Zi(r.intern.idx("e:"+x)))
		}
		bterms = append(bterms, App("mkBO", rec.blkTerm, Zi(rec.height), L(hs), L(rs), L(exps), L(rec.codes), rec.postTerm))
	}
	var accts, denoms []string
	for _, ac := range w.cs.acodes {
		if ac == "M1" || ac == "M2" { // fee collector and distribution: swept / fed by x/distribution in every block
			continue
		}
		accts = append(accts, csAcctTerm(ac))
	}
	for _, dc := range w.cs.dcodes {
		denoms = append(denoms, csDenomTerm(dc))
	}
	term := App("mkChainCase", Zi(int64(rank["day"])), c06Str(w.gov), c06Str(c06Denom), L(accts), L(denoms), Z(TimeNs(t0)), initTerm, L(bterms))
	e.AddCase("check_case", term, kase)
	e.Stats.Sample(kase)
	if r.sig.Len() > 0 {
		e.Stats.Nontrivial(r.sig.String())
	}
}

func c06Run(e *Env) {
	e.Header("From Coq Require Import ZArith List Bool.\nFrom Canto Require Import Model.Epochs Model.Coinswap Model.Chain Check.Common Check.CoinswapCheck Check.ChainCheck.\nFrom Canto Require Model.Inflation Model.Csr Model.Authority.\nImport ListNotations.\nOpen Scope Z_scope.\n")
	e.Stats.Rule = "case = generated genesis (coinswap params, user funds, inflation on/off, epochs per period 1..30, staking/community split, optional hour epoch, csr share; in every third case (stratified) CSR is DISABLED in genesis with no prepared Turnstile: a governance proposal enables it and csr's own BeginBlock deploys the Turnstile inside a block) on a chain with a genuine bonded genesis validator + a history of 14..28 blocks (quick) whose times step by seconds / hours / exactly-at, 1ns before, 1ns after an epoch end / days / weeks, each with 0..6 signed transactions: coinswap swaps and liquidity, bank sends, ConvertCoin/ConvertERC20, Ethereum transactions (ERC20 transfer to the erc20 module = erc20 hook, contract creation that registers with the Turnstile, calls of registered contracts = csr fee split, register through the CSR test contract), governance proposals (submit, vote, execution in EndBlocker) updating coinswap/inflation/csr/erc20 params, govshuttle lending-market proposals (the first deploys the ProposalStore contract in the EndBlocker) and erc20 RegisterCoin proposals (contract deployment in the EndBlocker), user-signed MsgUpdateParams, wrong-sequence and garbage bytes, and (rarely) an Ethereum transaction with a gas price nobody can pay followed by transactions of the same sender (refused by the ante handler for their sequence number); the SAME bytes are executed through FinalizeBlock+Commit on replica A (plain), B (NewCanto on the same DB + LoadLatestVersion after every block), C (gRPC queries of every Canto module incl. historical heights and proofs, eth_call/estimateGas, CheckTx new/recheck of valid, corrupted and garbage transactions, Simulate, Prepare/ProcessProposal before every block) D (fresh application afterwards) and, in half of the cases, E (restarted from its database exactly ONCE at a random boundary); AppHash, result (code, codespace, data, gas) and exported genesis compared at every height; the projection (read on C; A and D see nothing but blocks) compared with the node model; non-trivial = at least one accepted transaction or epoch tick; distinct by hash of accepted kinds and ticks"
	e.ShardSize = 1
	if e.Replay == nil {
		c06StaticScan(e)
	}
	nCases := e.Scale(8, 80)
	if e.Tier == "search" {
		nCases = 12
	}
	if e.Replay != nil {
		var kase c06Case
		mustUnmarshal(e.Replay, &kase)
		c06RunCase(e, 0, &kase, true)
		return
	}
	for c := 0; c < nCases; c++ {
		var kase c06Case
		c06RunCase(e, c, &kase, false)
	}
}
