//go:build verif

package harness

// C18, stream "guard-overflow-params": regression test for the finding "export of a reachable state
// not importable".  Governance (MsgUpdateParams with the gov authority, through the message router)
// submits exponential-calculation parameters that pass every range check of x/inflation but for
// which CalculateEpochMintProvision overflows LegacyDec (315 bits).
//   - Repaired code (validateExponentialCalculation evaluates the worst case of the provision,
//     provisionComputable): UpdateParams REJECTS the three parameter sets, the state stays an
//     ordinary one, export / import / export go through and every monitor is quiet.
//   - Code before the repair: the parameters were accepted and stored (UpdateParams does not
//     recompute the provision, so the chain kept running), the module's ValidateGenesis accepted the
//     export, InitGenesis recomputed the provision and panicked ("Int overflow"): the monitor
//     export-of-reachable-state-not-importable fires; the running chain panicked the same way in
//     BeginBlocker at the next period boundary (recorded by guardProbe on a discarded branch).
//
// The case JSON of this stream carries the marker "guard-overflow-params" (its stream name); no
// other stream and no operation kind of other streams contains that string.

import (
	"fmt"
	"math/big"
	"strings"
	"time"

	sdkmath "cosmossdk.io/math"
	sdk "github.com/cosmos/cosmos-sdk/types"

	epochstypes "github.com/Canto-Network/Canto/v8/x/epochs/types"
	inflationtypes "github.com/Canto-Network/Canto/v8/x/inflation/types"
)

const c18GuardStream = "guard-overflow-params"

// the variants of overflowing but validator-accepted ExponentialCalculation values
func c18GuardCalc(variant int) inflationtypes.ExponentialCalculation {
	dec := func(raw *big.Int) sdkmath.LegacyDec { return sdkmath.LegacyNewDecFromBigIntWithPrec(raw, 18) }
	pow2 := func(n uint) *big.Int { return new(big.Int).Lsh(big.NewInt(1), n) }
	pow10 := func(n int64) *big.Int { return new(big.Int).Exp(big.NewInt(10), big.NewInt(n), nil) }
	switch variant % 3 {
	case 0: // the witness of Proofs/GenesisProofs.v import_without_guard_refuted: A = 2^314 (raw), MaxVariance = 3
		return inflationtypes.ExponentialCalculation{A: dec(pow2(314)), R: sdkmath.LegacyZeroDec(), C: sdkmath.LegacyZeroDec(),
			BondingTarget: sdkmath.LegacyNewDecWithPrec(8, 1), MaxVariance: sdkmath.LegacyNewDec(3)}
	case 1: // a "round" initial value: A = 10^62 tokens per period, no variance; the final scaling by 10^18 overflows
		return inflationtypes.ExponentialCalculation{A: dec(pow10(62 + 18)), R: sdkmath.LegacyNewDecWithPrec(35, 2), C: sdkmath.LegacyZeroDec(),
			BondingTarget: sdkmath.LegacyNewDecWithPrec(8, 1), MaxVariance: sdkmath.LegacyZeroDec()}
	default: // moderate A, absurd variance: the product exponentialDecay * bondingIncentive overflows
		return inflationtypes.ExponentialCalculation{A: dec(pow10(30 + 18)), R: sdkmath.LegacyNewDecWithPrec(35, 2), C: sdkmath.LegacyNewDec(1),
			BondingTarget: sdkmath.LegacyNewDecWithPrec(8, 1), MaxVariance: dec(pow10(40 + 18))}
	}
}

func (e *Env) c18GuardCases() []c18Case {
	var out []c18Case
	for v := 0; v < e.Scale(3, 3); v++ {
		k := c18Case{Stream: c18GuardStream, GenOffset: e.Rng.Int63n(1_000_000_000), Epp: []int64{1, 2, 30}[v%3]}
		add := func(kind string, a int) { k.Ops = append(k.Ops, c18Op{Kind: kind, A: a, Seed: e.Rng.Int63()}) }
		add("params-inflation", 0) // ordinary parameters, inflation enabled
		for i := 0; i < e.Pick(3); i++ {
			add("advance", 1)
		}
		add("params-inflation-overflow", v)
		add("advance", 0)
		out = append(out, k)
	}
	return out
}

// execGuard: the operation kinds of this stream
func (r *c18Run) execGuard(op c18Op) bool {
	if op.Kind != "params-inflation-overflow" {
		return false
	}
	ch := r.ch
	p := ch.a.InflationKeeper.GetParams(ch.cur())
	p.EnableInflation = true
	p.ExponentialCalculation = c18GuardCalc(op.A)
	verr := p.Validate()
	err := ch.send(&inflationtypes.MsgUpdateParams{Authority: c18Gov, Params: p})
	got := ch.a.InflationKeeper.GetParams(ch.cur()).ExponentialCalculation
	stored := got.A.Equal(p.ExponentialCalculation.A) && got.MaxVariance.Equal(p.ExponentialCalculation.MaxVariance)
	r.e.Stats.Count(fmt.Sprintf("guard:params-validate-accepts:%v", verr == nil))
	r.e.Stats.Count(fmt.Sprintf("guard:update-params-accepted:%v stored:%v", err == nil, stored))
	r.count(op, err)
	return true
}

// guardProbe runs on every case of the stream after the export: does the RUNNING chain survive the
// next period boundary?  Executed on a branch of the live context that is thrown away.
func (r *c18Run) guardProbe() (halts bool, after int, msg string) {
	ch := r.ch
	a := ch.a
	ctx, _ := ch.cur().CacheContext()
	now, h := ch.now, ch.h
	period0 := a.InflationKeeper.GetPeriod(ctx)
	for i := 1; i <= 70; i++ {
		now = now.Add(25 * time.Hour)
		h++
		bctx := ctx.WithBlockTime(now).WithBlockHeight(h)
		var perr error
		func() {
			defer func() {
				if rec := recover(); rec != nil {
					perr = fmt.Errorf("%v", rec)
				}
			}()
			perr = a.EpochsKeeper.BeginBlocker(bctx)
		}()
		if perr != nil {
			return true, i, perr.Error()
		}
		if a.InflationKeeper.GetPeriod(bctx) != period0 {
			return false, i, "period advanced without a panic"
		}
	}
	return false, 70, "no period boundary reached"
}

// guardReport records what the real code did on a case of this stream (goes into stats.json / the evidence).
func (r *c18Run) guardReport(c int, k c18Case, infValid bool, imported bool, failure string) {
	if k.Stream != c18GuardStream {
		return
	}
	halts, after, msg := r.guardProbe()
	short := func(s string) string {
		s = strings.ReplaceAll(s, "\n", " ")
		if len(s) > 160 {
			s = s[:160]
		}
		return s
	}
	day, _ := r.ch.a.EpochsKeeper.GetEpochInfo(r.ch.cur(), epochstypes.DayEpochID)
	r.e.Stats.Count(fmt.Sprintf("guard:inflation-ValidateGenesis-accepts-export:%v", infValid))
	r.e.Stats.Count(fmt.Sprintf("guard:InitChain-from-export-succeeds:%v", imported))
	r.e.Stats.Count(fmt.Sprintf("guard:running-chain-panics-at-next-period-boundary:%v", halts))
	r.e.Stats.Notes = append(r.e.Stats.Notes, fmt.Sprintf(
		"guard case %d (epochs_per_period %d, day epoch %d): inflation ValidateGenesis on the export ok=%v; InitChain from the export ok=%v (%s); running chain: BeginBlocker panics=%v after %d more day blocks (%s)",
		c, k.Epp, day.CurrentEpoch, infValid, imported, short(failure), halts, after, short(msg)))
}

var _ = sdk.Context{}
