//go:build verif

package harness

// C03 — Ethereum transactions whose receipt carries SEVERAL logs (model op EvmTx).
//
// PostTxProcessing walks over every log of a receipt.  An externally owned account that
// calls `transfer` produces exactly one log; a contract account (a router, a vault, a
// multisig) may call several token contracts several times in one transaction.  Two ways of
// producing such receipts on the real code:
//
//   via "vault"  : a real multicall contract (hand-assembled, c03VaultCode) deployed in the
//                  world holds tokens of every pair and holds an allowance of every holder.
//                  A holder signs ONE Ethereum transaction to it (EvmKeeper.EthereumTx, the
//                  hooks run inside ApplyTransaction on the real receipt); the vault calls
//                  transfer (sender = the vault, an account with code), transferFrom
//                  (sender = a holder; OpenZeppelin 4.4 also emits an Approval log for the
//                  reduced allowance), approve, and the same on an unregistered ERC-20.
//   via "keeper-create" : as "keeper", but the message handed to the hooks has no callee: a contract-creation
//                  transaction whose constructor made the calls.
//   via "keeper" : as the repository's own hook tests do: every call is executed for real
//                  (Erc20Keeper.CallEVM, commit) as its sender - which may be an account
//                  without a key: the vault, another module account (a BLOCKED address) or,
//                  on the unregistered contract only, the erc20 module address itself - the
//                  logs are collected and ONE receipt with all of them is handed to
//                  Erc20Keeper.Hooks().PostTxProcessing.  A failing call fails the whole
//                  operation (nothing is written), like a reverting transaction.

import (
	"errors"
	"fmt"
	"math/big"

	sdk "github.com/cosmos/cosmos-sdk/types"
	"github.com/ethereum/go-ethereum/common"
	ethtypes "github.com/ethereum/go-ethereum/core/types"
	ethcrypto "github.com/ethereum/go-ethereum/crypto"
	"github.com/evmos/ethermint/tests"
	evm "github.com/evmos/ethermint/x/evm/types"

	erc20keeper "github.com/Canto-Network/Canto/v8/x/erc20/keeper"
)

const c03VaultGasLimit = uint64(2_000_000)

// one call of a multi-log transaction and the log it emits
type c03Leg struct {
	Kind string `json:"kind"` // transfer | approve | foreign (Transfer on the unregistered contract)
	Pair int    `json:"pair"`
	From int    `json:"from"` // party index: sender of the tokens / owner of the approval
	To   int    `json:"to"`   // party index: destination / spender
	Amt  string `json:"amt"`
}

// c03VaultCode assembles the creation code of a minimal multicall contract.  Runtime: the
// call data is a sequence of records [32 bytes target][32 bytes n][n bytes payload]; for
// each record CALL(target, payload) is performed, and the whole transaction reverts if one
// call fails.  Anybody may call it (like a public router).
func c03VaultCode() []byte {
	const (
		STOP, ADD, LT, ISZERO                     = 0x00, 0x01, 0x10, 0x15
		CALLDATALOAD, CALLDATASIZE, CALLDATACOPY  = 0x35, 0x36, 0x37
		CODECOPY, POP, JUMP, JUMPI, GAS, JUMPDEST = 0x39, 0x50, 0x56, 0x57, 0x5a, 0x5b
		PUSH1, DUP1, DUP2, DUP3, DUP4, DUP7       = 0x60, 0x80, 0x81, 0x82, 0x83, 0x86
		SWAP1, CALL, RETURN, REVERT               = 0x90, 0xf1, 0xf3, 0xfd
	)
	type item struct {
		b     byte
		label string // "name:" defines, "@name" pushes the offset
	}
	op := func(b byte) item { return item{b: b} }
	prog := []item{
		op(PUSH1), op(0), // pos
		{label: "loop:"}, op(JUMPDEST),
		op(CALLDATASIZE), op(DUP2), op(LT), op(ISZERO), op(PUSH1), {label: "@end"}, op(JUMPI), // pos >= size: done
		op(DUP1), op(CALLDATALOAD), // pos target
		op(DUP2), op(PUSH1), op(0x20), op(ADD), op(CALLDATALOAD), // pos target n
		op(DUP1), op(DUP4), op(PUSH1), op(0x40), op(ADD), op(PUSH1), op(0), op(CALLDATACOPY), // mem[0:n] = payload
		op(PUSH1), op(0), op(PUSH1), op(0), op(DUP3), op(PUSH1), op(0), op(PUSH1), op(0), op(DUP7), op(GAS), op(CALL), // pos target n success
		op(ISZERO), op(PUSH1), {label: "@fail"}, op(JUMPI),
		op(SWAP1), op(POP), op(ADD), op(PUSH1), op(0x40), op(ADD), // pos + n + 64
		op(PUSH1), {label: "@loop"}, op(JUMP),
		{label: "end:"}, op(JUMPDEST), op(STOP),
		{label: "fail:"}, op(JUMPDEST), op(PUSH1), op(0), op(PUSH1), op(0), op(REVERT),
	}
	labels := map[string]int{}
	n := 0
	for _, it := range prog {
		if l := it.label; l != "" && l[len(l)-1] == ':' {
			labels[l[:len(l)-1]] = n
			continue
		}
		n++
	}
	var rt []byte
	for _, it := range prog {
		switch {
		case it.label == "":
			rt = append(rt, it.b)
		case it.label[0] == '@':
			off, ok := labels[it.label[1:]]
			if !ok || off > 255 {
				panic("c03VaultCode: label " + it.label)
			}
			rt = append(rt, byte(off))
		}
	}
	if len(rt) > 255 {
		panic("c03VaultCode: runtime too long")
	}
	init := []byte{PUSH1, byte(len(rt)), PUSH1, 12, PUSH1, 0, CODECOPY, PUSH1, byte(len(rt)), PUSH1, 0, RETURN}
	return append(init, rt...)
}

// c03AddContracts extends a prepared world (after the prelude) with
//   - the vault: a contract account that holds tokens of every pair (party "contract:vault",
//     appended after the zero address so that the indices of the other parties do not move),
//     with an unlimited allowance of every holder on every pair contract;
//   - an unregistered copy of ERC20MinterBurnerDecimals ("rogue"), on which every holder,
//     the vault and the erc20 module address own a practically unlimited balance;
//   - existing accounts for every module account (a sender of a keeper-level call needs one).
func (w *c03World) c03AddContracts(unit *big.Int) {
	a, ctx := w.A, w.Ctx
	deployer := 1
	p := w.Parties[deployer]
	chainID := a.EvmKeeper.ChainID()
	nonce := a.EvmKeeper.GetNonce(ctx, p.Addr)
	baseFee := a.FeeMarketKeeper.GetBaseFee(ctx)
	if baseFee == nil {
		baseFee = big.NewInt(0)
	}
	tx := evm.NewTxContract(chainID, nonce, nil, c03VaultGasLimit, nil, baseFee, big.NewInt(1), c03VaultCode(), &ethtypes.AccessList{})
	tx.From = p.Addr.Hex()
	c03Must(tx.Sign(ethtypes.LatestSignerForChainID(chainID), tests.NewSigner(p.Priv)))
	rsp, err := a.EvmKeeper.EthereumTx(ctx, tx)
	c03Must(err)
	if rsp.Failed() {
		panic("vault deployment failed: " + rsp.VmError)
	}
	vault := ethcrypto.CreateAddress(p.Addr, nonce)
	if acc := a.EvmKeeper.GetAccountWithoutBalance(ctx, vault); acc == nil || !acc.IsContract() {
		panic("the vault is not an account with code")
	}
	w.VaultIdx = len(w.Parties)
	w.Parties = append(w.Parties, c03Party{Name: "contract:vault", Addr: vault, Contract: true})
	if a.BankKeeper.BlockedAddr(sdk.AccAddress(vault.Bytes())) {
		w.Fails = append(w.Fails, "the vault contract is a blocked address")
	}

	// the unregistered token
	owner := w.Parties[0]
	rogue, err := erc20keeper.DeployContract(ctx, a.EvmKeeper, a.FeeMarketKeeper, owner.Addr, tests.NewSigner(owner.Priv), "Rogue", "ROGUE", 18)
	c03Must(err)
	if len(a.Erc20Keeper.GetTokenPairIdByERC20Addr(ctx, rogue)) != 0 {
		panic("the rogue contract is registered")
	}
	w.Rogue, w.HasRogue = rogue, true
	huge := new(big.Int).Lsh(big.NewInt(1), 200)
	for i := 0; i <= w.ModIdx; i++ {
		_, err := a.Erc20Keeper.CallEVM(ctx, w.ABI, owner.Addr, rogue, true, "mint", w.Parties[i].Addr, huge)
		c03Must(err)
	}
	_, err = a.Erc20Keeper.CallEVM(ctx, w.ABI, owner.Addr, rogue, true, "mint", vault, huge)
	c03Must(err)

	// allowances of the holders for the vault
	max := new(big.Int).Sub(new(big.Int).Lsh(big.NewInt(1), 256), big.NewInt(1))
	tokens := []common.Address{rogue}
	for _, pr := range w.Pairs {
		tokens = append(tokens, pr.Contract)
	}
	for h := 0; h < w.NHold; h++ {
		for _, t := range tokens {
			_, err := a.Erc20Keeper.CallEVM(ctx, w.ABI, w.Parties[h].Addr, t, true, "approve", vault, max)
			c03Must(err)
		}
	}
	// module accounts exist
	for i := w.ModIdx; i < w.ZeroIdx; i++ {
		name := w.Parties[i].Name[len("module:"):]
		if addr, _ := a.AccountKeeper.GetModuleAddressAndPermissions(name); addr != nil {
			a.AccountKeeper.GetModuleAccount(ctx, name)
		}
	}
	// the vault receives tokens of every pair, in ordinary transfers by the holders
	for pi := range w.Pairs {
		for h := 0; h < w.NHold; h++ {
			amt := new(big.Int).Mul(unit, big.NewInt(int64(60+20*h))).String()
			if !w.apply(ctx, c03Op{Kind: "transfer", Pair: pi, From: h, To: w.VaultIdx, Amt: amt}) {
				panic("funding the vault failed")
			}
		}
	}
	// self-test of the hand-assembled contract: two calls in one transaction move the tokens
	test, _ := ctx.CacheContext()
	before := a.Erc20Keeper.BalanceOf(test, w.ABI, w.Pairs[0].Contract, w.Parties[0].Addr)
	if !w.apply(test, c03Op{Kind: "receipt", Via: "vault", From: 2, Pair: 0, Legs: []c03Leg{
		{Kind: "transfer", Pair: 0, From: w.VaultIdx, To: 0, Amt: "3"}, {Kind: "transfer", Pair: 0, From: 1, To: 0, Amt: "4"}}}) {
		panic("vault self-test: transaction failed")
	}
	after := a.Erc20Keeper.BalanceOf(test, w.ABI, w.Pairs[0].Contract, w.Parties[0].Addr)
	if new(big.Int).Sub(after, before).Int64() != 7 {
		panic("vault self-test: the two calls did not move 3 + 4 tokens")
	}
	if w.apply(test, c03Op{Kind: "receipt", Via: "vault", From: 2, Pair: 0, Legs: []c03Leg{
		{Kind: "transfer", Pair: 0, From: w.VaultIdx, To: 0, Amt: "3"}, {Kind: "transfer", Pair: 0, From: w.VaultIdx, To: w.ZeroIdx, Amt: "1"}}}) {
		panic("vault self-test: a failing inner call did not revert the transaction")
	}
}

func (w *c03World) c03LegContract(l c03Leg) common.Address {
	if l.Kind == "foreign" {
		return w.Rogue
	}
	return w.Pairs[l.Pair].Contract
}

// c03Receipt executes a "receipt" operation; ok = the transaction was executed (not reverted)
func (w *c03World) c03Receipt(ctx sdk.Context, o c03Op) (bool, error) {
	switch o.Via {
	case "vault":
		if w.VaultIdx < 0 {
			return false, errors.New("world without vault")
		}
		vault := w.Parties[w.VaultIdx].Addr
		var data []byte
		for _, l := range o.Legs {
			amt := c03Big(l.Amt)
			to := w.Parties[l.To].Addr
			var payload []byte
			var err error
			switch {
			case l.Kind == "approve":
				if l.From != w.VaultIdx {
					return false, fmt.Errorf("vault transaction: approval by %s", w.Parties[l.From].Name)
				}
				payload, err = w.ABI.Pack("approve", to, amt)
			case l.From == w.VaultIdx:
				payload, err = w.ABI.Pack("transfer", to, amt)
			case l.From < w.NHold:
				payload, err = w.ABI.Pack("transferFrom", w.Parties[l.From].Addr, to, amt)
			default:
				return false, fmt.Errorf("vault transaction: sender %s gave no allowance", w.Parties[l.From].Name)
			}
			if err != nil {
				return false, err
			}
			data = append(data, common.LeftPadBytes(w.c03LegContract(l).Bytes(), 32)...)
			data = append(data, common.LeftPadBytes(big.NewInt(int64(len(payload))).Bytes(), 32)...)
			data = append(data, payload...)
		}
		return w.sendEvmGas(ctx, o.From, vault, data, c03VaultGasLimit)
	case "keeper", "keeper-create":
		var logs []*ethtypes.Log
		for _, l := range o.Legs {
			method := "transfer"
			if l.Kind == "approve" {
				method = "approve"
			}
			res, err := w.A.Erc20Keeper.CallEVM(ctx, w.ABI, w.Parties[l.From].Addr, w.c03LegContract(l), true, method, w.Parties[l.To].Addr, c03Big(l.Amt))
			if err != nil {
				return false, err // a failing call: the transaction reverts, nothing is written
			}
			logs = append(logs, evm.LogsToEthereum(res.Logs)...)
		}
		to := w.c03LegContract(o.Legs[0])
		toPtr := &to
		if o.Via == "keeper-create" {
			// a contract-creation transaction (no callee) whose constructor made the calls
			toPtr = nil
		}
		msg := ethtypes.NewMessage(w.Parties[o.Legs[0].From].Addr, toPtr, 0, big.NewInt(0), 0, big.NewInt(0), big.NewInt(0), big.NewInt(0), []byte{}, ethtypes.AccessList{}, true)
		if err := w.A.Erc20Keeper.Hooks().PostTxProcessing(ctx, msg, &ethtypes.Receipt{Status: ethtypes.ReceiptStatusSuccessful, Logs: logs}); err != nil {
			return false, err
		}
		return true, nil
	}
	return false, errors.New("receipt: unknown via " + o.Via)
}

func (w *c03World) c03LegTerm(l c03Leg) string {
	n := w.pname
	switch l.Kind {
	case "transfer":
		return App("LTransfer", Zi(int64(l.Pair)), n(l.From), n(l.To), c03Z(c03Big(l.Amt)))
	case "approve":
		return App("LApprove", Zi(int64(l.Pair)), n(l.From), n(l.To), c03Z(c03Big(l.Amt)))
	case "foreign":
		return App("LForeign", n(l.From), n(l.To), c03Z(c03Big(l.Amt)))
	}
	panic("unknown leg kind " + l.Kind)
}

func (w *c03World) c03IsBlocked(i int) bool {
	for _, b := range w.Blocked {
		if b == i {
			return true
		}
	}
	return false
}

// c03ReceiptStats: input distribution of one receipt operation; returns the ghost increments
// (stuck, per pair) of a successful receipt executed in the observed state cur
func (w *c03World) c03ReceiptStats(e *Env, o c03Op, ok bool, cur c03Obs) map[int]*big.Int {
	stuck := map[int]*big.Int{}
	toMod := map[int]int{}
	pairs := map[int]bool{}
	nToMod, contractSender, blockedSender := 0, false, false
	for _, l := range o.Legs {
		amt := c03Big(l.Amt)
		switch l.Kind {
		case "approve":
			e.Stats.Count("leg:approval")
			if l.To == w.ModIdx && amt.Sign() > 0 {
				e.Stats.Count("leg:approval-naming-the-module-address")
			}
			pairs[l.Pair] = true
		case "foreign":
			e.Stats.Count("leg:unregistered-contract")
			if l.From == w.ModIdx {
				e.Stats.Count("leg:unregistered-contract:from-the-module-address")
			}
			if l.To == w.ModIdx {
				e.Stats.Count("leg:unregistered-contract:to-the-module-address")
			}
		case "transfer":
			pairs[l.Pair] = true
			kind := "module-owned"
			if w.Pairs[l.Pair].External {
				kind = "external"
			}
			if l.To != w.ModIdx {
				e.Stats.Count("leg:transfer-elsewhere")
				break
			}
			e.Stats.Count("leg:transfer-to-module:" + kind)
			if amt.Sign() == 0 {
				e.Stats.Count("leg:transfer-to-module:zero-amount")
				break
			}
			nToMod++
			toMod[l.Pair]++
			if w.Parties[l.From].Contract {
				contractSender = true
				e.Stats.Count("leg:transfer-to-module:sender-has-code:" + kind)
			}
			if w.c03IsBlocked(l.From) {
				blockedSender = true
				e.Stats.Count("leg:transfer-to-module:sender-blocked:" + kind)
				if !w.Pairs[l.Pair].External && cur.Mod && cur.Hook && cur.Pairs[l.Pair].Enabled {
					if stuck[l.Pair] == nil {
						stuck[l.Pair] = big.NewInt(0)
					}
					stuck[l.Pair].Add(stuck[l.Pair], amt)
				}
			}
		}
	}
	cls := ":rejected"
	if ok {
		cls = ":ok"
	}
	e.Stats.Count("receipt:via-" + o.Via + cls)
	e.Stats.Count(fmt.Sprintf("receipt:calls=%d", len(o.Legs)))
	e.Stats.Count(fmt.Sprintf("receipt:positive-transfers-to-module=%d%s", nToMod, cls))
	e.Stats.Count("receipt:all" + cls)
	if len(o.Legs) >= 2 {
		e.Stats.Count("receipt:two-or-more-logs" + cls)
	}
	same := false
	for _, k := range toMod {
		if k >= 2 {
			same = true
		}
	}
	if same {
		e.Stats.Count("receipt:two-or-more-transfers-to-module-of-one-contract" + cls)
	}
	if len(pairs) >= 2 {
		e.Stats.Count("receipt:several-registered-contracts" + cls)
	}
	if contractSender {
		e.Stats.Count("receipt:transfer-to-module-by-account-with-code" + cls)
	}
	if blockedSender {
		e.Stats.Count("receipt:transfer-to-module-by-blocked-address" + cls)
	}
	if !ok {
		return nil
	}
	return stuck
}

// c03GenReceipt draws a multi-log transaction looking at the current observation
func (w *c03World) c03GenReceipt(e *Env, parties []int, cur c03Obs) c03Op {
	pos := map[int]int{}
	for i, p := range parties {
		pos[p] = i
	}
	via := "keeper"
	if e.Chance(0.4) {
		via = "vault"
	}
	n := 2 + e.Pick(3)
	switch r := e.Pick(100); {
	case r < 7:
		n = 1
	case r < 13:
		n = 5
	}
	main := e.Pick(len(w.Pairs))
	// running token balances inside the transaction
	type key struct{ pair, party int }
	run := map[key]*big.Int{}
	bal := func(pair, party int) *big.Int {
		k := key{pair, party}
		if run[k] == nil {
			run[k] = big.NewInt(0)
			if i, ok := pos[party]; ok {
				run[k] = new(big.Int).Set(cur.Pairs[pair].TBal[i])
			}
		}
		return run[k]
	}
	var mods []int
	for _, p := range parties {
		if w.Parties[p].Module && p != w.ModIdx {
			mods = append(mods, p)
		}
	}
	holder := func() int { return e.Pick(w.NHold) }
	last := -1
	var legs []c03Leg
	for len(legs) < n {
		pair := main
		if e.Chance(0.25) {
			pair = e.Pick(len(w.Pairs))
		}
		r := e.Pick(100)
		switch {
		case r < 11: // approval: same layout as Transfer, another event
			owner := holder()
			if via == "vault" || e.Chance(0.3) {
				owner = w.VaultIdx
			}
			spender := w.ModIdx
			switch x := e.Pick(100); {
			case x < 25:
				spender = (owner + 1 + e.Pick(w.NHold-1)) % w.NHold
				if owner == w.VaultIdx {
					spender = holder()
				}
			case x < 28:
				spender = w.ZeroIdx // reverts
			}
			amt := e.Mag(80)
			if e.Chance(0.15) {
				amt = big.NewInt(0)
			}
			legs = append(legs, c03Leg{Kind: "approve", Pair: pair, From: owner, To: spender, Amt: amt.String()})
		case r < 22: // a Transfer log of a contract that is not registered
			from := holder()
			switch x := e.Pick(100); {
			case x < 35:
				from = w.VaultIdx
			case x < 60 && via == "keeper":
				from = w.ModIdx // "the module itself" as sender: possible on a foreign contract only
			}
			to := w.ModIdx
			if e.Chance(0.25) {
				to = holder()
			}
			amt := new(big.Int).Add(e.Below(big.NewInt(1_000_000)), big.NewInt(0))
			legs = append(legs, c03Leg{Kind: "foreign", From: from, To: to, Amt: amt.String()})
		default:
			var from int
			x := e.Pick(100)
			switch {
			case last >= 0 && x < 40:
				from = last // several logs of the same sender
			case x < 62:
				from = w.VaultIdx
			case x < 86 || via == "vault" || len(mods) == 0:
				from = holder()
			default:
				from = mods[e.Pick(len(mods))] // a blocked address as sender (keeper level only)
				if bal(pair, from).Sign() == 0 {
					from = holder()
				}
			}
			last = from
			var to int
			switch y := e.Pick(100); {
			case y < 60:
				to = w.ModIdx
			case y < 76:
				to = holder()
			case y < 84:
				to = w.VaultIdx
			case y < 89:
				to = from
			case y < 98 && len(mods) > 0:
				to = mods[e.Pick(len(mods))]
			case y < 98:
				to = holder()
			default:
				to = w.ZeroIdx // reverts
			}
			b := bal(pair, from)
			var amt *big.Int
			switch z := e.Pick(100); {
			case z < 66:
				half := new(big.Int).Rsh(b, 1)
				if half.Sign() > 0 {
					amt = new(big.Int).Add(e.Below(half), big.NewInt(1))
				} else if b.Sign() > 0 {
					amt = big.NewInt(1)
				} else {
					amt = big.NewInt(0)
				}
			case z < 76:
				amt = new(big.Int).Set(b)
			case z < 85:
				amt = big.NewInt(0)
			case z < 91:
				amt = big.NewInt(1)
			case z < 95:
				amt = new(big.Int).Add(b, big.NewInt(1)) // reverts
			default:
				amt = e.Mag(100)
			}
			if amt.Cmp(b) <= 0 && to != w.ZeroIdx {
				b.Sub(b, amt)
				if to != from {
					bal(pair, to).Add(bal(pair, to), amt)
				} else {
					b.Add(b, amt)
				}
			}
			legs = append(legs, c03Leg{Kind: "transfer", Pair: pair, From: from, To: to, Amt: amt.String()})
		}
	}
	from := holder()
	if via == "keeper" && e.Chance(0.25) {
		via = "keeper-create" // the same calls made by the constructor of a contract-creation transaction
	}
	return c03Op{Kind: "receipt", Via: via, Pair: main, From: from, Legs: legs}
}

// c03ReceiptScript: scripted receipts for one pair, appended to the boundary script (the
// script ends with every switch on).  Amounts are computed from the observation.
func (w *c03World) c03ReceiptScript(pair int, parties []int) []func(cur c03Obs) c03Op {
	if w.VaultIdx < 0 {
		return nil
	}
	pos := map[int]int{}
	for i, p := range parties {
		pos[p] = i
	}
	const a, b = 1, 2
	v, mod := w.VaultIdx, w.ModIdx
	otherMod := -1
	for _, p := range parties {
		if w.Parties[p].Module && p != w.ModIdx {
			otherMod = p
		}
	}
	other := (pair + 1) % len(w.Pairs)
	tb := func(cur c03Obs, h int) *big.Int { return cur.Pairs[pair].TBal[pos[h]] }
	frac := func(x *big.Int, num, den int64) string {
		return new(big.Int).Div(new(big.Int).Mul(x, big.NewInt(num)), big.NewInt(den)).String()
	}
	T := func(from, to int, amt string) c03Leg {
		return c03Leg{Kind: "transfer", Pair: pair, From: from, To: to, Amt: amt}
	}
	R := func(via string, legs ...c03Leg) c03Op {
		return c03Op{Kind: "receipt", Via: via, Pair: pair, From: b, Legs: legs}
	}
	fixed := func(o c03Op) func(c03Obs) c03Op { return func(c03Obs) c03Op { return o } }
	return []func(cur c03Obs) c03Op{
		// the whole balance in two logs: second amount exactly what is left / one more than is left
		func(c c03Obs) c03Op {
			x := new(big.Int).Rsh(tb(c, 0), 1)
			return R("keeper", T(0, mod, x.String()), T(0, mod, new(big.Int).Add(new(big.Int).Sub(tb(c, 0), x), big.NewInt(1)).String()))
		},
		func(c c03Obs) c03Op {
			x := new(big.Int).Rsh(tb(c, a), 1)
			return R("keeper", T(a, mod, x.String()), T(a, mod, new(big.Int).Sub(tb(c, a), x).String()))
		},
		fixed(c03Op{Kind: "convert_coin", Pair: pair, From: 0, To: a, Amt: "40"}),
		fixed(c03Op{Kind: "convert_erc20", Pair: pair, From: 0, To: a, Amt: "40"}),
		// zero amount first, different holders, a holder-to-holder transfer in between
		func(c c03Obs) c03Op {
			return R("keeper", T(a, mod, "0"), T(a, mod, "1"), T(a, b, "2"), T(b, mod, "1"), T(0, mod, frac(tb(c, 0), 1, 10)))
		},
		// the vault (an account with code) sends twice in one real transaction
		func(c c03Obs) c03Op {
			return R("vault", T(v, mod, frac(tb(c, v), 1, 5)), T(v, mod, frac(tb(c, v), 1, 5)))
		},
		func(c c03Obs) c03Op {
			return R("vault", T(v, mod, frac(tb(c, v), 1, 4)), T(v, mod, frac(tb(c, v), 1, 4)), T(v, mod, frac(tb(c, v), 1, 4)), T(v, mod, "1"))
		},
		// vault and holders mixed, at keeper level and through transferFrom
		func(c c03Obs) c03Op { return R("keeper", T(v, mod, "5"), T(0, mod, "5"), T(v, 0, "1"), T(0, mod, "2")) },
		func(c c03Obs) c03Op {
			return R("vault", T(0, mod, "2"), c03Leg{Kind: "approve", Pair: pair, From: v, To: mod, Amt: "7"}, T(v, mod, "3"), T(a, mod, "1"))
		},
		// an approval naming the module, a log of an unregistered contract, then a transfer
		fixed(R("keeper", c03Leg{Kind: "approve", Pair: pair, From: a, To: mod, Amt: "100"},
			c03Leg{Kind: "foreign", From: a, To: mod, Amt: "5"}, T(a, mod, "1"),
			c03Leg{Kind: "foreign", From: mod, To: mod, Amt: "7"}, T(a, mod, "1"))),
		// a blocked sender in the middle: the hook continues with the next log
		fixed(c03Op{Kind: "transfer", Pair: pair, From: 0, To: otherMod, Amt: "9"}),
		fixed(R("keeper", T(0, mod, "1"), T(otherMod, mod, "2"), T(0, mod, "1"), T(otherMod, mod, "3"))),
		// two registered contracts in one receipt
		fixed(R("keeper", T(0, mod, "1"), c03Leg{Kind: "transfer", Pair: other, From: 0, To: mod, Amt: "1"}, T(0, mod, "1"),
			c03Leg{Kind: "transfer", Pair: other, From: v, To: mod, Amt: "2"})),
		// the hook with each switch off: several plain transfers
		fixed(c03Op{Kind: "params", B1: true, B2: false}),
		fixed(R("keeper", T(0, mod, "2"), T(v, mod, "1"))),
		fixed(c03Op{Kind: "params", B1: true, B2: true}),
		fixed(c03Op{Kind: "toggle", Pair: pair}),
		fixed(R("vault", T(0, mod, "2"), T(v, mod, "1"), c03Leg{Kind: "transfer", Pair: other, From: v, To: mod, Amt: "1"})),
		fixed(c03Op{Kind: "toggle", Pair: pair}),
		// tokens stranded on the module address while the hook was off are not converted later
		fixed(R("vault", T(v, mod, "1"), T(v, mod, "1"))),
	}
}
