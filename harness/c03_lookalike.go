//go:build verif

package harness

// C03 — coins that are merely NAMED like a registered pair's contract address.
//
// GetTokenPairID answers a string of 40 hex digits through the ERC-20 address index, so a
// MsgConvertCoin whose coin denomination spells a pair's contract address (no 0x, any letter
// case; a valid SDK denomination when the first digit is a-f) finds the pair although the coin
// is not the pair's coin.  ConvertCoin must refuse it (model: ConvertForeignCoin = rejected,
// nothing changes); if it does not, tokens of the pair are minted / released from escrow for
// coins that back nothing - the backing monitor fires.
//
// The C03 worlds therefore contain, for each kind, a pair whose contract address starts with
// a hex letter (the module's nonce is advanced / contracts are deployed until the address
// qualifies), and holders own such coins in a lower-case and in a mixed-case spelling.

import (
	"fmt"
	"math/big"
	"strings"

	sdkmath "cosmossdk.io/math"
	sdk "github.com/cosmos/cosmos-sdk/types"
	banktypes "github.com/cosmos/cosmos-sdk/x/bank/types"
	"github.com/ethereum/go-ethereum/common"
	ethcrypto "github.com/ethereum/go-ethereum/crypto"
	"github.com/evmos/ethermint/tests"

	coinswaptypes "github.com/Canto-Network/Canto/v8/x/coinswap/types"
	erc20keeper "github.com/Canto-Network/Canto/v8/x/erc20/keeper"
	erc20types "github.com/Canto-Network/Canto/v8/x/erc20/types"
)

// c03HexDenom: the 40 hex digits of the address, lower case, when that is a valid denomination
func c03HexDenom(a common.Address) (string, bool) {
	s := strings.ToLower(a.Hex()[2:])
	return s, s[0] >= 'a' && s[0] <= 'f' && sdk.ValidateDenom(s) == nil
}

// c03AddQualifyingPairs registers one more pair of each kind whose contract address starts
// with a hex letter (call before the prelude and c03AddContracts, which walk over w.Pairs).
func (w *c03World) c03AddQualifyingPairs(unit *big.Int) {
	a, ctx := w.A, w.Ctx
	thousand := new(big.Int).Mul(unit, big.NewInt(1000))
	// module-owned: the contract address is CreateAddress(module address, module nonce); committed
	// calls by the module (mint of 0 tokens on its first contract) advance the nonce
	first := -1
	for i, pr := range w.Pairs {
		if !pr.External {
			first = i
			break
		}
	}
	if first < 0 {
		panic("c03AddQualifyingPairs needs a module-owned pair")
	}
	for n := 0; ; n++ {
		nonce := a.EvmKeeper.GetNonce(ctx, erc20types.ModuleAddress)
		if _, ok := c03HexDenom(ethcrypto.CreateAddress(erc20types.ModuleAddress, nonce)); ok {
			break
		}
		if n > 200 {
			panic("no qualifying module-owned contract address")
		}
		_, err := a.Erc20Keeper.CallEVM(ctx, w.ABI, erc20types.ModuleAddress, w.Pairs[first].Contract, true, "mint", w.Parties[0].Addr, big.NewInt(0))
		c03Must(err)
		if a.EvmKeeper.GetNonce(ctx, erc20types.ModuleAddress) == nonce {
			panic("a committed call did not advance the module's nonce")
		}
	}
	d := "btoken"
	for h := 0; h < w.NHold; h++ {
		amt := sdk.NewCoins(sdk.NewCoin(d, sdkmath.NewIntFromBigInt(thousand)))
		c03Must(a.BankKeeper.MintCoins(ctx, coinswaptypes.ModuleName, amt))
		c03Must(a.BankKeeper.SendCoinsFromModuleToAccount(ctx, coinswaptypes.ModuleName, sdk.AccAddress(w.Parties[h].Addr.Bytes()), amt))
	}
	meta := banktypes.Metadata{Description: "native coin", Base: d, Name: d, Symbol: "NATQ", Display: "coinq",
		DenomUnits: []*banktypes.DenomUnit{{Denom: d, Exponent: 0}, {Denom: "coinq", Exponent: 18}}}
	pair, err := a.Erc20Keeper.RegisterCoin(ctx, meta)
	c03Must(err)
	if _, ok := c03HexDenom(pair.GetERC20Contract()); !ok || !pair.IsNativeCoin() {
		panic("the additional module-owned pair does not qualify: " + pair.Erc20Address)
	}
	w.Pairs = append(w.Pairs, c03Pair{Denom: d, Contract: pair.GetERC20Contract(), External: false, Owner: -1})

	// external: deploy copies until the address qualifies; only that one is registered
	owner := w.Parties[0]
	for n := 0; ; n++ {
		if n > 200 {
			panic("no qualifying external contract address")
		}
		addr, err := erc20keeper.DeployContract(ctx, a.EvmKeeper, a.FeeMarketKeeper, owner.Addr, tests.NewSigner(owner.Priv), "ExtQ", "EXTQ", 18)
		c03Must(err)
		if _, ok := c03HexDenom(addr); !ok {
			continue
		}
		pair, err := a.Erc20Keeper.RegisterERC20(ctx, addr)
		c03Must(err)
		for h := 0; h < w.NHold; h++ {
			_, err := a.Erc20Keeper.CallEVM(ctx, w.ABI, owner.Addr, addr, true, "mint", w.Parties[h].Addr, thousand)
			c03Must(err)
		}
		w.Pairs = append(w.Pairs, c03Pair{Denom: pair.Denom, Contract: addr, External: true, Owner: 0})
		break
	}
}

// c03MintLookalikes: for every pair whose address spelling is a valid denomination, holders 1
// and 2 receive 1000 units of the lower-case spelling, holders 0 and 2 of a mixed-case one.
func (w *c03World) c03MintLookalikes(unit *big.Int) {
	a, ctx := w.A, w.Ctx
	w.LookLower, w.LookMixed = map[int]string{}, map[int]string{}
	w.LookBal = new(big.Int).Mul(unit, big.NewInt(1000))
	kinds := map[bool]bool{}
	for i, pr := range w.Pairs {
		lower, ok := c03HexDenom(pr.Contract)
		if !ok {
			continue
		}
		mixed := pr.Contract.Hex()[2:] // EIP-55 spelling
		if mixed == lower {
			mixed = strings.ToUpper(lower[:1]) + lower[1:]
		}
		if sdk.ValidateDenom(mixed) != nil {
			panic("mixed-case spelling is not a denomination: " + mixed)
		}
		for _, g := range []struct {
			denom   string
			holders []int
		}{{lower, []int{1, 2}}, {mixed, []int{0, 2}}} {
			for _, h := range g.holders {
				amt := sdk.NewCoins(sdk.NewCoin(g.denom, sdkmath.NewIntFromBigInt(w.LookBal)))
				c03Must(a.BankKeeper.MintCoins(ctx, coinswaptypes.ModuleName, amt))
				c03Must(a.BankKeeper.SendCoinsFromModuleToAccount(ctx, coinswaptypes.ModuleName, w.acc(h), amt))
			}
		}
		// the name does resolve to the pair (otherwise the operation would test nothing)
		for _, dn := range []string{lower, mixed} {
			id := a.Erc20Keeper.GetTokenPairID(ctx, dn)
			tp, found := a.Erc20Keeper.GetTokenPair(ctx, id)
			if !found || tp.GetERC20Contract() != pr.Contract || tp.Denom == dn {
				panic("look-alike denomination does not resolve to the pair: " + dn)
			}
		}
		w.LookLower[i], w.LookMixed[i] = lower, mixed
		w.LookPairs = append(w.LookPairs, i)
		kinds[pr.External] = true
	}
	for _, ext := range []bool{false, true} {
		if !kinds[ext] {
			w.Notes = append(w.Notes, fmt.Sprintf("no pair with external=%v has a contract address that is a valid denomination: look-alike coins of that kind skipped", ext))
		}
	}
}

func (w *c03World) c03LookDenom(o c03Op) string {
	if o.Spell == "mixed" {
		return w.LookMixed[o.Pair]
	}
	return w.LookLower[o.Pair]
}

// c03GenLookalike draws a MsgConvertCoin with a look-alike coin
func (w *c03World) c03GenLookalike(e *Env, receiver func() int) c03Op {
	pair := w.LookPairs[e.Pick(len(w.LookPairs))]
	spell, owners := "lower", []int{1, 2}
	if e.Chance(0.45) {
		spell, owners = "mixed", []int{0, 2}
	}
	from := owners[e.Pick(2)]
	if e.Chance(0.08) {
		from = e.Pick(w.NHold) // possibly a holder who owns none of it
	}
	kind := "module-owned"
	if w.Pairs[pair].External {
		kind = "external"
	}
	e.Stats.Count("lookalike-coin:" + spell + "-case:" + kind)
	return c03Op{Kind: "convert_coin_lookalike", Pair: pair, From: from, To: receiver(), Amt: c03Amount(e, w.LookBal).String(), Spell: spell}
}

// c03LookalikeScript: boundary stream (every switch is on when it runs)
func (w *c03World) c03LookalikeScript(pair int) []func(cur c03Obs) c03Op {
	if w.LookLower[pair] == "" {
		return nil
	}
	fixed := func(o c03Op) func(c03Obs) c03Op { return func(c03Obs) c03Op { return o } }
	L := func(spell string, from, to int, amt *big.Int) func(c03Obs) c03Op {
		return fixed(c03Op{Kind: "convert_coin_lookalike", Pair: pair, From: from, To: to, Amt: amt.String(), Spell: spell})
	}
	b := w.LookBal
	one := big.NewInt(1)
	steps := []func(c03Obs) c03Op{
		L("lower", 1, 1, one),
		L("lower", 1, 2, new(big.Int).Rsh(b, 1)),
		L("lower", 2, 2, b),
		L("lower", 1, 1, new(big.Int).Add(b, one)),
		L("lower", 1, 1, big.NewInt(0)),
		L("mixed", 0, 0, one),
		L("mixed", 2, 1, new(big.Int).Rsh(b, 2)),
		L("mixed", 0, 0, b),
		L("mixed", 0, w.ModIdx, one),
		L("lower", 0, 0, one), // holder 0 owns no lower-case coin
		// the pair's own coin is still converted
		fixed(c03Op{Kind: "convert_coin", Pair: pair, From: 0, To: 0, Amt: "3"}),
	}
	if w.VaultIdx >= 0 {
		steps = append(steps, L("lower", 2, w.VaultIdx, one))
	}
	return steps
}
