//go:build verif

package harness

// Shared machinery of the erc20 suites (C03, C14): a prepared application with
// registered pairs of both kinds, the operations of the model executed on the real
// code (messages through the erc20 message server, holder calls as real signed
// Ethereum transactions through EvmKeeper.EthereumTx so that the post-tx hooks run),
// and the projection emitted as Coq terms.

import (
	"crypto/sha256"
	"fmt"
	"math/big"
	"sort"

	sdkmath "cosmossdk.io/math"
	sdk "github.com/cosmos/cosmos-sdk/types"
	authtypes "github.com/cosmos/cosmos-sdk/x/auth/types"
	bankkeeper "github.com/cosmos/cosmos-sdk/x/bank/keeper"
	banktypes "github.com/cosmos/cosmos-sdk/x/bank/types"
	"github.com/ethereum/go-ethereum/accounts/abi"
	"github.com/ethereum/go-ethereum/common"
	ethtypes "github.com/ethereum/go-ethereum/core/types"
	ethcrypto "github.com/ethereum/go-ethereum/crypto"
	"github.com/evmos/ethermint/crypto/ethsecp256k1"
	"github.com/evmos/ethermint/tests"
	evm "github.com/evmos/ethermint/x/evm/types"

	"github.com/Canto-Network/Canto/v8/app"
	"github.com/Canto-Network/Canto/v8/contracts"
	coinswaptypes "github.com/Canto-Network/Canto/v8/x/coinswap/types"
	erc20keeper "github.com/Canto-Network/Canto/v8/x/erc20/keeper"
	erc20types "github.com/Canto-Network/Canto/v8/x/erc20/types"
)

// the Coq constant Model.Erc20.MOD
const c03CoqMOD = "410661507958332025406385958229306956281279308448"

const c03GasLimit = uint64(400_000)

type c03Party struct {
	Name     string
	Addr     common.Address
	Priv     *ethsecp256k1.PrivKey // nil for module accounts
	Module   bool
	Contract bool // an account with code (C03: the vault)
}

type c03Pair struct {
	Denom    string
	Contract common.Address
	External bool
	Owner    int // party index of the deployer (external), -1 for module-owned
}

type c03World struct {
	ID      int
	A       *app.Canto
	Ctx     sdk.Context
	ABI     abi.ABI
	Parties []c03Party // holders first, then the erc20 module account, then every other module account, the zero address; C03 only: then the vault contract
	NHold   int
	ModIdx  int // index of the erc20 module account
	ZeroIdx int // index of the zero address (last party)
	Pairs   []c03Pair
	Blocked []int // party indices for which the bank says BlockedAddr
	BankMsg banktypes.MsgServer
	Notes   []string
	Fails   []string // hypotheses of the theorems that do not hold on the real app
	// C03 only (c03AddContracts): a contract account holding tokens, and an unregistered ERC-20
	// C03 only (c03MintLookalikes): coins named like a pair's contract address, per pair index
	LookLower, LookMixed map[int]string
	LookPairs            []int
	LookBal              *big.Int // what each owner of such a coin holds
	VaultIdx             int      // -1: none
	Rogue                common.Address
	HasRogue             bool
}

func c03Key(i int) *ethsecp256k1.PrivKey {
	h := sha256.Sum256([]byte(fmt.Sprintf("verif-erc20-holder-%d", i)))
	k, err := ethcrypto.ToECDSA(h[:])
	if err != nil {
		panic(err)
	}
	return &ethsecp256k1.PrivKey{Key: ethcrypto.FromECDSA(k)}
}

func c03Must(err error) {
	if err != nil {
		panic(err)
	}
}

// c03NewWorld prepares the application: nHold holders with accounts, nNative native
// coins registered through RegisterCoin (module-owned contracts), nExt copies of the
// shipped ERC20MinterBurnerDecimals deployed by holder 0 and registered through
// RegisterERC20, balances on both sides of every pair, and a well-funded fee collector.
func c03NewWorld(id, nHold, nNative, nExt int, unit *big.Int) *c03World {
	a, ctx := NewApp()
	w := &c03World{ID: id, A: a, Ctx: ctx, ABI: contracts.ERC20MinterBurnerDecimalsContract.ABI, NHold: nHold, VaultIdx: -1}
	w.BankMsg = bankkeeper.NewMsgServerImpl(a.BankKeeper)
	for i := 0; i < nHold; i++ {
		priv := c03Key(i)
		addr := common.BytesToAddress(priv.PubKey().Address().Bytes())
		w.Parties = append(w.Parties, c03Party{Name: fmt.Sprintf("holder%d", i), Addr: addr, Priv: priv})
		acc := a.AccountKeeper.NewAccountWithAddress(ctx, sdk.AccAddress(addr.Bytes()))
		a.AccountKeeper.SetAccount(ctx, acc)
	}
	w.ModIdx = len(w.Parties)
	w.Parties = append(w.Parties, c03Party{Name: "module:" + erc20types.ModuleName, Addr: erc20types.ModuleAddress, Module: true})
	// every module account of the application (app.ModuleAccountAddrs = keys of maccPerms)
	known := map[string]string{}
	for _, n := range []string{"fee_collector", "distribution", "bonded_tokens_pool", "not_bonded_tokens_pool", "gov", "transfer", "evm",
		"inflation", "erc20", "csr", "govshuttle", "onboarding", "coinswap", "mint", "ibc", "feemarket"} {
		known[authtypes.NewModuleAddress(n).String()] = n
	}
	var maccs []string
	for bech := range a.ModuleAccountAddrs() {
		maccs = append(maccs, bech)
	}
	sort.Strings(maccs)
	sawSelf := false
	for _, bech := range maccs {
		addr := sdk.MustAccAddressFromBech32(bech)
		if common.BytesToAddress(addr.Bytes()) == erc20types.ModuleAddress {
			sawSelf = true
			continue
		}
		name := known[bech]
		if name == "" {
			name = bech
		}
		w.Parties = append(w.Parties, c03Party{Name: "module:" + name, Addr: common.BytesToAddress(addr.Bytes()), Module: true})
	}
	if !sawSelf {
		w.Fails = append(w.Fails, "the erc20 module account is not among app.ModuleAccountAddrs")
	}
	// the Ethereum zero address: a possible receiver / destination (the contract refuses it)
	w.ZeroIdx = len(w.Parties)
	w.Parties = append(w.Parties, c03Party{Name: "zero-address", Addr: common.Address{}})
	// hypotheses of the theorems, checked on the real application
	if new(big.Int).SetBytes(erc20types.ModuleAddress.Bytes()).String() != c03CoqMOD {
		w.Fails = append(w.Fails, "erc20types.ModuleAddress differs from the Coq constant MOD")
	}
	for i, p := range w.Parties {
		bl := a.BankKeeper.BlockedAddr(sdk.AccAddress(p.Addr.Bytes()))
		if bl {
			w.Blocked = append(w.Blocked, i)
		}
		if p.Module && !bl {
			w.Fails = append(w.Fails, "module account "+p.Name+" is not a blocked address (hypothesis wf_blocked / 'every module account')")
		}
		if !p.Module && bl {
			w.Fails = append(w.Fails, "holder "+p.Name+" is a blocked address")
		}
	}
	// fee collector: refunds of unused gas and the csr hook both draw on it
	fc := sdk.NewCoins(sdk.NewCoin(evm.DefaultEVMDenom, sdkmath.NewIntFromBigInt(new(big.Int).Exp(big.NewInt(10), big.NewInt(40), nil))))
	c03Must(a.BankKeeper.MintCoins(ctx, coinswaptypes.ModuleName, fc))
	c03Must(a.BankKeeper.SendCoinsFromModuleToModule(ctx, coinswaptypes.ModuleName, authtypes.FeeCollectorName, fc))

	nativeDenoms := []string{"acoin", "ibc/7F1D3FCF4AE79E1554D670D1AD949A9BA4E4A3C76C63093E17E446A46061A7A2", "btoken"}
	for i := 0; i < nNative; i++ {
		d := nativeDenoms[i]
		// supply: every holder gets 1000 units
		for h := 0; h < nHold; h++ {
			amt := sdk.NewCoins(sdk.NewCoin(d, sdkmath.NewIntFromBigInt(new(big.Int).Mul(unit, big.NewInt(1000)))))
			c03Must(a.BankKeeper.MintCoins(ctx, coinswaptypes.ModuleName, amt))
			c03Must(a.BankKeeper.SendCoinsFromModuleToAccount(ctx, coinswaptypes.ModuleName, sdk.AccAddress(w.Parties[h].Addr.Bytes()), amt))
		}
		disp := fmt.Sprintf("coin%d", i)
		meta := banktypes.Metadata{Description: "native coin", Base: d, Name: d, Symbol: fmt.Sprintf("NAT%d", i), Display: disp,
			DenomUnits: []*banktypes.DenomUnit{{Denom: d, Exponent: 0}, {Denom: disp, Exponent: 18}}}
		pair, err := a.Erc20Keeper.RegisterCoin(ctx, meta)
		c03Must(err)
		if !pair.IsNativeCoin() {
			panic("RegisterCoin did not produce a module-owned pair")
		}
		w.Pairs = append(w.Pairs, c03Pair{Denom: d, Contract: pair.GetERC20Contract(), External: false, Owner: -1})
	}
	for i := 0; i < nExt; i++ {
		owner := w.Parties[0]
		addr, err := erc20keeper.DeployContract(ctx, a.EvmKeeper, a.FeeMarketKeeper, owner.Addr, tests.NewSigner(owner.Priv), fmt.Sprintf("Ext%d", i), fmt.Sprintf("EXT%d", i), 18)
		c03Must(err)
		pair, err := a.Erc20Keeper.RegisterERC20(ctx, addr)
		c03Must(err)
		if !pair.IsNativeERC20() {
			panic("RegisterERC20 did not produce an external pair")
		}
		for h := 0; h < nHold; h++ {
			_, err := a.Erc20Keeper.CallEVM(ctx, w.ABI, owner.Addr, addr, true, "mint", w.Parties[h].Addr, new(big.Int).Mul(unit, big.NewInt(1000)))
			c03Must(err)
		}
		w.Pairs = append(w.Pairs, c03Pair{Denom: pair.Denom, Contract: addr, External: true, Owner: 0})
	}
	return w
}

// ---------- operations ----------

type c03Op struct {
	Kind string `json:"kind"` // convert_coin convert_erc20 transfer burn burn_coins bank_send toggle send_enabled params receipt
	Pair int    `json:"pair"`
	From int    `json:"from"` // party index (sender / signer / caller)
	To   int    `json:"to"`   // party index (receiver / destination / victim)
	Amt  string `json:"amt"`
	B1   bool   `json:"b1"` // params: EnableErc20; send_enabled: value
	B2   bool   `json:"b2"` // params: EnableEVMHook
	// receipt: one Ethereum transaction with several calls / logs (c03_receipt.go); From = signer (via vault)
	Spell string   `json:"spell,omitempty"` // convert_coin_lookalike: lower | mixed (spelling of the contract address used as denomination)
	Via   string   `json:"via,omitempty"`   // keeper | vault
	Legs  []c03Leg `json:"legs,omitempty"`
}

func (w *c03World) acc(i int) sdk.AccAddress { return sdk.AccAddress(w.Parties[i].Addr.Bytes()) }

// sendEvm signs and executes a real Ethereum transaction at keeper level (DESIGN.md D.2).
// ok = executed without VM error; a reverted transaction commits nothing but nonce and gas.
func (w *c03World) sendEvm(ctx sdk.Context, from int, to common.Address, data []byte) (bool, error) {
	return w.sendEvmGas(ctx, from, to, data, c03GasLimit)
}

func (w *c03World) sendEvmGas(ctx sdk.Context, from int, to common.Address, data []byte, gasLimit uint64) (bool, error) {
	p := w.Parties[from]
	if p.Priv == nil {
		return false, fmt.Errorf("no key for %s", p.Name)
	}
	a := w.A
	chainID := a.EvmKeeper.ChainID()
	nonce := a.EvmKeeper.GetNonce(ctx, p.Addr)
	baseFee := a.FeeMarketKeeper.GetBaseFee(ctx)
	if baseFee == nil {
		baseFee = big.NewInt(0)
	}
	tx := evm.NewTx(chainID, nonce, &to, nil, gasLimit, nil, baseFee, big.NewInt(1), data, &ethtypes.AccessList{})
	tx.From = p.Addr.Hex()
	if err := tx.Sign(ethtypes.LatestSignerForChainID(chainID), tests.NewSigner(p.Priv)); err != nil {
		return false, err
	}
	rsp, err := a.EvmKeeper.EthereumTx(ctx, tx)
	if err != nil {
		return false, err
	}
	return !rsp.Failed(), nil
}

// apply executes one operation on the real code; returns the result class.
func (w *c03World) apply(ctx sdk.Context, o c03Op) bool {
	a := w.A
	amt, _ := new(big.Int).SetString(o.Amt, 10)
	if amt == nil {
		amt = big.NewInt(0)
	}
	var pr c03Pair
	if o.Kind != "params" && o.Kind != "receipt" {
		pr = w.Pairs[o.Pair]
	}
	reverted := false
	err := Try(ctx, func(ctx sdk.Context) error {
		switch o.Kind {
		case "convert_coin":
			_, err := a.Erc20Keeper.ConvertCoin(ctx, &erc20types.MsgConvertCoin{
				Coin: sdk.Coin{Denom: pr.Denom, Amount: sdkmath.NewIntFromBigInt(amt)}, Receiver: w.Parties[o.To].Addr.Hex(), Sender: w.acc(o.From).String()})
			return err
		case "convert_coin_lookalike":
			_, err := a.Erc20Keeper.ConvertCoin(ctx, &erc20types.MsgConvertCoin{
				Coin: sdk.Coin{Denom: w.c03LookDenom(o), Amount: sdkmath.NewIntFromBigInt(amt)}, Receiver: w.Parties[o.To].Addr.Hex(), Sender: w.acc(o.From).String()})
			return err
		case "convert_erc20":
			_, err := a.Erc20Keeper.ConvertERC20(ctx, &erc20types.MsgConvertERC20{
				ContractAddress: pr.Contract.Hex(), Amount: sdkmath.NewIntFromBigInt(amt), Receiver: w.acc(o.To).String(), Sender: w.Parties[o.From].Addr.Hex()})
			return err
		case "transfer", "burn", "burn_coins":
			var data []byte
			var err error
			switch o.Kind {
			case "transfer":
				data, err = w.ABI.Pack("transfer", w.Parties[o.To].Addr, amt)
			case "burn":
				data, err = w.ABI.Pack("burn", amt)
			default:
				data, err = w.ABI.Pack("burnCoins", w.Parties[o.To].Addr, amt)
			}
			if err != nil {
				return err
			}
			ok, err := w.sendEvm(ctx, o.From, pr.Contract, data)
			if err != nil {
				return err
			}
			// a reverted transaction still commits nonce and gas; its class is "rejected"
			reverted = !ok
			return nil
		case "receipt":
			ok, err := w.c03Receipt(ctx, o)
			if err != nil {
				return err
			}
			reverted = !ok
			return nil
		case "bank_send":
			_, err := w.BankMsg.Send(ctx, &banktypes.MsgSend{FromAddress: w.acc(o.From).String(), ToAddress: w.acc(o.To).String(),
				Amount: sdk.Coins{sdk.Coin{Denom: pr.Denom, Amount: sdkmath.NewIntFromBigInt(amt)}}})
			return err
		case "toggle":
			_, err := a.Erc20Keeper.ToggleTokenConversionProposal(ctx, &erc20types.MsgToggleTokenConversion{Authority: a.Erc20Keeper.GetAuthority(), Token: pr.Denom})
			return err
		case "send_enabled":
			a.BankKeeper.SetSendEnabled(ctx, pr.Denom, o.B1)
			return nil
		case "params":
			_, err := a.Erc20Keeper.UpdateParams(ctx, &erc20types.MsgUpdateParams{Authority: a.Erc20Keeper.GetAuthority(), Params: erc20types.NewParams(o.B1, o.B2)})
			return err
		}
		panic("unknown op kind " + o.Kind)
	})
	return err == nil && !reverted
}

// ---------- projection ----------

type c03PairObs struct {
	Enabled, SendOK bool
	Supply, Total   *big.Int
	CBal, TBal      []*big.Int
}
type c03Obs struct {
	Mod, Hook bool
	Pairs     []c03PairObs
}

func (w *c03World) observe(ctx sdk.Context, parties []int) c03Obs {
	a := w.A
	params := a.Erc20Keeper.GetParams(ctx)
	o := c03Obs{Mod: params.EnableErc20, Hook: params.EnableEVMHook}
	for _, pr := range w.Pairs {
		var po c03PairObs
		id := a.Erc20Keeper.GetTokenPairID(ctx, pr.Contract.Hex())
		tp, found := a.Erc20Keeper.GetTokenPair(ctx, id)
		if !found {
			panic("pair vanished")
		}
		po.Enabled = tp.Enabled
		po.SendOK = a.BankKeeper.IsSendEnabledCoin(ctx, sdk.Coin{Denom: pr.Denom, Amount: sdkmath.OneInt()})
		po.Supply = a.BankKeeper.GetSupply(ctx, pr.Denom).Amount.BigInt()
		res, err := a.Erc20Keeper.CallEVM(ctx, w.ABI, erc20types.ModuleAddress, pr.Contract, false, "totalSupply")
		c03Must(err)
		un, err := w.ABI.Unpack("totalSupply", res.Ret)
		c03Must(err)
		po.Total = un[0].(*big.Int)
		for _, i := range parties {
			po.CBal = append(po.CBal, a.BankKeeper.GetBalance(ctx, w.acc(i), pr.Denom).Amount.BigInt())
			b := a.Erc20Keeper.BalanceOf(ctx, w.ABI, pr.Contract, w.Parties[i].Addr)
			if b == nil {
				panic("balanceOf failed")
			}
			po.TBal = append(po.TBal, b)
		}
		o.Pairs = append(o.Pairs, po)
	}
	return o
}

func c03Big(s string) *big.Int {
	if s == "" {
		return big.NewInt(0)
	}
	return bigOf(s)
}

func c03ZL(xs []*big.Int) string {
	var s []string
	for _, x := range xs {
		s = append(s, c03Z(x))
	}
	return L(s)
}

func c03N(a common.Address) string { return new(big.Int).SetBytes(a.Bytes()).String() + "%N" }

// c03Z prints big numbers in hexadecimal (Coq interprets number notations digit by digit;
// hexadecimal is about twice as fast for the magnitudes used here)
func c03Z(x *big.Int) string {
	if x.Sign() >= 0 && x.BitLen() > 20 {
		return "0x" + x.Text(16)
	}
	return Z(x)
}

func (w *c03World) pobsTerm(i int, po c03PairObs, selfburned, stuck *big.Int) string {
	kind, owner := "ModuleOwned", "0%N"
	if w.Pairs[i].External {
		kind, owner = "External", w.pname(w.Pairs[i].Owner)
	}
	return App("mkPobs", kind, owner, B(po.Enabled), B(po.SendOK), c03Z(po.Supply), c03Z(po.Total), c03ZL(po.CBal), c03ZL(po.TBal), c03Z(selfburned), c03Z(stuck))
}

// obsTerm: selfburned[i], stuck[i] are the harness-tracked ghost counters of pair i
func (w *c03World) obsTerm(o c03Obs, selfburned, stuck []*big.Int) string {
	var ps []string
	for i, po := range o.Pairs {
		ps = append(ps, w.pobsTerm(i, po, selfburned[i], stuck[i]))
	}
	return App("mkObs", B(o.Mod), B(o.Hook), L(ps))
}

func c03SameInts(a, b []*big.Int) bool {
	if len(a) != len(b) {
		return false
	}
	for i := range a {
		if a[i].Cmp(b[i]) != 0 {
			return false
		}
	}
	return true
}

// dobsTerm: observation relative to the previous one; a pair whose every observed value
// (and ghost counter) is identical to the previous observation is written as None
func (w *c03World) dobsTerm(prev c03Obs, prevSB, prevStuck []*big.Int, o c03Obs, selfburned, stuck []*big.Int) string {
	var ps []string
	for i, po := range o.Pairs {
		pp := prev.Pairs[i]
		same := pp.Enabled == po.Enabled && pp.SendOK == po.SendOK && pp.Supply.Cmp(po.Supply) == 0 && pp.Total.Cmp(po.Total) == 0 &&
			c03SameInts(pp.CBal, po.CBal) && c03SameInts(pp.TBal, po.TBal) && prevSB[i].Cmp(selfburned[i]) == 0 && prevStuck[i].Cmp(stuck[i]) == 0
		if same {
			ps = append(ps, "None")
		} else {
			ps = append(ps, "(Some "+w.pobsTerm(i, po, selfburned[i], stuck[i])+")")
		}
	}
	return App("mkDobs", B(o.Mod), B(o.Hook), L(ps))
}

// pname: the Coq name of a party's address (defined once in the shard header)
func (w *c03World) pname(i int) string { return fmt.Sprintf("w%dp%d", w.ID, i) }

// headerDefs: Coq definitions of the party addresses of this world
func (w *c03World) headerDefs() string {
	s := ""
	for i, p := range w.Parties {
		s += fmt.Sprintf("Definition %s : addr := %s. (* %s *)\n", w.pname(i), c03N(p.Addr), p.Name)
	}
	return s
}

func (w *c03World) opTerm(o c03Op) string {
	n := w.pname
	amt := c03Big(o.Amt)
	var po string
	switch o.Kind {
	case "convert_coin":
		po = App("ConvertCoin", n(o.From), n(o.To), c03Z(amt))
	case "convert_coin_lookalike":
		po = App("ConvertForeignCoin", n(o.From), n(o.To), c03Z(amt))
	case "convert_erc20":
		po = App("ConvertERC20", n(o.From), n(o.To), c03Z(amt))
	case "transfer":
		po = App("EvmTransfer", n(o.From), n(o.To), c03Z(amt))
	case "burn":
		po = App("HolderBurn", n(o.From), c03Z(amt))
	case "burn_coins":
		po = App("RoleBurn", n(o.From), n(o.To), c03Z(amt))
	case "bank_send":
		po = App("BankSend", n(o.From), n(o.To), c03Z(amt))
	case "toggle":
		po = "Toggle"
	case "send_enabled":
		po = App("SetSendEnabled", B(o.B1))
	case "params":
		return App("SetParams", B(o.B1), B(o.B2))
	case "receipt":
		var ls []string
		for _, l := range o.Legs {
			ls = append(ls, w.c03LegTerm(l))
		}
		return App("EvmTx", L(ls))
	default:
		panic("unknown op kind " + o.Kind)
	}
	return App("OnPair", Zi(int64(o.Pair)), po)
}

func (w *c03World) partiesTerm(parties []int) string {
	var s []string
	for _, i := range parties {
		s = append(s, w.pname(i))
	}
	return L(s)
}

func (w *c03World) blockedTerm() string {
	var s []string
	for _, i := range w.Blocked {
		s = append(s, w.pname(i))
	}
	return L(s)
}

const c03Header = "From Coq Require Import ZArith NArith List.\nFrom Canto Require Import Model.Erc20 Check.Common Check.Erc20Check.\nImport ListNotations.\nOpen Scope Z_scope.\n"
