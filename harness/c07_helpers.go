//go:build verif

package harness

// C07 helpers: the world (real app with funded users, coinswap tokens and two
// token pairs backed by real ERC-20 contracts), textual presentations of
// addresses, interning of address bytes into the model's account names, the
// ledger observation and Coq term printing.

import (
	"crypto/sha256"
	"encoding/hex"
	"fmt"
	"math/big"
	"sort"
	"strings"

	sdkmath "cosmossdk.io/math"
	sdk "github.com/cosmos/cosmos-sdk/types"
	"github.com/cosmos/cosmos-sdk/types/bech32"
	authtypes "github.com/cosmos/cosmos-sdk/x/auth/types"
	banktypes "github.com/cosmos/cosmos-sdk/x/bank/types"
	distrtypes "github.com/cosmos/cosmos-sdk/x/distribution/types"
	govtypes "github.com/cosmos/cosmos-sdk/x/gov/types"
	stakingtypes "github.com/cosmos/cosmos-sdk/x/staking/types"
	ibctransfertypes "github.com/cosmos/ibc-go/v8/modules/apps/transfer/types"
	"github.com/ethereum/go-ethereum/accounts/abi"
	"github.com/ethereum/go-ethereum/common"
	"github.com/ethereum/go-ethereum/crypto"
	evmtypes "github.com/evmos/ethermint/x/evm/types"

	"github.com/Canto-Network/Canto/v8/app"
	"github.com/Canto-Network/Canto/v8/contracts"
	coinswaptypes "github.com/Canto-Network/Canto/v8/x/coinswap/types"
	csrtypes "github.com/Canto-Network/Canto/v8/x/csr/types"
	erc20types "github.com/Canto-Network/Canto/v8/x/erc20/types"
	govshuttletypes "github.com/Canto-Network/Canto/v8/x/govshuttle/types"
	inflationtypes "github.com/Canto-Network/Canto/v8/x/inflation/types"
	onboardingtypes "github.com/Canto-Network/Canto/v8/x/onboarding/types"
)

const (
	c07Users      = 4
	c07Bystanders = 2
	c07MaxPool    = 4
	c07Tokens     = 3
)

// module accounts; the first four positions are fixed by the models (Coinswap.v: Module 0 = coinswap,
// Module 1 = fee collector; Signers.v: Module 3 = erc20)
var c07Modules = []string{coinswaptypes.ModuleName, authtypes.FeeCollectorName, distrtypes.ModuleName, erc20types.ModuleName,
	govtypes.ModuleName, stakingtypes.BondedPoolName, stakingtypes.NotBondedPoolName, ibctransfertypes.ModuleName,
	evmtypes.ModuleName, inflationtypes.ModuleName, csrtypes.ModuleName, govshuttletypes.ModuleName, onboardingtypes.ModuleName}

var c07TokNames = []string{"tokena", "tokenb", "ibc/17CD484EE7D9723B847D95015FA3EBD1572FD13BC84FB838F55B18A57450F25B"}

type c07Pair struct {
	ID       int    // 1 module-owned (native coin), 2 external (native ERC-20)
	Kind     int    // 0 module-owned, 1 external
	Denom    string // the pair's coin denomination
	Contract common.Address
	Owner    common.Address // holder of the minter role
}

type c07World struct {
	a      *app.Canto
	ctx    sdk.Context
	abi    abi.ABI
	std    string
	accts  map[string][]byte // code -> address bytes
	acodes []string          // tracked accounts in a fixed order
	denoms map[string]string // code -> denom (coinswap world)
	dcodes []string
	pairs  []*c07Pair
	dep    common.Address
	byAddr map[string]string // hex(bytes) -> code
}

func c07Must(err error) {
	if err != nil {
		panic(err)
	}
}

func c07UserAddr(tag string, i int) []byte {
	h := sha256.Sum256([]byte(fmt.Sprintf("verif-c07-%s-%d", tag, i)))
	return h[:20]
}

func (w *c07World) c07MintCoins(ctx sdk.Context, denom string, to []byte, amt *big.Int) {
	coins := sdk.NewCoins(sdk.NewCoin(denom, sdkmath.NewIntFromBigInt(amt)))
	c07Must(w.a.BankKeeper.MintCoins(ctx, inflationtypes.ModuleName, coins))
	c07Must(w.a.BankKeeper.SendCoins(ctx, authtypes.NewModuleAddress(inflationtypes.ModuleName), sdk.AccAddress(to), coins))
}

func (w *c07World) c07Deploy(ctx sdk.Context, bin []byte, ctor []byte) common.Address {
	nonce, err := w.a.AccountKeeper.GetSequence(ctx, w.dep.Bytes())
	c07Must(err)
	data := append(append([]byte{}, bin...), ctor...)
	_, err = w.a.Erc20Keeper.CallEVMWithData(ctx, w.dep, nil, data, true)
	c07Must(err)
	return crypto.CreateAddress(w.dep, nonce)
}

func (w *c07World) c07AddAcct(code string, addr []byte) {
	w.accts[code] = addr
	w.acodes = append(w.acodes, code)
	w.byAddr[hex.EncodeToString(addr)] = code
}

// c07NewWorld builds the application once: users U0..U3 and bystanders B0,B1 (never named by any message) hold the
// standard coin, three coinswap tokens, coins and tokens of both pairs; the erc20 module account holds escrowed
// coins (pair 1) and escrowed tokens (pair 2), so that every conversion path can succeed.
func c07NewWorld() *c07World {
	a, ctx := NewApp()
	w := &c07World{a: a, ctx: ctx, abi: contracts.ERC20MinterBurnerDecimalsContract.ABI, accts: map[string][]byte{},
		denoms: map[string]string{}, byAddr: map[string]string{}}
	std, err := a.CoinswapKeeper.GetStandardDenom(ctx)
	if err != nil || std == "" {
		panic("no standard denom")
	}
	w.std = std
	for i := 0; i < c07Users; i++ {
		w.c07AddAcct(fmt.Sprintf("U%d", i), c07UserAddr("user", i))
	}
	for i := 0; i < c07Bystanders; i++ {
		w.c07AddAcct(fmt.Sprintf("B%d", i), c07UserAddr("bystander", i))
	}
	for q := 1; q <= c07MaxPool; q++ {
		w.c07AddAcct(fmt.Sprintf("E%d", q), coinswaptypes.GetReservePoolAddr(coinswaptypes.GetLptDenom(uint64(q))))
	}
	for i, m := range c07Modules {
		w.c07AddAcct(fmt.Sprintf("M%d", i), authtypes.NewModuleAddress(m))
	}
	w.c07AddAcct("Z0", make([]byte, 20)) // the zero address
	w.dep = common.BytesToAddress(c07UserAddr("deployer", 0))
	holders := []string{"U0", "U1", "U2", "U3", "B0", "B1"}
	for _, c := range holders {
		acc := a.AccountKeeper.NewAccountWithAddress(ctx, sdk.AccAddress(w.accts[c]))
		a.AccountKeeper.SetAccount(ctx, acc)
	}
	a.AccountKeeper.SetAccount(ctx, a.AccountKeeper.NewAccountWithAddress(ctx, sdk.AccAddress(w.dep.Bytes())))

	w.denoms["S"] = std
	w.dcodes = append(w.dcodes, "S")
	for i := 0; i < c07Tokens; i++ {
		code := fmt.Sprintf("T%d", i)
		w.denoms[code] = c07TokNames[i]
		w.dcodes = append(w.dcodes, code)
	}
	for q := 1; q <= c07MaxPool; q++ {
		code := fmt.Sprintf("L%d", q)
		w.denoms[code] = coinswaptypes.GetLptDenom(uint64(q))
		w.dcodes = append(w.dcodes, code)
	}
	// coinswap funds
	for i, c := range holders {
		for j, dc := range w.dcodes[:1+c07Tokens] {
			w.c07MintCoins(ctx, w.denoms[dc], w.accts[c], big.NewInt(int64(1_000_000+1000*i+j)))
		}
	}
	// pair 1: module-owned
	meta := banktypes.Metadata{Description: "verif coin", Base: "acoin", Name: "acoin", Symbol: "VCOIN", Display: "acoin",
		DenomUnits: []*banktypes.DenomUnit{{Denom: "acoin", Exponent: 0}, {Denom: "coin", Exponent: 18}}}
	for _, c := range holders {
		w.c07MintCoins(ctx, "acoin", w.accts[c], big.NewInt(3000))
	}
	tp, err := a.Erc20Keeper.RegisterCoin(ctx, meta)
	c07Must(err)
	p1 := &c07Pair{ID: 1, Kind: 0, Denom: "acoin", Contract: tp.GetERC20Contract(), Owner: erc20types.ModuleAddress}
	for _, c := range holders {
		u := common.BytesToAddress(w.accts[c])
		_, err := a.Erc20Keeper.ConvertCoin(ctx, erc20types.NewMsgConvertCoin(sdk.NewCoin("acoin", sdkmath.NewInt(1000)), u, sdk.AccAddress(u.Bytes())))
		c07Must(err)
	}
	// pair 2: external
	ctor, err := w.abi.Pack("", "Verif Token", "VTKN", uint8(18))
	c07Must(err)
	addr := w.c07Deploy(ctx, contracts.ERC20MinterBurnerDecimalsContract.Bin, ctor)
	tp2, err := a.Erc20Keeper.RegisterERC20(ctx, addr)
	c07Must(err)
	p2 := &c07Pair{ID: 2, Kind: 1, Denom: tp2.Denom, Contract: addr, Owner: w.dep}
	for _, c := range holders {
		u := common.BytesToAddress(w.accts[c])
		_, err := a.Erc20Keeper.CallEVM(ctx, w.abi, w.dep, addr, true, "mint", u, big.NewInt(3000))
		c07Must(err)
		_, err = a.Erc20Keeper.ConvertERC20(ctx, erc20types.NewMsgConvertERC20(sdkmath.NewInt(1000), sdk.AccAddress(u.Bytes()), addr, u))
		c07Must(err)
	}
	w.pairs = []*c07Pair{p1, p2}
	return w
}

// ---------------------------------------------------------------- presentations

// accepted forms: bech bechU hex0x hexbare eip55 hexU ; everything else is a malformed text
var c07BadKinds = []string{"bech-mixed", "bech-badsum", "bech-cosmos", "bech-valoper", "empty", "space-padded", "hex-short",
	"hex-nonhex", "hex-long", "bech-trunc", "newline"}

func c07Text(addr []byte, pres string) string {
	lower := func() string {
		s, err := bech32.ConvertAndEncode(sdk.GetConfig().GetBech32AccountAddrPrefix(), addr)
		c07Must(err)
		return s
	}
	h := hex.EncodeToString(addr)
	switch pres {
	case "bech":
		return lower()
	case "bechU":
		return strings.ToUpper(lower())
	case "hex0x":
		return "0x" + h
	case "hexbare":
		return h
	case "eip55":
		if len(addr) == 20 {
			return common.BytesToAddress(addr).Hex()
		}
		return "0x" + h
	case "hexU":
		return "0X" + strings.ToUpper(h)
	case "bech-mixed": // one letter of the data part in upper case
		s := lower()
		i := strings.Index(s, "1") + 1
		for ; i < len(s); i++ {
			if s[i] >= 'a' && s[i] <= 'z' {
				return s[:i] + strings.ToUpper(s[i:i+1]) + s[i+1:]
			}
		}
		return s + "A"
	case "bech-badsum":
		s := lower()
		last := s[len(s)-1]
		repl := byte('q')
		if last == 'q' {
			repl = 'p'
		}
		return s[:len(s)-1] + string(repl)
	case "bech-cosmos":
		s, err := bech32.ConvertAndEncode("cosmos", addr)
		c07Must(err)
		return s
	case "bech-valoper":
		s, err := bech32.ConvertAndEncode(sdk.GetConfig().GetBech32ValidatorAddrPrefix(), addr)
		c07Must(err)
		return s
	case "empty":
		return ""
	case "space-padded":
		return " " + lower() + " "
	case "hex-short":
		return "0x" + h[:len(h)-1]
	case "hex-nonhex":
		return "0x" + h[:7] + "g" + h[8:]
	case "hex-long":
		return "0x" + h + "00"
	case "bech-trunc":
		s := lower()
		return s[:len(s)-3]
	case "newline":
		return lower() + "\n"
	}
	panic("unknown presentation " + pres)
}

func c07PresTerm(pres string) string {
	switch pres {
	case "bech":
		return "PBech"
	case "bechU":
		return "PBechUpper"
	case "hex0x":
		return "PHex0x"
	case "hexbare":
		return "PHexBare"
	case "eip55":
		return "PHexEip55"
	case "hexU":
		return "PHexUpper"
	}
	for i, k := range c07BadKinds {
		if k == pres {
			return fmt.Sprintf("(PBad %d)", i)
		}
	}
	panic("unknown presentation " + pres)
}

// ---------------------------------------------------------------- interning

// c07AcctTerm: address bytes -> the model's account name
func (w *c07World) c07AcctTerm(addr []byte) string {
	if code, ok := w.byAddr[hex.EncodeToString(addr)]; ok {
		return w.c07CodeTerm(code)
	}
	return "(User " + Z(new(big.Int).SetBytes(addr)) + ")"
}

func (w *c07World) c07CodeTerm(code string) string {
	switch code[0] {
	case 'E':
		return "(Escrow " + code[1:] + ")"
	case 'M':
		return "(Module " + code[1:] + ")"
	}
	return "(User " + Z(new(big.Int).SetBytes(w.accts[code])) + ")"
}

func (w *c07World) c07UserNum(code string) string { return Z(new(big.Int).SetBytes(w.accts[code])) }

func c07DenomTerm(code string) string {
	switch code[0] {
	case 'S':
		return "Std"
	case 'T':
		return "(Tok " + code[1:] + ")"
	default:
		return "(Lpt " + code[1:] + ")"
	}
}

func (w *c07World) c07DenomCode(denom string) string {
	for c, d := range w.denoms {
		if d == denom {
			return c
		}
	}
	return ""
}

// ---------------------------------------------------------------- observation

type c07Obs struct {
	next  uint64
	pools [][2]int64          // (token index, seq), newest first
	bal   map[string]*big.Int // code|dcode
	sup   map[string]*big.Int
	pbal  map[string]*big.Int // pair|code
	psup  map[int]*big.Int
	tbal  map[string]*big.Int
	ttot  map[int]*big.Int
	other string // digest of every bank balance / supply outside the tracked universe
}

func (w *c07World) c07TokenBal(ctx sdk.Context, p *c07Pair, addr []byte) *big.Int {
	if len(addr) != 20 {
		return big.NewInt(0) // an ERC-20 holder has 20 bytes
	}
	b := w.a.Erc20Keeper.BalanceOf(ctx, w.abi, p.Contract, common.BytesToAddress(addr))
	if b == nil {
		panic("balanceOf failed")
	}
	return b
}

func (w *c07World) c07Total(ctx sdk.Context, p *c07Pair) *big.Int {
	res, err := w.a.Erc20Keeper.CallEVM(ctx, w.abi, erc20types.ModuleAddress, p.Contract, false, "totalSupply")
	c07Must(err)
	un, err := w.abi.Unpack("totalSupply", res.Ret)
	c07Must(err)
	return un[0].(*big.Int)
}

// extra: accounts outside the fixed universe that this case tracks as well (what HexToAddress read out of a malformed sender)
func (w *c07World) c07Observe(ctx sdk.Context, extra map[string][]byte) c07Obs {
	gs := w.a.CoinswapKeeper.ExportGenesis(ctx)
	o := c07Obs{next: gs.Sequence, bal: map[string]*big.Int{}, sup: map[string]*big.Int{}, pbal: map[string]*big.Int{},
		psup: map[int]*big.Int{}, tbal: map[string]*big.Int{}, ttot: map[int]*big.Int{}}
	for _, p := range gs.Pool {
		seq, err := coinswaptypes.ParseLptDenom(p.LptDenom)
		c07Must(err)
		tc := w.c07DenomCode(p.CounterpartyDenom)
		if tc == "" || tc[0] != 'T' {
			panic("pool for untracked denom " + p.CounterpartyDenom)
		}
		var ti int64
		fmt.Sscan(tc[1:], &ti)
		o.pools = append(o.pools, [2]int64{ti, int64(seq)})
	}
	sort.Slice(o.pools, func(i, j int) bool { return o.pools[i][1] > o.pools[j][1] })
	tracked := map[string]bool{}
	trackedDenom := map[string]bool{}
	all := map[string][]byte{}
	for c, a := range w.accts {
		all[c] = a
	}
	for c, a := range extra {
		all[c] = a
	}
	for ac, addr := range all {
		tracked[sdk.AccAddress(addr).String()] = true
		for _, dc := range w.dcodes {
			o.bal[ac+"|"+dc] = w.a.BankKeeper.GetBalance(ctx, sdk.AccAddress(addr), w.denoms[dc]).Amount.BigInt()
		}
		for _, p := range w.pairs {
			k := fmt.Sprintf("%d|%s", p.ID, ac)
			o.pbal[k] = w.a.BankKeeper.GetBalance(ctx, sdk.AccAddress(addr), p.Denom).Amount.BigInt()
			o.tbal[k] = w.c07TokenBal(ctx, p, addr)
		}
	}
	for _, dc := range w.dcodes {
		trackedDenom[w.denoms[dc]] = true
		o.sup[dc] = w.a.BankKeeper.GetSupply(ctx, w.denoms[dc]).Amount.BigInt()
	}
	for _, p := range w.pairs {
		trackedDenom[p.Denom] = true
		o.psup[p.ID] = w.a.BankKeeper.GetSupply(ctx, p.Denom).Amount.BigInt()
		o.ttot[p.ID] = w.c07Total(ctx, p)
	}
	var sb strings.Builder
	w.a.BankKeeper.IterateAllBalances(ctx, func(addr sdk.AccAddress, c sdk.Coin) bool {
		if !tracked[addr.String()] || !trackedDenom[c.Denom] {
			fmt.Fprintf(&sb, "%s:%s;", addr.String(), c.String())
		}
		return false
	})
	w.a.BankKeeper.IterateTotalSupply(ctx, func(c sdk.Coin) bool {
		if !trackedDenom[c.Denom] {
			fmt.Fprintf(&sb, "supply:%s;", c.String())
		}
		return false
	})
	// token holders outside the tracked universe: totalSupply minus the tracked balances must not move either
	for _, p := range w.pairs {
		sum := new(big.Int)
		for ac := range all {
			sum.Add(sum, o.tbal[fmt.Sprintf("%d|%s", p.ID, ac)])
		}
		fmt.Fprintf(&sb, "untracked-tokens-%d:%s;", p.ID, new(big.Int).Sub(o.ttot[p.ID], sum))
	}
	o.other = sb.String()
	return o
}

func c07SortedCodes(m map[string][]byte) []string {
	var ks []string
	for k := range m {
		ks = append(ks, k)
	}
	sort.Strings(ks)
	return ks
}

// the tracked accounts of a case, in a fixed order
func (w *c07World) c07Codes(extra map[string][]byte) []string {
	return append(append([]string{}, w.acodes...), c07SortedCodes(extra)...)
}

func (w *c07World) c07TermOf(code string, extra map[string][]byte) string {
	if a, ok := extra[code]; ok {
		return w.c07AcctTerm(a)
	}
	return w.c07CodeTerm(code)
}

func (w *c07World) c07WorldTerm(o c07Obs, params string, extra map[string][]byte) string {
	var pools, bal, sup, kind, owner, paused, pbal, psup, tbal, ttot []string
	for _, p := range o.pools {
		pools = append(pools, Tup(Zi(p[0]), Zi(p[1])))
	}
	codes := w.c07Codes(extra)
	for _, ac := range codes {
		for _, dc := range w.dcodes {
			if v := o.bal[ac+"|"+dc]; v.Sign() != 0 {
				bal = append(bal, Tup(w.c07TermOf(ac, extra), c07DenomTerm(dc), Z(v)))
			}
		}
	}
	for _, dc := range w.dcodes {
		if v := o.sup[dc]; v.Sign() != 0 {
			sup = append(sup, Tup(c07DenomTerm(dc), Z(v)))
		}
	}
	for _, p := range w.pairs {
		id := Zi(int64(p.ID))
		kind = append(kind, Tup(id, Zi(int64(p.Kind))))
		owner = append(owner, Tup(id, w.c07AcctTerm(p.Owner.Bytes())))
		paused = append(paused, Tup(id, "false"))
		psup = append(psup, Tup(id, Z(o.psup[p.ID])))
		ttot = append(ttot, Tup(id, Z(o.ttot[p.ID])))
		for _, ac := range codes {
			k := fmt.Sprintf("%d|%s", p.ID, ac)
			if v := o.pbal[k]; v.Sign() != 0 {
				pbal = append(pbal, Tup(id, w.c07TermOf(ac, extra), Z(v)))
			}
			if v := o.tbal[k]; v.Sign() != 0 {
				tbal = append(tbal, Tup(id, w.c07TermOf(ac, extra), Z(v)))
			}
		}
	}
	cs := App("CoinswapCheck.mkObs", params, Zi(int64(o.next)), L(pools), L(bal), L(sup))
	return App("mkW", cs, L(kind), L(owner), L(paused), L(pbal), L(psup), L(tbal), L(ttot))
}

// changed values only
func (w *c07World) c07StepLedgers(before, after c07Obs, extra map[string][]byte) []string {
	var pools, bal, sup, pbal, psup, tbal, ttot []string
	for _, p := range after.pools {
		pools = append(pools, Tup(Zi(p[0]), Zi(p[1])))
	}
	codes := w.c07Codes(extra)
	for _, ac := range codes {
		for _, dc := range w.dcodes {
			k := ac + "|" + dc
			if after.bal[k].Cmp(before.bal[k]) != 0 {
				bal = append(bal, Tup(w.c07TermOf(ac, extra), c07DenomTerm(dc), Z(after.bal[k])))
			}
		}
	}
	for _, dc := range w.dcodes {
		if after.sup[dc].Cmp(before.sup[dc]) != 0 {
			sup = append(sup, Tup(c07DenomTerm(dc), Z(after.sup[dc])))
		}
	}
	for _, p := range w.pairs {
		id := Zi(int64(p.ID))
		if after.psup[p.ID].Cmp(before.psup[p.ID]) != 0 {
			psup = append(psup, Tup(id, Z(after.psup[p.ID])))
		}
		if after.ttot[p.ID].Cmp(before.ttot[p.ID]) != 0 {
			ttot = append(ttot, Tup(id, Z(after.ttot[p.ID])))
		}
		for _, ac := range codes {
			k := fmt.Sprintf("%d|%s", p.ID, ac)
			if after.pbal[k].Cmp(before.pbal[k]) != 0 {
				pbal = append(pbal, Tup(id, w.c07TermOf(ac, extra), Z(after.pbal[k])))
			}
			if after.tbal[k].Cmp(before.tbal[k]) != 0 {
				tbal = append(tbal, Tup(id, w.c07TermOf(ac, extra), Z(after.tbal[k])))
			}
		}
	}
	return []string{Zi(int64(after.next)), L(pools), L(bal), L(sup), L(pbal), L(psup), L(tbal), L(ttot)}
}

// who lost coins or tokens between two observations (codes, sorted) — for the statistics and the replay detail
func (w *c07World) c07Losers(before, after c07Obs, extra map[string][]byte) []string {
	lost := map[string]bool{}
	for _, ac := range w.c07Codes(extra) {
		for _, dc := range w.dcodes {
			k := ac + "|" + dc
			if after.bal[k].Cmp(before.bal[k]) < 0 {
				lost[ac] = true
			}
		}
		for _, p := range w.pairs {
			k := fmt.Sprintf("%d|%s", p.ID, ac)
			if after.pbal[k].Cmp(before.pbal[k]) < 0 || after.tbal[k].Cmp(before.tbal[k]) < 0 {
				lost[ac] = true
			}
		}
	}
	var out []string
	for k := range lost {
		out = append(out, k)
	}
	sort.Strings(out)
	return out
}
