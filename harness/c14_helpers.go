//go:build verif

package harness

// Machinery of the C14 suite on top of the shared erc20 world (c03_evm.go):
//   - LONG accounts: Cosmos accounts whose address is 32 bytes (module-derived / interchain /
//     group-policy style), some of them ALIASES of a holder: the last 20 bytes are the holder's
//     address.  MsgConvertCoin.Sender and MsgConvertERC20.Receiver are bech32 strings of any
//     length, so such accounts are legal on the Cosmos side of both messages; they are different
//     bank accounts (third parties), whatever their last 20 bytes are.  In the Coq case an
//     account is the number read from ALL its bytes, so sender = receiver means "the same account";
//   - switch flips through the legacy ParameterChangeProposal route (the params module's proposal
//     handler writes the erc20 subspace directly, without the keeper);
//   - GHOST operations: executed on a branch of the state that is thrown away;
//   - the switches handed to the checker are the COMMITTED ones, read from the stores themselves
//     (parameter subspace, token-pair record), and a Go-side monitor compares them with what the
//     keeper reports after every step.

import (
	"crypto/sha256"
	"fmt"
	"math/big"

	sdkmath "cosmossdk.io/math"
	"cosmossdk.io/store/prefix"
	sdk "github.com/cosmos/cosmos-sdk/types"
	banktypes "github.com/cosmos/cosmos-sdk/x/bank/types"
	"github.com/cosmos/cosmos-sdk/x/params"
	paramproposal "github.com/cosmos/cosmos-sdk/x/params/types/proposal"

	erc20types "github.com/Canto-Network/Canto/v8/x/erc20/types"
)

type c14Long struct {
	Name string
	Acc  sdk.AccAddress // 32 bytes
	Twin int            // party whose 20-byte address is the tail of Acc; -1: none
}

type c14World struct {
	*c03World
	Long []c14Long // party index = len(Parties) + position
}

// replay format: as c03Case, with the two extra fields of an operation
type c14Op struct {
	Kind  string `json:"kind"` // as c03Op
	Pair  int    `json:"pair"`
	From  int    `json:"from"`
	To    int    `json:"to"`
	Amt   string `json:"amt"`
	B1    bool   `json:"b1"`
	B2    bool   `json:"b2"`
	Route string `json:"route,omitempty"` // params: "legacy" = ParameterChangeProposal through the params module's handler
	Ghost bool   `json:"ghost,omitempty"` // executed on a branch that is discarded: nothing of it may remain
	// receipt: one Ethereum transaction with several calls / logs (c03_receipt.go).  Via "vault": the callee of the
	// transaction is the multicall contract, NOT a token contract
	Via  string   `json:"via,omitempty"`
	Legs []c03Leg `json:"legs,omitempty"`
}

type c14Case struct {
	World   int      `json:"world"`
	Parties []int    `json:"parties"` // base parties first, then long accounts
	Setup   []c14Op  `json:"setup"`
	Ops     []c14Op  `json:"ops"`
	Names   []string `json:"party_names,omitempty"`
}

func (o c14Op) base() c03Op {
	return c03Op{Kind: o.Kind, Pair: o.Pair, From: o.From, To: o.To, Amt: o.Amt, B1: o.B1, B2: o.B2, Via: o.Via, Legs: o.Legs}
}

func c14Of(o c03Op) c14Op {
	return c14Op{Kind: o.Kind, Pair: o.Pair, From: o.From, To: o.To, Amt: o.Amt, B1: o.B1, B2: o.B2, Via: o.Via, Legs: o.Legs}
}

func c14NewWorld(w *c03World, unit *big.Int) *c14World {
	cw := &c14World{c03World: w}
	mk := func(label string, tail []byte) sdk.AccAddress {
		h := sha256.Sum256([]byte("verif-c14-long-" + label))
		acc := append([]byte{}, h[:]...)
		acc[0] |= 0x80 // the number read from the bytes has exactly 32 bytes
		if tail != nil {
			copy(acc[12:], tail)
		}
		return sdk.AccAddress(acc)
	}
	for h := 0; h < w.NHold; h++ {
		cw.Long = append(cw.Long, c14Long{Name: fmt.Sprintf("long-alias-of-holder%d", h), Acc: mk(fmt.Sprint(h), w.Parties[h].Addr.Bytes()), Twin: h})
	}
	cw.Long = append(cw.Long, c14Long{Name: "long-unrelated", Acc: mk("unrelated", nil), Twin: -1})
	// every long account owns coins of every pair (keeper-level bank send: no switch is consulted)
	for li, l := range cw.Long {
		if w.A.BankKeeper.BlockedAddr(l.Acc) {
			w.Fails = append(w.Fails, "long account "+l.Name+" is a blocked address")
		}
		from := li % w.NHold
		for _, pr := range w.Pairs {
			amt := sdk.NewCoins(sdk.NewCoin(pr.Denom, sdkmath.NewIntFromBigInt(new(big.Int).Mul(unit, big.NewInt(60)))))
			c03Must(w.A.BankKeeper.SendCoins(w.Ctx, w.acc(from), l.Acc, amt))
		}
	}
	// every module account (blocked addresses, the erc20 module account among them) owns coins and tokens of every
	// pair, so that a conversion with a module account as sender AND receiver - what a governance proposal executes:
	// its messages are signed by the gov module account - has something to convert.  Coins by keeper-level bank
	// sends, tokens by ordinary ERC-20 transfers (to the erc20 module address with the hook switched off, so that
	// they stay there)
	amt12 := new(big.Int).Mul(unit, big.NewInt(12))
	if !w.apply(w.Ctx, c03Op{Kind: "params", B1: true, B2: false}) {
		panic("switching the hook off failed")
	}
	for i := w.ModIdx; i < w.ZeroIdx; i++ {
		from := i % w.NHold
		for pi, pr := range w.Pairs {
			c03Must(w.A.BankKeeper.SendCoins(w.Ctx, w.acc(from), w.acc(i), sdk.NewCoins(sdk.NewCoin(pr.Denom, sdkmath.NewIntFromBigInt(amt12)))))
			if !w.apply(w.Ctx, c03Op{Kind: "transfer", Pair: pi, From: from, To: i, Amt: amt12.String()}) {
				panic("funding module account " + w.Parties[i].Name + " with tokens failed")
			}
		}
	}
	if !w.apply(w.Ctx, c03Op{Kind: "params", B1: true, B2: true}) {
		panic("switching the hook on failed")
	}
	return cw
}

// c14Module: party index of the module account with this name (-1: none)
func (w *c14World) c14Module(name string) int {
	for i := w.ModIdx; i < w.ZeroIdx; i++ {
		if w.Parties[i].Name == "module:"+name {
			return i
		}
	}
	return -1
}

func (w *c14World) isLong(i int) bool  { return i >= len(w.Parties) }
func (w *c14World) long(i int) c14Long { return w.Long[i-len(w.Parties)] }
func (w *c14World) longIdx(k int) int  { return len(w.Parties) + k }

// account of a party on the Cosmos side
func (w *c14World) cacc(i int) sdk.AccAddress {
	if w.isLong(i) {
		return w.long(i).Acc
	}
	return w.acc(i)
}

func (w *c14World) cname(i int) string {
	if w.isLong(i) {
		return fmt.Sprintf("w%dL%d", w.ID, i-len(w.Parties))
	}
	return w.pname(i)
}

func (w *c14World) partyName(i int) string {
	if w.isLong(i) {
		return w.long(i).Name
	}
	return w.Parties[i].Name
}

func (w *c14World) c14HeaderDefs() string {
	s := w.headerDefs()
	for k, l := range w.Long {
		s += fmt.Sprintf("Definition %s : addr := %s%%N. (* %s: all 32 bytes of the account *)\n", w.cname(w.longIdx(k)), new(big.Int).SetBytes(l.Acc).String(), l.Name)
	}
	return s
}

// parties of a case: base parties (as c03 picks them) followed by every long account
func (w *c14World) withLong(base []int) []int {
	out := append([]int{}, base...)
	for k := range w.Long {
		out = append(out, w.longIdx(k))
	}
	return out
}

func (w *c14World) split(parties []int) (base, long []int) {
	for _, p := range parties {
		if w.isLong(p) {
			long = append(long, p)
		} else {
			if len(long) > 0 {
				panic("case parties: base parties must precede long accounts")
			}
			base = append(base, p)
		}
	}
	return
}

// ---------- the legacy route ----------

// c14LegacyParams delivers (EnableErc20, EnableEVMHook) as a ParameterChangeProposal: the params module's
// handler writes the erc20 subspace; no erc20 keeper code runs.
func (w *c14World) c14LegacyParams(ctx sdk.Context, mod, hook bool) error {
	changes := []paramproposal.ParamChange{
		paramproposal.NewParamChange(erc20types.ModuleName, string(erc20types.ParamStoreKeyEnableErc20), fmt.Sprint(mod)),
		paramproposal.NewParamChange(erc20types.ModuleName, string(erc20types.ParamStoreKeyEnableEVMHook), fmt.Sprint(hook)),
	}
	return params.NewParamChangeProposalHandler(w.A.ParamsKeeper)(ctx, paramproposal.NewParameterChangeProposal("verif", "erc20 switches", changes))
}

// ---------- operations ----------

// c14Apply executes one operation on the real code (ghost operations on a branch that is dropped)
func (w *c14World) c14Apply(ctx sdk.Context, o c14Op) bool {
	if o.Ghost {
		g, _ := ctx.CacheContext()
		o.Ghost = false
		func() {
			defer func() { _ = recover() }()
			w.c14Apply(g, o)
		}()
		return true
	}
	a := w.A
	amt := c03Big(o.Amt)
	switch {
	case o.Kind == "params" && o.Route == "legacy":
		return Try(ctx, func(ctx sdk.Context) error { return w.c14LegacyParams(ctx, o.B1, o.B2) }) == nil
	case o.Kind == "convert_coin" && w.isLong(o.From):
		return Try(ctx, func(ctx sdk.Context) error {
			_, err := a.Erc20Keeper.ConvertCoin(ctx, &erc20types.MsgConvertCoin{
				Coin: sdk.Coin{Denom: w.Pairs[o.Pair].Denom, Amount: sdkmath.NewIntFromBigInt(amt)}, Receiver: w.Parties[o.To].Addr.Hex(), Sender: w.cacc(o.From).String()})
			return err
		}) == nil
	case o.Kind == "convert_erc20" && w.isLong(o.To):
		return Try(ctx, func(ctx sdk.Context) error {
			_, err := a.Erc20Keeper.ConvertERC20(ctx, &erc20types.MsgConvertERC20{
				ContractAddress: w.Pairs[o.Pair].Contract.Hex(), Amount: sdkmath.NewIntFromBigInt(amt), Receiver: w.cacc(o.To).String(), Sender: w.Parties[o.From].Addr.Hex()})
			return err
		}) == nil
	case o.Kind == "bank_send" && (w.isLong(o.From) || w.isLong(o.To)):
		return Try(ctx, func(ctx sdk.Context) error {
			_, err := w.BankMsg.Send(ctx, &banktypes.MsgSend{FromAddress: w.cacc(o.From).String(), ToAddress: w.cacc(o.To).String(),
				Amount: sdk.Coins{sdk.Coin{Denom: w.Pairs[o.Pair].Denom, Amount: sdkmath.NewIntFromBigInt(amt)}}})
			return err
		}) == nil
	}
	if w.isLong(o.From) || w.isLong(o.To) {
		panic("a long account on the EVM side of " + o.Kind)
	}
	return w.apply(ctx, o.base())
}

// the model operation.  A ghost operation is invisible to the model: it is written as an operation that leaves
// the (observed) state as it is, so the checker compares everything it observes with the state before.
func (w *c14World) c14OpTerm(o c14Op, cur c03Obs) string {
	if o.Ghost {
		return App("SetParams", B(cur.Mod), B(cur.Hook))
	}
	n := w.cname
	amt := c03Big(o.Amt)
	var po string
	switch o.Kind {
	case "convert_coin":
		po = App("ConvertCoin", n(o.From), n(o.To), c03Z(amt))
	case "convert_erc20":
		po = App("ConvertERC20", n(o.From), n(o.To), c03Z(amt))
	case "bank_send":
		po = App("BankSend", n(o.From), n(o.To), c03Z(amt))
	default:
		return w.opTerm(o.base())
	}
	return App("OnPair", Zi(int64(o.Pair)), po)
}

// ---------- observation ----------

// what the keeper reports, next to what the stores hold
type c14Switches struct {
	Mod, Hook bool
	Pair      []bool
}

func (s c14Switches) String() string {
	return fmt.Sprintf("EnableErc20=%v EnableEVMHook=%v pairs enabled=%v", s.Mod, s.Hook, s.Pair)
}

// c14Observe: the projection of c03 over the base parties, extended by the bank balances of the long accounts
// (they have no ERC-20 side: 0); the switches in it are the COMMITTED ones, read from the parameter subspace and
// from the token-pair records themselves.  reported = the same switches as the erc20 keeper reports them.
func (w *c14World) c14Observe(ctx sdk.Context, parties []int) (obs c03Obs, reported, stored c14Switches) {
	a := w.A
	base, long := w.split(parties)
	obs = w.observe(ctx, base)
	reported = c14Switches{Mod: obs.Mod, Hook: obs.Hook}
	stored = reported
	if sub, ok := a.ParamsKeeper.GetSubspace(erc20types.ModuleName); ok {
		var v bool
		if sub.Has(ctx, erc20types.ParamStoreKeyEnableErc20) {
			sub.Get(ctx, erc20types.ParamStoreKeyEnableErc20, &v)
			stored.Mod = v
		}
		if sub.Has(ctx, erc20types.ParamStoreKeyEnableEVMHook) {
			sub.Get(ctx, erc20types.ParamStoreKeyEnableEVMHook, &v)
			stored.Hook = v
		}
	}
	pairStore := prefix.NewStore(ctx.KVStore(a.GetKey(erc20types.StoreKey)), erc20types.KeyPrefixTokenPair)
	for i, pr := range w.Pairs {
		reported.Pair = append(reported.Pair, obs.Pairs[i].Enabled)
		en := obs.Pairs[i].Enabled
		kind := erc20types.OWNER_MODULE
		if pr.External {
			kind = erc20types.OWNER_EXTERNAL
		}
		if bz := pairStore.Get(erc20types.NewTokenPair(pr.Contract, pr.Denom, true, kind).GetID()); len(bz) > 0 {
			var tp erc20types.TokenPair
			if err := a.AppCodec().Unmarshal(bz, &tp); err == nil {
				en = tp.Enabled
			}
		}
		stored.Pair = append(stored.Pair, en)
		obs.Pairs[i].Enabled = en
		for _, p := range long {
			obs.Pairs[i].CBal = append(obs.Pairs[i].CBal, a.BankKeeper.GetBalance(ctx, w.cacc(p), pr.Denom).Amount.BigInt())
			obs.Pairs[i].TBal = append(obs.Pairs[i].TBal, big.NewInt(0))
		}
	}
	obs.Mod, obs.Hook = stored.Mod, stored.Hook
	return
}

func c14SameObs(a, b c03Obs) bool {
	if a.Mod != b.Mod || a.Hook != b.Hook || len(a.Pairs) != len(b.Pairs) {
		return false
	}
	for i := range a.Pairs {
		p, q := a.Pairs[i], b.Pairs[i]
		if p.Enabled != q.Enabled || p.SendOK != q.SendOK || p.Supply.Cmp(q.Supply) != 0 || p.Total.Cmp(q.Total) != 0 ||
			!c03SameInts(p.CBal, q.CBal) || !c03SameInts(p.TBal, q.TBal) {
			return false
		}
	}
	return true
}

// ---------- execution of a case ----------

// c14Exec runs the checked history of a case on a branch of `prepared` (Setup already executed there): recorded
// operations when gen is nil, else n generated ones; pre (optional) = the observation of the prepared state.  Go-side monitors (ImplFailure, case index = the index the
// case is about to get): after every step the switches the keeper reports must be the committed ones; a ghost
// operation must leave everything observed as it was.
func (w *c14World) c14Exec(e *Env, prepared sdk.Context, kase *c14Case, n int, gen func(cur c03Obs) c14Op, pre *c03Obs) (term string, sig string) {
	ctx, _ := prepared.CacheContext()
	caseIdx := e.nCases
	selfburned := make([]*big.Int, len(w.Pairs))
	stuck := make([]*big.Int, len(w.Pairs))
	zero := make([]*big.Int, len(w.Pairs))
	for i := range selfburned {
		selfburned[i] = big.NewInt(0)
		stuck[i] = big.NewInt(0)
		zero[i] = big.NewInt(0)
	}
	alarmed := map[string]bool{}
	alarm := func(step int, monitor, detail string) {
		if alarmed[monitor] {
			return
		}
		alarmed[monitor] = true
		e.Stats.ImplFailures = append(e.Stats.ImplFailures, ImplFailure{Case: caseIdx, Step: step, Monitor: monitor, Detail: detail})
	}
	look := func(step int) c03Obs {
		obs, reported, stored := w.c14Observe(ctx, kase.Parties)
		if reported.String() != stored.String() {
			alarm(step, "keeper-reports-switches-other-than-the-committed-ones",
				fmt.Sprintf("the erc20 keeper reports %s; the last committed setting (parameter subspace, token-pair records) is %s", reported, stored))
		}
		return obs
	}
	var init c03Obs
	if pre != nil {
		init = *pre // the caller has observed (and monitored) the prepared state already
	} else {
		init = look(-1)
	}
	cur := init
	prevSB := append([]*big.Int{}, zero...)
	prevStuck := append([]*big.Int{}, zero...)
	replay := gen == nil
	if replay {
		n = len(kase.Ops)
	}
	var steps []string
	for i := 0; i < n; i++ {
		var o c14Op
		if replay {
			o = kase.Ops[i]
		} else {
			o = gen(cur)
			kase.Ops = append(kase.Ops, o)
		}
		ok := w.c14Apply(ctx, o)
		e.Stats.Evaluations++
		cls := "rejected"
		if ok {
			cls = "ok"
			if o.Kind == "burn" && !o.Ghost {
				selfburned[o.Pair] = new(big.Int).Add(selfburned[o.Pair], c03Big(o.Amt))
			}
		}
		route := ""
		if o.Route != "" {
			route = ":" + o.Route + "-route"
		}
		if o.Ghost {
			e.Stats.Count("ghost:" + o.Kind + route)
		} else {
			e.Stats.Count("op:" + o.Kind + route + ":" + cls)
		}
		if o.Kind == "receipt" && !o.Ghost {
			// ghost counter of the model: coins that stay in escrow because a log names a blocked sender
			for p, d := range w.c03ReceiptStats(e, o.base(), ok, cur) {
				stuck[p] = new(big.Int).Add(stuck[p], d)
			}
			if o.Via == "vault" {
				for _, l := range o.Legs {
					if l.Kind == "transfer" && l.To == w.ModIdx && c03Big(l.Amt).Sign() > 0 {
						e.Stats.Count(fmt.Sprintf("callee-is-not-the-token-contract:transfer-to-module:mod=%v,hook=%v,pair=%v", cur.Mod, cur.Hook, cur.Pairs[l.Pair].Enabled))
					}
				}
			}
		}
		if (o.Kind == "convert_coin" || o.Kind == "convert_erc20") && o.From == o.To && !w.isLong(o.From) && w.Parties[o.From].Module {
			e.Stats.Count("module-account-converts-to-itself:" + w.Parties[o.From].Name + ":" + cls)
		}
		if o.Kind == "convert_coin" || o.Kind == "convert_erc20" {
			cp := o.From
			ep := o.To
			if o.Kind == "convert_erc20" {
				cp, ep = o.To, o.From
			}
			switch {
			case w.isLong(cp) && w.long(cp).Twin == ep:
				e.Stats.Count(fmt.Sprintf("cosmos-party:32-byte-alias-of-the-evm-party:send-enabled=%v:%s", cur.Pairs[o.Pair].SendOK, cls))
			case w.isLong(cp):
				e.Stats.Count(fmt.Sprintf("cosmos-party:32-byte-other:send-enabled=%v:%s", cur.Pairs[o.Pair].SendOK, cls))
			}
		}
		post := look(i)
		if o.Ghost && !c14SameObs(cur, post) {
			alarm(i, "operation-on-a-discarded-branch-changed-the-observed-state",
				fmt.Sprintf("a %s operation executed on a branch that was never written changed switches, balances or supplies", o.Kind))
		}
		if !o.Ghost {
			if ok && (o.Kind == "convert_coin" || o.Kind == "convert_erc20") {
				sig += "C"
			}
			if ok && o.Kind == "transfer" && o.To == w.ModIdx {
				pp, qq := cur.Pairs[o.Pair], post.Pairs[o.Pair]
				if pp.Supply.Cmp(qq.Supply) != 0 || !c03SameInts(pp.CBal, qq.CBal) {
					e.Stats.Count("hook:converted")
					sig += "C"
				} else {
					e.Stats.Count("hook:plain-transfer-to-module-address")
				}
			}
			if ok && o.Kind == "receipt" {
				converted := false
				for p := range post.Pairs {
					pp, qq := cur.Pairs[p], post.Pairs[p]
					if pp.Supply.Cmp(qq.Supply) != 0 || !c03SameInts(pp.CBal, qq.CBal) {
						converted = true
					}
				}
				if converted {
					e.Stats.Count("hook:converted-in-multi-log-receipt")
					sig += "C"
				} else {
					e.Stats.Count("hook:multi-log-receipt-without-conversion")
				}
			}
		}
		mo, mok := o, ok
		if o.Kind == "params" && o.Route == "legacy" && !ok {
			// the params module refused the proposal (a tree in which the erc20 switches are not in a parameter
			// subspace): nothing was flipped, and to the model nothing happened
			mo.Ghost, mok = true, true
		}
		steps = append(steps, Tup(w.c14OpTerm(mo, cur), B(mok), w.dobsTerm(cur, prevSB, prevStuck, post, selfburned, stuck)))
		cur = post
		prevSB = append([]*big.Int{}, selfburned...)
		prevStuck = append([]*big.Int{}, stuck...)
		sig += fmt.Sprintf("%s/%d/%d/%d/%s/%s/%v/%v;", o.Kind, o.Pair, o.From, o.To, o.Amt, o.Route, o.Ghost, ok)
		for _, l := range o.Legs {
			sig += fmt.Sprintf("%s.%s/%d/%d/%d/%s;", o.Via, l.Kind, l.Pair, l.From, l.To, l.Amt)
		}
	}
	kase.Names = nil
	var pts []string
	for _, p := range kase.Parties {
		kase.Names = append(kase.Names, w.partyName(p))
		pts = append(pts, w.cname(p))
	}
	term = App("mkErc20Case", L(pts), w.blockedTerm(), w.obsTerm(init, zero, zero), L(steps))
	return term, sig
}

// c14Prepare: a branch of the world's base context with the Setup of the case executed
func (w *c14World) c14Prepare(kase *c14Case) sdk.Context {
	ctx, _ := w.Ctx.CacheContext()
	for _, o := range kase.Setup {
		w.c14Apply(ctx, o)
	}
	return ctx
}
