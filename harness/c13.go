//go:build verif

package harness

import (
	"fmt"
	"math/big"
	"sort"

	sdkmath "cosmossdk.io/math"

	inflationtypes "github.com/Canto-Network/Canto/v8/x/inflation/types"
)

// Suite C13 = library level (the real types.CalculateEpochMintProvision against
// the model's transcription, on validated and on malformed parameters) + the
// hook histories of c05.go with the emphasis on period boundaries and toggling.

func init() { runners["C13"] = c13Run }

type c13CalcCase struct {
	Kind    string   `json:"kind"` // "calc"
	Exp     c05Exp   `json:"exp"`
	Epp     int64    `json:"epochs_per_period"`
	Bonded  string   `json:"bonded_ratio"` // raw LegacyDec
	Periods []uint64 `json:"periods"`
	Valid   bool     `json:"valid"`
}

func c13Run(e *Env) {
	if e.Replay != nil {
		var probe struct {
			Kind string `json:"kind"`
		}
		mustUnmarshal(e.Replay, &probe)
		if probe.Kind == "calc" {
			c13RunCalc(e)
		} else {
			c05RunHistories(e, "C13")
		}
		return
	}
	c13RunCalc(e)
	c05RunHistories(e, "C13")
}

func c13Eval(p inflationtypes.Params, period uint64, epp int64, bonded sdkmath.LegacyDec) (res *big.Int) {
	defer func() {
		if r := recover(); r != nil {
			res = nil
		}
	}()
	return inflationtypes.CalculateEpochMintProvision(p, period, epp, bonded).BigInt()
}

func c13RunCalc(e *Env) {
	e.Header("From Coq Require Import ZArith List.\nFrom Canto Require Import Model.Epochs Model.Inflation Check.Common Check.InflationCheck.\nImport ListNotations.\nOpen Scope Z_scope.\n")
	e.Stats.Rule = "library level: the real types.CalculateEpochMintProvision on random parameters accepted by Params.Validate (boundaries r=0, r=1, c=0, max_variance=0, bonding_target 1ulp / 1, a=0 / default / up to 2^300) with bonded ratio 0 / target / target+-1ulp / 1 / random / above 1, epochs_per_period in {1,2,3,30,365,random}, an ascending list of periods 0..6000 (consecutive runs included), plus a malformed stream (r>1, target=0, negative values, epochs_per_period <= 0) where only the formula is compared; result = raw LegacyDec integer or panic; non-trivial = a non-zero result; distinct by hash of results"
	nCases := e.Scale(160, 4000)
	if e.Tier == "search" {
		nCases *= 3
	}
	if e.Replay != nil {
		nCases = 1
	}
	for c := 0; c < nCases; c++ {
		var kase c13CalcCase
		if e.Replay != nil {
			mustUnmarshal(e.Replay, &kase)
		} else {
			kase.Kind = "calc"
			maxBits := 130
			if e.Chance(0.15) {
				maxBits = 300
			}
			kase.Exp = e.c05GenExp(maxBits)
			epps := []int64{1, 2, 3, 30, 365}
			kase.Epp = epps[e.Pick(len(epps))]
			if e.Chance(0.15) {
				kase.Epp = 1 + e.Rng.Int63n(100000)
			}
			target := bigOf(kase.Exp.Target)
			var b *big.Int
			switch e.Pick(8) {
			case 0:
				b = big.NewInt(0)
				e.Stats.Count("bonded:zero")
			case 1:
				b = new(big.Int).Set(target)
				e.Stats.Count("bonded:target")
			case 2:
				b = new(big.Int).Sub(target, big.NewInt(1))
				e.Stats.Count("bonded:target-1ulp")
			case 3:
				b = new(big.Int).Add(target, big.NewInt(1))
				e.Stats.Count("bonded:target+1ulp")
			case 4:
				b = new(big.Int).Set(c05S)
				e.Stats.Count("bonded:one")
			case 5:
				b = e.Below(new(big.Int).Add(target, big.NewInt(1)))
				e.Stats.Count("bonded:below-target")
			default:
				b = e.Below(new(big.Int).Add(c05S, big.NewInt(1)))
				e.Stats.Count("bonded:random")
			}
			if e.Chance(0.03) {
				b = new(big.Int).Add(c05S, e.Below(c05S)) // outside [0,1]: cannot come from BondedRatio, the formula still applies
				e.Stats.Count("bonded:above-one")
			}
			// malformed stream: parameters that validation rejects
			if e.Chance(0.12) {
				switch e.Pick(6) {
				case 0:
					kase.Exp.R = new(big.Int).Add(c05S, e.Mag(70)).String()
				case 1:
					kase.Exp.Target = "0"
				case 2:
					kase.Exp.A = new(big.Int).Neg(e.Mag(100)).String()
				case 3:
					kase.Epp = int64(-e.Pick(3))
				case 4:
					kase.Exp.MaxVar = new(big.Int).Neg(e.Mag(70)).String()
				default:
					kase.Exp.Target = new(big.Int).Neg(e.Mag(70)).String()
					b = new(big.Int).Neg(e.Mag(60))
				}
			}
			kase.Bonded = b.String()
			// periods
			set := map[uint64]bool{0: true, 1: true, 2: true}
			base := uint64(e.Pick(6000))
			for j := uint64(0); j < 4; j++ {
				set[base+j] = true
			}
			for j := 0; j < 5; j++ {
				set[uint64(e.Pick(6000))] = true
			}
			for j := 0; j < 3; j++ {
				set[uint64(e.Pick(70))] = true
			}
			for p := range set {
				kase.Periods = append(kase.Periods, p)
			}
			sort.Slice(kase.Periods, func(i, j int) bool { return kase.Periods[i] < kase.Periods[j] })
		}
		p := c05ToParams("acanto", c05Params{Exp: kase.Exp, Staking: c05S.String(), Community: "0"})
		kase.Valid = p.Validate() == nil && kase.Epp > 0
		if kase.Valid {
			e.Stats.Count("parameters:accepted-by-validation")
		} else {
			e.Stats.Count("parameters:malformed")
		}
		bonded := c05Dec(kase.Bonded)
		var obs []string
		sig := ""
		nz := false
		for _, x := range kase.Periods {
			r := c13Eval(p, x, kase.Epp, bonded)
			e.Stats.Evaluations++
			ro := "None"
			if r != nil {
				ro = "(Some " + c05Z(r) + ")"
			}
			obs = append(obs, Tup(c05Z(new(big.Int).SetUint64(x)), ro))
			if r == nil {
				e.Stats.Count("result:panic")
				sig += "p;"
			} else {
				if r.Sign() != 0 {
					nz = true
				}
				sig += r.String() + ";"
			}
		}
		if nz {
			e.Stats.Nontrivial(sig)
		}
		term := App("mkCalcCase", c05ExpTerm(p.ExponentialCalculation), c05Zi(kase.Epp), c05Z(bonded.BigInt()), L(obs))
		e.AddCase("check_calc", term, kase)
		e.Stats.Sample(kase)
	}
	_ = fmt.Sprint
}
