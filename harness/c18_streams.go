//go:build verif

package harness

// C18: streams and operations aimed at exported fields whose restoration by InitGenesis could be made
// conditional, and the coverage statistics of the exported states.
//   stream "pools"      governance whitelists 14 denominations, a user creates 10-13 pools (the pool
//                       sequence gets two digits), trades, removes all liquidity of some pools
//   stream "inflation"  enable_inflation toggled both ways around day / week boundaries, so that states
//                       with (enabled, skipped > 0), (disabled, skipped > 0), (enabled, period > 0) ... are exported
//   genesis             epochs_per_period in {1,2,3,5,30}, inflation epoch identifier day or week

import (
	"fmt"
	"math/rand"
	"strings"

	sdkmath "cosmossdk.io/math"
	sdk "github.com/cosmos/cosmos-sdk/types"
	banktypes "github.com/cosmos/cosmos-sdk/x/bank/types"

	coinswaptypes "github.com/Canto-Network/Canto/v8/x/coinswap/types"
	epochstypes "github.com/Canto-Network/Canto/v8/x/epochs/types"
	erc20types "github.com/Canto-Network/Canto/v8/x/erc20/types"
	inflationtypes "github.com/Canto-Network/Canto/v8/x/inflation/types"
	onboardingtypes "github.com/Canto-Network/Canto/v8/x/onboarding/types"
)

// the last two differ from the first two only in letter case (denominations are case-sensitive)
var c18ManyDenoms = []string{"TOKENA", "Tokenb", "tokena", "tokenb", "tokenc", "tokend", "tokene", "tokenf", "tokeng", "tokenh", "tokeni", "tokenj",
	"tokenk", "tokenl", "tokenm", "tokenn"}

func (r *c18Run) execExtra(op c18Op) bool {
	ch := r.ch
	a := ch.a
	rg := rand.New(rand.NewSource(op.Seed))
	switch op.Kind {
	case "params-coinswap-wide":
		p := a.CoinswapKeeper.GetParams(ch.cur())
		p.PoolCreationFee = sdk.NewCoin(c18Denom, sdkmath.NewInt(int64(rg.Intn(2))*int64(rg.Intn(1000))))
		p.MaxStandardCoinPerPool = sdkmath.NewIntWithDecimal(1, 30)
		wl := sdk.NewCoins()
		for _, d := range c18ManyDenoms {
			wl = wl.Add(sdk.NewCoin(d, sdkmath.NewIntWithDecimal(1, 6+rg.Intn(14))))
		}
		for _, d := range c18Denoms[:3] {
			wl = wl.Add(sdk.NewCoin(d, sdkmath.NewIntWithDecimal(1, 16)))
		}
		p.MaxSwapAmount = wl
		r.count(op, ch.send(&coinswaptypes.MsgUpdateParams{Authority: c18Gov, Params: p}))
	case "addliq-many":
		d := c18ManyDenoms[op.A%len(c18ManyDenoms)]
		if !a.BankKeeper.GetBalance(ch.cur(), r.userAcc(), d).Amount.IsPositive() {
			ch.mintTo(r.userAcc(), sdk.NewCoins(sdk.NewCoin(d, sdkmath.NewInt(1_000_000_000_000))))
		}
		r.count(op, ch.send(&coinswaptypes.MsgAddLiquidity{MaxToken: sdk.NewCoin(d, sdkmath.NewInt(int64(1000+rg.Intn(1_000_000)))),
			ExactStandardAmt: sdkmath.NewInt(int64(1000 + rg.Intn(1_000_000))), MinLiquidity: sdkmath.OneInt(),
			Deadline: ch.now.Unix() + 1000, Sender: r.userAcc().String()}))
	case "regcoin-case":
		// "equal up to something a sloppy validator might normalise": two registered denominations that differ
		// only in letter case
		var pair [2]string
		switch op.A % 4 {
		case 0:
			pair = [2]string{"wave", "WAVE"}
		case 1:
			pair = [2]string{"Atomx", "aTOMX"}
		case 2:
			pair = [2]string{c18Denoms[3], "ibc/" + strings.ToLower(c18Denoms[3][4:])}
		default:
			// the voucher denomination erc20/<EIP-55 address> of a registered ERC-20 and a coin named with the
			// lower-case hex digits of the same address
			if len(r.contracts) == 0 {
				pair = [2]string{"wave", "WAVE"}
				break
			}
			c := r.contracts[op.B%len(r.contracts)]
			err := ch.send(&erc20types.MsgRegisterERC20{Authority: c18Gov, Title: "t", Description: "d", Erc20Address: c.Hex()})
			r.e.Stats.Count(fmt.Sprintf("op:regcoin-case:voucher-registered:%v", err == nil))
			pair = [2]string{"erc20/" + strings.ToLower(c.Hex()), ""}
		}
		n := 0
		for i, d := range pair {
			if d == "" {
				continue
			}
			if !a.BankKeeper.HasSupply(ch.cur(), d) {
				ch.mintTo(r.userAcc(), sdk.NewCoins(sdk.NewCoin(d, sdkmath.NewInt(1_000_000))))
			}
			md := banktypes.Metadata{Description: "coin " + d, Base: d, Display: d, Name: fmt.Sprintf("Case%d-%d", op.A%4, i), Symbol: fmt.Sprintf("CS%d%d", op.A%4, i),
				DenomUnits: []*banktypes.DenomUnit{{Denom: d, Exponent: 0}}}
			if ch.send(&erc20types.MsgRegisterCoin{Authority: c18Gov, Title: "t", Description: "d", Metadata: md}) == nil {
				n++
			}
		}
		r.e.Stats.Count(fmt.Sprintf("op:regcoin-case:family%d:registered=%d", op.A%4, n))
	case "rmliq-all":
		pools := a.CoinswapKeeper.GetAllPools(ch.cur())
		if len(pools) == 0 {
			r.e.Stats.Count("op:rmliq-all:no-pool")
			return true
		}
		p := pools[op.A%len(pools)]
		bal := a.BankKeeper.GetBalance(ch.cur(), r.userAcc(), p.LptDenom).Amount
		if !bal.IsPositive() {
			r.e.Stats.Count("op:rmliq-all:no-shares")
			return true
		}
		r.count(op, ch.send(&coinswaptypes.MsgRemoveLiquidity{WithdrawLiquidity: sdk.NewCoin(p.LptDenom, bal), MinToken: sdkmath.ZeroInt(),
			MinStandardAmt: sdkmath.ZeroInt(), Deadline: ch.now.Unix() + 1000, Sender: r.userAcc().String()}))
	case "inflation-toggle", "inflation-enable", "inflation-disable":
		p := a.InflationKeeper.GetParams(ch.cur())
		switch op.Kind {
		case "inflation-toggle":
			p.EnableInflation = !p.EnableInflation
		case "inflation-enable":
			p.EnableInflation = true
		default:
			p.EnableInflation = false
		}
		r.count(op, ch.send(&inflationtypes.MsgUpdateParams{Authority: c18Gov, Params: p}))
	default:
		return false
	}
	return true
}

func (e *Env) c18GenPoolsOps() []c18Op {
	var ops []c18Op
	add := func(kind string, a, b int) { ops = append(ops, c18Op{Kind: kind, A: a, B: b, Seed: e.Rng.Int63()}) }
	add("params-coinswap-wide", 0, 0)
	n := 10 + e.Pick(4)
	perm := e.Rng.Perm(len(c18ManyDenoms))
	for i := 0; i < n; i++ {
		add("addliq-many", perm[i], 0)
		if e.Chance(0.2) {
			add("swap", e.Pick(16), e.Pick(2))
		}
		if e.Chance(0.15) {
			add("advance", e.Pick(5), 0)
		}
	}
	for i := 0; i < e.Pick(3); i++ {
		add("rmliq-all", e.Pick(16), 0)
	}
	for _, o := range e.c18GenOps("sparse", e.Pick(8)) {
		if o.Kind != "params-coinswap" { // keep the wide whitelist
			ops = append(ops, o)
		}
	}
	return ops
}

func (e *Env) c18GenInflationOps() []c18Op {
	var ops []c18Op
	add := func(kind string, a, b int) { ops = append(ops, c18Op{Kind: kind, A: a, B: b, Seed: e.Rng.Int63()}) }
	if e.Chance(0.5) {
		add("inflation-enable", 0, 0)
	}
	n := 12 + e.Pick(e.Scale(25, 60))
	for len(ops) < n {
		switch x := e.Pick(20); {
		case x < 11:
			add("advance", 1+e.Pick(3), 0)
		case x < 16:
			add("inflation-toggle", 0, 0)
		case x < 17:
			add("params-inflation", e.Pick(8), 0)
		case x < 18:
			add("params-onboarding", 0, 0)
		default:
			add("advance", 0, 0)
		}
	}
	switch e.Pick(4) { // the switch position at export time
	case 0:
		add("inflation-enable", 0, 0)
	case 1:
		add("inflation-disable", 0, 0)
	}
	if e.Chance(0.3) {
		add("advance", 1, 0)
	}
	return ops
}

// coverStats: which exported fields are away from their defaults (goes into stats.json / the evidence)
func (r *c18Run) coverStats(d *c18Docs) {
	st := r.e.Stats
	a := r.ch.a
	ctx := r.ch.cur()
	flag := func(name string, v bool) { st.Count(fmt.Sprintf("cover:%s:%v", name, v)) }
	st.Count(fmt.Sprintf("export-inflation:enabled=%v,skipped>0=%v,period>0=%v", d.inf.Params.EnableInflation, d.inf.SkippedEpochs > 0, d.inf.Period > 0))
	flag("coinswap.sequence>1", d.cs.Sequence > 1)
	flag("coinswap.sequence>=11", d.cs.Sequence >= 11)
	zero := false
	for _, p := range d.cs.Pool {
		if a.BankKeeper.GetSupply(ctx, p.LptDenom).Amount.IsZero() {
			zero = true
		}
	}
	flag("coinswap.pool-with-zero-liquidity", zero)
	flag("coinswap.params-non-default", !d.cs.Params.Fee.Equal(coinswaptypes.DefaultFee) || len(d.cs.Params.MaxSwapAmount) != 3)
	dis, mod, ext := false, false, false
	for _, p := range d.erc.TokenPairs {
		dis = dis || !p.Enabled
		mod = mod || p.ContractOwner == erc20types.OWNER_MODULE
		ext = ext || p.ContractOwner == erc20types.OWNER_EXTERNAL
	}
	flag("erc20.disabled-pair", dis)
	flag("erc20.module-owned-pair", mod)
	flag("erc20.externally-owned-pair", ext)
	flag("erc20.params-non-default", !d.erc.Params.EnableErc20 || !d.erc.Params.EnableEVMHook)
	rev, txs, multi := false, false, false
	for _, c := range d.csr.Csrs {
		rev = rev || c.Revenue.IsPositive()
		txs = txs || c.Txs > 0
		multi = multi || len(c.Contracts) > 1
	}
	flag("csr.nft-with-revenue", rev)
	flag("csr.nft-with-txs", txs)
	flag("csr.nft-with-several-contracts", multi)
	flag("csr.turnstile-set", d.csr.TurnstileAddress != "")
	flag("csr.params-non-default", d.csr.Params.EnableCsr || !d.csr.Params.CsrShares.Equal(sdkmath.LegacyNewDecWithPrec(20, 2)))
	flag("inflation.period>0", d.inf.Period > 0)
	flag("inflation.skipped>0", d.inf.SkippedEpochs > 0)
	flag("inflation.epochs-per-period-non-default", d.inf.EpochsPerPeriod != 30)
	flag("inflation.identifier-non-default", d.inf.EpochIdentifier != epochstypes.DayEpochID)
	flag("inflation.enabled", d.inf.Params.EnableInflation)
	started, notStarted, gt1 := false, false, false
	for _, x := range d.ep.Epochs {
		started = started || x.EpochCountingStarted
		notStarted = notStarted || !x.EpochCountingStarted
		gt1 = gt1 || x.CurrentEpoch > 1
	}
	flag("epochs.counting-started", started)
	flag("epochs.counting-not-started", notStarted)
	flag("epochs.current-epoch>1", gt1)
	flag("govshuttle.port-set", d.gs.PortContractAddr != "")
	def := onboardingtypes.DefaultParams()
	flag("onboarding.params-non-default", d.onb.Params.EnableOnboarding != def.EnableOnboarding || !d.onb.Params.AutoSwapThreshold.Equal(def.AutoSwapThreshold))
	flag("onboarding.whitelist-non-default", fmt.Sprint(d.onb.Params.WhitelistedChannels) != fmt.Sprint(def.WhitelistedChannels))
}
