//go:build verif

package harness

// Helpers of the C18 suite: a chain with a genuine bonded genesis validator and a
// non-zero genesis time on a caller-owned database, the export of the live state,
// InitChain of a fresh application from that export, real signed Ethereum
// transactions at keeper level, and the projection of the seven Canto modules'
// genesis documents and query answers to Coq terms.

import (
	"crypto/sha256"
	"encoding/json"
	"fmt"
	"math/big"
	"os"
	"path/filepath"
	"sort"
	"strings"
	"time"

	"cosmossdk.io/log"
	sdkmath "cosmossdk.io/math"
	abci "github.com/cometbft/cometbft/abci/types"
	tmproto "github.com/cometbft/cometbft/proto/tendermint/types"
	dbm "github.com/cosmos/cosmos-db"
	"github.com/cosmos/cosmos-sdk/baseapp"
	codectypes "github.com/cosmos/cosmos-sdk/codec/types"
	cosmosed25519 "github.com/cosmos/cosmos-sdk/crypto/keys/ed25519"
	simtestutil "github.com/cosmos/cosmos-sdk/testutil/sims"
	sdk "github.com/cosmos/cosmos-sdk/types"
	authtypes "github.com/cosmos/cosmos-sdk/x/auth/types"
	banktypes "github.com/cosmos/cosmos-sdk/x/bank/types"
	stakingtypes "github.com/cosmos/cosmos-sdk/x/staking/types"
	"github.com/ethereum/go-ethereum/common"
	ethtypes "github.com/ethereum/go-ethereum/core/types"
	"github.com/evmos/ethermint/crypto/ethsecp256k1"
	"github.com/evmos/ethermint/tests"
	ethermint "github.com/evmos/ethermint/types"
	evmtypes "github.com/evmos/ethermint/x/evm/types"

	"github.com/Canto-Network/Canto/v8/app"
	coinswaptypes "github.com/Canto-Network/Canto/v8/x/coinswap/types"
	csrtypes "github.com/Canto-Network/Canto/v8/x/csr/types"
	epochstypes "github.com/Canto-Network/Canto/v8/x/epochs/types"
	erc20types "github.com/Canto-Network/Canto/v8/x/erc20/types"
	govshuttletypes "github.com/Canto-Network/Canto/v8/x/govshuttle/types"
	inflationtypes "github.com/Canto-Network/Canto/v8/x/inflation/types"
	onboardingtypes "github.com/Canto-Network/Canto/v8/x/onboarding/types"
)

const c18Denom = "acanto"

var c18Modules = []string{coinswaptypes.ModuleName, erc20types.ModuleName, csrtypes.ModuleName, inflationtypes.ModuleName,
	epochstypes.ModuleName, govshuttletypes.ModuleName, onboardingtypes.ModuleName}

type c18Chain struct {
	a    *app.Canto
	ctx  sdk.Context // deliver-state context; block time / height are advanced by the operations
	cons sdk.ConsAddress
	priv *ethsecp256k1.PrivKey // the user: signs Ethereum transactions, owns the coins
	user common.Address
	now  time.Time
	h    int64
}

func c18NewApp() *app.Canto {
	return app.NewCanto(log.NewNopLogger(), dbm.NewMemDB(), nil, true, map[int64]bool{}, app.DefaultNodeHome, 0, false,
		simtestutil.NewAppOptionsWithFlagHome(app.DefaultNodeHome), baseapp.SetChainID(ChainID))
}

var c18DefaultGenesis app.GenesisState

func c18UserKey() *ethsecp256k1.PrivKey {
	h := sha256.Sum256([]byte("verif-c18-user"))
	return &ethsecp256k1.PrivKey{Key: h[:]}
}

// c18NewChain: InitChain with one genuine bonded validator (so that the exported staking
// state can be imported again), a funded user, bond denom = mint denom = coinswap standard
// denom = EVM denom = acanto, the given epochs_per_period of inflation, and the given (non-zero) genesis time.
func c18NewChain(genTime time.Time, epp int64, ident string, extraEpochs ...string) *c18Chain {
	ch := &c18Chain{a: c18NewApp(), priv: c18UserKey(), now: genTime, h: 1}
	a := ch.a
	ch.user = common.BytesToAddress(ch.priv.PubKey().Address().Bytes())
	if c18DefaultGenesis == nil {
		c18DefaultGenesis = app.NewDefaultGenesisState()
	}
	gs := app.GenesisState{}
	for k, v := range c18DefaultGenesis {
		gs[k] = v
	}
	cdc := a.AppCodec()
	userAcc := sdk.AccAddress(ch.user.Bytes())
	acc := &ethermint.EthAccount{BaseAccount: authtypes.NewBaseAccount(userAcc, nil, 0, 0), CodeHash: common.BytesToHash(evmtypes.EmptyCodeHash).Hex()}
	gs[authtypes.ModuleName] = cdc.MustMarshalJSON(authtypes.NewGenesisState(authtypes.DefaultParams(), []authtypes.GenesisAccount{acc}))

	valPub := cosmosed25519.GenPrivKeyFromSecret([]byte("verif-c18-validator")).PubKey()
	ch.cons = sdk.ConsAddress(valPub.Address())
	pkAny, err := codectypes.NewAnyWithValue(valPub)
	if err != nil {
		panic(err)
	}
	bondAmt := sdk.TokensFromConsensusPower(1000, ethermint.PowerReduction)
	valAddr := sdk.ValAddress(valPub.Address())
	v := stakingtypes.Validator{OperatorAddress: valAddr.String(), ConsensusPubkey: pkAny, Status: stakingtypes.Bonded, Tokens: bondAmt,
		DelegatorShares: sdkmath.LegacyNewDecFromInt(bondAmt), UnbondingTime: time.Unix(0, 0).UTC(),
		Commission:        stakingtypes.NewCommission(sdkmath.LegacyZeroDec(), sdkmath.LegacyZeroDec(), sdkmath.LegacyZeroDec()),
		MinSelfDelegation: sdkmath.ZeroInt()}
	del := stakingtypes.NewDelegation(userAcc.String(), valAddr.String(), sdkmath.LegacyNewDecFromInt(bondAmt))
	sp := stakingtypes.DefaultParams()
	sp.BondDenom = c18Denom
	gs[stakingtypes.ModuleName] = cdc.MustMarshalJSON(stakingtypes.NewGenesisState(sp, []stakingtypes.Validator{v}, []stakingtypes.Delegation{del}))

	userCoins := sdk.NewCoins(sdk.NewCoin(c18Denom, sdk.TokensFromConsensusPower(3000, ethermint.PowerReduction)))
	balances := []banktypes.Balance{{Address: userAcc.String(), Coins: userCoins},
		{Address: authtypes.NewModuleAddress(stakingtypes.BondedPoolName).String(), Coins: sdk.NewCoins(sdk.NewCoin(c18Denom, bondAmt))}}
	gs[banktypes.ModuleName] = cdc.MustMarshalJSON(banktypes.NewGenesisState(banktypes.DefaultGenesisState().Params, balances, sdk.NewCoins(), []banktypes.Metadata{}, []banktypes.SendEnabled{}))

	var cs coinswaptypes.GenesisState
	cdc.MustUnmarshalJSON(gs[coinswaptypes.ModuleName], &cs)
	cs.StandardDenom = c18Denom
	cs.Params.PoolCreationFee = sdk.NewInt64Coin(c18Denom, 0)
	gs[coinswaptypes.ModuleName] = cdc.MustMarshalJSON(&cs)

	var ev evmtypes.GenesisState
	cdc.MustUnmarshalJSON(gs[evmtypes.ModuleName], &ev)
	ev.Params.EvmDenom = c18Denom
	gs[evmtypes.ModuleName] = cdc.MustMarshalJSON(&ev)

	var inf inflationtypes.GenesisState
	cdc.MustUnmarshalJSON(gs[inflationtypes.ModuleName], &inf)
	inf.EpochsPerPeriod = epp
	if ident != "" {
		inf.EpochIdentifier = ident
	}
	gs[inflationtypes.ModuleName] = cdc.MustMarshalJSON(&inf)

	if len(extraEpochs) > 0 { // further epoch identifiers (e.g. spellings of "day" / "week" that differ only in letter case)
		var ep epochstypes.GenesisState
		cdc.MustUnmarshalJSON(gs[epochstypes.ModuleName], &ep)
		for i, id := range extraEpochs {
			ep.Epochs = append(ep.Epochs, epochstypes.EpochInfo{Identifier: id, Duration: time.Duration(6+18*i) * time.Hour})
		}
		gs[epochstypes.ModuleName] = cdc.MustMarshalJSON(&ep)
	}

	bz, err := json.Marshal(gs)
	if err != nil {
		panic(err)
	}
	if _, err := a.InitChain(&abci.RequestInitChain{ChainId: ChainID, Time: genTime, Validators: []abci.ValidatorUpdate{},
		ConsensusParams: app.DefaultConsensusParams, AppStateBytes: bz}); err != nil {
		panic(err)
	}
	ch.ctx = a.BaseApp.NewContextLegacy(false, tmproto.Header{Height: 1, ChainID: ChainID, Time: genTime, ProposerAddress: ch.cons.Bytes()})
	return ch
}

// cur: the deliver context at the current block time and height
func (ch *c18Chain) cur() sdk.Context {
	return ch.ctx.WithBlockTime(ch.now).WithBlockHeight(ch.h)
}

// c18Export: the whole application state, exported from the live deliver context without running a block.
func c18Export(a *app.Canto, ctx sdk.Context) map[string]json.RawMessage {
	gs, err := a.ModuleManager.ExportGenesisForModules(ctx, a.AppCodec(), nil)
	if err != nil {
		panic(err)
	}
	return gs
}

// c18Import: a fresh application initialised from a whole exported application state.
// Returns nil and the panic / error text when InitChain does not go through.
func c18Import(gs map[string]json.RawMessage, t time.Time, cons sdk.ConsAddress) (b *app.Canto, bctx sdk.Context, failure string) {
	defer func() {
		if r := recover(); r != nil {
			b = nil
			failure = fmt.Sprint(r)
		}
	}()
	bz, err := json.Marshal(gs)
	if err != nil {
		panic(err)
	}
	b = c18NewApp()
	if _, err := b.InitChain(&abci.RequestInitChain{ChainId: ChainID, Time: t, Validators: []abci.ValidatorUpdate{},
		ConsensusParams: app.DefaultConsensusParams, AppStateBytes: bz}); err != nil {
		return nil, sdk.Context{}, err.Error()
	}
	bctx = b.BaseApp.NewContextLegacy(false, tmproto.Header{Height: 1, ChainID: ChainID, Time: t, ProposerAddress: cons.Bytes()})
	return b, bctx, ""
}

// ---------- money and Ethereum transactions ----------

func (ch *c18Chain) mintTo(to sdk.AccAddress, coins sdk.Coins) {
	ctx := ch.cur()
	if err := ch.a.BankKeeper.MintCoins(ctx, inflationtypes.ModuleName, coins); err != nil {
		panic(err)
	}
	if err := ch.a.BankKeeper.SendCoinsFromModuleToAccount(ctx, inflationtypes.ModuleName, to, coins); err != nil {
		panic(err)
	}
}

func (ch *c18Chain) fundCollector(amt *big.Int) {
	if amt.Sign() <= 0 {
		return
	}
	ctx := ch.cur()
	fc := sdk.NewCoins(sdk.NewCoin(c18Denom, sdkmath.NewIntFromBigInt(amt)))
	if err := ch.a.BankKeeper.MintCoins(ctx, inflationtypes.ModuleName, fc); err != nil {
		panic(err)
	}
	if err := ch.a.BankKeeper.SendCoinsFromModuleToModule(ctx, inflationtypes.ModuleName, authtypes.FeeCollectorName, fc); err != nil {
		panic(err)
	}
}

// ethTx sends one signed legacy transaction through EvmKeeper.EthereumTx (EVM execution, then the
// erc20 and csr post-transaction hooks).  At keeper level nobody paid the fee, so limit*price is put
// into the fee collector first (the hook moves the fee out of it, RefundGas the unused part).
func (ch *c18Chain) ethTx(to *common.Address, data []byte, gasPrice *big.Int) (ok bool) {
	a := ch.a
	ctx := ch.cur()
	chainID := a.EvmKeeper.ChainID()
	signer := ethtypes.LatestSignerForChainID(chainID)
	nonce := a.EvmKeeper.GetNonce(ctx, ch.user)
	const limit = uint64(3_000_000)
	tx := evmtypes.NewTx(chainID, nonce, to, nil, limit, gasPrice, nil, nil, data, nil)
	tx.From = ch.user.Hex()
	if err := tx.Sign(signer, tests.NewSigner(ch.priv)); err != nil {
		panic(err)
	}
	ch.fundCollector(new(big.Int).Mul(new(big.Int).SetUint64(limit), gasPrice))
	err := Try(ctx, func(c sdk.Context) error {
		res, err := a.EvmKeeper.EthereumTx(c, tx)
		if err != nil {
			return err
		}
		if res.Failed() {
			return fmt.Errorf("vm error: %s", res.VmError)
		}
		return nil
	})
	if err != nil && os.Getenv("VERIF_DEBUG") != "" {
		fmt.Fprintf(os.Stderr, "c18 eth tx: %v\n", err)
	}
	return err == nil
}

func (ch *c18Chain) send(msg sdk.Msg) error {
	hd := ch.a.MsgServiceRouter().Handler(msg)
	if hd == nil {
		panic(fmt.Sprintf("c18: no handler for %T", msg))
	}
	err := Try(ch.cur(), func(c sdk.Context) error {
		_, err := hd(c, msg)
		return err
	})
	if err != nil && os.Getenv("VERIF_DEBUG") != "" {
		fmt.Fprintf(os.Stderr, "c18 msg %T: %v\n", msg, err)
	}
	return err
}

var c18CsrContract *evmtypes.CompiledContract

func c18LoadCsrContract() evmtypes.CompiledContract {
	if c18CsrContract != nil {
		return *c18CsrContract
	}
	repo := os.Getenv("VERIF_REPO")
	if repo == "" {
		repo = "/repo"
	}
	bz, err := os.ReadFile(filepath.Join(repo, "x/csr/keeper/test_contracts/compiled_contracts/csrSmartContract.json"))
	if err != nil {
		panic(err)
	}
	var c evmtypes.CompiledContract
	if err := json.Unmarshal(bz, &c); err != nil {
		panic(err)
	}
	c18CsrContract = &c
	return c
}

// ---------- interning of strings ----------

// c18Intern maps strings to integers, one table per case: equal strings <-> equal numbers.
type c18Intern struct {
	ids  map[string]int64
	next int64
}

func c18NewIntern() *c18Intern { return &c18Intern{ids: map[string]int64{}, next: 1} }

func (in *c18Intern) id(s string) int64 {
	if v, ok := in.ids[s]; ok {
		return v
	}
	in.ids[s] = in.next
	in.next++
	return in.ids[s]
}

// bytes of a string as a Coq list of Z (Authority.str)
func c18Str(s string) string {
	var xs []string
	for _, b := range []byte(s) {
		xs = append(xs, fmt.Sprint(int(b)))
	}
	return L(xs)
}

func c18AddrZ(a common.Address) string { return Z(new(big.Int).SetBytes(a.Bytes())) }

func c18OptAddr(a common.Address, ok bool) string {
	if !ok {
		return "None"
	}
	return "(Some " + c18AddrZ(a) + ")"
}

func c18U(v uint64) string { return Z(new(big.Int).SetUint64(v)) }

func c18SortedKeys(m map[string]bool) []string {
	var ks []string
	for k := range m {
		ks = append(ks, k)
	}
	sort.Strings(ks)
	return ks
}

var _ = strings.TrimSpace
