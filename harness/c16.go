//go:build verif

package harness

// C16 (CSR registry).  Fixture, case format, executor and observer are shared
// with C10 (c10.go); this file holds the receipt generator and the suite.

import (
	"fmt"
	"math/big"

	"github.com/ethereum/go-ethereum/common"
	"github.com/ethereum/go-ethereum/crypto"
)

func init() { runners["C16"] = runC16 }

var c16OtherEvents = []string{"Transfer", "Approval", "ApprovalForAll", "Withdraw", "DistributeFees", "OwnershipTransferred"}

func c16Registered(lv *c10Live) map[common.Address]bool {
	m := map[common.Address]bool{}
	for _, a := range lv.obs.registered() {
		m[a] = true
	}
	return m
}

// c16GenContract picks the smart-contract argument of an event; class names the intent.
func c16GenContract(e *Env, lv *c10Live) (common.Address, string) {
	f := lv.f
	isReg := c16Registered(lv)
	var free, regd, nocode []common.Address
	for _, a := range f.pool {
		switch {
		case isReg[a]:
			regd = append(regd, a)
		case c10HasCode(f, lv.ctx, a):
			free = append(free, a)
		default:
			nocode = append(nocode, a)
		}
	}
	switch r := e.Pick(100); {
	case r < 55 && len(free) > 0:
		return free[e.Pick(len(free))], "free-with-code"
	case r < 70 && len(regd) > 0:
		return regd[e.Pick(len(regd))], "already-registered"
	case r < 85 && len(nocode) > 0:
		return nocode[e.Pick(len(nocode))], "no-code"
	case r < 89:
		return common.Address{}, "zero-address"
	case r < 93:
		return f.ts, "turnstile-itself"
	case r < 96:
		return common.BytesToAddress(e.Below(c10Pow2(160)).Bytes()), "fresh-address"
	default:
		return f.pool[e.Pick(len(f.pool))], "any-pool"
	}
}

func c16GenID(e *Env, lv *c10Live, wantExisting bool) (string, string) {
	two64 := c10Pow2(64)
	if wantExisting && len(lv.obs.csrs) > 0 {
		id := new(big.Int).SetUint64(lv.obs.csrs[e.Pick(len(lv.obs.csrs))].Id)
		if e.Chance(0.15) {
			// the same low 64 bits with higher bits set: the keeper truncates
			id.Add(id, new(big.Int).Mul(two64, big.NewInt(int64(1+e.Pick(5)))))
			return id.String(), "existing-alias"
		}
		return id.String(), "existing"
	}
	return lv.kase.ProbeIDs[e.Pick(len(lv.kase.ProbeIDs))], "from-pool"
}

func c16Foreign(e *Env, lv *c10Live) string {
	f := lv.f
	switch e.Pick(5) {
	case 0:
		b := f.ts.Bytes()
		b[19] ^= 1
		return common.BytesToAddress(b).Hex() // one bit away from the Turnstile
	case 1:
		return common.Address{}.Hex()
	case 2:
		return common.BytesToAddress(f.module.Bytes()).Hex()
	default:
		return f.pool[e.Pick(len(f.pool))].Hex()
	}
}

// c16GenLog draws one log; most are Turnstile-emitted and well-formed.
func c16GenLog(e *Env, lv *c10Live) c10Log {
	f := lv.f
	l := c10Log{Emitter: "T"}
	emClass := "turnstile"
	if e.Chance(0.25) {
		l.Emitter = c16Foreign(e, lv)
		emClass = "foreign"
	}
	switch r := e.Pick(100); {
	case r < 36:
		c, cls := c16GenContract(e, lv)
		id, icls := c16GenID(e, lv, e.Chance(0.25))
		l.Kind, l.Contract, l.Recv, l.ID = "register", c.Hex(), f.pool[e.Pick(len(f.pool))].Hex(), id
		if e.Chance(0.1) {
			l.Recv = common.Address{}.Hex()
		}
		l.Dirty = e.Chance(0.1)
		e.Stats.Count("log:" + emClass + ":register:" + cls + ":" + icls)
	case r < 72:
		c, cls := c16GenContract(e, lv)
		id, icls := c16GenID(e, lv, e.Chance(0.8))
		l.Kind, l.Contract, l.ID = "assign", c.Hex(), id
		l.Dirty = e.Chance(0.1)
		e.Stats.Count("log:" + emClass + ":assign:" + cls + ":" + icls)
	case r < 82:
		c, _ := c16GenContract(e, lv)
		l.Kind, l.Contract = "malformed", c.Hex()
		if e.Chance(0.5) {
			l.Base = "assign"
			l.Cut = []int{0, 1, 31, 32, 33, 63}[e.Pick(6)]
		} else {
			l.Base = "register"
			l.Cut = []int{0, 20, 32, 64, 65, 95}[e.Pick(6)]
		}
		e.Stats.Count("log:" + emClass + ":malformed")
	case r < 90:
		l.Kind, l.Other = "other", c16OtherEvents[e.Pick(len(c16OtherEvents))]
		e.Stats.Count("log:" + emClass + ":other-turnstile-event")
	case r < 95:
		l.Kind = "unknown"
		l.Topic = common.BytesToHash(crypto.Keccak256([]byte(fmt.Sprintf("unknown-%d", e.Pick(1000))))).Hex()
		e.Stats.Count("log:" + emClass + ":unknown-topic")
	default:
		l.Kind = "notopics"
		e.Stats.Count("log:" + emClass + ":no-topics")
	}
	return l
}

// a valid event for the current state (used as the frame into which special logs are inserted)
func c16ValidLog(e *Env, lv *c10Live, taken map[common.Address]bool, takenID map[string]bool) (c10Log, bool) {
	f := lv.f
	isReg := c16Registered(lv)
	var free []common.Address
	for _, a := range f.pool {
		if !isReg[a] && !taken[a] && c10HasCode(f, lv.ctx, a) {
			free = append(free, a)
		}
	}
	if len(free) == 0 {
		return c10Log{}, false
	}
	a := free[e.Pick(len(free))]
	taken[a] = true
	if len(lv.obs.csrs) > 0 && e.Chance(0.5) {
		return c10Log{Emitter: "T", Kind: "assign", Contract: a.Hex(), ID: fmt.Sprint(lv.obs.csrs[e.Pick(len(lv.obs.csrs))].Id)}, true
	}
	exists := map[uint64]bool{}
	for _, c := range lv.obs.csrs {
		exists[c.Id] = true
	}
	for _, id := range lv.kase.ProbeIDs {
		u := new(big.Int).And(bigOf(id), new(big.Int).SetUint64(^uint64(0)))
		if !exists[u.Uint64()] && !takenID[u.String()] {
			takenID[u.String()] = true
			return c10Log{Emitter: "T", Kind: "register", Contract: a.Hex(), Recv: f.pool[0].Hex(), ID: id}, true
		}
	}
	if len(lv.obs.csrs) > 0 {
		return c10Log{Emitter: "T", Kind: "assign", Contract: a.Hex(), ID: fmt.Sprint(lv.obs.csrs[0].Id)}, true
	}
	return c10Log{}, false
}

func c16GenOp(e *Env, lv *c10Live) c10Op {
	f := lv.f
	var op c10Op
	// environment: code appears / disappears, csr switched off and on
	if e.Chance(0.25) {
		a := f.pool[e.Pick(len(f.pool))]
		if c10HasCode(f, lv.ctx, a) {
			if e.Chance(0.3) {
				op.CodeOff = append(op.CodeOff, a.Hex())
			}
		} else {
			op.CodeOn = append(op.CodeOn, a.Hex())
		}
	}
	if e.Chance(0.04) {
		op.SetParams = &c10Params{Enable: !lv.params.Enable || e.Chance(0.5), Share: lv.params.Share}
		if !op.SetParams.Enable {
			e.Stats.Count("env:csr-disabled")
		}
	} else if !lv.params.Enable && e.Chance(0.6) {
		op.SetParams = &c10Params{Enable: true, Share: lv.params.Share}
	}
	// receipt
	switch r := e.Pick(100); {
	case r < 35:
		// a frame of valid events with one special log inserted at every possible position in turn
		taken, takenID := map[common.Address]bool{}, map[string]bool{}
		var frame []c10Log
		for i := 0; i < 1+e.Pick(3); i++ {
			if l, ok := c16ValidLog(e, lv, taken, takenID); ok {
				frame = append(frame, l)
			}
		}
		special := c16GenLog(e, lv)
		pos := e.Pick(len(frame) + 1)
		op.Logs = append(op.Logs, frame[:pos]...)
		op.Logs = append(op.Logs, special)
		op.Logs = append(op.Logs, frame[pos:]...)
		e.Stats.Count(fmt.Sprintf("receipt:frame-of-%d-special-at-%d", len(frame), pos))
	case r < 45:
		e.Stats.Count("receipt:no-logs")
	default:
		n := 1 + e.Pick(5)
		for i := 0; i < n; i++ {
			op.Logs = append(op.Logs, c16GenLog(e, lv))
		}
		e.Stats.Count(fmt.Sprintf("receipt:random-%d", n))
	}
	// fee distribution interleaved
	regd := lv.obs.registered()
	if e.Chance(0.45) {
		op.GasUsed = fmt.Sprint(21000 + e.Pick(1_000_000))
		op.GasPrice = []string{"0", "1", "100", "1000000007"}[e.Pick(4)]
		e.Stats.Count("fee:distributed")
	} else {
		op.GasUsed, op.GasPrice = "0", "0"
		e.Stats.Count("fee:none")
	}
	switch r := e.Pick(100); {
	case r < 50 && len(regd) > 0:
		op.To = regd[e.Pick(len(regd))].Hex()
	case r < 65:
		op.To = ""
	case r < 85 && len(op.Logs) > 0 && op.Logs[0].Contract != "":
		op.To = op.Logs[e.Pick(len(op.Logs))].Contract // possibly registered by this very receipt
		if op.To == "" {
			op.To = f.pool[0].Hex()
		}
	default:
		op.To = f.pool[e.Pick(len(f.pool))].Hex()
	}
	if op.To == "" {
		// a creation: ethermint fills receipt.ContractAddress (the address derived from sender and nonce, whatever the
		// constructor left there).  Mostly the contract named by one of the receipt's events - a constructor that
		// registers / assigns the contract being created - which may or may not hold code afterwards
		var named []string
		for _, l := range op.Logs {
			if l.Contract != "" {
				named = append(named, l.Contract)
			}
		}
		if len(named) > 0 && e.Chance(0.75) {
			op.Created = named[e.Pick(len(named))]
			if c10HasCode(f, lv.ctx, common.HexToAddress(op.Created)) {
				e.Stats.Count("creation:created-address-named-by-an-event:holds-code")
			} else {
				e.Stats.Count("creation:created-address-named-by-an-event:no-code")
			}
		} else {
			op.Created = f.pool[e.Pick(len(f.pool))].Hex()
			e.Stats.Count("creation:created-address-not-named-by-an-event")
		}
	}
	fee := new(big.Int).Mul(bigOf(op.GasUsed), bigOf(op.GasPrice))
	if lv.obs.collector.Cmp(fee) < 0 {
		op.Fund = new(big.Int).Mul(fee, big.NewInt(3)).String()
	}
	return op
}

func runC16(e *Env) {
	e.Header("From Coq Require Import ZArith List.\nFrom Canto Require Import Model.Csr Check.Common Check.CsrCheck.\nImport ListNotations.\nOpen Scope Z_scope.\n")
	e.Stats.Rule = "case = well-formed csr genesis (0-3 NFTs, imported with the real InitGenesis) + a history of synthetic receipts through the real csr post-tx hook: 0-6 logs each, emitted by the stored Turnstile address or by foreign addresses (one bit away from it, zero, module account, pool contracts) with the genuine Register/Assign topics; payloads valid, duplicate contract, duplicate / aliased (2^64+k) / unknown NFT id, address without code, zero address, truncated data, dirty padding, other Turnstile events, unknown topics, no topics; a special log inserted at every position of a frame of valid events; code appearing and disappearing between receipts; csr switched off and on; fee distribution (gas price 0/1/100/1e9+7) interleaved; creation receipts carry receipt.ContractAddress as ethermint fills it in (mostly the contract named by one of the receipt's events, holding code or not); plus cases of real signed EVM transactions through EvmKeeper.EthereumTx whose contracts call Turnstile.register / assign (genuine Register / Assign / Transfer logs), among them creations whose constructor registers the contract being created and then returns a one-byte runtime or NO code (at least one of the latter per case; the holds-code oracle of a creation is taken at hook time); non-trivial = the registry changed; distinct by hash of the sequence of registry listings"
	e.ShardSize = 10 // ~25 steps per case: small shards keep the parallel Coq evaluation short
	f := c10Setup()
	n := e.Scale(50, 1500)
	if e.Tier == "search" {
		n = 200
	}
	nReal := e.Scale(4, 150) // cases made of real signed EVM transactions calling Turnstile.register / assign
	if e.Replay != nil {
		n = 1
	}
	for c := 0; c < n; c++ {
		var kase c10Case
		if e.Replay != nil {
			mustUnmarshal(e.Replay, &kase)
			if kase.RealContracts > 0 {
				c10RunRealCase(e, f, c, "C16", "check_c16", &kase)
				continue
			}
			lv := c10Start(e, f, &kase)
			for _, op := range kase.Ops {
				lv.exec(e, c, op)
			}
			lv.finish(e, c, "check_c16")
			continue
		}
		if c >= n-nReal {
			c10RunRealCase(e, f, c, "C16", "check_c16", nil)
			continue
		}
		kase.Suite = "C16"
		kase.ProbeIDs = c10ProbeIDs(e)
		kase.Genesis = c10GenGenesis(e, f, kase.ProbeIDs, 3)
		kase.Params = c10Params{Enable: true, Share: []string{"0", "200000000000000000", "1000000000000000000", "333333333333333333"}[e.Pick(4)]}
		kase.Collector = "1000000000000"
		kase.NoTurnstile = e.Chance(0.02)
		e.Stats.Count(fmt.Sprintf("genesis:%d-csrs", len(kase.Genesis)))
		lv := c10Start(e, f, &kase)
		// some pool contracts hold code from the start
		nOps := 15 + e.Pick(e.Scale(25, 40))
		for i := 0; i < nOps; i++ {
			op := c16GenOp(e, lv)
			if i == 0 {
				for _, j := range e.Rng.Perm(len(f.pool))[:5] {
					op.CodeOn = append(op.CodeOn, f.pool[j].Hex())
				}
			}
			kase.Ops = append(kase.Ops, op)
			before := fmt.Sprint(lv.obs.byc)
			ok := lv.exec(e, c, op)
			after := fmt.Sprint(lv.obs.byc)
			if before != after {
				e.Stats.Count("step:registry-changed")
				fmt.Fprintf(&lv.sig, "%d:%s;", i, after)
			} else {
				e.Stats.Count("step:registry-unchanged")
			}
			if !ok {
				e.Stats.Count("step:hook-failed")
			}
		}
		if lv.sig.Len() > 0 {
			e.Stats.Nontrivial(lv.sig.String())
		}
		lv.finish(e, c, "check_c16")
		e.Stats.Sample(kase)
	}
}
