//go:build verif

package harness

// C11 helpers: the world (the C04 world + an onboarding keeper built around the
// C04 recording / failure-injecting EVM keeper wrapper + voucher denominations,
// pools), observation and Coq term printing.

import (
	"fmt"
	"math/big"
	"sort"
	"strings"

	sdkmath "cosmossdk.io/math"
	sdk "github.com/cosmos/cosmos-sdk/types"
	authtypes "github.com/cosmos/cosmos-sdk/x/auth/types"
	banktypes "github.com/cosmos/cosmos-sdk/x/bank/types"
	distrtypes "github.com/cosmos/cosmos-sdk/x/distribution/types"
	govtypes "github.com/cosmos/cosmos-sdk/x/gov/types"
	transfertypes "github.com/cosmos/ibc-go/v8/modules/apps/transfer/types"
	clienttypes "github.com/cosmos/ibc-go/v8/modules/core/02-client/types"
	channeltypes "github.com/cosmos/ibc-go/v8/modules/core/04-channel/types"
	"github.com/ethereum/go-ethereum/common"

	coinswapkeeper "github.com/Canto-Network/Canto/v8/x/coinswap/keeper"
	coinswaptypes "github.com/Canto-Network/Canto/v8/x/coinswap/types"
	erc20types "github.com/Canto-Network/Canto/v8/x/erc20/types"
	inflationtypes "github.com/Canto-Network/Canto/v8/x/inflation/types"
	onboardingkeeper "github.com/Canto-Network/Canto/v8/x/onboarding/keeper"
	onboardingtypes "github.com/Canto-Network/Canto/v8/x/onboarding/types"
)

// c11Denom: one denomination a packet can carry, as seen on this chain.
type c11Denom struct {
	Name    string
	Denom   string // bank denomination the transfer module credits
	Voucher bool   // true: minted voucher (data.Denom = Base, fixed destination channel); false: a coin returning home
	Base    string
	Channel string   // destination channel that yields this voucher
	Pair    *c04Pair // nil: no pair registered at world creation
	Std     bool
	// Collides: 1 + index of the ONE-hop voucher of the same base denomination on the same destination channel (0 = none).
	// Set for vouchers whose raw packet denomination already carries hops: the credited voucher is the hash of
	// dstPort/dstChannel/ + the FULL raw denomination, a different asset from the one-hop voucher, which the recipient
	// holds as a prior balance and which has a pool and a pair.  The observation's "unrelated denomination" slot then
	// watches that one-hop voucher.
	Collides int
}

const (
	c11Users       = 3 // recipients U0..U2; the fourth C04 user is the bystander
	c11SrcChannel  = "channel-9"
	c11OtherDenom  = "aother"
	c11NumDenoms   = 9
	c11ContractZ   = 7
	c11MaxPoolCap  = 250
	c11DeadlineSec = 4_000_000_000
)

// module accounts a packet may name as recipient; index 3 must be the erc20 module (Model/Onboarding.v M_erc20)
var c11Modules = []string{coinswaptypes.ModuleName, authtypes.FeeCollectorName, distrtypes.ModuleName, erc20types.ModuleName}

// module accounts stored in state under names the app's permission table (maccPerms) does not know — a leftover of a
// removed module, or imported through genesis: codes M4, M5.  They are module accounts, but not on the bank's blocklist.
var c11ForeignModules = []string{"recovery", "claims"}

// whitelist entries / destination channels and their codes in the model
var c11Channels = map[string]int64{"channel-0": 0, "channel-1": 1, "channel-5": 5, "channel-00": 100, "transfer": 101, "": 102}

type c11World struct {
	*c04World
	ok        *onboardingkeeper.Keeper
	std       string
	denoms    []c11Denom
	funder    sdk.AccAddress
	sink      sdk.AccAddress
	bystander sdk.AccAddress
}

func c11VoucherDenom(channel, base string) string {
	return transfertypes.ParseDenomTrace("transfer/" + channel + "/" + base).IBCDenom()
}

func c11NewWorld() *c11World {
	w := &c11World{c04World: c04NewWorld()}
	a, ctx := w.a, w.ctx
	std, err := a.CoinswapKeeper.GetStandardDenom(ctx)
	if err != nil || std == "" {
		panic("no standard denom")
	}
	w.std = std
	w.funder = sdk.AccAddress([]byte("verif-c11-funder-----"))[:20]
	w.sink = sdk.AccAddress([]byte("verif-c11-sink-------"))[:20]
	w.bystander = sdk.AccAddress(w.users[3].Bytes())
	for _, addr := range []sdk.AccAddress{w.funder, w.sink} {
		a.AccountKeeper.SetAccount(ctx, a.AccountKeeper.NewAccountWithAddress(ctx, addr))
	}
	for _, m := range c11Modules {
		a.AccountKeeper.GetModuleAccount(ctx, m) // creates the module account object when missing
	}
	for _, m := range c11ForeignModules {
		if _, known := a.AccountKeeper.GetModulePermissions()[m]; known {
			panic("module name " + m + " is known to the app")
		}
		a.AccountKeeper.SetAccount(ctx, a.AccountKeeper.NewAccount(ctx, authtypes.NewEmptyModuleAccount(m)))
		if _, isMod := a.AccountKeeper.GetAccount(ctx, authtypes.NewModuleAddress(m)).(sdk.ModuleAccountI); !isMod {
			panic("foreign module account not stored as a module account")
		}
	}
	// module-owned pairs for two genuine vouchers
	reg := func(denom, sym string) *c04Pair {
		c04Must(a.BankKeeper.MintCoins(ctx, inflationtypes.ModuleName, sdk.Coins{sdk.NewInt64Coin(denom, 1)}))
		meta := banktypes.Metadata{Description: "verif voucher", Base: denom, Name: denom, Symbol: sym, Display: denom,
			DenomUnits: []*banktypes.DenomUnit{{Denom: denom, Exponent: 0}}}
		tp, err := a.Erc20Keeper.RegisterCoin(ctx, meta)
		c04Must(err)
		return &c04Pair{Name: sym, Kind: 0, Denom: denom, Contract: tp.GetERC20Contract(), Owner: w.mod, Honest: true}
	}
	v0 := c11VoucherDenom("channel-0", "uverif")
	v1 := c11VoucherDenom("channel-1", "uverif")
	w.denoms = []c11Denom{
		{Name: "voucher-ch0", Denom: v0, Voucher: true, Base: "uverif", Channel: "channel-0", Pair: reg(v0, "VCH0")},
		{Name: "voucher-ch1", Denom: v1, Voucher: true, Base: "uverif", Channel: "channel-1", Pair: reg(v1, "VCH1")},
		{Name: "home-coin", Denom: w.pairs["coin"].Denom, Base: w.pairs["coin"].Denom, Pair: w.pairs["coin"]},
		{Name: "home-erc20", Denom: w.pairs["erc20"].Denom, Base: w.pairs["erc20"].Denom, Pair: w.pairs["erc20"]},
		{Name: "home-malicious", Denom: w.pairs["delayed"].Denom, Base: w.pairs["delayed"].Denom, Pair: w.pairs["delayed"]},
		{Name: "voucher-unregistered", Denom: c11VoucherDenom("channel-0", "unreg"), Voucher: true, Base: "unreg", Channel: "channel-0"},
		{Name: "home-standard", Denom: std, Base: std, Std: true},
		// vouchers of coins that had already travelled before they reached the counterparty: 1 and 2 extra hops
		{Name: "voucher-ch0-two-hops", Denom: c11VoucherDenom("channel-0", "transfer/channel-7/uverif"), Voucher: true,
			Base: "transfer/channel-7/uverif", Channel: "channel-0", Collides: 1 + 0},
		{Name: "voucher-ch1-three-hops", Denom: c11VoucherDenom("channel-1", "transfer/channel-3/transfer/channel-7/uverif"), Voucher: true,
			Base: "transfer/channel-3/transfer/channel-7/uverif", Channel: "channel-1", Collides: 1 + 1},
	}
	if len(w.denoms) != c11NumDenoms || w.denoms[7].Denom == v0 || w.denoms[8].Denom == v1 || w.denoms[7].Denom == w.denoms[8].Denom {
		panic("denomination table")
	}
	sp := a.GetSubspace(onboardingtypes.ModuleName)
	w.ok = onboardingkeeper.NewKeeper(sp, a.AccountKeeper, a.BankKeeper, a.IBCKeeper.ChannelKeeper, a.TransferKeeper, a.CoinswapKeeper, w.wk,
		authtypes.NewModuleAddress(govtypes.ModuleName).String())
	return w
}

func (w *c11World) c11Mint(ctx sdk.Context, denom string, to sdk.AccAddress, amt *big.Int) {
	if amt.Sign() <= 0 {
		return
	}
	coins := sdk.NewCoins(sdk.NewCoin(denom, sdkmath.NewIntFromBigInt(amt)))
	c04Must(w.a.BankKeeper.MintCoins(ctx, inflationtypes.ModuleName, coins))
	c04Must(w.a.BankKeeper.SendCoins(ctx, authtypes.NewModuleAddress(inflationtypes.ModuleName), to, coins))
}

// recipient code: U0..U2 | M0..M3
func (w *c11World) c11Rcpt(code string) sdk.AccAddress {
	var i int
	fmt.Sscan(code[1:], &i)
	if code[0] == 'M' {
		if i >= len(c11Modules) {
			return authtypes.NewModuleAddress(c11ForeignModules[i-len(c11Modules)])
		}
		return authtypes.NewModuleAddress(c11Modules[i])
	}
	return sdk.AccAddress(w.users[i].Bytes())
}

func c11RcptTerm(code string) string {
	if code[0] == 'M' {
		return "(Module " + code[1:] + ")"
	}
	return "(User " + code[1:] + ")"
}

func c11RcptZ(code string) int64 {
	var i int64
	fmt.Sscan(code[1:], &i)
	if code[0] == 'M' {
		return 3*i + 2
	}
	return 3*i + 3
}

func c11DenomTerm(i int, d c11Denom) string {
	if d.Std {
		return "Std"
	}
	return fmt.Sprintf("(Tok %d)", i)
}

// the pool of a denomination: escrow address and sequence, if it exists
func (w *c11World) c11Pool(ctx sdk.Context, denom string) (sdk.AccAddress, int64, bool) {
	pool, ok := w.a.CoinswapKeeper.GetPool(ctx, coinswaptypes.GetPoolId(denom))
	if !ok {
		return nil, 0, false
	}
	seq, err := coinswaptypes.ParseLptDenom(pool.LptDenom)
	c04Must(err)
	return coinswaptypes.GetReservePoolAddr(pool.LptDenom), int64(seq), true
}

func (w *c11World) c11SetCoinswapParams(ctx sdk.Context, fee *big.Int, wl map[string]*big.Int) {
	var coins sdk.Coins
	for d, m := range wl {
		if m.Sign() > 0 {
			coins = append(coins, sdk.Coin{Denom: d, Amount: sdkmath.NewIntFromBigInt(m)})
		}
	}
	sort.Slice(coins, func(i, j int) bool { return coins[i].Denom < coins[j].Denom })
	w.a.CoinswapKeeper.SetParams(ctx, coinswaptypes.Params{
		Fee:                    sdkmath.LegacyNewDecFromBigIntWithPrec(fee, 18),
		PoolCreationFee:        sdk.NewCoin(w.std, sdkmath.ZeroInt()),
		TaxRate:                sdkmath.LegacyZeroDec(),
		MaxStandardCoinPerPool: sdkmath.NewIntFromBigInt(new(big.Int).Lsh(big.NewInt(1), c11MaxPoolCap)),
		MaxSwapAmount:          coins,
	})
}

// creates the pool std/denom with exactly these reserves through the real message server
func (w *c11World) c11CreatePool(ctx sdk.Context, denom string, std, tok *big.Int) {
	w.c11Mint(ctx, w.std, w.funder, std)
	w.c11Mint(ctx, denom, w.funder, tok)
	ms := coinswapkeeper.NewMsgServerImpl(w.a.CoinswapKeeper)
	_, err := ms.AddLiquidity(ctx, &coinswaptypes.MsgAddLiquidity{
		MaxToken:         sdk.NewCoin(denom, sdkmath.NewIntFromBigInt(tok)),
		ExactStandardAmt: sdkmath.NewIntFromBigInt(std),
		MinLiquidity:     sdkmath.NewInt(1),
		Deadline:         c11DeadlineSec,
		Sender:           w.funder.String(),
	})
	c04Must(err)
}

// ---------------------------------------------------------------- packets

// src is the counterparty's channel id (packet.SourceChannel), chosen independently of the local
// (destination) channel; "" = c11SrcChannel
func (w *c11World) c11Packet(d c11Denom, src, channel, amount, sender, receiver string) channeltypes.Packet {
	if src == "" {
		src = c11SrcChannel
	}
	dataDenom, dst := d.Base, channel
	if d.Voucher {
		dst = d.Channel
	} else {
		dataDenom = "transfer/" + src + "/" + d.Base // a coin of this chain coming home
	}
	data := transfertypes.NewFungibleTokenPacketData(dataDenom, amount, sender, receiver, "")
	bz := transfertypes.ModuleCdc.MustMarshalJSON(&data)
	return channeltypes.NewPacket(bz, 1, transfertypes.PortID, src, transfertypes.PortID, dst, clienttypes.NewHeight(0, 100), 0)
}

// ---------------------------------------------------------------- observation

type c11Obs struct {
	Rstd, Rv, Rother, Pstd, Pv, Mv, Sup, Xstd, Xv, Rtok, Mtok, Tot *big.Int
}

func (w *c11World) c11Observe(ctx sdk.Context, rcpt sdk.AccAddress, d c11Denom) c11Obs {
	bal := func(a sdk.AccAddress, denom string) *big.Int {
		if a == nil {
			return big.NewInt(0)
		}
		return w.a.BankKeeper.GetBalance(ctx, a, denom).Amount.BigInt()
	}
	other := c11OtherDenom
	if d.Collides > 0 {
		other = w.denoms[d.Collides-1].Denom
	}
	o := c11Obs{Rstd: bal(rcpt, w.std), Rv: bal(rcpt, d.Denom), Rother: bal(rcpt, other),
		Pstd: big.NewInt(0), Pv: big.NewInt(0),
		Mv: bal(sdk.AccAddress(w.mod.Bytes()), d.Denom), Sup: w.a.BankKeeper.GetSupply(ctx, d.Denom).Amount.BigInt(),
		Xstd: bal(w.bystander, w.std), Xv: bal(w.bystander, d.Denom),
		Rtok: big.NewInt(-1), Mtok: big.NewInt(-1), Tot: big.NewInt(-1)}
	if esc, _, ok := w.c11Pool(ctx, d.Denom); ok {
		o.Pstd, o.Pv = bal(esc, w.std), bal(esc, d.Denom)
	}
	if d.Pair != nil && rcpt != nil {
		o.Rtok = w.c04TokenBal(ctx, d.Pair, common.BytesToAddress(rcpt.Bytes()))
		o.Mtok = w.c04TokenBal(ctx, d.Pair, w.mod)
		o.Tot = w.c04Total(ctx, d.Pair)
	}
	return o
}

func (o c11Obs) c11Term() string {
	return App("mkObs", Z(o.Rstd), Z(o.Rv), Z(o.Rother), Z(o.Pstd), Z(o.Pv), Z(o.Mv), Z(o.Sup), Z(o.Xstd), Z(o.Xv), Z(o.Rtok), Z(o.Mtok), Z(o.Tot))
}

// every bank balance and the total supply
func (w *c11World) c11BankDump(ctx sdk.Context) string {
	var sb strings.Builder
	bals := w.a.BankKeeper.GetAccountsBalances(ctx)
	sort.Slice(bals, func(i, j int) bool { return bals[i].Address < bals[j].Address })
	for _, b := range bals {
		fmt.Fprintf(&sb, "%s=%s;", b.Address, b.Coins.String())
	}
	sup, _, err := w.a.BankKeeper.GetPaginatedTotalSupply(ctx, nil)
	c04Must(err)
	fmt.Fprintf(&sb, "|supply=%s", sup.String())
	return sb.String()
}

// ---------------------------------------------------------------- Coq terms

// the script of Model/Convert.v in the account numbering of Model/Onboarding.v
func (w *c11World) c11ScriptTerm(s c04Seen, rcpt sdk.AccAddress, rcptZ int64) string {
	num := func(a common.Address) string {
		switch {
		case rcpt != nil && a == common.BytesToAddress(rcpt.Bytes()):
			return Zi(rcptZ)
		case a == w.mod:
			return Zi(11)
		}
		return Z(new(big.Int).Add(big.NewInt(1_000_000), new(big.Int).SetBytes(a.Bytes()[14:])))
	}
	who := func(asked bool, a common.Address) string {
		if !asked {
			return "(-1)"
		}
		return num(a)
	}
	callAns := "None"
	if s.CallSeen && s.CallOK {
		ret := []string{"Convert.RetTrue", "Convert.RetFalse", "Convert.RetBad"}[s.Ret]
		var logs []string
		for _, l := range s.Logs {
			logs = append(logs, []string{"Convert.LogNoTopics", "Convert.LogApproval", "Convert.LogOther"}[l])
		}
		callAns = "(Some (" + ret + ", " + L(logs) + "))"
	}
	kind, from, acct, amt := "(-1)", "(-1)", "(-1)", "0"
	if s.CallSeen {
		kind, from, acct = Zi(int64(s.CallKind)), num(s.CallFrom), num(s.CallAcct)
		if s.CallAmt != nil {
			amt = Z(s.CallAmt)
		}
	}
	return App("Convert.mkScript", who(s.Q0Asked, s.Q0Who), OptZ(s.Q0), kind, from, acct, amt, callAns, who(s.Q1Asked, s.Q1Who), OptZ(s.Q1))
}

func c11ChannelZ(ch string) string {
	if c, ok := c11Channels[ch]; ok {
		return Zi(c)
	}
	return Zi(999)
}
