//go:build verif

package harness

// Extraction of the admission tables from the source tree under test (go/parser,
// go/ast, go/printer only; chains and routing by the semantic extraction of c19_extract.go,
// the same code as tools/gokernel/ante.go): the
// suite runs it on every check, ships the result inside each case file, and the
// Coq checker (Check/AnteCheck.v) compares it with the reference tables of
// Model/Ante.v that the theorems are stated about.  Files are read from
// $VERIF_REPO (default /repo) - the same tree the harness binary was built against.

import (
	"bytes"
	"go/ast"
	"go/parser"
	"go/printer"
	"go/token"
	"os"
	"path/filepath"
	"strconv"
	"strings"
)

type c19Chain struct {
	Name       string
	Decorators []string
}

type c19Tables struct {
	Chains        []c19Chain
	SwitchOn      string
	Switch        [][2]string
	SwitchDefault string
	Plain         []string
	Disabled      []string
	SwitchGuard   []string // conditions under which the extension-option dispatch is reached (not part of the Coq term)
}

func c19Src(fset *token.FileSet, n ast.Node) string {
	if n == nil {
		return ""
	}
	var b bytes.Buffer
	if err := printer.Fprint(&b, fset, n); err != nil {
		return "<unprintable>"
	}
	return strings.Join(strings.Fields(b.String()), " ")
}

// c19Imports maps the local name of each import to its path.
func c19Imports(f *ast.File) map[string]string {
	m := map[string]string{}
	for _, im := range f.Imports {
		p, _ := strconv.Unquote(im.Path.Value)
		name := p[strings.LastIndex(p, "/")+1:]
		if im.Name != nil {
			name = im.Name.Name
		}
		m[name] = p
	}
	return m
}

func c19ExtractDisabled(fset *token.FileSet, f *ast.File, t *c19Tables) {
	imp := c19Imports(f)
	ast.Inspect(f, func(n ast.Node) bool {
		cl, ok := n.(*ast.CompositeLit)
		if !ok {
			return true
		}
		sel, ok := cl.Type.(*ast.SelectorExpr)
		if !ok || sel.Sel.Name != "HandlerOptions" {
			return true
		}
		if x, ok := sel.X.(*ast.Ident); !ok || imp[x.Name] == "" || !strings.HasSuffix(imp[x.Name], "/app/ante") {
			return true
		}
		for _, el := range cl.Elts {
			kv, ok := el.(*ast.KeyValueExpr)
			if !ok {
				continue
			}
			if k, ok := kv.Key.(*ast.Ident); !ok || k.Name != "DisabledAuthzMsgs" {
				continue
			}
			lst, ok := kv.Value.(*ast.CompositeLit)
			if !ok {
				t.Disabled = append(t.Disabled, "<not a literal: "+c19Src(fset, kv.Value)+">")
				continue
			}
			for _, e := range lst.Elts {
				t.Disabled = append(t.Disabled, c19DisabledEntry(fset, imp, e))
			}
		}
		return true
	})
}

// c19DisabledEntry resolves  sdk.MsgTypeURL(&pkg.Type{})  to  <import path of pkg>.Type ;
// a string literal stands for itself; anything else is printed as written.
func c19DisabledEntry(fset *token.FileSet, imp map[string]string, e ast.Expr) string {
	if bl, ok := e.(*ast.BasicLit); ok && bl.Kind == token.STRING {
		if u, err := strconv.Unquote(bl.Value); err == nil {
			return u
		}
	}
	if call, ok := e.(*ast.CallExpr); ok && len(call.Args) == 1 {
		if sel, ok := call.Fun.(*ast.SelectorExpr); ok && sel.Sel.Name == "MsgTypeURL" {
			if un, ok := call.Args[0].(*ast.UnaryExpr); ok && un.Op == token.AND {
				if cl, ok := un.X.(*ast.CompositeLit); ok && len(cl.Elts) == 0 {
					if ts, ok := cl.Type.(*ast.SelectorExpr); ok {
						if id, ok := ts.X.(*ast.Ident); ok && imp[id.Name] != "" {
							return imp[id.Name] + "." + ts.Sel.Name
						}
					}
				}
			}
		}
	}
	return c19Src(fset, e)
}

func c19Extract(repo string) (c19Tables, error) {
	var t c19Tables
	fset := token.NewFileSet()
	parse := func(rel string) (*ast.File, error) {
		return parser.ParseFile(fset, filepath.Join(repo, rel), nil, 0)
	}
	f, err := parse("app/ante/handler_options.go")
	if err != nil {
		return t, err
	}
	t.Chains = c19xExtractChains(fset, f)
	if f, err = parse("app/ante/ante.go"); err != nil {
		return t, err
	}
	c19xExtractSwitch(fset, f, &t)
	if f, err = parse("app/app.go"); err != nil {
		return t, err
	}
	c19ExtractDisabled(fset, f, &t)
	return t, nil
}

func c19Repo() string {
	if r := os.Getenv("VERIF_REPO"); r != "" {
		return r
	}
	return "/repo"
}

// c19Q prints a Coq string literal.
func c19Q(s string) string { return `"` + strings.ReplaceAll(s, `"`, `""`) + `"` }

func c19QList(l []string) string {
	var qs []string
	for _, s := range l {
		qs = append(qs, c19Q(s))
	}
	return L(qs)
}

// c19TablesTerm extracts the tables and prints them as a Coq term of type Model.Ante.tables.
// A file that cannot be read or parsed yields a table that names the error (and therefore
// differs from the reference).
func c19TablesTerm() (string, c19Tables) {
	t, err := c19Extract(c19Repo())
	if err != nil {
		t = c19Tables{SwitchOn: "<extraction failed: " + err.Error() + ">"}
	}
	var chains, sw []string
	for _, c := range t.Chains {
		chains = append(chains, Tup(c19Q(c.Name), c19QList(c.Decorators)))
	}
	for _, p := range t.Switch {
		sw = append(sw, Tup(c19Q(p[0]), c19Q(p[1])))
	}
	return App("mkTables", L(chains), c19Q(t.SwitchOn), L(sw), c19Q(t.SwitchDefault), c19QList(t.Plain), c19QList(t.Disabled)), t
}
