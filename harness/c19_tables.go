//go:build verif

package harness

// Extraction of the admission tables from the source tree under test (go/parser,
// go/ast, go/printer only).  This is the in-harness copy of tools/antelist: the
// suite runs it on every check, ships the result inside each case file, and the
// Coq checker (Check/AnteCheck.v) compares it with the reference tables of
// Model/Ante.v that the theorems are stated about.  Files are read from
// $VERIF_REPO (default /repo) - the same tree the harness binary was built against.

import (
	"bytes"
	"go/ast"
	"go/parser"
	"go/printer"
	"go/token"
	"os"
	"path/filepath"
	"strconv"
	"strings"
)

type c19Chain struct {
	Name       string
	Decorators []string
}

type c19Tables struct {
	Chains        []c19Chain
	SwitchOn      string
	Switch        [][2]string
	SwitchDefault string
	Plain         []string
	Disabled      []string
}

func c19Src(fset *token.FileSet, n ast.Node) string {
	if n == nil {
		return ""
	}
	var b bytes.Buffer
	if err := printer.Fprint(&b, fset, n); err != nil {
		return "<unprintable>"
	}
	return strings.Join(strings.Fields(b.String()), " ")
}

// c19Imports maps the local name of each import to its path.
func c19Imports(f *ast.File) map[string]string {
	m := map[string]string{}
	for _, im := range f.Imports {
		p, _ := strconv.Unquote(im.Path.Value)
		name := p[strings.LastIndex(p, "/")+1:]
		if im.Name != nil {
			name = im.Name.Name
		}
		m[name] = p
	}
	return m
}

// c19Qualify prints an expression with its leading package qualifier replaced by the import path.
func c19Qualify(fset *token.FileSet, imp map[string]string, e ast.Expr) string {
	head := e
	switch x := e.(type) {
	case *ast.CallExpr:
		head = x.Fun
	case *ast.CompositeLit:
		head = x.Type
	}
	text := c19Src(fset, e)
	switch h := head.(type) {
	case *ast.SelectorExpr:
		if id, ok := h.X.(*ast.Ident); ok {
			if p, ok := imp[id.Name]; ok {
				return p + strings.TrimPrefix(text, id.Name)
			}
		}
	case *ast.Ident:
		return "local." + text
	}
	return text
}

func c19ExtractChains(fset *token.FileSet, f *ast.File) []c19Chain {
	imp := c19Imports(f)
	var out []c19Chain
	for _, d := range f.Decls {
		fd, ok := d.(*ast.FuncDecl)
		if !ok || fd.Body == nil {
			continue
		}
		ast.Inspect(fd.Body, func(n ast.Node) bool {
			call, ok := n.(*ast.CallExpr)
			if !ok {
				return true
			}
			sel, ok := call.Fun.(*ast.SelectorExpr)
			if !ok || sel.Sel.Name != "ChainAnteDecorators" {
				return true
			}
			c := c19Chain{Name: fd.Name.Name}
			for _, a := range call.Args {
				c.Decorators = append(c.Decorators, c19Qualify(fset, imp, a))
			}
			out = append(out, c)
			return false
		})
	}
	return out
}

// c19HandlerAssigned returns the right-hand side of the first assignment to the
// variable anteHandler inside the statements, "" when there is none.
func c19HandlerAssigned(fset *token.FileSet, stmts []ast.Stmt) string {
	found := ""
	for _, s := range stmts {
		ast.Inspect(s, func(n ast.Node) bool {
			as, ok := n.(*ast.AssignStmt)
			if !ok || found != "" {
				return found == ""
			}
			for i, l := range as.Lhs {
				if id, ok := l.(*ast.Ident); ok && id.Name == "anteHandler" && i < len(as.Rhs) {
					found = c19Src(fset, as.Rhs[i])
				}
			}
			return true
		})
	}
	return found
}

// c19PlainBranch lists the handler assignments below a clause of the type switch,
// each with the condition of the innermost enclosing if/else.
func c19PlainBranch(fset *token.FileSet, clause string, stmts []ast.Stmt, cond string, out *[]string) {
	for _, s := range stmts {
		switch x := s.(type) {
		case *ast.AssignStmt:
			for i, l := range x.Lhs {
				if id, ok := l.(*ast.Ident); ok && id.Name == "anteHandler" && i < len(x.Rhs) {
					*out = append(*out, clause+" | "+cond+" | "+c19Src(fset, x.Rhs[i]))
				}
			}
		case *ast.IfStmt:
			c := c19Src(fset, x.Cond)
			c19PlainBranch(fset, clause, x.Body.List, "if "+c, out)
			switch el := x.Else.(type) {
			case *ast.BlockStmt:
				c19PlainBranch(fset, clause, el.List, "else "+c, out)
			case *ast.IfStmt:
				c19PlainBranch(fset, clause, []ast.Stmt{el}, "else "+c, out)
			}
		case *ast.BlockStmt:
			c19PlainBranch(fset, clause, x.List, cond, out)
		}
	}
}

func c19ExtractSwitch(fset *token.FileSet, f *ast.File, t *c19Tables) {
	for _, d := range f.Decls {
		fd, ok := d.(*ast.FuncDecl)
		if !ok || fd.Body == nil || fd.Name.Name != "NewAnteHandler" {
			continue
		}
		ast.Inspect(fd.Body, func(n ast.Node) bool {
			switch sw := n.(type) {
			case *ast.SwitchStmt:
				hdr := c19Src(fset, sw.Tag)
				if sw.Init != nil {
					hdr = c19Src(fset, sw.Init) + "; " + hdr
				}
				if t.SwitchOn != "" {
					t.SwitchOn += " || " + hdr // a second switch would be news
				} else {
					t.SwitchOn = hdr
				}
				for _, c := range sw.Body.List {
					cc := c.(*ast.CaseClause)
					h := c19HandlerAssigned(fset, cc.Body)
					if cc.List == nil {
						t.SwitchDefault = h
						continue
					}
					for _, e := range cc.List {
						key := c19Src(fset, e)
						if bl, ok := e.(*ast.BasicLit); ok && bl.Kind == token.STRING {
							if u, err := strconv.Unquote(bl.Value); err == nil {
								key = u
							}
						}
						t.Switch = append(t.Switch, [2]string{key, h})
					}
				}
				return false
			case *ast.TypeSwitchStmt:
				for _, c := range sw.Body.List {
					cc := c.(*ast.CaseClause)
					name := "default"
					if cc.List != nil {
						var ts []string
						for _, e := range cc.List {
							ts = append(ts, c19Src(fset, e))
						}
						name = "case " + strings.Join(ts, ", ")
					}
					c19PlainBranch(fset, name, cc.Body, "always", &t.Plain)
				}
				return false
			}
			return true
		})
	}
}

func c19ExtractDisabled(fset *token.FileSet, f *ast.File, t *c19Tables) {
	imp := c19Imports(f)
	ast.Inspect(f, func(n ast.Node) bool {
		cl, ok := n.(*ast.CompositeLit)
		if !ok {
			return true
		}
		sel, ok := cl.Type.(*ast.SelectorExpr)
		if !ok || sel.Sel.Name != "HandlerOptions" {
			return true
		}
		if x, ok := sel.X.(*ast.Ident); !ok || imp[x.Name] == "" || !strings.HasSuffix(imp[x.Name], "/app/ante") {
			return true
		}
		for _, el := range cl.Elts {
			kv, ok := el.(*ast.KeyValueExpr)
			if !ok {
				continue
			}
			if k, ok := kv.Key.(*ast.Ident); !ok || k.Name != "DisabledAuthzMsgs" {
				continue
			}
			lst, ok := kv.Value.(*ast.CompositeLit)
			if !ok {
				t.Disabled = append(t.Disabled, "<not a literal: "+c19Src(fset, kv.Value)+">")
				continue
			}
			for _, e := range lst.Elts {
				t.Disabled = append(t.Disabled, c19DisabledEntry(fset, imp, e))
			}
		}
		return true
	})
}

// c19DisabledEntry resolves  sdk.MsgTypeURL(&pkg.Type{})  to  <import path of pkg>.Type ;
// a string literal stands for itself; anything else is printed as written.
func c19DisabledEntry(fset *token.FileSet, imp map[string]string, e ast.Expr) string {
	if bl, ok := e.(*ast.BasicLit); ok && bl.Kind == token.STRING {
		if u, err := strconv.Unquote(bl.Value); err == nil {
			return u
		}
	}
	if call, ok := e.(*ast.CallExpr); ok && len(call.Args) == 1 {
		if sel, ok := call.Fun.(*ast.SelectorExpr); ok && sel.Sel.Name == "MsgTypeURL" {
			if un, ok := call.Args[0].(*ast.UnaryExpr); ok && un.Op == token.AND {
				if cl, ok := un.X.(*ast.CompositeLit); ok && len(cl.Elts) == 0 {
					if ts, ok := cl.Type.(*ast.SelectorExpr); ok {
						if id, ok := ts.X.(*ast.Ident); ok && imp[id.Name] != "" {
							return imp[id.Name] + "." + ts.Sel.Name
						}
					}
				}
			}
		}
	}
	return c19Src(fset, e)
}

func c19Extract(repo string) (c19Tables, error) {
	var t c19Tables
	fset := token.NewFileSet()
	parse := func(rel string) (*ast.File, error) {
		return parser.ParseFile(fset, filepath.Join(repo, rel), nil, 0)
	}
	f, err := parse("app/ante/handler_options.go")
	if err != nil {
		return t, err
	}
	t.Chains = c19ExtractChains(fset, f)
	if f, err = parse("app/ante/ante.go"); err != nil {
		return t, err
	}
	c19ExtractSwitch(fset, f, &t)
	if f, err = parse("app/app.go"); err != nil {
		return t, err
	}
	c19ExtractDisabled(fset, f, &t)
	return t, nil
}

func c19Repo() string {
	if r := os.Getenv("VERIF_REPO"); r != "" {
		return r
	}
	return "/repo"
}

// c19Q prints a Coq string literal.
func c19Q(s string) string { return `"` + strings.ReplaceAll(s, `"`, `""`) + `"` }

func c19QList(l []string) string {
	var qs []string
	for _, s := range l {
		qs = append(qs, c19Q(s))
	}
	return L(qs)
}

// c19TablesTerm extracts the tables and prints them as a Coq term of type Model.Ante.tables.
// A file that cannot be read or parsed yields a table that names the error (and therefore
// differs from the reference).
func c19TablesTerm() (string, c19Tables) {
	t, err := c19Extract(c19Repo())
	if err != nil {
		t = c19Tables{SwitchOn: "<extraction failed: " + err.Error() + ">"}
	}
	var chains, sw []string
	for _, c := range t.Chains {
		chains = append(chains, Tup(c19Q(c.Name), c19QList(c.Decorators)))
	}
	for _, p := range t.Switch {
		sw = append(sw, Tup(c19Q(p[0]), c19Q(p[1])))
	}
	return App("mkTables", L(chains), c19Q(t.SwitchOn), L(sw), c19Q(t.SwitchDefault), c19QList(t.Plain), c19QList(t.Disabled)), t
}
