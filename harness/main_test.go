//go:build verif

package harness

import (
	"fmt"
	"os"
	"testing"
)

// runners maps a suite name to its implementation; filled by init() of each file.
var runners = map[string]func(*Env){}

// TestVerif is the single entry point: VERIF_PROP selects the suite.
func TestVerif(t *testing.T) {
	e := NewEnv()
	r, ok := runners[e.Prop]
	if !ok {
		fmt.Fprintf(os.Stderr, "unknown suite %q\n", e.Prop)
		t.Fatalf("unknown suite %q", e.Prop)
	}
	r(e)
	if GhostRuns > 0 {
		e.Stats.Distribution["ghost-executions-on-discarded-branches"] = GhostRuns
	}
	e.Finish()
}
