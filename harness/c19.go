//go:build verif

package harness

// C19 - transaction admission.  Transactions are built with the application's
// real TxConfig (real message types, real extension options, real Any packing),
// encoded, and pushed through the application's own CheckTx, so that the wiring
// of app.go (the ante handler and its DisabledAuthzMsgs list) is what runs.
// Only the ABCI response code is observed.

import (
	"time"
	"crypto/sha256"
	"encoding/json"
	"fmt"
	"math/big"
	"sort"
	"strings"

	sdkmath "cosmossdk.io/math"
	abci "github.com/cometbft/cometbft/abci/types"
	codectypes "github.com/cosmos/cosmos-sdk/codec/types"
	cryptotypes "github.com/cosmos/cosmos-sdk/crypto/types"
	sdk "github.com/cosmos/cosmos-sdk/types"
	"github.com/cosmos/cosmos-sdk/types/tx/signing"
	authtx "github.com/cosmos/cosmos-sdk/x/auth/tx"
	vestingtypes "github.com/cosmos/cosmos-sdk/x/auth/vesting/types"
	"github.com/cosmos/cosmos-sdk/x/authz"
	banktypes "github.com/cosmos/cosmos-sdk/x/bank/types"
	stakingtypes "github.com/cosmos/cosmos-sdk/x/staking/types"
	"github.com/ethereum/go-ethereum/common"
	ethtypes "github.com/ethereum/go-ethereum/core/types"
	"github.com/evmos/ethermint/crypto/ethsecp256k1"
	ethermint "github.com/evmos/ethermint/types"
	evmtypes "github.com/evmos/ethermint/x/evm/types"

	"github.com/Canto-Network/Canto/v8/app"
)

func init() { runners["C19"] = runC19 }

// ---------- case description (replay format) ----------

// c19Node is one message of the forest.
//
//	k = send | delegate      harmless Cosmos messages (bank MsgSend, staking MsgDelegate)
//	    eth                  a correctly signed evm MsgEthereumTx
//	    vest0|vest1|vest2    MsgCreateVestingAccount | MsgCreatePermanentLockedAccount | MsgCreatePeriodicVestingAccount
//	    exec                 authz MsgExec of the messages in `in`
//	    grant                authz MsgGrant of a GenericAuthorization for message type `url`
//	    grantsend            authz MsgGrant of a bank SendAuthorization
//	    grantpanic           authz MsgGrant of a staking StakeAuthorization of UNSPECIFIED type: asking it for its message type
//	                         (MsgTypeURL, which the authz limiter does for every grant) panics.  The walk of the limiter ends
//	                         there; baseapp turns the panic into a rejection (code 111222), which the harness reports as
//	                         the limiter's own refusal (code 4).  Projected onto the model as a grant the limiter refuses.
type c19Node struct {
	K   string    `json:"k"`
	URL string    `json:"url,omitempty"`
	In  []c19Node `json:"in,omitempty"`
}

// c19Tx: extension options by kind (eth | web3 | dyn | unreg | msgasopt) and the forest.
type c19Tx struct {
	Opts  []string  `json:"opts"`
	Msgs  []c19Node `json:"forest"`
	Label string    `json:"label"`
	// EthStyle (signed stream): build the transaction the way MsgEthereumTx.BuildTx does (fee and gas taken from the
	// Ethereum messages, no Cosmos signature) whatever its extension options are - the shape an attacker would use to
	// smuggle a correctly signed Ethereum message past a path other than the Ethereum one
	EthStyle bool `json:"eth_style,omitempty"`
}

type c19Case struct {
	Txs    []c19Tx `json:"txs"`
	Signed bool    `json:"signed,omitempty"` // the batch is signed by a funded account (c19_signed.go)
	// Mode "deliver": the codes of the case are those of FinalizeBlock (block execution: the transaction was put into a
	// block by a proposer without having passed this node's mempool check); default: CheckTx
	Mode string `json:"mode,omitempty"`
}

// ---------- fixtures ----------

type c19Signer struct{ k cryptotypes.PrivKey }

func (s c19Signer) Sign(_ string, msg []byte, _ signing.SignMode) ([]byte, cryptotypes.PubKey, error) {
	sig, err := s.k.Sign(msg)
	return sig, s.k.PubKey(), err
}
func (s c19Signer) SignByAddress(_ sdk.Address, msg []byte, m signing.SignMode) ([]byte, cryptotypes.PubKey, error) {
	return s.Sign("", msg, m)
}

type c19Fix struct {
	a        *app.Canto
	addr     sdk.AccAddress // sender / granter / grantee of every message; has no funds and no account
	saddr    sdk.AccAddress // the funded account of the signed stream
	spriv    *ethsecp256k1.PrivKey
	other    sdk.AccAddress
	val      sdk.ValAddress
	eth      *evmtypes.MsgEthereumTx
	evmDenom string
	disabled map[string]bool // the property's disabled message types, by type URL
	disURLs  []string
	lastBz   []byte // encoding of the transaction most recently sent through CheckTx
	proposer []byte
}

// c19NewFix builds the application (NewApp), then runs and commits block 1 so that
// CheckTx works on the committed genesis state (before the first commit the check
// state is empty: no evm parameters, and the Ethereum chain panics).
func c19NewFix() *c19Fix {
	a, ctx := NewApp()
	f := &c19Fix{a: a}
	hs := sha256.Sum256([]byte("verif-c19-funded"))
	f.spriv = &ethsecp256k1.PrivKey{Key: hs[:]}
	f.saddr = sdk.AccAddress(f.spriv.PubKey().Address())
	f.c19Fund(ctx)
	f.proposer = ctx.BlockHeader().ProposerAddress
	if _, err := a.FinalizeBlock(&abci.RequestFinalizeBlock{Height: 1, Time: GenesisTime, ProposerAddress: ctx.BlockHeader().ProposerAddress}); err != nil {
		panic(err)
	}
	if _, err := a.Commit(); err != nil {
		panic(err)
	}
	h := sha256.Sum256([]byte("verif-c19-sender"))
	priv := &ethsecp256k1.PrivKey{Key: h[:]}
	f.addr = sdk.AccAddress(priv.PubKey().Address())
	f.other = sdk.AccAddress(common.HexToAddress("0x3333333333333333333333333333333333333333").Bytes())
	f.val = sdk.ValAddress(common.HexToAddress("0x2222222222222222222222222222222222222222").Bytes())
	cctx := a.BaseApp.NewContext(true)
	f.evmDenom = a.EvmKeeper.GetParams(cctx).EvmDenom
	// one correctly signed legacy transaction; the sender has no balance
	cid, err := ethermint.ParseChainID(ChainID)
	if err != nil {
		panic(err)
	}
	to := common.HexToAddress("0x4444444444444444444444444444444444444444")
	m := evmtypes.NewTx(cid, 0, &to, big.NewInt(1), 21000, big.NewInt(1_000_000_000), nil, nil, nil, nil)
	m.From = common.BytesToAddress(f.addr.Bytes()).Hex()
	if err := m.Sign(ethtypes.LatestSignerForChainID(cid), c19Signer{priv}); err != nil {
		panic(err)
	}
	m.From = ""
	f.eth = m
	// the property's disabled set: the Ethereum message and the three vesting-creation messages.
	// (The property's words, not a copy of app.go's list: if app.go drops one the difference shows.)
	f.disURLs = []string{
		sdk.MsgTypeURL(&evmtypes.MsgEthereumTx{}),
		sdk.MsgTypeURL(&vestingtypes.MsgCreateVestingAccount{}),
		sdk.MsgTypeURL(&vestingtypes.MsgCreatePermanentLockedAccount{}),
		sdk.MsgTypeURL(&vestingtypes.MsgCreatePeriodicVestingAccount{}),
	}
	f.disabled = map[string]bool{}
	for _, u := range f.disURLs {
		f.disabled[u] = true
	}
	// As on a live node, a block is in progress while transactions are checked: FinalizeBlock hands the check state the
	// block gas meter (unlimited under app.Setup's consensus parameters).  Without it the check state created by Commit
	// has no block gas meter and the Ethereum chain refuses every transaction with "exceeds block gas limit (0)".
	f.deliverBatch(nil)
	return f
}

func (f *c19Fix) coin() sdk.Coins { return sdk.NewCoins(sdk.NewInt64Coin("acanto", 1)) }

func (f *c19Fix) msg(n c19Node) sdk.Msg {
	switch n.K {
	case "send":
		return banktypes.NewMsgSend(f.addr, f.other, f.coin())
	case "delegate":
		return stakingtypes.NewMsgDelegate(f.addr.String(), f.val.String(), sdk.NewInt64Coin("acanto", 1))
	case "eth":
		return f.eth
	case "vest0":
		return vestingtypes.NewMsgCreateVestingAccount(f.addr, f.other, f.coin(), 2_000_000_000, false)
	case "vest1":
		return vestingtypes.NewMsgCreatePermanentLockedAccount(f.addr, f.other, f.coin())
	case "vest2":
		return vestingtypes.NewMsgCreatePeriodicVestingAccount(f.addr, f.other, 1_700_000_000, []vestingtypes.Period{{Length: 1000, Amount: f.coin()}})
	case "exec":
		var inner []sdk.Msg
		for _, c := range n.In {
			inner = append(inner, f.msg(c))
		}
		m := authz.NewMsgExec(f.addr, inner)
		return &m
	case "grant":
		m, err := authz.NewMsgGrant(f.addr, f.other, authz.NewGenericAuthorization(n.URL), nil)
		if err != nil {
			panic(err)
		}
		return m
	case "grantsend":
		m, err := authz.NewMsgGrant(f.addr, f.other, banktypes.NewSendAuthorization(f.coin(), nil), nil)
		if err != nil {
			panic(err)
		}
		return m
	case "grantpanic":
		m, err := authz.NewMsgGrant(f.addr, f.other, &stakingtypes.StakeAuthorization{AuthorizationType: stakingtypes.AuthorizationType_AUTHORIZATION_TYPE_UNSPECIFIED}, nil)
		if err != nil {
			panic(err)
		}
		return m
	}
	panic("c19: unknown node kind " + n.K)
}

// projection of a message onto the model's alphabet
func (f *c19Fix) term(n c19Node) string {
	switch n.K {
	case "send", "delegate":
		return "MOther"
	case "eth":
		return "MEth"
	case "vest0", "vest1", "vest2":
		return "MVest"
	case "exec":
		var in []string
		for _, c := range n.In {
			in = append(in, f.term(c))
		}
		return App("MExec", L(in))
	case "grant":
		return App("MGrant", B(f.disabled[n.URL]))
	case "grantsend":
		return App("MGrant", "false")
	case "grantpanic":
		return App("MGrant", "true")
	}
	panic("c19: unknown node kind " + n.K)
}

func (f *c19Fix) opt(kind string) *codectypes.Any {
	var v interface {
		ProtoMessage()
		Reset()
		String() string
	}
	switch kind {
	case "eth":
		v = &evmtypes.ExtensionOptionsEthereumTx{}
	case "web3":
		v = &ethermint.ExtensionOptionsWeb3Tx{TypedDataChainID: 9001, FeePayer: f.addr.String()}
	case "dyn":
		v = &ethermint.ExtensionOptionDynamicFeeTx{MaxPriorityPrice: sdkmath.NewInt(1)}
	case "unreg":
		return &codectypes.Any{TypeUrl: "/verif.Unregistered", Value: []byte{}}
	case "msgasopt": // a registered type, but not registered as an extension option
		v = banktypes.NewMsgSend(f.addr, f.other, f.coin())
	default:
		panic("c19: unknown option kind " + kind)
	}
	a, err := codectypes.NewAnyWithValue(v)
	if err != nil {
		panic(err)
	}
	return a
}

// run builds, encodes and checks one transaction; returns the option type URLs and the response code.
func (f *c19Fix) run(t c19Tx) (urls []string, code uint32, ok bool) {
	b := f.a.TxConfig().NewTxBuilder()
	var msgs []sdk.Msg
	for _, n := range t.Msgs {
		msgs = append(msgs, f.msg(n))
	}
	if err := b.SetMsgs(msgs...); err != nil {
		return nil, 0, false
	}
	if len(t.Opts) > 0 && t.Opts[0] == "eth" {
		// as MsgEthereumTx.BuildTx does: fee and gas are the sums over the Ethereum messages,
		// so that the checks of EthValidateBasicDecorator that are not modelled pass
		fee, gas := big.NewInt(0), uint64(0)
		for _, m := range msgs {
			if em, isEth := m.(*evmtypes.MsgEthereumTx); isEth {
				fee.Add(fee, em.GetFee())
				gas += em.GetGas()
			}
		}
		if fee.Sign() > 0 {
			b.SetFeeAmount(sdk.NewCoins(sdk.NewCoin(f.evmDenom, sdkmath.NewIntFromBigInt(fee))))
		}
		b.SetGasLimit(gas)
	} else {
		b.SetGasLimit(1_000_000)
		b.SetFeeAmount(sdk.NewCoins(sdk.NewInt64Coin("acanto", 1_000_000)))
	}
	var opts []*codectypes.Any
	for _, k := range t.Opts {
		o := f.opt(k)
		opts = append(opts, o)
		urls = append(urls, o.TypeUrl)
	}
	if len(opts) > 0 {
		b.(authtx.ExtensionOptionsTxBuilder).SetExtensionOptions(opts...)
	}
	bz, err := f.a.TxConfig().TxEncoder()(b.GetTx())
	if err != nil {
		return nil, 0, false
	}
	f.lastBz = bz
	res, err := f.a.CheckTx(&abci.RequestCheckTx{Tx: bz, Type: abci.CheckTxType_New})
	if err != nil {
		return nil, 0, false
	}
	return urls, res.Code, true
}

// deliverBatch executes the encoded transactions in one block (FinalizeBlock at the next height, never committed: the
// finalize state accumulates over the batches exactly as the check state does, so the sequence numbers of the signed
// stream line up) and returns the response code of each.
func (f *c19Fix) deliverBatch(bzs [][]byte) []uint32 {
	res, err := f.a.FinalizeBlock(&abci.RequestFinalizeBlock{Height: f.a.LastBlockHeight() + 1, Time: GenesisTime.Add(time.Second), ProposerAddress: f.proposer, Txs: bzs})
	if err != nil {
		panic(err)
	}
	out := make([]uint32, len(bzs))
	for i, r := range res.TxResults {
		out[i] = r.Code
		if r.Code != 0 {
			// In a block an admitted transaction goes on to execute its messages, and a failure there (no such validator,
			// no authz grant, ...) is reported in the same code field.  Admission is what is compared: the events of a
			// passed ante handler (fee deduction, sequence increment, signature / ethereum_tx) are kept by baseapp even when
			// message execution fails, and a transaction refused by the ante handler has none.
			for _, ev := range r.Events {
				if ev.Type == "ethereum_tx" {
					out[i] = 0
				}
				if ev.Type == sdk.EventTypeTx {
					for _, at := range ev.Attributes {
						if at.Key == sdk.AttributeKeyAccountSequence || at.Key == sdk.AttributeKeySignature {
							out[i] = 0
						}
					}
				}
			}
		}
	}
	return out
}

// ---------- shapes ----------

func c19Leaf(k string) c19Node      { return c19Node{K: k} }
func c19Exec(in ...c19Node) c19Node { return c19Node{K: "exec", In: in} }
func c19Grant(url string) c19Node   { return c19Node{K: "grant", URL: url} }
func c19Nest(n int, leaf c19Node) c19Node { // n MsgExec around leaf
	m := leaf
	for i := 0; i < n; i++ {
		m = c19Exec(m)
	}
	return m
}
func c19Rep(n int, x c19Node) []c19Node {
	var out []c19Node
	for i := 0; i < n; i++ {
		out = append(out, x)
	}
	return out
}

type c19Shape struct {
	name string
	msgs []c19Node
}

func (f *c19Fix) shapes() []c19Shape {
	send, eth := c19Leaf("send"), c19Leaf("eth")
	sendURL := sdk.MsgTypeURL(&banktypes.MsgSend{})
	s := []c19Shape{
		{"send", []c19Node{send}},
		{"eth", []c19Node{eth}},
		{"send,eth", []c19Node{send, eth}},
		{"eth,send", []c19Node{eth, send}},
		{"eth,eth", []c19Node{eth, eth}},
		{"eth x5", c19Rep(5, eth)},
		{"delegate,send", []c19Node{c19Leaf("delegate"), send}},
		{"exec[send]", []c19Node{c19Exec(send)}},
		{"exec[eth]", []c19Node{c19Exec(eth)}},
		{"exec[send,eth]", []c19Node{c19Exec(send, eth)}},
		{"exec[exec[eth]]", []c19Node{c19Exec(c19Exec(eth))}},
		{"eth,exec[eth]", []c19Node{eth, c19Exec(eth)}},
		{"grant(send)", []c19Node{c19Grant(sendURL)}},
		{"grantsend", []c19Node{c19Leaf("grantsend")}},
		{"exec[grant(send)]", []c19Node{c19Exec(c19Grant(sendURL))}},
		{"grant(nearmiss-suffix)", []c19Node{c19Grant(f.disURLs[0] + "x")}},
		{"grant(nearmiss-noslash)", []c19Node{c19Grant(strings.TrimPrefix(f.disURLs[1], "/"))}},
		{"siblings4", []c19Node{c19Exec(c19Rep(4, c19Exec(send))...)}},
		{"siblings5", []c19Node{c19Exec(c19Rep(5, c19Exec(send))...)}},
		{"top5execs", c19Rep(5, c19Exec(send))},
		{"top6execs", c19Rep(6, c19Exec(send))},
		{"emptyexecs6", c19Rep(6, c19Exec())},
		{"by-value-forgets", []c19Node{c19Nest(4, send), c19Nest(4, send)}},
		{"exec[]", []c19Node{c19Exec()}},
		{"no-messages", []c19Node{}},
		{"exec[vest0]", []c19Node{c19Exec(c19Leaf("vest0"))}},
		{"grantpanic", []c19Node{c19Leaf("grantpanic")}},
		{"grantpanic,exec[eth]", []c19Node{c19Leaf("grantpanic"), c19Exec(eth)}},
		{"exec[eth],grantpanic", []c19Node{c19Exec(eth), c19Leaf("grantpanic")}},
		{"send,exec[grantpanic,eth]", []c19Node{send, c19Exec(c19Leaf("grantpanic"), eth)}},
		{"grantpanic,nest8(send)", []c19Node{c19Leaf("grantpanic"), c19Nest(8, send)}},
		{"send,exec[exec[vest1]]", []c19Node{send, c19Exec(c19Exec(c19Leaf("vest1")))}},
	}
	for i, u := range f.disURLs {
		s = append(s, c19Shape{fmt.Sprintf("grant(disabled%d)", i), []c19Node{c19Grant(u)}})
		s = append(s, c19Shape{fmt.Sprintf("send,exec[grant(disabled%d)]", i), []c19Node{send, c19Exec(c19Grant(u))}})
	}
	for i := 0; i < 3; i++ {
		s = append(s, c19Shape{fmt.Sprintf("vest%d", i), []c19Node{c19Leaf(fmt.Sprintf("vest%d", i))}})
	}
	for n := 4; n <= 8; n++ {
		s = append(s, c19Shape{fmt.Sprintf("nest%d(send)", n), []c19Node{c19Nest(n, send)}})
	}
	for n := 1; n <= 6; n++ {
		s = append(s, c19Shape{fmt.Sprintf("nest%d(eth)", n), []c19Node{c19Nest(n, eth)}})
	}
	return s
}

func c19OptLists() [][]string {
	l := [][]string{{}, {"eth"}, {"web3"}, {"dyn"}, {"unreg"}, {"msgasopt"}}
	for _, a := range []string{"eth", "web3", "dyn"} {
		for _, b := range []string{"eth", "web3", "dyn", "unreg"} {
			l = append(l, []string{a, b})
		}
	}
	l = append(l, []string{"unreg", "eth"}, []string{"eth", "eth", "eth"}, []string{"web3", "dyn", "eth"}, []string{"dyn", "web3", "eth"})
	return l
}

// boundary stream of the nesting counter: d-1 MsgExec around s sibling MsgExec, the counter at the
// last sibling is d-1+s; limit met / missed for every split, with a harmless or a disabled leaf
func c19Boundary() []c19Shape {
	var out []c19Shape
	for d := 1; d <= 7; d++ {
		for s := 1; s <= 7; s++ {
			if d-1+s < 4 || d-1+s > 8 {
				continue
			}
			for _, leaf := range []string{"send", "eth"} {
				sib := c19Rep(s-1, c19Exec(c19Leaf("send")))
				sib = append(sib, c19Exec(c19Leaf(leaf))) // the leaf sits under the last (most counted) sibling
				var msgs []c19Node
				if d == 1 {
					msgs = sib
				} else {
					msgs = []c19Node{c19Nest(d-2, c19Exec(sib...))}
				}
				out = append(out, c19Shape{fmt.Sprintf("boundary d=%d s=%d leaf=%s", d, s, leaf), msgs})
			}
		}
	}
	return out
}

// ---------- random forests ----------

// c19RandTree draws a harmless tree whose deepest MsgExec chain has exactly `depth` levels when depth > 0.
func c19RandTree(e *Env, depth int, sendURL string) c19Node {
	if depth == 0 {
		switch e.Pick(6) {
		case 0:
			return c19Leaf("delegate")
		case 1:
			return c19Grant(sendURL)
		case 2:
			return c19Leaf("grantsend")
		default:
			return c19Leaf("send")
		}
	}
	n := 1 + e.Pick(3)
	if e.Chance(0.1) {
		n = 1 + e.Pick(5)
	}
	deep := e.Pick(n)
	var in []c19Node
	for i := 0; i < n; i++ {
		if i == deep {
			in = append(in, c19RandTree(e, depth-1, sendURL))
		} else {
			d := 0
			if depth > 1 && e.Chance(0.4) {
				d = e.Pick(depth)
			}
			in = append(in, c19RandTree(e, d, sendURL))
		}
	}
	return c19Exec(in...)
}

// positions: every node of the forest by path; -1 as last index = "append a child to the exec at that
// path" ([-1] = append at the top level)
func c19Positions(msgs []c19Node, prefix []int, out *[][]int) {
	if prefix == nil {
		*out = append(*out, []int{-1})
	}
	for i, m := range msgs {
		p := append(append([]int{}, prefix...), i)
		*out = append(*out, p)
		if m.K == "exec" {
			c19Positions(m.In, p, out)
			*out = append(*out, append(append([]int{}, p...), -1))
		}
	}
}

func c19Copy(msgs []c19Node) []c19Node {
	out := make([]c19Node, len(msgs))
	for i, m := range msgs {
		out[i] = c19Node{K: m.K, URL: m.URL, In: c19Copy(m.In)}
	}
	if msgs == nil {
		return nil
	}
	return out
}

// c19Place returns a copy of the forest with x placed at the position (replacing, or appended when the path ends in -1).
func c19Place(msgs []c19Node, path []int, x c19Node) []c19Node {
	out := c19Copy(msgs)
	cur := &out
	for j, i := range path {
		if j == len(path)-1 {
			if i == -1 {
				*cur = append(*cur, x)
			} else {
				(*cur)[i] = x
			}
			break
		}
		cur = &(*cur)[i].In
	}
	return out
}

func c19Depth(msgs []c19Node) int {
	d := 0
	for _, m := range msgs {
		if m.K == "exec" {
			if x := 1 + c19Depth(m.In); x > d {
				d = x
			}
		}
	}
	return d
}

// c19HasPanicGrant: does the forest contain a grant on which the authz limiter panics
func c19HasPanicGrant(msgs []c19Node) bool {
	for _, m := range msgs {
		if m.K == "grantpanic" || c19HasPanicGrant(m.In) {
			return true
		}
	}
	return false
}

// c19Canon maps the response code of a panic recovered by the application (111222) in a transaction that carries a
// panicking grant onto the refusal of the authz limiter, inside which that panic is raised
func c19Canon(e *Env, t c19Tx, code uint32) uint32 {
	if code == 111222 && c19HasPanicGrant(t.Msgs) {
		e.Stats.Count("panic-inside-authz-limiter-reported-as-its-refusal")
		return 4
	}
	return code
}

func c19HasStructure(t c19Tx) bool {
	if len(t.Opts) > 0 {
		return true
	}
	for _, m := range t.Msgs {
		if m.K != "send" && m.K != "delegate" {
			return true
		}
	}
	return false
}

// ---------- the suite ----------

func runC19(e *Env) {
	e.Header("From Coq Require Import ZArith List String.\nFrom Canto Require Import Model.Ante Check.Common Check.AnteCheck.\nImport ListNotations.\nOpen Scope string_scope.\nOpen Scope list_scope.\nOpen Scope Z_scope.\n")
	e.Stats.Rule = "tx = (extension-option list) x (message forest), built with the app's TxConfig and sent through the app's own CheckTx; " +
		"systematic stream: every option list of {none, eth, web3, dynamic-fee, unregistered, message-type-as-option, all pairs with a recognised/unsupported first and any second, some triples} x every named forest " +
		"(Cosmos only, Ethereum only, mixed in both orders, exec/grant of each disabled type at top level and nested, near-miss type URLs, nesting 4..8, sibling-counting shapes, empty exec, no messages, the three vesting messages); " +
		"boundary stream: every split of the nesting counter into depth + siblings with the counter at 4..8, harmless and Ethereum leaf, on the plain and EIP-712 routes; " +
		"random stream: random harmless forests of nesting depth 0..8 and, for every position of each forest (every node and one appended child per exec), a copy with a disabled message (Ethereum, vesting, grant of a disabled type) placed there, on a random route; " +
		"non-trivial = has an extension option, an authz message, an Ethereum or a vesting message; distinct by hash of (option kinds, forest)"
	f := c19NewFix()
	tablesTerm, tabs := c19TablesTerm()
	e.Stats.Notes = append(e.Stats.Notes, fmt.Sprintf("tables extracted from %s: %d chains, %d switch cases, %d disabled entries", c19Repo(), len(tabs.Chains), len(tabs.Switch), len(tabs.Disabled)))
	// oracle inputs of the model, read from the application
	extReg := f.a.InterfaceRegistry().ListImplementations("cosmos.tx.v1beta1.TxExtensionOptionI")
	sort.Strings(extReg)
	_, vestErr := f.a.InterfaceRegistry().Resolve(f.disURLs[1])
	vestReg := vestErr == nil
	// by construction of the batch: unsigned (auth ValidateBasicDecorator objects), Ethereum sender without funds
	oracleRejects := []string{
		"github.com/cosmos/cosmos-sdk/x/auth/ante.NewValidateBasicDecorator()",
		"github.com/evmos/ethermint/app/ante.NewEthAccountVerificationDecorator(options.AccountKeeper, options.EvmKeeper)",
	}

	var all []c19Tx
	if e.Replay == nil {
		sendURL := sdk.MsgTypeURL(&banktypes.MsgSend{})
		// 1. systematic
		for _, o := range c19OptLists() {
			for _, s := range f.shapes() {
				all = append(all, c19Tx{Opts: o, Msgs: s.msgs, Label: "sys " + strings.Join(o, "+") + " / " + s.name})
			}
		}
		// 2. boundary of the nesting counter
		for _, o := range [][]string{{}, {"web3"}, {"web3", "dyn"}} {
			for _, s := range c19Boundary() {
				all = append(all, c19Tx{Opts: o, Msgs: s.msgs, Label: "bnd " + strings.Join(o, "+") + " / " + s.name})
			}
		}
		// 3. random forests, a disabled message at every position
		nTrees := e.Scale(45, 1500)
		if e.Tier == "search" {
			nTrees = 150
		}
		routes := [][]string{{}, {}, {}, {}, {"web3"}, {"web3"}, {"web3"}, {"eth"}, {"dyn"}, {"web3", "dyn"}, {"eth", "web3"}, {"web3", "eth"}}
		dis := []c19Node{c19Leaf("eth"), c19Leaf("eth"), c19Leaf("eth"), c19Leaf("eth"), c19Leaf("vest0"), c19Leaf("vest1"), c19Leaf("vest2"),
			c19Grant(f.disURLs[0]), c19Grant(f.disURLs[0]), c19Grant(f.disURLs[1]), c19Grant(f.disURLs[2]), c19Grant(f.disURLs[3]),
			c19Exec(c19Leaf("eth")), c19Exec(c19Grant(f.disURLs[1+e.Pick(3)])), c19Leaf("grantpanic")}
		harmless := []c19Node{c19Leaf("send"), c19Leaf("delegate"), c19Exec(c19Leaf("send")), c19Exec(), c19Grant(sendURL), c19Leaf("grantsend"),
			c19Grant(f.disURLs[0] + "x"), c19Exec(c19Exec(c19Leaf("send")))}
		for i := 0; i < nTrees; i++ {
			depth := e.Pick(6) // 0..5: admissible on its own
			if e.Chance(0.3) {
				depth = 4 + e.Pick(5) // 4..8: around and beyond the limit
			}
			var forest []c19Node
			nTop := 1 + e.Pick(3)
			deep := e.Pick(nTop)
			for j := 0; j < nTop; j++ {
				d := 0
				if j == deep {
					d = depth
				} else if depth > 0 && e.Chance(0.5) {
					d = e.Pick(depth + 1)
				}
				forest = append(forest, c19RandTree(e, d, sendURL))
			}
			route := routes[e.Pick(len(routes))]
			all = append(all, c19Tx{Opts: route, Msgs: forest, Label: fmt.Sprintf("rnd base depth=%d", c19Depth(forest))})
			var pos [][]int
			c19Positions(forest, nil, &pos)
			for _, p := range pos {
				x := dis[e.Pick(len(dis))]
				r := route
				if e.Chance(0.25) {
					r = routes[e.Pick(len(routes))]
				}
				all = append(all, c19Tx{Opts: r, Msgs: c19Place(forest, p, x), Label: fmt.Sprintf("rnd place %s at %v depth=%d", x.K, p, c19Depth(forest))})
				if e.Chance(0.6) { // and a harmless message at the same position: the counter moves, nothing else does
					y := harmless[e.Pick(len(harmless))]
					all = append(all, c19Tx{Opts: r, Msgs: c19Place(forest, p, y), Label: fmt.Sprintf("rnd place harmless %s at %v depth=%d", y.K, p, c19Depth(forest))})
				}
			}
		}
	}

	const perCase = 30
	type batch struct {
		txs    []c19Tx
		signed bool
	}
	var batches []batch
	if e.Replay != nil {
		var kase c19Case
		mustUnmarshal(e.Replay, &kase)
		batches = []batch{{kase.Txs, kase.Signed}}
	} else {
		for lo := 0; lo < len(all); lo += perCase {
			hi := lo + perCase
			if hi > len(all) {
				hi = len(all)
			}
			batches = append(batches, batch{all[lo:hi], false})
		}
		sg := f.c19SignedTxs(e)
		for lo := 0; lo < len(sg); lo += perCase {
			hi := lo + perCase
			if hi > len(sg) {
				hi = len(sg)
			}
			batches = append(batches, batch{sg[lo:hi], true})
		}
	}
	replayMode := ""
	if e.Replay != nil {
		var k0 c19Case
		mustUnmarshal(e.Replay, &k0)
		replayMode = k0.Mode
	}
	for bi, bt := range batches {
		kase := c19Case{Txs: bt.txs, Signed: bt.signed}
		var terms []string
		// block-execution mode for this batch too?  (every batch in the thorough tier and of the signed stream,
		// every second one otherwise)
		wantDeliver := e.Replay == nil && (bt.signed || e.Tier != "quick" || bi%2 == 0)
		if replayMode == "deliver" {
			wantDeliver = true
		}
		type built struct {
			urls []string
			ms   []string
			bz   []byte
		}
		var blt []built
		for _, t := range kase.Txs {
			var urls []string
			var code uint32
			var ok bool
			f.lastBz = nil
			if bt.signed {
				urls, code, ok = f.runSigned(t)
			} else {
				urls, code, ok = f.run(t)
			}
			if !ok {
				// the transaction could not even be built, signed or encoded: nothing reached the application
				e.Stats.Count("not-encodable")
				urls, code = []string{"<not encodable>"}, 999999
				f.lastBz = nil
			}
			code = c19Canon(e, t, code)
			e.Stats.Evaluations++
			var ms []string
			for _, n := range t.Msgs {
				ms = append(ms, f.term(n))
			}
			blt = append(blt, built{urls, ms, f.lastBz})
			terms = append(terms, Tup(c19QList(urls), L(ms), Zi(int64(code))))
			e.Stats.Count(fmt.Sprintf("code:%d", code))
			e.Stats.Count("options:" + strings.Join(t.Opts, "+"))
			e.Stats.Count("stream:" + strings.SplitN(t.Label, " ", 2)[0])
			e.Stats.Count(fmt.Sprintf("nesting-depth:%d", c19Depth(t.Msgs)))
			if c19HasStructure(t) {
				sig, _ := json.Marshal(struct {
					O []string
					M []c19Node
					S bool
				}{t.Opts, t.Msgs, bt.signed})
				e.Stats.Nontrivial(string(sig))
			}
		}
		rej := oracleRejects
		if bt.signed {
			// signed, funded, right sequence, a block in progress: no unmodelled check object rejects
			rej = []string{}
		}
		if replayMode != "deliver" {
			term := App("mkAnteCase", tablesTerm, c19QList(extReg), B(vestReg), c19QList(rej), L(terms))
			e.AddCase("check_case", term, kase)
		}
		if wantDeliver {
			// the same encoded transactions, executed in a block: admission must not depend on the execution mode
			var bzs [][]byte
			for _, b := range blt {
				if b.bz != nil {
					bzs = append(bzs, b.bz)
				}
			}
			codes := f.deliverBatch(bzs)
			var dterms []string
			k := 0
			for bi2, b := range blt {
				code := uint32(999999)
				if b.bz != nil {
					code = c19Canon(e, kase.Txs[bi2], codes[k])
					k++
				}
				e.Stats.Evaluations++
				e.Stats.Count(fmt.Sprintf("deliver-code:%d", code))
				dterms = append(dterms, Tup(c19QList(b.urls), L(b.ms), Zi(int64(code))))
			}
			dk := kase
			dk.Mode = "deliver"
			e.AddCase("check_case", App("mkAnteCase", tablesTerm, c19QList(extReg), B(vestReg), c19QList(rej), L(dterms)), dk)
			e.Stats.Count("batches:deliver-mode")
		}
		if len(kase.Txs) > 2 && len(e.Stats.Samples) < 3 {
			mid := len(kase.Txs) / 2
			e.Stats.Sample(c19Case{Txs: kase.Txs[mid : mid+2], Signed: bt.signed})
		}
	}
}
