//go:build verif

package harness

// C04 — conversions are exact, all-or-nothing and reversible.
//
// Every conversion is executed by the REAL message server of x/erc20 (a second
// keeper instance built on the app's own stores around a recording / scripted
// EVMKeeper wrapper, DESIGN.md D.5) inside Try (= message atomicity).  Streams:
//   a  honest contract (module-owned pair and external pair), histories with round trips
//   b  scripted contract: every answer of the EVM doctored per plan
//   c  fault sequence: the k-th EVM keeper call fails
//   d  the two malicious contracts shipped in /repo/contracts
//   m  malformed / gate-closed messages

import (
	"fmt"
	"math/big"
	"os"
	"strings"

	sdkmath "cosmossdk.io/math"
	sdk "github.com/cosmos/cosmos-sdk/types"
	"github.com/ethereum/go-ethereum/common"

	"github.com/Canto-Network/Canto/v8/contracts"
	erc20types "github.com/Canto-Network/Canto/v8/x/erc20/types"
)

func init() { runners["C04"] = runC04 }

type c04Prep struct {
	Kind   string `json:"kind"` // coins | tokens | toggle | params-off | pause | suicide
	Who    int    `json:"who,omitempty"`
	Amount string `json:"amount,omitempty"`
}

type c04Op struct {
	Dir      int     `json:"dir"`      // 0 MsgConvertCoin, 1 MsgConvertERC20
	Sender   int     `json:"sender"`   // user index; -1 module address; -2 zero address; -3 address without account
	Receiver int     `json:"receiver"` // same
	Amount   string  `json:"amount"`
	Plan     c04Plan `json:"plan"`
	Undo     bool    `json:"undo,omitempty"` // converts back what the previous op converted
	// MsgConvertCoin only: spell Coin.Denom as the 40 hex digits of the pair's contract address (pair "lookalike")
	DenomAsAddress bool `json:"denom_as_address,omitempty"`
}

type c04Case struct {
	Stream string    `json:"stream"`
	Pair   string    `json:"pair"`
	Prep   []c04Prep `json:"prep,omitempty"`
	Ops    []c04Op   `json:"ops"`
}

var c04PathName = [2][2]string{{"convertCoinNativeCoin", "convertCoinNativeERC20"}, {"convertERC20NativeCoin", "convertERC20NativeToken"}}

type c04Flags struct{ paramsOff, toggled, paused, suicided, pairGone bool }

func (w *c04World) c04ApplyPrep(ctx sdk.Context, p *c04Pair, pr c04Prep, fl *c04Flags) {
	switch pr.Kind {
	case "coins":
		w.c04MintCoins(ctx, p.Denom, w.c04Addr(pr.Who), bigOf(pr.Amount))
	case "tokens":
		w.c04MintTokens(ctx, p, w.c04Addr(pr.Who), bigOf(pr.Amount))
	case "toggle":
		_, err := w.a.Erc20Keeper.ToggleConversion(ctx, p.Denom)
		c04Must(err)
		fl.toggled = !fl.toggled
	case "params-off":
		params := w.a.Erc20Keeper.GetParams(ctx)
		params.EnableErc20 = false
		w.a.Erc20Keeper.SetParams(ctx, params)
		fl.paramsOff = true
	case "pause":
		_, err := w.a.Erc20Keeper.CallEVM(ctx, w.abi, p.Owner, p.Contract, true, "pause")
		c04Must(err)
		fl.paused = true
	case "suicide":
		w.c04Suicide(ctx, p.Contract)
		fl.suicided = true
	default:
		panic("unknown prep " + pr.Kind)
	}
}

// c04Msg builds the message and returns a function that hands it to the wrapped message server on a given
// context (inside Try = message branch; or directly, for the keeper-level record); it reports (nil response, error).
func (w *c04World) c04Msg(p *c04Pair, op c04Op) func(ctx sdk.Context) (bool, error) {
	s, r := w.c04Addr(op.Sender), w.c04Addr(op.Receiver)
	amt := sdkmath.NewIntFromBigInt(bigOf(op.Amount))
	if op.Dir == 0 {
		denom := p.Denom
		if op.DenomAsAddress {
			denom = c04LookalikeDenom(p.Contract)
		}
		msg := &erc20types.MsgConvertCoin{Coin: sdk.Coin{Denom: denom, Amount: amt}, Receiver: r.Hex(), Sender: sdk.AccAddress(s.Bytes()).String()}
		return func(ctx sdk.Context) (bool, error) {
			res, err := w.wk.ConvertCoin(ctx, msg)
			return res == nil, err
		}
	}
	msg := &erc20types.MsgConvertERC20{ContractAddress: p.Contract.Hex(), Amount: amt, Receiver: sdk.AccAddress(r.Bytes()).String(), Sender: s.Hex()}
	return func(ctx sdk.Context) (bool, error) {
		res, err := w.wk.ConvertERC20(ctx, msg)
		return res == nil, err
	}
}

// result class: 0 ok, 1 rejected, 2 pair removed (nil response and nil error)
func (w *c04World) c04Deliver(ctx sdk.Context, p *c04Pair, op c04Op) (int, c04Seen) {
	w.wrap.st = &c04WrapState{plan: op.Plan}
	defer func() { w.wrap.st = nil }()
	call := w.c04Msg(p, op)
	nilResp := false
	err := TryPlain(ctx, func(c sdk.Context) error {
		n, err := call(c)
		nilResp = n
		return err
	})
	seen := w.wrap.st.seen
	switch {
	case err != nil:
		return 1, seen
	case nilResp:
		return 2, seen
	}
	return 0, seen
}

// the same message at keeper level, without the message branch: what would stay behind (informational)
func (w *c04World) c04KeeperLevel(ctx sdk.Context, p *c04Pair, op c04Op) (bankChanged, tokensChanged bool) {
	cctx, _ := ctx.CacheContext()
	s, r := w.c04Addr(op.Sender), w.c04Addr(op.Receiver)
	pre := w.c04Observe(cctx, p, s, r)
	w.wrap.st = &c04WrapState{plan: op.Plan}
	defer func() { w.wrap.st = nil }()
	func() {
		defer func() { recover() }()
		w.c04Msg(p, op)(cctx)
	}()
	w.wrap.st = nil
	post := w.c04Observe(cctx, p, s, r)
	bankChanged = pre.Bs.Cmp(post.Bs) != 0 || pre.Br.Cmp(post.Br) != 0 || pre.Bm.Cmp(post.Bm) != 0 || pre.Sup.Cmp(post.Sup) != 0
	tokensChanged = pre.Ts.Cmp(post.Ts) != 0 || pre.Tr.Cmp(post.Tr) != 0 || pre.Tm.Cmp(post.Tm) != 0 || pre.Tot.Cmp(post.Tot) != 0
	return
}

// c04Exec runs a case: prep, then the ops (generated on the fly by gen when it is non-nil).
func (w *c04World) c04Exec(e *Env, kase *c04Case, gen func(ctx sdk.Context, i int, p *c04Pair) (c04Op, bool)) {
	ctx, _ := w.ctx.CacheContext()
	p := w.pairs[kase.Pair]
	if kase.Pair == "lookalike" {
		p = w.c04LookalikePair(ctx)
	}
	var fl c04Flags
	for _, pr := range kase.Prep {
		w.c04ApplyPrep(ctx, p, pr, &fl)
	}
	caseIdx := e.nCases
	var steps []string
	var prev *c04Op
	prevGateBack, prevClass := false, -1
	for i := 0; ; i++ {
		var op c04Op
		if gen != nil {
			var ok bool
			if op, ok = gen(ctx, i, p); !ok {
				break
			}
			kase.Ops = append(kase.Ops, op)
		} else {
			if i >= len(kase.Ops) {
				break
			}
			op = kase.Ops[i]
		}
		s, r := w.c04Addr(op.Sender), w.c04Addr(op.Receiver)
		amt := bigOf(op.Amount)
		path := c04PathName[op.Dir][p.Kind]
		// oracle inputs: the gate (MintingEnabled) and "the contract has code"
		gate := !fl.paramsOff && !fl.toggled && !fl.pairGone && !w.a.BankKeeper.BlockedAddr(sdk.AccAddress(r.Bytes()))
		if op.DenomAsAddress {
			// message validation: ConvertCoin refuses a coin whose denomination is not the denomination of the pair the
			// token string resolves to (a coin merely NAMED like the pair's contract address)
			gate = false
		}
		hasCode := !fl.suicided
		honest := p.Honest && !fl.suicided && op.Plan.c04Empty()
		undo := op.Undo && prev != nil && prevGateBack && prev.Sender == op.Receiver && prev.Receiver == op.Sender &&
			prev.Amount == op.Amount && prev.Dir != op.Dir
		// the way back of THIS op passes the gate iff its sender's bytes are not a blocked bank address
		prevGateBack = !fl.paramsOff && !fl.toggled && !fl.pairGone && !w.a.BankKeeper.BlockedAddr(sdk.AccAddress(s.Bytes()))

		pre := w.c04Observe(ctx, p, s, r)
		dumpPre := w.c04Dump(ctx, p)
		if kase.Stream == "c" && op.Plan == (c04Plan{FailAt: op.Plan.FailAt}) {
			// informational: the same message on the handler without the message branch
			bc, tc := w.c04KeeperLevel(ctx, p, op)
			left := map[[2]bool]string{{false, false}: "nothing", {true, false}: "bank", {false, true}: "tokens", {true, true}: "bank+tokens"}[[2]bool{bc, tc}]
			e.Stats.Count(fmt.Sprintf("keeper-level-without-branch:%s:evm-call-%d-fails:left-behind=%s", path, op.Plan.FailAt, left))
		}
		class, seen := w.c04Deliver(ctx, p, op)
		post := w.c04Observe(ctx, p, s, r)
		if class == 2 {
			fl.pairGone = true // the handler deleted the token pair: later messages find no pair
		}
		e.Stats.Evaluations++
		e.Stats.Count("stream:" + kase.Stream)
		e.Stats.Count("path:" + path)
		e.Stats.Count("class:" + []string{"ok", "rejected", "pair-removed"}[class])
		e.Stats.Count("pair:" + p.Name)
		if undo && prevClass == 0 {
			e.Stats.Count(fmt.Sprintf("round-trip:%s-then-%s:way-back-%s", c04PathName[1-op.Dir][p.Kind], path, []string{"ok", "rejected", "pair-removed"}[class]))
		}
		prevClass = class
		if class != 0 {
			if dumpPost := w.c04Dump(ctx, p); dumpPost != dumpPre {
				e.Stats.ImplFailures = append(e.Stats.ImplFailures, ImplFailure{Case: caseIdx, Step: i, Monitor: "failed-but-state-changed",
					Detail: "complete bank dump / token balances / allowances / nonces differ around a message that did not succeed"})
			}
		}
		e.Stats.Nontrivial(fmt.Sprintf("%s|%s|%d|%v|%d|%d|%s|%v|%v", kase.Stream, path, class, op.Plan, seen.Ret, len(seen.Logs), c04Bucket(amt, pre, op.Dir), gate, hasCode))
		steps = append(steps, App("mkStep", Zi(int64(op.Dir)), Zi(int64(p.Kind)), B(gate), B(hasCode), c04AddrZ(s), c04AddrZ(r), Z(amt),
			seen.c04Term(), pre.c04Term(), post.c04Term(), Zi(int64(class)), B(honest), c04AddrZ(p.Owner), B(fl.paused), B(undo)))
		cp := op
		prev = &cp
	}
	term := App("mkConvertCase", c04AddrZ(w.mod), c04AddrZ(p.Contract), L(steps))
	e.AddCase("check_case", term, kase)
	e.Stats.Sample(kase)
}

// amount relative to what the sender holds on the ledger it pays from
func c04Bucket(amt *big.Int, pre c04Obs, dir int) string {
	have := pre.Bs
	if dir == 1 {
		have = pre.Ts
	}
	switch c := amt.Cmp(have); {
	case amt.Sign() <= 0:
		return "nonpositive"
	case c == 0:
		return "all"
	case c > 0:
		return "above"
	case new(big.Int).Add(amt, big.NewInt(1)).Cmp(have) == 0:
		return "all-but-one"
	}
	return "part"
}

var (
	c04Bal0Devs = []string{"+1", "-1", "nil", "error", "vmerror"}
	c04CallDevs = []string{"false", "nil", "approval", "topicless", "error", "vmerror", "fabricate", "amt-1"}
	c04Bal1Devs = []string{"+1", "-1", "nil", "error", "vmerror", "as-expected"}
	// deviations used alone and in random combinations only
	c04Bal0Extra = []string{"short", "long", "max", "zero"}
	c04CallExtra = []string{"garbage", "short", "approval-first", "amt+1", "custom-then-approval", "custom-approval-first", "topicless-then-approval", "selfdestruct"}
	c04Bal1Extra = []string{"short", "long"}
)

func runC04(e *Env) {
	e.Header("From Coq Require Import ZArith List.\nFrom Canto Require Import Model.Convert Check.Common Check.ConvertCheck.\nImport ListNotations.\nOpen Scope Z_scope.\n")
	e.Stats.Rule = "op = one MsgConvertCoin / MsgConvertERC20 executed by the real x/erc20 message server (second keeper instance on the app's stores around a recording/scripting EVMKeeper wrapper) inside a cache branch with recover; streams: a = honest ERC20MinterBurnerDecimals, module-owned and external pair, histories with amounts part/all/all-but-one/above/0/negative/huge, same or different parties, round trips in both orders, pause/toggle/params-off/selfdestruct; b = every answer of the EVM doctored (balance before/after: +1,-1,nil,short,error,vmerror,as-expected; call: false,nil,garbage,short,Approval log first/last,topic-less log,error,vmerror,fabricated success,amount+-1; EstimateGas error), thorough = full product on all four paths; c = k-th EVM keeper call fails, alone and combined with every single deviation; d = ERC20MaliciousDelayed and ERC20DirectBalanceManipulation; m = gate closed / malformed. Non-trivial = distinct (stream,path,class,plan,seen return,#logs,amount bucket,gate,code)"
	w := c04NewWorld()
	if e.Replay != nil {
		var kase c04Case
		mustUnmarshal(e.Replay, &kase)
		w.c04Exec(e, &kase, nil)
		return
	}
	thorough := e.Tier == "thorough"

	// ---------------- stream a: honest contract, histories
	nA := e.Scale(28, 400)
	if e.Tier == "search" {
		nA = 60
	}
	for c := 0; c < nA; c++ {
		kase := &c04Case{Stream: "a", Pair: []string{"coin", "erc20"}[c%2]}
		for _, u := range []int{0, 1, 2, 3} {
			if e.Chance(0.4) {
				kase.Prep = append(kase.Prep, c04Prep{Kind: "coins", Who: u, Amount: c04Cap(e.Mag(200)).String()})
			}
			if e.Chance(0.4) {
				kase.Prep = append(kase.Prep, c04Prep{Kind: "tokens", Who: u, Amount: c04Cap(e.Mag(200)).String()})
			}
		}
		if e.Chance(0.12) {
			kase.Prep = append(kase.Prep, c04Prep{Kind: []string{"toggle", "params-off", "pause", "suicide"}[e.Pick(4)]})
			e.Stats.Count("prep:" + kase.Prep[len(kase.Prep)-1].Kind)
		}
		n := 3 + e.Pick(4)
		var pending *c04Op
		w.c04Exec(e, kase, func(ctx sdk.Context, i int, p *c04Pair) (c04Op, bool) {
			if pending != nil {
				op := *pending
				pending = nil
				return op, true
			}
			if i >= n {
				return c04Op{}, false
			}
			op := c04Op{Dir: e.Pick(2), Sender: e.Pick(4)}
			op.Receiver = op.Sender
			if e.Chance(0.5) {
				op.Receiver = e.Pick(4)
			}
			switch e.Pick(25) {
			case 0:
				op.Receiver = -1
			case 1:
				op.Receiver = -2
			case 2:
				op.Sender = -2
			case 3:
				op.Sender = -1
			case 4:
				op.Sender = -3
			}
			var have *big.Int
			if op.Dir == 0 {
				have = w.c04CoinBal(ctx, p, w.c04Addr(op.Sender))
			} else {
				have = w.c04TokenBal(ctx, p, w.c04Addr(op.Sender))
			}
			if have.Sign() < 0 {
				have = big.NewInt(0)
			}
			var amt *big.Int
			switch e.Pick(12) {
			case 0:
				amt = new(big.Int).Set(have)
			case 1:
				amt = new(big.Int).Add(have, big.NewInt(1))
			case 2:
				amt = new(big.Int).Sub(have, big.NewInt(1))
			case 3:
				amt = big.NewInt(1)
			case 4:
				amt = big.NewInt(0)
			case 5:
				amt = big.NewInt(-int64(1 + e.Pick(5)))
			case 6:
				amt = c04Cap(e.Mag(250))
			default:
				amt = new(big.Int).Add(e.Below(have), big.NewInt(1))
			}
			op.Amount = amt.String()
			if e.Chance(0.55) {
				pending = &c04Op{Dir: 1 - op.Dir, Sender: op.Receiver, Receiver: op.Sender, Amount: op.Amount, Undo: true}
			}
			return op, true
		})
	}

	// ---------------- streams b, c: scripted contract / fault sequence, one op per case
	forceEmptyReceiver, allowAbove := false, false // allowAbove: only the random combinations also use an amount nobody holds
	one := func(stream, pair string, dir int, pl c04Plan) {
		op := c04Op{Dir: dir, Sender: e.Pick(4), Plan: pl}
		op.Receiver = op.Sender
		if e.Chance(0.5) {
			op.Receiver = e.Pick(4)
		}
		if e.Chance(0.15) || forceEmptyReceiver {
			op.Receiver = -3 // an address that holds nothing on either ledger
		}
		amt := int64(1 + e.Pick(100))
		if allowAbove && e.Chance(0.1) {
			amt = 5000 // above every balance of the base state
		}
		op.Amount = fmt.Sprint(amt)
		for _, d := range []string{pl.Bal0, pl.Est, pl.Call, pl.Bal1} {
			if d != "" {
				e.Stats.Count("deviation:" + d)
			}
		}
		if pl.FailAt != 0 {
			e.Stats.Count(fmt.Sprintf("fail-at:%d", pl.FailAt))
		}
		w.c04Exec(e, &c04Case{Stream: stream, Pair: pair, Ops: []c04Op{op}}, nil)
	}
	withNone := func(l []string) []string { return append([]string{""}, l...) }
	for _, pair := range []string{"coin", "erc20"} {
		for dir := 0; dir < 2; dir++ {
			// every single deviation alone
			var singles []c04Plan
			for _, d := range append(append([]string{}, c04Bal0Devs...), c04Bal0Extra...) {
				singles = append(singles, c04Plan{Bal0: d})
			}
			singles = append(singles, c04Plan{Est: "error"})
			for _, d := range append(append([]string{}, c04CallDevs...), c04CallExtra...) {
				singles = append(singles, c04Plan{Call: d})
			}
			for _, d := range append(append([]string{}, c04Bal1Devs...), c04Bal1Extra...) {
				singles = append(singles, c04Plan{Bal1: d})
			}
			one("b", pair, dir, c04Plan{}) // control: the recording wrapper alone
			for _, pl := range singles {
				one("b", pair, dir, pl)
			}
			// pairs of deviations that cancel each other, and answers that coincide with a default
			for _, pl := range []c04Plan{
				{Bal0: "nil", Bal1: "as-expected"}, {Bal0: "short", Bal1: "as-expected"}, {Bal0: "error", Bal1: "as-expected"}, {Bal0: "vmerror", Bal1: "as-expected"},
				{Bal0: "+1", Bal1: "+1"}, {Bal0: "-1", Bal1: "-1"}, {Bal0: "+1", Bal1: "as-expected"},
				{Call: "fabricate", Bal1: "as-expected"}, {Call: "amt-1", Bal1: "as-expected"}, {Call: "amt+1", Bal1: "as-expected"},
				{Call: "false", Bal1: "as-expected"}, {Call: "approval", Bal1: "as-expected"}, {Call: "error", Bal1: "as-expected"},
				// over-long balance answers whose trailing word moves by the amount although no token moved
				{Bal0: "long", Call: "fabricate", Bal1: "long"}, {Bal0: "long", Bal1: "long"}, {Bal0: "long", Call: "amt-1", Bal1: "long"},
				// balances at the ends of uint256 (a token with unchecked arithmetic): the second answer is the expected
				// balance modulo 2^256, which is NOT the expected balance
				{Bal0: "max", Bal1: "as-expected"}, {Bal0: "zero", Bal1: "as-expected"},
				{Bal0: "max", Call: "fabricate", Bal1: "as-expected"}, {Bal0: "zero", Call: "fabricate", Bal1: "as-expected"},
				// the token destroys itself inside the module's call, with and without an honest-looking answer afterwards
				{Call: "selfdestruct", Bal1: "as-expected"}, {Call: "selfdestruct", Bal1: "nil"},
			} {
				one("b", pair, dir, pl)
			}
			forceEmptyReceiver = true
			for _, pl := range []c04Plan{{Bal0: "nil"}, {Bal0: "short"}, {Bal0: "error"}, {Bal0: "vmerror"}, {Bal0: "nil", Bal1: "as-expected"}, {Call: "fabricate"}} {
				one("b", pair, dir, pl)
			}
			forceEmptyReceiver = false
			// fault sequence: the k-th EVM keeper call fails (k = 5: beyond the last call)
			for k := 1; k <= 5; k++ {
				one("c", pair, dir, c04Plan{FailAt: k})
			}
			if thorough {
				// (b) exhaustively: every combination of the three answers
				for _, b0 := range withNone(c04Bal0Devs) {
					for _, cl := range withNone(c04CallDevs) {
						for _, b1 := range withNone(c04Bal1Devs) {
							n := 0
							for _, d := range []string{b0, cl, b1} {
								if d != "" {
									n++
								}
							}
							if n >= 2 {
								one("b", pair, dir, c04Plan{Bal0: b0, Call: cl, Bal1: b1})
							}
						}
					}
				}
				// (b) x (c): every single deviation with a failure at every call
				for _, pl := range singles {
					for k := 1; k <= 4; k++ {
						q := pl
						q.FailAt = k
						one("c", pair, dir, q)
					}
				}
			}
			// random combinations
			pick := func(base, extra []string) string {
				if !e.Chance(0.5) {
					return ""
				}
				all := append(append([]string{}, base...), extra...)
				return all[e.Pick(len(all))]
			}
			nR := e.Scale(18, 150)
			if e.Tier == "search" {
				nR = 60
			}
			allowAbove = true
			for i := 0; i < nR; i++ {
				pl := c04Plan{Bal0: pick(c04Bal0Devs, c04Bal0Extra), Call: pick(c04CallDevs, c04CallExtra), Bal1: pick(c04Bal1Devs, c04Bal1Extra)}
				if e.Chance(0.1) {
					pl.Est = "error"
				}
				if e.Chance(0.15) {
					pl.FailAt = 1 + e.Pick(4)
				}
				one("b", pair, dir, pl)
			}
			allowAbove = false
		}
	}

	// ---------------- stream d: the malicious contracts of /repo/contracts
	for _, pair := range []string{"delayed", "direct"} {
		for dir := 0; dir < 2; dir++ {
			for i := 0; i < e.Scale(3, 30); i++ {
				one("d", pair, dir, c04Plan{})
			}
			// a scripted answer on top of a malicious contract: the compensating lie
			one("d", pair, dir, c04Plan{Bal1: "as-expected"})
		}
	}

	// ---------------- stream m: gate closed / malformed
	for _, pair := range []string{"coin", "erc20"} {
		for dir := 0; dir < 2; dir++ {
			for _, prep := range []string{"toggle", "params-off", "suicide", "pause"} {
				w.c04Exec(e, &c04Case{Stream: "m", Pair: pair, Prep: []c04Prep{{Kind: prep}},
					Ops: []c04Op{{Dir: dir, Sender: e.Pick(4), Receiver: e.Pick(4), Amount: fmt.Sprint(1 + e.Pick(50))}}}, nil)
			}
			for _, amt := range []string{"0", "-3"} {
				w.c04Exec(e, &c04Case{Stream: "m", Pair: pair, Ops: []c04Op{{Dir: dir, Sender: e.Pick(4), Receiver: e.Pick(4), Amount: amt}}}, nil)
			}
			for _, who := range []int{-1, -2, -3} {
				w.c04Exec(e, &c04Case{Stream: "m", Pair: pair, Ops: []c04Op{{Dir: dir, Sender: e.Pick(4), Receiver: who, Amount: "7"}}}, nil)
				w.c04Exec(e, &c04Case{Stream: "m", Pair: pair, Ops: []c04Op{{Dir: dir, Sender: who, Receiver: e.Pick(4), Amount: "7"}}}, nil)
			}
			// closed gate AND a selfdestructed contract: the gate is checked first
			w.c04Exec(e, &c04Case{Stream: "m", Pair: pair, Prep: []c04Prep{{Kind: "suicide"}, {Kind: "toggle"}},
				Ops: []c04Op{{Dir: dir, Sender: 0, Receiver: 1, Amount: "5"}}}, nil)
		}
	}
	// ---------------- stream x (VERIF_C04_LOOKALIKE=0 switches it off): a bank denomination spelled like a pair's contract
	// address (such coins can only come from a genesis file or an upgrade).  Before the repair of ConvertCoin the handler
	// converted them into the pair's tokens (finding F6); the stream stays as a regression test: the message must be refused.
	if os.Getenv("VERIF_C04_LOOKALIKE") != "0" {
		for i := 0; i < 3; i++ {
			w.c04Exec(e, &c04Case{Stream: "x", Pair: "lookalike", Ops: []c04Op{{Dir: 0, Sender: i, Receiver: i, Amount: fmt.Sprint(100 * (i + 1)), DenomAsAddress: true}}}, nil)
		}
	}
	e.Stats.Notes = append(e.Stats.Notes,
		"stream x: MsgConvertCoin whose Coin.Denom is the 40 hex digits of a registered external contract resolves to that pair by ADDRESS (GetTokenPairID); the repaired handler refuses it because the denomination is not the pair's (before the repair a holder of such a look-alike coin received the pair's escrowed tokens: finding F6)",
		"keeper-level-without-branch:* counts (informational, not compared): the same message run on the handler WITHOUT the message branch; bank-changed=true on a failed conversion shows the partial effects that only baseapp's branch discards (model: Err carries the partial bank state, deliver drops it)",
		"pair-removed = the handler's `return nil, nil` for a selfdestructed contract: no conversion, both ledgers unchanged (monitored), token pair deleted")
}

// keep amounts inside uint256 / sdkmath.Int and leave room for sums
func c04Cap(x *big.Int) *big.Int {
	lim := new(big.Int).Lsh(big.NewInt(1), 250)
	if x.Cmp(lim) >= 0 {
		return new(big.Int).Rsh(x, uint(x.BitLen()-250))
	}
	return x
}

func c04LookalikeDenom(contract common.Address) string { return strings.ToLower(contract.Hex()[2:]) }

// c04LookalikePair deploys (inside the case's branch) honest external contracts until one has an address whose 40
// hex digits form a valid bank denomination, registers it, lets every user escrow 1000 tokens honestly, and gives
// every user 1000 coins of the look-alike denomination.
func (w *c04World) c04LookalikePair(ctx sdk.Context) *c04Pair {
	ctor, err := w.abi.Pack("", "Lookalike", "LOOK", uint8(18))
	c04Must(err)
	for i := 0; i < 200; i++ {
		addr := w.c04Deploy(ctx, contracts.ERC20MinterBurnerDecimalsContract.Bin, ctor)
		if sdk.ValidateDenom(c04LookalikeDenom(addr)) != nil {
			continue
		}
		tp, err := w.a.Erc20Keeper.RegisterERC20(ctx, addr)
		c04Must(err)
		p := &c04Pair{Name: "lookalike", Kind: 1, Denom: tp.Denom, Contract: addr, Owner: w.dep, Honest: true}
		for _, u := range w.users {
			w.c04MintTokens(ctx, p, u, big.NewInt(3000))
			_, err := w.a.Erc20Keeper.ConvertERC20(ctx, erc20types.NewMsgConvertERC20(sdkmath.NewInt(1000), sdk.AccAddress(u.Bytes()), addr, u))
			c04Must(err)
			w.c04MintCoins(ctx, c04LookalikeDenom(addr), u, big.NewInt(1000))
		}
		return p
	}
	panic("no denomination-shaped contract address found")
}
