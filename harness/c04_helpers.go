//go:build verif

package harness

// C04 helpers: the world (app + four token pairs), the scripted / recording
// EVM keeper wrapper, observation and Coq term printing.

import (
	"context"
	"encoding/json"
	"errors"
	"fmt"
	"math/big"
	"sort"
	"strings"

	sdkmath "cosmossdk.io/math"
	"github.com/cosmos/cosmos-sdk/runtime"
	sdk "github.com/cosmos/cosmos-sdk/types"
	authtypes "github.com/cosmos/cosmos-sdk/x/auth/types"
	banktypes "github.com/cosmos/cosmos-sdk/x/bank/types"
	"github.com/ethereum/go-ethereum/accounts/abi"
	"github.com/ethereum/go-ethereum/common"
	"github.com/ethereum/go-ethereum/core"
	ethtypes "github.com/ethereum/go-ethereum/core/types"
	"github.com/ethereum/go-ethereum/core/vm"
	"github.com/ethereum/go-ethereum/crypto"
	"github.com/evmos/ethermint/server/config"
	"github.com/evmos/ethermint/x/evm/statedb"
	evmtypes "github.com/evmos/ethermint/x/evm/types"

	"github.com/Canto-Network/Canto/v8/app"
	"github.com/Canto-Network/Canto/v8/contracts"
	erc20keeper "github.com/Canto-Network/Canto/v8/x/erc20/keeper"
	erc20types "github.com/Canto-Network/Canto/v8/x/erc20/types"
	inflationtypes "github.com/Canto-Network/Canto/v8/x/inflation/types"
)

// ---------------------------------------------------------------- plan (what the scripted contract does)

// c04Plan describes how the answers of the EVM are doctored for one conversion.
// Empty strings = the real EVM's answer is passed on untouched.
type c04Plan struct {
	Bal0   string `json:"bal0,omitempty"`    // +1 | -1 | nil | short | long | error | vmerror | max | zero
	Est    string `json:"est,omitempty"`     // error
	Call   string `json:"call,omitempty"`    // false | nil | garbage | short | approval | approval-first | topicless | custom-then-approval | custom-approval-first | error | vmerror | fabricate | amt-1 | amt+1 | selfdestruct
	Bal1   string `json:"bal1,omitempty"`    // +1 | -1 | nil | short | long | error | vmerror | as-expected
	FailAt int    `json:"fail_at,omitempty"` // the k-th EVM keeper call (ApplyMessage or EstimateGas) returns an error
}

func (p c04Plan) c04Empty() bool {
	return p.Bal0 == "" && p.Est == "" && p.Call == "" && p.Bal1 == "" && p.FailAt == 0
}

// c04Seen is what the module received: who it asked and what it was told.
type c04Seen struct {
	Q0Asked  bool
	Q0Who    common.Address
	Q0       *big.Int // nil = no usable answer
	CallSeen bool
	CallKind int // 0 mint, 1 burnCoins, 2 transfer, 9 other
	CallFrom common.Address
	CallAcct common.Address
	CallAmt  *big.Int
	CallOK   bool
	Ret      int   // 0 true, 1 false, 2 does not unpack
	Logs     []int // 0 no topics, 1 Approval, 2 other
	Q1Asked  bool
	Q1Who    common.Address
	Q1       *big.Int
	NCalls   int
}

type c04WrapState struct {
	plan c04Plan
	seen c04Seen
}

// c04Wrap is the erc20types.EVMKeeper handed to a second erc20 keeper: it
// forwards to the real EVM keeper, records, and doctors answers per plan.
type c04Wrap struct {
	erc20types.EVMKeeper
	abi abi.ABI
	st  *c04WrapState
	// kill removes a contract account from the state database (the effect of SELFDESTRUCT executed inside a call)
	kill func(ctx sdk.Context, addr common.Address)
}

var c04CustomTopics = []string{crypto.Keccak256Hash([]byte("FeeCharged(address,uint256)")).Hex(), common.BytesToHash(c04Thief.Bytes()).Hex()}
var c04ApprovalTopic = crypto.Keccak256Hash([]byte("Approval(address,address,uint256)")).Hex()

var c04Two256 = new(big.Int).Lsh(big.NewInt(1), 256)

func c04Word(x *big.Int) []byte {
	y := new(big.Int).Mod(x, c04Two256)
	return common.LeftPadBytes(y.Bytes(), 32)
}

// decode calldata of the committing call
func (w *c04Wrap) c04Decode(data []byte) (kind int, acct common.Address, amt *big.Int) {
	kind, amt = 9, big.NewInt(0)
	if len(data) < 4 {
		return
	}
	m, err := w.abi.MethodById(data[:4])
	if err != nil {
		return
	}
	switch m.Name {
	case "mint":
		kind = 0
	case "burnCoins":
		kind = 1
	case "transfer":
		kind = 2
	default:
		return
	}
	args, err := m.Inputs.Unpack(data[4:])
	if err != nil || len(args) != 2 {
		return 9, acct, amt
	}
	acct, _ = args[0].(common.Address)
	if a, ok := args[1].(*big.Int); ok {
		amt = a
	}
	return
}

func (w *c04Wrap) c04Injected() bool {
	w.st.seen.NCalls++
	return w.st.plan.FailAt != 0 && w.st.plan.FailAt == w.st.seen.NCalls
}

func (w *c04Wrap) EstimateGas(c context.Context, req *evmtypes.EthCallRequest) (*evmtypes.EstimateGasResponse, error) {
	if w.st == nil {
		return w.EVMKeeper.EstimateGas(c, req)
	}
	s := &w.st.seen
	var args evmtypes.TransactionArgs
	if err := json.Unmarshal(req.Args, &args); err == nil && args.Data != nil {
		s.CallSeen = true
		s.CallKind, s.CallAcct, s.CallAmt = w.c04Decode(*args.Data)
		if args.From != nil {
			s.CallFrom = *args.From
		}
	}
	if w.c04Injected() || w.st.plan.Est == "error" {
		s.CallOK = false
		return nil, errors.New("injected EstimateGas failure")
	}
	res, err := w.EVMKeeper.EstimateGas(c, req)
	if err != nil {
		s.CallOK = false
	}
	return res, err
}

func (w *c04Wrap) ApplyMessage(ctx sdk.Context, msg core.Message, tracer vm.EVMLogger, commit bool) (*evmtypes.MsgEthereumTxResponse, error) {
	if w.st == nil {
		return w.EVMKeeper.ApplyMessage(ctx, msg, tracer, commit)
	}
	if commit {
		return w.c04Commit(ctx, msg, tracer)
	}
	return w.c04Query(ctx, msg, tracer)
}

// a non-committing call: the module only makes balanceOf queries during a conversion
func (w *c04Wrap) c04Query(ctx sdk.Context, msg core.Message, tracer vm.EVMLogger) (*evmtypes.MsgEthereumTxResponse, error) {
	s := &w.st.seen
	after := s.CallSeen
	var who common.Address
	if data := msg.Data(); len(data) >= 36 {
		if m, err := w.abi.MethodById(data[:4]); err == nil && m.Name == "balanceOf" {
			who = common.BytesToAddress(data[4:36])
		}
	}
	dev := w.st.plan.Bal0
	if after {
		dev = w.st.plan.Bal1
		s.Q1Asked, s.Q1Who, s.Q1 = true, who, nil
	} else {
		s.Q0Asked, s.Q0Who, s.Q0 = true, who, nil
	}
	if w.c04Injected() || dev == "error" {
		return nil, errors.New("injected ApplyMessage failure")
	}
	res, err := w.EVMKeeper.ApplyMessage(ctx, msg, tracer, false)
	if err != nil {
		return res, err
	}
	switch dev {
	case "vmerror":
		res.VmError = vm.ErrExecutionReverted.Error()
	case "nil":
		res.Ret = nil
	case "short":
		if len(res.Ret) > 5 {
			res.Ret = res.Ret[:5]
		}
	case "+1", "-1":
		if len(res.Ret) >= 32 {
			d := int64(1)
			if dev == "-1" {
				d = -1
			}
			res.Ret = c04Word(new(big.Int).Add(new(big.Int).SetBytes(res.Ret[:32]), big.NewInt(d)))
		}
	case "max":
		// the largest uint256: a balance to which nothing can be added without wrapping around (a token with unchecked
		// arithmetic); with Bal1 = as-expected the second answer is (2^256-1 + amount) mod 2^256
		res.Ret = c04Word(new(big.Int).Sub(c04Two256, big.NewInt(1)))
	case "zero":
		// nothing there: a debit of any amount "expects" a negative balance, which as-expected reports modulo 2^256
		res.Ret = c04Word(big.NewInt(0))
	case "long":
		// return data longer than one ABI word: the real balance, followed by a counter that moves by the amount of the
		// call.  Only the first word is the answer; a reader that decodes the whole return data sees the counter move
		if len(res.Ret) >= 32 {
			c := new(big.Int).Lsh(big.NewInt(1), 128)
			if after && s.CallAmt != nil {
				if s.CallKind == 1 {
					c.Sub(c, s.CallAmt)
				} else {
					c.Add(c, s.CallAmt)
				}
			}
			res.Ret = append(append([]byte{}, res.Ret[:32]...), c04Word(c)...)
		}
	case "as-expected":
		// whatever really happened, report what the module hopes to see
		// (an unusable first answer counts as 0, the most plausible default of a careless reader)
		if s.CallAmt != nil {
			q0 := s.Q0
			if q0 == nil {
				q0 = big.NewInt(0)
			}
			exp := new(big.Int).Add(q0, s.CallAmt)
			if s.CallKind == 1 {
				exp = new(big.Int).Sub(q0, s.CallAmt)
			}
			res.Ret = c04Word(exp)
		}
	}
	// what BalanceOf will make of it
	var ans *big.Int
	if !res.Failed() {
		if un, err := w.abi.Unpack("balanceOf", res.Ret); err == nil && len(un) > 0 {
			if b, ok := un[0].(*big.Int); ok {
				ans = b
			}
		}
	}
	if after {
		s.Q1 = ans
	} else {
		s.Q0 = ans
	}
	return res, nil
}

func (w *c04Wrap) c04Commit(ctx sdk.Context, msg core.Message, tracer vm.EVMLogger) (*evmtypes.MsgEthereumTxResponse, error) {
	s := &w.st.seen
	s.CallSeen = true
	s.CallFrom = msg.From()
	s.CallKind, s.CallAcct, s.CallAmt = w.c04Decode(msg.Data())
	s.CallOK = false
	dev := w.st.plan.Call
	if w.c04Injected() || dev == "error" {
		return nil, errors.New("injected ApplyMessage failure")
	}
	var res *evmtypes.MsgEthereumTxResponse
	if dev == "fabricate" {
		// claims success without touching the EVM
		res = &evmtypes.MsgEthereumTxResponse{}
		if s.CallKind == 2 {
			res.Ret = c04Word(big.NewInt(1))
		}
	} else {
		fwd := msg
		if (dev == "amt-1" || dev == "amt+1") && s.CallKind != 9 {
			d := int64(1)
			if dev == "amt-1" {
				d = -1
			}
			data := append([]byte{}, msg.Data()...)
			copy(data[36:68], c04Word(new(big.Int).Add(s.CallAmt, big.NewInt(d))))
			fwd = ethtypes.NewMessage(msg.From(), msg.To(), msg.Nonce(), msg.Value(), config.DefaultGasCap,
				msg.GasPrice(), msg.GasFeeCap(), msg.GasTipCap(), data, msg.AccessList(), msg.IsFake())
		}
		var err error
		res, err = w.EVMKeeper.ApplyMessage(ctx, fwd, tracer, true)
		if err != nil {
			return res, err
		}
		if dev == "selfdestruct" && msg.To() != nil && w.kill != nil {
			// the token executes SELFDESTRUCT inside the module's own call: the call itself answers as usual, and
			// from here on the contract account is gone (every later query finds no code)
			w.kill(ctx, *msg.To())
		}
	}
	extra := func(topics []string) *evmtypes.Log {
		to := ""
		if msg.To() != nil {
			to = msg.To().Hex()
		}
		return &evmtypes.Log{Address: to, Topics: topics, Data: c04Word(big.NewInt(7))}
	}
	approval := []string{c04ApprovalTopic, common.BytesToHash(s.CallAcct.Bytes()).Hex(), common.BytesToHash(c04Thief.Bytes()).Hex()}
	switch dev {
	case "vmerror":
		res.VmError = vm.ErrExecutionReverted.Error()
	case "false":
		res.Ret = c04Word(big.NewInt(0))
	case "nil":
		res.Ret = nil
	case "garbage":
		res.Ret = c04Word(big.NewInt(2))
	case "short":
		res.Ret = []byte{0, 0, 0, 0, 0, 0, 1}
	case "approval":
		res.Logs = append(res.Logs, extra(approval))
	case "approval-first":
		res.Logs = append([]*evmtypes.Log{extra(approval)}, res.Logs...)
	case "topicless":
		res.Logs = append(res.Logs, extra(nil))
	case "topicless-then-approval":
		// an anonymous (topic-less) log in front of the Approval: on the way to the Approval the scan must not give up
		// (the unchanged handler panics on the topic-less log, which rolls the message back - also fine)
		res.Logs = append(res.Logs, extra(nil), extra(approval))
	case "custom-then-approval":
		// an event the ERC-20 ABI does not know (a fee-on-transfer token's own event) in front of the Approval:
		// the scan for Approval events must not stop at it
		res.Logs = append(res.Logs, extra(c04CustomTopics), extra(approval))
	case "custom-approval-first":
		res.Logs = append([]*evmtypes.Log{extra(c04CustomTopics), extra(approval)}, res.Logs...)
	}
	// what CallEVMWithData and the path will make of it
	if !res.Failed() {
		s.CallOK = true
		s.Ret = 2
		var out erc20types.ERC20BoolResponse
		if err := w.abi.UnpackIntoInterface(&out, "transfer", res.Ret); err == nil {
			if out.Value {
				s.Ret = 0
			} else {
				s.Ret = 1
			}
		}
		s.Logs = nil
		for _, l := range res.Logs {
			switch {
			case len(l.Topics) == 0:
				s.Logs = append(s.Logs, 0)
			case l.Topics[0] == c04ApprovalTopic:
				s.Logs = append(s.Logs, 1)
			default:
				s.Logs = append(s.Logs, 2)
			}
		}
	}
	return res, nil
}

// ---------------------------------------------------------------- world

type c04Pair struct {
	Name     string
	Kind     int // 0 module-owned (native coin), 1 external (native ERC20)
	Denom    string
	Contract common.Address
	Owner    common.Address // holder of the minter role
	Honest   bool           // the shipped ERC20MinterBurnerDecimals
}

type c04World struct {
	a     *app.Canto
	ctx   sdk.Context
	abi   abi.ABI
	users []common.Address
	dep   common.Address
	mod   common.Address
	pairs map[string]*c04Pair
	wrap  *c04Wrap
	wk    erc20keeper.Keeper
}

var c04Thief = common.HexToAddress("0x4dC6ac40Af078661fc43823086E1513635Eeab14")

func c04Must(err error) {
	if err != nil {
		panic(err)
	}
}

func (w *c04World) c04Account(ctx sdk.Context, addr common.Address) {
	acc := w.a.AccountKeeper.NewAccountWithAddress(ctx, sdk.AccAddress(addr.Bytes()))
	w.a.AccountKeeper.SetAccount(ctx, acc)
}

// who: index of a user, -1 the module address, -2 the zero address, -3 an address without account
func (w *c04World) c04Addr(who int) common.Address {
	switch {
	case who == -1:
		return w.mod
	case who == -2:
		return common.Address{}
	case who == -3:
		return common.HexToAddress("0x00000000000000000000000000000000000B0001")
	}
	return w.users[who]
}

func (w *c04World) c04Deploy(ctx sdk.Context, bin []byte, ctor []byte) common.Address {
	nonce, err := w.a.AccountKeeper.GetSequence(ctx, w.dep.Bytes())
	c04Must(err)
	data := append(append([]byte{}, bin...), ctor...)
	_, err = w.a.Erc20Keeper.CallEVMWithData(ctx, w.dep, nil, data, true)
	c04Must(err)
	return crypto.CreateAddress(w.dep, nonce)
}

func (w *c04World) c04MintCoins(ctx sdk.Context, denom string, to common.Address, amt *big.Int) {
	coins := sdk.NewCoins(sdk.NewCoin(denom, sdkmath.NewIntFromBigInt(amt)))
	c04Must(w.a.BankKeeper.MintCoins(ctx, inflationtypes.ModuleName, coins))
	c04Must(w.a.BankKeeper.SendCoins(ctx, authtypes.NewModuleAddress(inflationtypes.ModuleName), sdk.AccAddress(to.Bytes()), coins))
}

func (w *c04World) c04MintTokens(ctx sdk.Context, p *c04Pair, to common.Address, amt *big.Int) {
	_, err := w.a.Erc20Keeper.CallEVM(ctx, w.abi, p.Owner, p.Contract, true, "mint", to, amt)
	c04Must(err)
}

func c04NewWorld() *c04World {
	a, ctx := NewApp()
	w := &c04World{a: a, ctx: ctx, abi: contracts.ERC20MinterBurnerDecimalsContract.ABI, mod: erc20types.ModuleAddress, pairs: map[string]*c04Pair{}}
	for i := 1; i <= 4; i++ {
		w.users = append(w.users, common.HexToAddress(fmt.Sprintf("0x00000000000000000000000000000000000A000%d", i)))
	}
	w.dep = common.HexToAddress("0x00000000000000000000000000000000000D0001")
	for _, u := range append([]common.Address{w.dep}, w.users...) {
		w.c04Account(ctx, u)
	}
	w.wrap = &c04Wrap{EVMKeeper: a.EvmKeeper, abi: w.abi, kill: w.c04Suicide}
	w.wk = erc20keeper.NewKeeper(runtime.NewKVStoreService(a.GetKey(erc20types.StoreKey)), a.AppCodec(), a.GetSubspace(erc20types.ModuleName),
		a.AccountKeeper, a.BankKeeper, w.wrap, authtypes.NewModuleAddress("gov").String())

	k3, k1 := big.NewInt(3000), big.NewInt(1000)
	// module-owned pair
	meta := banktypes.Metadata{Description: "verif coin", Base: "acoin", Name: "acoin", Symbol: "VCOIN", Display: "acoin",
		DenomUnits: []*banktypes.DenomUnit{{Denom: "acoin", Exponent: 0}, {Denom: "coin", Exponent: 18}}}
	for _, u := range w.users {
		w.c04MintCoins(ctx, "acoin", u, k3)
	}
	tp, err := a.Erc20Keeper.RegisterCoin(ctx, meta)
	c04Must(err)
	w.pairs["coin"] = &c04Pair{Name: "coin", Kind: 0, Denom: "acoin", Contract: tp.GetERC20Contract(), Owner: w.mod, Honest: true}
	for _, u := range w.users {
		_, err := a.Erc20Keeper.ConvertCoin(ctx, erc20types.NewMsgConvertCoin(sdk.NewCoin("acoin", sdkmath.NewIntFromBigInt(k1)), u, sdk.AccAddress(u.Bytes())))
		c04Must(err)
	}
	// external pairs
	ext := func(name string, bin, ctor []byte, honest bool) {
		addr := w.c04Deploy(ctx, bin, ctor)
		tp, err := a.Erc20Keeper.RegisterERC20(ctx, addr)
		c04Must(err)
		p := &c04Pair{Name: name, Kind: 1, Denom: tp.Denom, Contract: addr, Owner: w.dep, Honest: honest}
		w.pairs[name] = p
		for _, u := range w.users {
			w.c04MintTokens(ctx, p, u, k3)
		}
		if honest {
			for _, u := range w.users {
				_, err := a.Erc20Keeper.ConvertERC20(ctx, erc20types.NewMsgConvertERC20(sdkmath.NewIntFromBigInt(k1), sdk.AccAddress(u.Bytes()), addr, u))
				c04Must(err)
			}
		} else {
			// these contracts never let a conversion through: give the module tokens and the users coins directly
			w.c04MintTokens(ctx, p, w.mod, big.NewInt(4000))
			for _, u := range w.users {
				w.c04MintCoins(ctx, p.Denom, u, k1)
			}
		}
	}
	ctor, err := w.abi.Pack("", "Verif Token", "VTKN", uint8(18))
	c04Must(err)
	ext("erc20", contracts.ERC20MinterBurnerDecimalsContract.Bin, ctor, true)
	ctor, err = contracts.ERC20MaliciousDelayedContract.ABI.Pack("", big.NewInt(1_000_000))
	c04Must(err)
	ext("delayed", contracts.ERC20MaliciousDelayedContract.Bin, ctor, false)
	ctor, err = contracts.ERC20DirectBalanceManipulationContract.ABI.Pack("", big.NewInt(1_000_000))
	c04Must(err)
	ext("direct", contracts.ERC20DirectBalanceManipulationContract.Bin, ctor, false)
	return w
}

// ---------------------------------------------------------------- observation

type c04Obs struct {
	Bs, Br, Bm, Sup *big.Int
	Ts, Tr, Tm, Tot *big.Int // -1 = query failed
}

func (w *c04World) c04TokenBal(ctx sdk.Context, p *c04Pair, a common.Address) *big.Int {
	b := w.a.Erc20Keeper.BalanceOf(ctx, w.abi, p.Contract, a)
	if b == nil {
		return big.NewInt(-1)
	}
	return b
}

func (w *c04World) c04Total(ctx sdk.Context, p *c04Pair) *big.Int {
	res, err := w.a.Erc20Keeper.CallEVM(ctx, w.abi, w.mod, p.Contract, false, "totalSupply")
	if err != nil {
		return big.NewInt(-1)
	}
	un, err := w.abi.Unpack("totalSupply", res.Ret)
	if err != nil || len(un) == 0 {
		return big.NewInt(-1)
	}
	return un[0].(*big.Int)
}

func (w *c04World) c04CoinBal(ctx sdk.Context, p *c04Pair, a common.Address) *big.Int {
	return w.a.BankKeeper.GetBalance(ctx, sdk.AccAddress(a.Bytes()), p.Denom).Amount.BigInt()
}

func (w *c04World) c04Observe(ctx sdk.Context, p *c04Pair, s, r common.Address) c04Obs {
	return c04Obs{
		Bs: w.c04CoinBal(ctx, p, s), Br: w.c04CoinBal(ctx, p, r), Bm: w.c04CoinBal(ctx, p, w.mod),
		Sup: w.a.BankKeeper.GetSupply(ctx, p.Denom).Amount.BigInt(),
		Ts:  w.c04TokenBal(ctx, p, s), Tr: w.c04TokenBal(ctx, p, r), Tm: w.c04TokenBal(ctx, p, w.mod), Tot: w.c04Total(ctx, p),
	}
}

func (o c04Obs) c04Term() string {
	return App("mkObs", Z(o.Bs), Z(o.Br), Z(o.Bm), Z(o.Sup), Z(o.Ts), Z(o.Tr), Z(o.Tm), Z(o.Tot))
}

func (o c04Obs) c04Equal(q c04Obs) bool { return o.c04Term() == q.c04Term() }

// c04Dump: both ledgers in full, as far as a conversion could touch them: every
// bank balance and supply, token balances and allowances of every party, nonces.
func (w *c04World) c04Dump(ctx sdk.Context, p *c04Pair) string {
	var sb strings.Builder
	bals := w.a.BankKeeper.GetAccountsBalances(ctx)
	sort.Slice(bals, func(i, j int) bool { return bals[i].Address < bals[j].Address })
	for _, b := range bals {
		fmt.Fprintf(&sb, "%s=%s;", b.Address, b.Coins.String())
	}
	sup, _, err := w.a.BankKeeper.GetPaginatedTotalSupply(ctx, nil)
	c04Must(err)
	fmt.Fprintf(&sb, "|supply=%s|", sup.String())
	parties := append(append([]common.Address{}, w.users...), w.mod, w.dep, c04Thief, common.Address{})
	for _, a := range parties {
		fmt.Fprintf(&sb, "%s:%s", a.Hex()[36:], w.c04TokenBal(ctx, p, a))
		res, err := w.a.Erc20Keeper.CallEVM(ctx, w.abi, w.mod, p.Contract, false, "allowance", a, c04Thief)
		if err == nil {
			fmt.Fprintf(&sb, "/%x", res.Ret)
		}
		fmt.Fprintf(&sb, "/n%d;", w.a.EvmKeeper.GetNonce(ctx, a))
	}
	fmt.Fprintf(&sb, "|total=%s", w.c04Total(ctx, p))
	return sb.String()
}

// ---------------------------------------------------------------- Coq terms

func c04AddrZ(a common.Address) string { return Z(new(big.Int).SetBytes(a.Bytes())) }

func (s c04Seen) c04Term() string {
	who := func(asked bool, a common.Address) string {
		if !asked {
			return "(-1)"
		}
		return c04AddrZ(a)
	}
	callAns := "None"
	if s.CallSeen && s.CallOK {
		ret := []string{"RetTrue", "RetFalse", "RetBad"}[s.Ret]
		var logs []string
		for _, l := range s.Logs {
			logs = append(logs, []string{"LogNoTopics", "LogApproval", "LogOther"}[l])
		}
		callAns = "(Some (" + ret + ", " + L(logs) + "))"
	}
	kind, from, acct, amt := "(-1)", "(-1)", "(-1)", "0"
	if s.CallSeen {
		kind, from, acct = Zi(int64(s.CallKind)), c04AddrZ(s.CallFrom), c04AddrZ(s.CallAcct)
		if s.CallAmt != nil {
			amt = Z(s.CallAmt)
		}
	}
	return App("mkScript", who(s.Q0Asked, s.Q0Who), OptZ(s.Q0), kind, from, acct, amt, callAns, who(s.Q1Asked, s.Q1Who), OptZ(s.Q1))
}

// selfdestruct the contract account directly in the state database (as the repository's own tests do)
func (w *c04World) c04Suicide(ctx sdk.Context, addr common.Address) {
	db := statedb.New(ctx, w.a.EvmKeeper, statedb.NewEmptyTxConfig(common.BytesToHash(ctx.HeaderHash())))
	if !db.Suicide(addr) {
		panic("suicide failed")
	}
	c04Must(db.Commit())
}
