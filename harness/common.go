//go:build verif

// Package harness drives the real Canto code of /repo (through the `replace`
// directive of the generated go.mod) and writes, per property, Coq case files
// that the model-side checkers evaluate with vm_compute.
package harness

import (
	"crypto/sha256"
	"encoding/hex"
	"encoding/json"
	"fmt"
	"math/big"
	"math/rand"
	"os"
	"path/filepath"
	"sort"
	"strings"
	"time"

	abci "github.com/cometbft/cometbft/abci/types"
	tmproto "github.com/cometbft/cometbft/proto/tendermint/types"
	cosmosed25519 "github.com/cosmos/cosmos-sdk/crypto/keys/ed25519"
	sdk "github.com/cosmos/cosmos-sdk/types"
	stakingkeeper "github.com/cosmos/cosmos-sdk/x/staking/keeper"
	stakingtypes "github.com/cosmos/cosmos-sdk/x/staking/types"
	"github.com/ethereum/go-ethereum/common"
	feemarkettypes "github.com/evmos/ethermint/x/feemarket/types"

	"github.com/Canto-Network/Canto/v8/app"
)

var _ = abci.RequestInitChain{}

// Env is what a property runner receives.
type Env struct {
	Prop   string
	Seed   int64
	Tier   string // quick | thorough
	OutDir string
	Rng    *rand.Rand
	Stats  *Stats
	shards []*strings.Builder
	header string
	nCases int
	// ShardSize: cases per Coq file (shards are evaluated in parallel)
	ShardSize int
	// per-case JSON description for replay files
	Cases []json.RawMessage
	// replay: when non-nil, runners execute exactly this case instead of generating
	Replay json.RawMessage
}

// Stats is written to stats.json and becomes the coverage part of the evidence.
type Stats struct {
	Evaluations  int            `json:"evaluations"`
	Cases        int            `json:"cases"`
	Distinct     int            `json:"distinct_nontrivial"`
	Rule         string         `json:"rule"`
	Samples      []any          `json:"samples"`
	Distribution map[string]int `json:"distribution"`
	ImplFailures []ImplFailure  `json:"impl_failures"`
	Notes        []string       `json:"notes,omitempty"`
	seen         map[string]bool
}

// ImplFailure is a property violation detected directly on the implementation
// side by a Go monitor (most monitors run in Coq; these are the ones that need
// data that is not shipped to Coq).
type ImplFailure struct {
	Case    int    `json:"case"`
	Step    int    `json:"step"`
	Monitor string `json:"monitor"`
	Detail  string `json:"detail"`
}

func (s *Stats) Count(key string) { s.Distribution[key]++ }

// Nontrivial registers a non-trivial case by a signature; distinct ones are counted.
func (s *Stats) Nontrivial(sig string) {
	h := sha256.Sum256([]byte(sig))
	k := hex.EncodeToString(h[:8])
	if !s.seen[k] {
		s.seen[k] = true
		s.Distinct++
	}
}

func (s *Stats) Sample(v any) {
	if len(s.Samples) < 3 {
		s.Samples = append(s.Samples, v)
	}
}

func NewEnv() *Env {
	seed := int64(1)
	if v := os.Getenv("VERIF_SEED"); v != "" {
		fmt.Sscan(v, &seed)
	}
	tier := os.Getenv("VERIF_TIER")
	if tier == "" {
		tier = "quick"
	}
	e := &Env{
		Prop:   os.Getenv("VERIF_PROP"),
		Seed:   seed,
		Tier:   tier,
		OutDir: os.Getenv("VERIF_OUT"),
		Rng:    rand.New(rand.NewSource(seed)),
		Stats:  &Stats{Distribution: map[string]int{}, seen: map[string]bool{}},
	}
	if rp := os.Getenv("VERIF_REPLAY"); rp != "" {
		bz, err := os.ReadFile(rp)
		if err != nil {
			panic(err)
		}
		var f struct {
			Case json.RawMessage `json:"case"`
		}
		if err := json.Unmarshal(bz, &f); err != nil {
			panic(err)
		}
		e.Replay = f.Case
	}
	return e
}

// Scale returns q in the quick tier and t in the thorough tier.
func (e *Env) Scale(q, t int) int {
	if e.Tier == "thorough" {
		return t
	}
	return q
}

// Header sets the Coq prelude of every shard (imports, scopes).
func (e *Env) Header(h string) { e.header = h }


// AddCase appends one case: `term` is a Coq term of the property's case type,
// `checker` the Coq function  Z -> case -> list diff ; desc is the replay description.
func (e *Env) AddCase(checker, term string, desc any) int {
	idx := e.nCases
	e.nCases++
	if e.ShardSize <= 0 {
		e.ShardSize = 40
	}
	casesPerShard := e.ShardSize
	sh := idx / casesPerShard
	for len(e.shards) <= sh {
		b := &strings.Builder{}
		b.WriteString(e.header)
		e.shards = append(e.shards, b)
	}
	b := e.shards[sh]
	fmt.Fprintf(b, "Definition c%d := %s.\nDefinition r%d := Eval vm_compute in %s %d c%d.\n", idx, term, idx, checker, idx, idx)
	bz, err := json.Marshal(desc)
	if err != nil {
		panic(err)
	}
	e.Cases = append(e.Cases, bz)
	e.Stats.Cases++
	return idx
}

// Finish writes shard files, cases.json and stats.json.
func (e *Env) Finish() {
	if e.OutDir == "" {
		panic("VERIF_OUT not set")
	}
	os.MkdirAll(e.OutDir, 0o755)
	casesPerShard := e.ShardSize
	for i, b := range e.shards {
		lo := i * casesPerShard
		hi := lo + casesPerShard
		if hi > e.nCases {
			hi = e.nCases
		}
		var parts []string
		for j := lo; j < hi; j++ {
			parts = append(parts, fmt.Sprintf("r%d", j))
		}
		fmt.Fprintf(b, "Definition M := Eval vm_compute in (%s)%%list.\nPrint M.\n", strings.Join(parts, " ++ "))
		name := filepath.Join(e.OutDir, fmt.Sprintf("cases_%s_%d.v", e.Prop, i))
		if err := os.WriteFile(name, []byte(b.String()), 0o644); err != nil {
			panic(err)
		}
	}
	cs, _ := json.Marshal(e.Cases)
	os.WriteFile(filepath.Join(e.OutDir, "cases.json"), cs, 0o644)
	st, _ := json.MarshalIndent(e.Stats, "", " ")
	os.WriteFile(filepath.Join(e.OutDir, "stats.json"), st, 0o644)
}

// ---------- Coq term printing ----------

// Z prints an integer as a Coq Z literal.  Large numbers are written in hexadecimal:
// Coq parses hexadecimal literals in linear time, decimal ones quadratically.
func Z(x *big.Int) string {
	if x.BitLen() <= 60 {
		if x.Sign() < 0 {
			return "(" + x.String() + ")"
		}
		return x.String()
	}
	if x.Sign() < 0 {
		return "(-0x" + new(big.Int).Neg(x).Text(16) + ")"
	}
	return "0x" + x.Text(16)
}
func Zi(x int64) string { return Z(big.NewInt(x)) }
func B(b bool) string {
	if b {
		return "true"
	}
	return "false"
}
func L(items []string) string { return "[" + strings.Join(items, "; ") + "]" }
func Tup(items ...string) string {
	return "(" + strings.Join(items, ", ") + ")"
}
func App(f string, args ...string) string {
	return "(" + f + " " + strings.Join(args, " ") + ")"
}
func OptZ(x *big.Int) string {
	if x == nil {
		return "None"
	}
	return "(Some " + Z(x) + ")"
}

// TimeNs: nanoseconds since the Unix epoch as an unbounded integer (UnixNano overflows for time.Time{}).
func TimeNs(t time.Time) *big.Int {
	s := big.NewInt(t.Unix())
	s.Mul(s, big.NewInt(1_000_000_000))
	s.Add(s, big.NewInt(int64(t.Nanosecond())))
	return s
}

// ---------- random helpers ----------

func (e *Env) Pick(n int) int { return e.Rng.Intn(n) }
func (e *Env) Chance(p float64) bool {
	return e.Rng.Float64() < p
}

// Mag draws a magnitude from the mixture {1..5, 1..1000, 1..1e9, k*2^j}.
func (e *Env) Mag(maxBits int) *big.Int {
	switch e.Rng.Intn(4) {
	case 0:
		return big.NewInt(int64(1 + e.Rng.Intn(5)))
	case 1:
		return big.NewInt(int64(1 + e.Rng.Intn(1000)))
	case 2:
		return big.NewInt(int64(1 + e.Rng.Intn(1_000_000_000)))
	default:
		j := e.Rng.Intn(maxBits)
		k := big.NewInt(int64(1 + e.Rng.Intn(1000)))
		return k.Lsh(k, uint(j))
	}
}

// Below draws uniformly from [0, n) for big n (n > 0).
func (e *Env) Below(n *big.Int) *big.Int {
	if n.Sign() <= 0 {
		return big.NewInt(0)
	}
	return new(big.Int).Rand(e.Rng, n)
}

func SortedKeys(m map[string]int) []string {
	var ks []string
	for k := range m {
		ks = append(ks, k)
	}
	sort.Strings(ks)
	return ks
}

// ---------- application set-up ----------

var GenesisTime = time.Unix(1_700_000_000, 0).UTC()

const ChainID = "canto_9001-1"

// NewApp builds the real application with default genesis and returns it with a
// deliver-state context at height 1 whose header names a bonded proposer
// (needed by every EVM call).
func NewApp() (*app.Canto, sdk.Context) {
	a := app.Setup(false, feemarkettypes.DefaultGenesisState())
	pubKey := cosmosed25519.GenPrivKeyFromSecret([]byte("verif-proposer")).PubKey()
	cons := sdk.ConsAddress(pubKey.Address())
	ctx := a.BaseApp.NewContextLegacy(false, tmproto.Header{Height: 1, ChainID: ChainID, Time: GenesisTime, ProposerAddress: cons.Bytes()})
	valAddr := sdk.ValAddress(common.HexToAddress("0x2222222222222222222222222222222222222222").Bytes())
	validator, err := stakingtypes.NewValidator(valAddr.String(), pubKey, stakingtypes.Description{})
	if err != nil {
		panic(err)
	}
	validator = stakingkeeper.TestingUpdateValidator(a.StakingKeeper, ctx, validator, true)
	if err := a.StakingKeeper.Hooks().AfterValidatorCreated(ctx, valAddr); err != nil {
		panic(err)
	}
	if err := a.StakingKeeper.SetValidatorByConsAddr(ctx, validator); err != nil {
		panic(err)
	}
	return a, ctx
}

// Try runs f on a branch of ctx and writes the branch only when f returns nil
// and does not panic — the message atomicity of baseapp.runMsgs.
//
// Ghost executions.  State that a keeper holds OUTSIDE the multistore (a memoised parameter set, an index kept in a Go
// map, a remembered address) is not rolled back with a discarded branch: a simulation, a mempool check, a proposal whose
// later message fails or a reverted EVM hook leaves it behind, and every later result may depend on it.  To exhibit
// that, Try first runs f - with probability 1/3, always when a case is replayed - on a branch that is thrown away
// whatever f returns, and only then for real.  On code whose state lives in the store the ghost run has no effect, so
// the model (which never sees it) still agrees; f must not have harness-side effects that a second run would double
// (it may assign results, which the real run overwrites).  VERIF_GHOST=0 switches it off.
var ghostRng = rand.New(rand.NewSource(20261001))
var ghostAlways = os.Getenv("VERIF_REPLAY") != ""
var ghostOff = os.Getenv("VERIF_GHOST") == "0"
var GhostRuns int

func Try(ctx sdk.Context, f func(ctx sdk.Context) error) (err error) {
	return tryGhost(ctx, f, true)
}

// TryPlain: Try without a ghost execution, for closures with harness-side state that a second run would consume
// (the scripted EVM of C04 answers its k-th call from a script).
func TryPlain(ctx sdk.Context, f func(ctx sdk.Context) error) (err error) {
	return tryGhost(ctx, f, false)
}

func tryGhost(ctx sdk.Context, f func(ctx sdk.Context) error, ghost bool) (err error) {
	if ghost && !ghostOff && (ghostAlways || ghostRng.Intn(3) == 0) {
		func() {
			defer func() { _ = recover() }()
			g, _ := ctx.CacheContext()
			_ = f(g)
			GhostRuns++
		}()
	}
	cctx, write := ctx.CacheContext()
	defer func() {
		if r := recover(); r != nil {
			err = fmt.Errorf("panic: %v", r)
		}
	}()
	if err = f(cctx); err != nil {
		return err
	}
	write()
	return nil
}
