//go:build verif

package harness

// Real signed Ethereum transactions through EvmKeeper.EthereumTx (ApplyTransaction:
// EVM execution, then the erc20 and csr post-tx hooks on the genuine receipt), used by
// the C10 and C16 suites.  Contracts are CSRSmartContract instances (the csr module's
// test contract: register(to) / assign(id) forward to the Turnstile), so the Register /
// Assign / Transfer logs come out of the real Turnstile.

import (
	"encoding/json"
	"fmt"
	ethcrypto "github.com/ethereum/go-ethereum/crypto"
	"math/big"
	"os"
	"path/filepath"

	sdk "github.com/cosmos/cosmos-sdk/types"
	"github.com/ethereum/go-ethereum/common"
	ethtypes "github.com/ethereum/go-ethereum/core/types"
	"github.com/ethereum/go-ethereum/crypto"
	"github.com/evmos/ethermint/crypto/ethsecp256k1"
	"github.com/evmos/ethermint/tests"
	evmtypes "github.com/evmos/ethermint/x/evm/types"

	csrtypes "github.com/Canto-Network/Canto/v8/x/csr/types"
)

type c10Real struct {
	Kind     string `json:"kind"`               // register | assign | call-turnstile | call-registered | transfer | create | create-selfreg | create-selfreg-nocode
	Contract int    `json:"contract"`           // index into the deployed CSRSmartContracts
	Recv     string `json:"recv,omitempty"`     // register: recipient of the NFT
	ID       string `json:"id,omitempty"`       // assign: NFT id
	GasUsed  string `json:"gas_used,omitempty"` // informational: measured by the dry run
}

var c10SmartContract *evmtypes.CompiledContract

func c10LoadSmartContract() evmtypes.CompiledContract {
	if c10SmartContract != nil {
		return *c10SmartContract
	}
	repo := os.Getenv("VERIF_REPO")
	if repo == "" {
		repo = "/repo"
	}
	bz, err := os.ReadFile(filepath.Join(repo, "x/csr/keeper/test_contracts/compiled_contracts/csrSmartContract.json"))
	if err != nil {
		panic(err)
	}
	var c evmtypes.CompiledContract
	if err := json.Unmarshal(bz, &c); err != nil {
		panic(err)
	}
	c10SmartContract = &c
	return c
}

func c10SenderKey() *ethsecp256k1.PrivKey {
	return &ethsecp256k1.PrivKey{Key: crypto.Keccak256([]byte("verif-csr-sender"))}
}

// c10ClassifyLog abstracts a genuine log to the model's payload, with the same ABI the keeper uses.
func c10ClassifyLog(f *c10Fix, t *c10Tab, lg *ethtypes.Log) string {
	payload := ""
	if len(lg.Topics) == 0 {
		payload = "PNoTopics"
	} else if ev, err := f.abi.EventByID(lg.Topics[0]); err != nil {
		payload = "PUnknown"
	} else {
		switch ev.Name {
		case csrtypes.TurnstileEventRegister:
			var r csrtypes.RegisterCSREvent
			if err := f.abi.UnpackIntoInterface(&r, ev.Name, lg.Data); err != nil {
				payload = "PMalformed"
			} else {
				payload = App("PRegister", t.Addr(r.SmartContract), t.Addr(r.Recipient), t.Z(r.TokenId))
			}
		case csrtypes.TurnstileEventUpdate:
			var r csrtypes.UpdateCSREvent
			if err := f.abi.UnpackIntoInterface(&r, ev.Name, lg.Data); err != nil {
				payload = "PMalformed"
			} else {
				payload = App("PAssign", t.Addr(r.SmartContract), t.Z(r.TokenId))
			}
		default:
			payload = "POther"
		}
	}
	return App("mkLog", t.Addr(lg.Address), payload)
}

// deployReal deploys n CSRSmartContracts from the module account (no hook runs for module calls).
func (lv *c10Live) deployReal(n int) {
	cc := c10LoadSmartContract()
	for i := 0; i < n; i++ {
		addr, err := lv.f.a.CSRKeeper.DeployContract(lv.ctx, cc, lv.f.ts)
		if err != nil {
			panic(err)
		}
		lv.real = append(lv.real, addr)
		lv.universe = append(lv.universe, addr)
	}
	if n > 0 {
		lv.obs = c10Observe(lv.f, lv.ctx, lv.probe)
		lv.initTerm = lv.obs.term(&lv.tab)
	}
}

// execReal sends one signed transaction; returns false when the EVM execution itself fails
// (then no hook runs and no step is recorded).
func (lv *c10Live) execReal(e *Env, c int, op *c10Op) (recorded, ok bool) {
	f := lv.f
	a := f.a
	cc := c10LoadSmartContract()
	priv := c10SenderKey()
	from := common.BytesToAddress(priv.PubKey().Address().Bytes())
	lv.universe = append(lv.universe, from)
	for _, x := range op.CodeOn {
		c10SetCode(f, lv.ctx, common.HexToAddress(x), true)
	}
	var to *common.Address
	var data []byte
	var err error
	r := op.Real
	switch r.Kind {
	case "register":
		t := lv.real[r.Contract%len(lv.real)]
		to = &t
		data, err = cc.ABI.Pack("register", common.HexToAddress(r.Recv))
	case "assign":
		t := lv.real[r.Contract%len(lv.real)]
		to = &t
		data, err = cc.ABI.Pack("assign", bigOf(r.ID))
	case "call-turnstile":
		t := f.ts
		to = &t
		data, err = f.abi.Pack("currentCounterId") // a successful call of an unregistered contract
	case "call-registered":
		t := f.pool[r.Contract%3] // registered by the genesis of the case, holds code that returns
		to = &t
	case "transfer":
		t := f.pool[3+r.Contract%(len(f.pool)-3)] // no code: a plain transfer of zero value
		to = &t
	case "create":
		to = nil
		data = append([]byte{}, cc.Bin...)
		args, _ := cc.ABI.Pack("", f.ts)
		data = append(data, args...)
	case "create-selfreg":
		// a creation whose init code registers the contract being created with the Turnstile (msg.sender = the new
		// address) and leaves a one-byte runtime: the creation's own fee must still be burned whole, although the new
		// contract is registered by the time the hook looks its target up
		to = nil
		data = c06SelfRegisteringInit(f.ts)
	case "create-selfreg-nocode":
		// the same constructor, but it returns EMPTY runtime code: the genuine Turnstile emits a genuine Register event
		// for the address being created (receipt.ContractAddress), which holds no code when the hook looks at it, so
		// the event must be refused and the registry stay as it was
		to = nil
		data = c10SelfRegisteringNoCodeInit(f.ts)
	default:
		panic("unknown real kind " + r.Kind)
	}
	if err != nil {
		panic(err)
	}
	gasPrice := bigOf(op.GasPrice)
	chainID := a.EvmKeeper.ChainID()
	signer := ethtypes.LatestSignerForChainID(chainID)
	nonce := a.EvmKeeper.GetNonce(lv.ctx, from)
	build := func(gas uint64) *evmtypes.MsgEthereumTx {
		tx := evmtypes.NewTx(chainID, nonce, to, nil, gas, gasPrice, nil, nil, data, nil)
		tx.From = from.Hex()
		if err := tx.Sign(signer, tests.NewSigner(priv)); err != nil {
			panic(err)
		}
		return tx
	}
	// dry run without hooks: gas used (ethermint reports max(limit * MinGasMultiplier, consumed)) and the genuine logs
	limit := []uint64{1_000_000, 2_000_000, 5_000_000}[r.Contract%3]
	dry, _ := lv.ctx.CacheContext()
	msg, err := build(limit).AsMessage(signer, nil)
	if err != nil {
		panic(err)
	}
	res0, err := a.EvmKeeper.ApplyMessage(dry, msg, nil, true)
	if err != nil || res0.Failed() {
		e.Stats.Count("real:" + r.Kind + ":evm-execution-failed(no hook)")
		return false, false
	}
	if op.SetParams != nil {
		a.CSRKeeper.SetParams(lv.ctx, c10ParamsOf(*op.SetParams))
		lv.params = *op.SetParams
	}
	c10GhostParams(a, lv.ctx, lv.params)
	lv.checkParams(e, c)
	gasUsed := res0.GasUsed
	r.GasUsed = fmt.Sprint(gasUsed)
	// at keeper level nobody paid the fee: put limit * price into the collector (fee + the refund of unused gas)
	need := new(big.Int).Mul(new(big.Int).SetUint64(limit), gasPrice)
	have := a.BankKeeper.GetBalance(lv.ctx, f.collector, f.denom).Amount.BigInt()
	if have.Cmp(need) < 0 {
		c10Fund(f, lv.ctx, new(big.Int).Sub(need, have))
	}
	senderBefore := a.BankKeeper.GetBalance(lv.ctx, sdk.AccAddress(from.Bytes()), f.denom).Amount.BigInt()
	lv.obs = c10Observe(f, lv.ctx, lv.probe)
	pre := "(Some " + lv.obs.term(&lv.tab) + ")"
	p := a.CSRKeeper.GetParams(lv.ctx)
	var codes []string
	for _, x := range lv.codeList() {
		codes = append(codes, lv.tab.Addr(x))
	}
	var lterms []string
	for _, lg := range evmtypes.LogsToEthereum(res0.Logs) {
		lterms = append(lterms, c10ClassifyLog(f, &lv.tab, lg))
	}
	toTerm := "None"
	if to != nil {
		toTerm = "(Some " + lv.tab.Addr(*to) + ")"
		op.To = to.Hex()
	}
	// the real transaction, with the gas limit of the dry run
	var res *evmtypes.MsgEthereumTxResponse
	terr := Try(lv.ctx, func(cc sdk.Context) error {
		var err error
		res, err = a.EvmKeeper.EthereumTx(cc, build(limit))
		return err
	})
	e.Stats.Evaluations++
	if terr != nil {
		// the message itself was rejected (e.g. a panic inside a hook): nothing is kept
		ok = false
		if os.Getenv("VERIF_DEBUG") != "" {
			fmt.Fprintf(os.Stderr, "real tx %s rejected: %v\n", r.Kind, terr)
		}
	} else {
		if res.GasUsed != gasUsed {
			e.Stats.Count("real:gas-differs-from-dry-run")
			lv.obs = c10Observe(f, lv.ctx, lv.probe)
			return false, false
		}
		ok = !res.Failed()
		if !ok && os.Getenv("VERIF_DEBUG") != "" {
			fmt.Fprintf(os.Stderr, "real tx %s failed: %s ret=%x\n", r.Kind, res.VmError, res.Ret)
		}
	}
	op.GasUsed = fmt.Sprint(gasUsed)
	if to == nil {
		// a creation: the hook runs after the code of the new contract exists, so the "holds code" oracle the model is
		// given must be the one at hook time (for calls code does not change and the list taken before is the same)
		created := ethcrypto.CreateAddress(from, nonce)
		lv.universe = append(lv.universe, created)
		codes = codes[:0]
		for _, x := range lv.codeList() {
			codes = append(codes, lv.tab.Addr(x))
		}
	}
	lv.obs = c10Observe(f, lv.ctx, lv.probe)
	// ethermint's RefundGas (not csr) returns limit - used from the collector to the sender after the hooks;
	// that part of the collector's change is put back so that the projection shows the csr hook alone
	senderAfter := a.BankKeeper.GetBalance(lv.ctx, sdk.AccAddress(from.Bytes()), f.denom).Amount.BigInt()
	refund := new(big.Int).Sub(senderAfter, senderBefore)
	wantRefund := new(big.Int).Mul(new(big.Int).SetUint64(limit-gasUsed), gasPrice)
	if terr == nil && refund.Cmp(wantRefund) != 0 {
		panic(fmt.Sprintf("unexpected sender balance change %s (gas refund should be %s)", refund, wantRefund))
	}
	lv.obs.collector = new(big.Int).Add(lv.obs.collector, refund)
	lv.steps = append(lv.steps, App("mkStep", pre, B(p.EnableCsr), lv.tab.Z(p.CsrShares.BigInt()), L(codes), L(lterms),
		lv.tab.Z(new(big.Int).SetUint64(gasUsed)), lv.tab.Z(gasPrice), toTerm, B(ok), lv.obs.term(&lv.tab)))
	if ok {
		lv.nOK++
		e.Stats.Count("real:" + r.Kind + ":ok")
	} else {
		lv.nFail++
		e.Stats.Count("real:" + r.Kind + ":hook-failed")
	}
	return true, ok
}

// c10SelfRegisteringNoCodeInit: init code that calls Turnstile.register(tx.origin) (msg.sender = the address being
// created) and then RETURN(0, 0): the creation succeeds, the created address is registered inside the Turnstile
// contract, and no code is left at it.
func c10SelfRegisteringNoCodeInit(ts common.Address) []byte {
	sel := ethcrypto.Keccak256([]byte("register(address)"))[:4]
	var b []byte
	b = append(b, 0x63)
	b = append(b, sel...)                 // PUSH4 selector
	b = append(b, 0x60, 0xe0, 0x1b)       // PUSH1 0xe0; SHL
	b = append(b, 0x60, 0x00, 0x52)       // PUSH1 0; MSTORE
	b = append(b, 0x32, 0x60, 0x04, 0x52) // ORIGIN; PUSH1 4; MSTORE
	b = append(b, 0x60, 0x00, 0x60, 0x00, 0x60, 0x24, 0x60, 0x00, 0x60, 0x00) // retLen retOff argLen argOff value
	b = append(b, 0x73)
	b = append(b, ts.Bytes()...)                // PUSH20 turnstile
	b = append(b, 0x5a, 0xf1, 0x50)             // GAS; CALL; POP
	b = append(b, 0x60, 0x00, 0x60, 0x00, 0xf3) // RETURN(0, 0)
	return b
}

func c10GenRealOp(e *Env, lv *c10Live) c10Op {
	var op c10Op
	op.Real = &c10Real{Contract: e.Pick(8)}
	switch r := e.Pick(100); {
	case r < 25:
		op.Real.Kind = "register"
		op.Real.Recv = lv.f.pool[e.Pick(len(lv.f.pool))].Hex()
	case r < 40 && len(lv.obs.csrs) > 0:
		op.Real.Kind = "assign"
		op.Real.ID = fmt.Sprint(lv.obs.csrs[e.Pick(len(lv.obs.csrs))].Id)
	case r < 45:
		op.Real.Kind = "create"
	case r < 51:
		op.Real.Kind = "create-selfreg"
	case r < 58:
		op.Real.Kind = "create-selfreg-nocode"
	case r < 80:
		op.Real.Kind = "call-registered"
	case r < 90:
		op.Real.Kind = "transfer"
	default:
		op.Real.Kind = "call-turnstile"
	}
	op.GasPrice = []string{"1", "7", "1000000007", e.Mag(60).String(), e.Mag(60).String()}[e.Pick(5)]
	if e.Chance(0.2) {
		s, k := c10GenShare(e)
		op.SetParams = &c10Params{Enable: true, Share: s}
		e.Stats.Count("share-set:" + k)
	}
	return op
}

// c10RunRealCase generates (or replays) one case made of real transactions.
func c10RunRealCase(e *Env, f *c10Fix, c int, suite, checker string, replay *c10Case) {
	var kase c10Case
	if replay != nil {
		kase = *replay
	} else {
		kase.Suite = suite
		kase.ProbeIDs = []string{"0", "1", "2", "3", "4", "5", "100", "101"}
		kase.Genesis = []c10Csr{
			{ID: "100", Contracts: []string{f.pool[0].Hex()}, Txs: fmt.Sprint(e.Pick(100)), Revenue: e.Mag(60).String()},
			{ID: "101", Contracts: []string{f.pool[1].Hex(), f.pool[2].Hex()}, Txs: "0", Revenue: "0"},
		}
		s, k := c10GenShare(e)
		kase.Params = c10Params{Enable: true, Share: s}
		e.Stats.Count("share-set:" + k)
		kase.Collector = "0"
		kase.RealContracts = 4 + e.Pick(3)
	}
	lv := c10Start(e, f, &kase)
	lv.deployReal(kase.RealContracts)
	n := 10 + e.Pick(15)
	if replay != nil {
		n = len(kase.Ops)
	}
	var kept []c10Op
	forceAt := -1
	if replay == nil {
		forceAt = e.Pick(n)
	}
	for i := 0; i < n; i++ {
		var op c10Op
		if replay != nil {
			op = kase.Ops[i]
		} else {
			op = c10GenRealOp(e, lv)
			if i == forceAt {
				// every generated case holds at least one creation that registers itself and leaves no code
				op.Real.Kind, op.Real.Recv, op.Real.ID = "create-selfreg-nocode", "", ""
			}
			if len(kept) == 0 {
				op.CodeOn = []string{f.pool[0].Hex(), f.pool[1].Hex(), f.pool[2].Hex()}
			}
		}
		before := fmt.Sprint(lv.obs.byc, lv.obs.collector)
		recorded, ok := lv.execReal(e, c, &op)
		if recorded {
			kept = append(kept, op)
			if fmt.Sprint(lv.obs.byc, lv.obs.collector) != before {
				fmt.Fprintf(&lv.sig, "%s|%s|%s|%v;", op.Real.Kind, op.GasPrice, op.To, ok)
			}
		}
	}
	kase.Ops = kept
	lv.kase = &kase
	if lv.sig.Len() > 0 {
		e.Stats.Nontrivial(lv.sig.String())
	}
	lv.finish(e, c, checker)
}
