//go:build verif

package harness

// C18, stream "bulk": more than 100 objects in every exported collection (query.Paginate's DefaultLimit
// is 100: an export or a listing that goes through a nil / empty page request silently stops there).
//   bulk-csr    N x (deploy a CSRSmartContract, signed Ethereum transaction register(user)): N NFTs through
//               the real Turnstile and the real post-transaction hook
//   bulk-pairs  N x MsgRegisterCoin (each deploys its ERC-20 through the EVM)
//   bulk-pools  MsgUpdateParams whitelisting N denominations, N x MsgAddLiquidity
// and two Go-side monitors that run on EVERY case of the suite (independent of the Coq projection):
//   export-omits-stored-objects:<module>     the first export is compared with the module's store read
//                                            directly (raw prefix iteration, not the keeper function the
//                                            export itself uses)
//   reimported-chain-lost-objects:<module>   the listing queries, paged through ALL pages with explicit page
//                                            requests (limit 40, next_key), answer the same objects on the
//                                            re-imported chain as on the original one
// The Coq-side monitors (E2 ~ E1, queries equal incl. by-key lookups of every stored object) see the same cases.

import (
	"fmt"
	"sort"

	sdkmath "cosmossdk.io/math"
	"cosmossdk.io/store/prefix"
	storetypes "cosmossdk.io/store/types"
	sdk "github.com/cosmos/cosmos-sdk/types"
	"github.com/cosmos/cosmos-sdk/types/query"
	banktypes "github.com/cosmos/cosmos-sdk/x/bank/types"
	"math/big"

	"github.com/Canto-Network/Canto/v8/app"
	coinswaptypes "github.com/Canto-Network/Canto/v8/x/coinswap/types"
	csrtypes "github.com/Canto-Network/Canto/v8/x/csr/types"
	erc20types "github.com/Canto-Network/Canto/v8/x/erc20/types"
)

func (e *Env) c18GenBulkOps() []c18Op {
	var ops []c18Op
	add := func(kind string, a, b int) { ops = append(ops, c18Op{Kind: kind, A: a, B: b, Seed: e.Rng.Int63()}) }
	add("csr-enable", 0, 0)
	add("advance", 0, 0)
	add("bulk-csr", 105+e.Pick(8), 0)
	add("bulk-pairs", 105+e.Pick(8), 0)
	add("bulk-pools", 105+e.Pick(8), 0)
	for _, o := range e.c18GenOps("sparse", 4+e.Pick(8)) {
		if o.Kind != "params-coinswap" && o.Kind != "csr-enable" {
			ops = append(ops, o)
		}
	}
	return ops
}

func (r *c18Run) execBulk(op c18Op) bool {
	ch := r.ch
	a := ch.a
	switch op.Kind {
	case "bulk-csr":
		ts, found := a.CSRKeeper.GetTurnstile(ch.cur())
		if !found {
			r.e.Stats.Count("op:bulk-csr:no-turnstile")
			return true
		}
		cc := c18LoadCsrContract()
		data, err := cc.ABI.Pack("register", ch.user)
		if err != nil {
			panic(err)
		}
		n := 0
		for i := 0; i < op.A; i++ {
			var addr = ts
			derr := Try(ch.cur(), func(c sdk.Context) error {
				var err error
				addr, err = a.CSRKeeper.DeployContract(c, cc, ts)
				return err
			})
			if derr != nil {
				continue
			}
			r.csrc = append(r.csrc, addr)
			if ch.ethTx(&addr, data, big.NewInt(int64(i%3)*1000)) {
				n++
			}
		}
		r.e.Stats.Count(fmt.Sprintf("op:bulk-csr:registered>100=%v", n > 100))
	case "bulk-pairs":
		n := 0
		for i := 0; i < op.A; i++ {
			d := fmt.Sprintf("bulkcoin%03d", i)
			if !a.BankKeeper.HasSupply(ch.cur(), d) {
				ch.mintTo(r.userAcc(), sdk.NewCoins(sdk.NewCoin(d, sdkmath.NewInt(1_000_000))))
			}
			md := banktypes.Metadata{Description: "coin " + d, Base: d, Display: d, Name: "Bulk" + fmt.Sprint(i), Symbol: "B" + fmt.Sprint(i),
				DenomUnits: []*banktypes.DenomUnit{{Denom: d, Exponent: 0}}}
			if ch.send(&erc20types.MsgRegisterCoin{Authority: c18Gov, Title: "t", Description: "d", Metadata: md}) == nil {
				n++
			}
		}
		r.e.Stats.Count(fmt.Sprintf("op:bulk-pairs:registered>100=%v", n > 100))
	case "bulk-pools":
		p := a.CoinswapKeeper.GetParams(ch.cur())
		p.PoolCreationFee = sdk.NewCoin(c18Denom, sdkmath.ZeroInt())
		p.MaxStandardCoinPerPool = sdkmath.NewIntWithDecimal(1, 30)
		wl := sdk.NewCoins()
		for i := 0; i < op.A; i++ {
			wl = wl.Add(sdk.NewCoin(fmt.Sprintf("bulktok%03d", i), sdkmath.NewIntWithDecimal(1, 12)))
		}
		p.MaxSwapAmount = wl
		if err := ch.send(&coinswaptypes.MsgUpdateParams{Authority: c18Gov, Params: p}); err != nil {
			r.e.Stats.Count("op:bulk-pools:params-rejected")
			return true
		}
		n := 0
		for i := 0; i < op.A; i++ {
			d := fmt.Sprintf("bulktok%03d", i)
			ch.mintTo(r.userAcc(), sdk.NewCoins(sdk.NewCoin(d, sdkmath.NewInt(1_000_000))))
			if ch.send(&coinswaptypes.MsgAddLiquidity{MaxToken: sdk.NewCoin(d, sdkmath.NewInt(int64(1000+i))), ExactStandardAmt: sdkmath.NewInt(int64(2000 + i)),
				MinLiquidity: sdkmath.OneInt(), Deadline: ch.now.Unix() + 1000, Sender: r.userAcc().String()}) == nil {
				n++
			}
		}
		r.e.Stats.Count(fmt.Sprintf("op:bulk-pools:created>100=%v", n > 100))
	default:
		return false
	}
	return true
}

// ---------- the stores read directly ----------

func c18RawValues(a *app.Canto, ctx sdk.Context, storeKey string, pfx []byte) [][]byte {
	st := prefix.NewStore(ctx.KVStore(a.GetKey(storeKey)), pfx)
	it := st.Iterator(nil, nil)
	defer it.Close()
	var out [][]byte
	for ; it.Valid(); it.Next() {
		out = append(out, append([]byte{}, it.Value()...))
	}
	return out
}

func c18RawCSRs(a *app.Canto, ctx sdk.Context) []csrtypes.CSR {
	var out []csrtypes.CSR
	for _, bz := range c18RawValues(a, ctx, csrtypes.StoreKey, csrtypes.KeyPrefixCSR) {
		var x csrtypes.CSR
		if err := x.Unmarshal(bz); err != nil {
			panic(err)
		}
		out = append(out, x)
	}
	return out
}

func c18RawPairs(a *app.Canto, ctx sdk.Context) []erc20types.TokenPair {
	var out []erc20types.TokenPair
	for _, bz := range c18RawValues(a, ctx, erc20types.StoreKey, erc20types.KeyPrefixTokenPair) {
		var x erc20types.TokenPair
		a.AppCodec().MustUnmarshal(bz, &x)
		out = append(out, x)
	}
	return out
}

func c18RawPools(a *app.Canto, ctx sdk.Context) []coinswaptypes.Pool {
	var out []coinswaptypes.Pool
	for _, bz := range c18RawValues(a, ctx, coinswaptypes.StoreKey, []byte(coinswaptypes.KeyPool+"/")) {
		var x coinswaptypes.Pool
		a.AppCodec().MustUnmarshal(bz, &x)
		out = append(out, x)
	}
	return out
}

func c18SameStrings(x, y []string) bool {
	if len(x) != len(y) {
		return false
	}
	x, y = append([]string{}, x...), append([]string{}, y...)
	sort.Strings(x)
	sort.Strings(y)
	for i := range x {
		if x[i] != y[i] {
			return false
		}
	}
	return true
}

// c18Listings: the three listing queries, paged through all pages (limit 40, next_key), as strings
func c18Listings(a *app.Canto, ctx sdk.Context) (pools, pairs, csrs []string) {
	page := func(f func(req *query.PageRequest) (*query.PageResponse, error)) {
		req := &query.PageRequest{Limit: 40}
		for i := 0; i < 1000; i++ {
			res, err := f(req)
			if err != nil {
				panic(err)
			}
			if res == nil || len(res.NextKey) == 0 {
				return
			}
			req = &query.PageRequest{Key: res.NextKey, Limit: 40}
		}
		panic("c18: endless pagination")
	}
	page(func(req *query.PageRequest) (*query.PageResponse, error) {
		res, err := a.CoinswapKeeper.LiquidityPools(ctx, &coinswaptypes.QueryLiquidityPoolsRequest{Pagination: req})
		if err != nil {
			return nil, err
		}
		for _, x := range res.Pools {
			pools = append(pools, x.String())
		}
		return res.Pagination, nil
	})
	page(func(req *query.PageRequest) (*query.PageResponse, error) {
		res, err := a.Erc20Keeper.TokenPairs(ctx, &erc20types.QueryTokenPairsRequest{Pagination: req})
		if err != nil {
			return nil, err
		}
		for _, x := range res.TokenPairs {
			pairs = append(pairs, x.String())
		}
		return res.Pagination, nil
	})
	page(func(req *query.PageRequest) (*query.PageResponse, error) {
		res, err := a.CSRKeeper.CSRs(ctx, &csrtypes.QueryCSRsRequest{Pagination: req})
		if err != nil {
			return nil, err
		}
		for _, x := range res.Csrs {
			csrs = append(csrs, x.String())
		}
		return res.Pagination, nil
	})
	return
}

// bulkMonitors: the two Go-side monitors (see the file comment); c = case index, step = index of the last operation
func (r *c18Run) bulkMonitors(c, step int, d1 *c18Docs, b *app.Canto, bctx sdk.Context) {
	a := r.ch.a
	ctx := r.ch.cur()
	fail := func(mon, detail string) {
		r.e.Stats.ImplFailures = append(r.e.Stats.ImplFailures, ImplFailure{Case: c, Step: step, Monitor: mon, Detail: detail})
	}
	strs := func(n int, f func(i int) string) []string {
		out := make([]string, n)
		for i := range out {
			out[i] = f(i)
		}
		return out
	}
	// (ii) the export against the store
	rawC, rawP, rawL := c18RawCSRs(a, ctx), c18RawPairs(a, ctx), c18RawPools(a, ctx)
	if !c18SameStrings(strs(len(rawC), func(i int) string { return rawC[i].String() }), strs(len(d1.csr.Csrs), func(i int) string { return d1.csr.Csrs[i].String() })) {
		fail("export-omits-stored-objects:csr", fmt.Sprintf("the csr store holds %d CSRs, the exported genesis lists %d", len(rawC), len(d1.csr.Csrs)))
	}
	if !c18SameStrings(strs(len(rawP), func(i int) string { return rawP[i].String() }), strs(len(d1.erc.TokenPairs), func(i int) string { return d1.erc.TokenPairs[i].String() })) {
		fail("export-omits-stored-objects:erc20", fmt.Sprintf("the erc20 store holds %d token pairs, the exported genesis lists %d", len(rawP), len(d1.erc.TokenPairs)))
	}
	if !c18SameStrings(strs(len(rawL), func(i int) string { return rawL[i].String() }), strs(len(d1.cs.Pool), func(i int) string { return d1.cs.Pool[i].String() })) {
		fail("export-omits-stored-objects:coinswap", fmt.Sprintf("the coinswap store holds %d pools, the exported genesis lists %d", len(rawL), len(d1.cs.Pool)))
	}
	r.e.Stats.Count(fmt.Sprintf("stored>100:csrs=%v,pairs=%v,pools=%v", len(rawC) > 100, len(rawP) > 100, len(rawL) > 100))
	if b == nil {
		return
	}
	// (i) the paged listings of both chains
	l1, p1, c1 := c18Listings(a, ctx)
	l2, p2, c2 := c18Listings(b, bctx)
	if !c18SameStrings(c1, c2) {
		fail("reimported-chain-lost-objects:csr", fmt.Sprintf("CSRs query, all pages: %d objects on the original chain, %d on the re-imported chain", len(c1), len(c2)))
	}
	if !c18SameStrings(p1, p2) {
		fail("reimported-chain-lost-objects:erc20", fmt.Sprintf("TokenPairs query, all pages: %d objects on the original chain, %d on the re-imported chain", len(p1), len(p2)))
	}
	if !c18SameStrings(l1, l2) {
		fail("reimported-chain-lost-objects:coinswap", fmt.Sprintf("LiquidityPools query, all pages: %d objects on the original chain, %d on the re-imported chain", len(l1), len(l2)))
	}
}

var _ = storetypes.StoreKey(nil)
